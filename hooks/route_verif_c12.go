//go:build verif

package route

import (
	"net"
	"net/url"
)

// Read-only exports for the verification harness (property C12).

// VerifAddTarget runs the real Route.addTarget on a fresh route and returns the
// target it appended (nil when it appended none).
func VerifAddTarget(service string, u *url.URL, opts map[string]string) *Target {
	r := &Route{Host: "", Path: "/"}
	r.addTarget(service, u, 0, nil, opts)
	if len(r.Targets) != 1 {
		return nil
	}
	return r.Targets[0]
}

// VerifAccessRules returns the parsed rule map of t: the blocks under
// "allow:ip" and "deny:ip", and every key of the map.  other counts entries
// that are not *net.IPNet.
func VerifAccessRules(t *Target) (allow, deny []*net.IPNet, keys []string, other int) {
	for k, l := range t.accessRules {
		keys = append(keys, k)
		for _, x := range l {
			n, ok := x.(*net.IPNet)
			switch {
			case !ok:
				other++
			case k == ipAllowTag:
				allow = append(allow, n)
			case k == ipDenyTag:
				deny = append(deny, n)
			default:
				other++
			}
		}
	}
	return
}

// VerifDenyByIP calls the unexported Target.denyByIP.
func VerifDenyByIP(t *Target, ip net.IP) bool { return t.denyByIP(ip) }
