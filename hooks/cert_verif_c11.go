//go:build verif

package cert

import (
	"crypto/tls"
	"time"
)

// Read-only exports for the verification harness (property C11).

// VerifGetCertificate builds the index the way Store.SetCertificates does and
// runs getCertificate on it; it returns the index of the chosen certificate in
// certs (-1 for nil) and the error.
func VerifGetCertificate(certs []tls.Certificate, serverName string, strict bool, nilIndex bool) (int, error) {
	cs := certstore{Certificates: certs}
	if !nilIndex {
		cs.BuildNameToCertificate()
	}
	c, err := getCertificate(cs, &tls.ClientHelloInfo{ServerName: serverName}, strict)
	if c == nil {
		return -1, err
	}
	for i := range cs.Certificates {
		if c == &cs.Certificates[i] {
			return i, err
		}
	}
	return -2, err
}

func VerifWatch(ch chan []tls.Certificate, refresh time.Duration, path string, loadFn func(path string) (map[string][]byte, error)) {
	watch(ch, refresh, path, loadFn)
}

func VerifLoadCertificates(pemBlocks map[string][]byte) ([]tls.Certificate, error) {
	return loadCertificates(pemBlocks)
}
