//go:build verif

package route

import (
	"net/url"
	"sort"
)

// Read-only exports for the verification harness (property C04: traffic is
// split by the configured weights).  Nothing here changes behaviour of the
// package; VerifSetRandIntn swaps the package's own random source variable and
// returns a function restoring it.

// VerifRing returns, for every slot of the weighted ring the pickers index
// into, the index of the slot's target in r.Targets (-1 for a nil slot, -2 for
// a target that is not in r.Targets).
func (r *Route) VerifRing() []int {
	pos := make(map[*Target]int, len(r.Targets))
	for i, t := range r.Targets {
		if _, dup := pos[t]; !dup {
			pos[t] = i
		}
	}
	out := make([]int, len(r.wTargets))
	for k, t := range r.wTargets {
		switch i, ok := pos[t]; {
		case t == nil:
			out[k] = -1
		case !ok:
			out[k] = -2
		default:
			out[k] = i
		}
	}
	return out
}

// VerifCursor / VerifSetCursor read and set the round-robin cursor.
func (r *Route) VerifCursor() uint64     { return r.total }
func (r *Route) VerifSetCursor(c uint64) { r.total = c }

// VerifSortOrder runs the package's own byN ordering (sort.Sort, not stable)
// over the slot counts ns and returns the resulting order of indices: the tie
// order weighTargets uses for the same vector (pdqsort is deterministic).
func VerifSortOrder(ns []int) []int {
	s := make(byN, len(ns))
	for i, n := range ns {
		s[i].i, s[i].n = i, n
	}
	sort.Sort(s)
	out := make([]int, len(s))
	for k := range s {
		out[k] = s[k].i
	}
	return out
}

// VerifMaxSlots is the ring resolution constant.
func VerifMaxSlots() float64 { return float64(maxSlots) }

// VerifAddTarget / VerifSetWeight / VerifWeighTargets / VerifFilter call the
// unexported methods directly (float64 arguments that no decimal text denotes
// exactly, e.g. k/10000 plus or minus one ulp).
func (r *Route) VerifAddTarget(service string, u *url.URL, fixedWeight float64, tags []string) {
	r.addTarget(service, u, fixedWeight, tags, nil)
}
func (r *Route) VerifSetWeight(service string, weight float64, tags []string) int {
	return r.setWeight(service, weight, tags)
}
func (r *Route) VerifWeighTargets()                    { r.weighTargets() }
func (r *Route) VerifFilter(skip func(t *Target) bool) { r.filter(skip) }

// VerifPick runs a picker by name ("rr" / "rnd") on the route.
func VerifPick(name string, r *Route) *Target { return Picker[name](r) }

// VerifSetRandIntn replaces the random source of rndPicker and returns the
// function that restores the previous one.
func VerifSetRandIntn(f func(n int) int) (restore func()) {
	old := randIntn
	randIntn = f
	return func() { randIntn = old }
}
