//go:build verif

package config

import "github.com/magiconair/properties"

// Read-only exports for the verification harness (property C15).

func VerifParseKVSlice(in string) ([]map[string]string, error) { return parseKVSlice(in) }

func VerifLex(s []rune) (typ string, val string, n int) {
	t, v, k := lex(s)
	return string(t), v, k
}

func VerifLoad(cmdline, environ, envprefix []string, props *properties.Properties) (*Config, error) {
	return load(cmdline, environ, envprefix, props)
}
