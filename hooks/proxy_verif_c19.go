//go:build verif

package proxy

import "net/http"

// Read-only export for the verification harness (property C19).

func VerifHTTPProxyErrorHandler(w http.ResponseWriter, r *http.Request, err error) {
	httpProxyErrorHandler(w, r, err)
}
