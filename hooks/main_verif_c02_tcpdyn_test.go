//go:build verif

package main

// Second driver for the correspondence check of property C02 (/verif): runs the
// real startServers with one static tcp listener and one tcp-dynamic listener
// and feeds the tcp-dynamic refresh loop complete routing tables through
// route.NewTable / route.SetTable (what watchBackend does with a valid text).
// Some of the ports the route texts name are held by another socket, are
// fabio's own static listener, or are no port numbers at all.  After every
// step the driver records the table (host keys and target schemes) and the
// addresses the proxy serves.  exit.Fatal in a listener goroutine ends this
// process, which is the observable the harness looks for: progress is appended
// line by line to VERIF_C02TD_OUT.  Jobs come from VERIF_C02TD_IN, starting at
// job VERIF_C02TD_FROM; skipped otherwise.

import (
	"bytes"
	"encoding/json"
	"io"
	"log"
	"net"
	"os"
	"reflect"
	"sort"
	"strconv"
	"strings"
	"testing"
	"time"

	"github.com/fabiolb/fabio/config"
	"github.com/fabiolb/fabio/metrics"
	"github.com/fabiolb/fabio/proxy"
	"github.com/fabiolb/fabio/route"
)

type verifC02TDStep struct {
	Text   string   `json:"text"`   // route text; {NAME} = the real port of the symbolic port NAME
	Busy   []string `json:"busy"`   // symbolic ports another socket holds during this step
	Settle []string `json:"settle"` // symbolic ports the generator expects to end up served (wait condition only)
}

type verifC02TDJob struct {
	Ports []string         `json:"ports"` // symbolic ports that need a real, free port ("O" = the static listener)
	Steps []verifC02TDStep `json:"steps"`
}

type verifC02TDHost struct {
	Host    string   `json:"host"`
	Schemes []string `json:"schemes"` // URL scheme of every target, route by route
}

type verifC02TDLine struct {
	Job    int               `json:"job"`
	Step   int               `json:"step"`
	Init   []string          `json:"init,omitempty"` // served when the job began (step 0 only)
	Map    map[string]string `json:"map,omitempty"`  // symbolic -> real port (step 0 only)
	Hosts  []verifC02TDHost  `json:"hosts"`
	Busy   []string          `json:"busy"` // ":port" held by another socket during this step
	Served []string          `json:"served"`
	Err    string            `json:"err,omitempty"` // the step could not be arranged
	Done   bool              `json:"done,omitempty"`
}

var verifC02TDCursor = 61000 + (os.Getpid()*37)%3000

// verifC02TDFreePort returns a port above the ephemeral range nobody listens on.
func verifC02TDFreePort() string {
	for k := 0; k < 4000; k++ {
		verifC02TDCursor++
		if verifC02TDCursor > 65000 {
			verifC02TDCursor = 61001
		}
		p := strconv.Itoa(verifC02TDCursor)
		l, err := net.Listen("tcp", ":"+p)
		if err != nil {
			continue
		}
		l.Close()
		return p
	}
	return "0"
}

func verifC02TDHosts(t route.Table) []verifC02TDHost {
	out := []verifC02TDHost{}
	for h, rs := range t {
		x := verifC02TDHost{Host: h, Schemes: []string{}}
		for _, r := range rs {
			for _, tg := range r.Targets {
				x.Schemes = append(x.Schemes, tg.URL.Scheme)
			}
		}
		out = append(out, x)
	}
	sort.Slice(out, func(i, j int) bool { return out[i].Host < out[j].Host })
	return out
}

func TestVerifC02TcpDyn(t *testing.T) {
	in, outp := os.Getenv("VERIF_C02TD_IN"), os.Getenv("VERIF_C02TD_OUT")
	if in == "" || outp == "" {
		t.Skip("VERIF_C02TD_IN / VERIF_C02TD_OUT not set")
	}
	from, _ := strconv.Atoi(os.Getenv("VERIF_C02TD_FROM"))
	refresh := 50 * time.Millisecond
	if d, err := time.ParseDuration(os.Getenv("VERIF_C02TD_REFRESH")); err == nil {
		refresh = d // "0s" = a listener configured without refresh=
	}
	if os.Getenv("VERIF_C02TD_LOG") == "" {
		log.SetOutput(io.Discard)
	}
	data, err := os.ReadFile(in)
	if err != nil {
		t.Fatal(err)
	}
	var jobs []verifC02TDJob
	if err := json.Unmarshal(data, &jobs); err != nil {
		t.Fatal(err)
	}
	f, err := os.OpenFile(outp, os.O_APPEND|os.O_CREATE|os.O_WRONLY, 0o644)
	if err != nil {
		t.Fatal(err)
	}
	defer f.Close()
	emit := func(l verifC02TDLine) {
		b, _ := json.Marshal(l)
		f.Write(append(b, '\n'))
		f.Sync()
	}
	waitServed := func(want []string, patience time.Duration) []string {
		sort.Strings(want)
		var got []string
		for deadline := time.Now().Add(patience); ; time.Sleep(refresh / 4) {
			got = proxy.VerifC02Servers()
			if reflect.DeepEqual(got, want) || (len(got) == 0 && len(want) == 0) || time.Now().After(deadline) {
				return got
			}
		}
	}

	// what main() does, with an empty table to begin with
	route.SetTable(make(route.Table))
	own := verifC02TDFreePort()
	cfg := &config.Config{
		Listen: []config.Listen{
			{Proto: "tcp", Addr: ":" + own},
			{Proto: "tcp-dynamic", Refresh: refresh},
		},
		Proxy: config.Proxy{Strategy: "rnd", Matcher: "prefix", DialTimeout: 2 * time.Second},
	}
	startServers(cfg, metrics.DiscardProvider{})
	waitServed([]string{":" + own}, 10*time.Second)

	others := map[string]net.Listener{} // real port -> the socket of "another program"
	for ji := from; ji < len(jobs); ji++ {
		job := jobs[ji]
		// a clean start: no dynamic listener, nothing remembered by the loop
		route.SetTable(make(route.Table))
		for p, l := range others {
			l.Close()
			delete(others, p)
		}
		time.Sleep(2 * refresh)
		for deadline := time.Now().Add(10 * time.Second); time.Now().Before(deadline); time.Sleep(refresh / 2) {
			s := proxy.VerifC02Servers()
			if len(s) == 0 || (len(s) == 1 && s[0] == ":"+own) {
				break
			}
		}
		time.Sleep(2 * refresh)
		init := proxy.VerifC02Servers()
		pm := map[string]string{"O": own}
		for _, name := range job.Ports {
			if name != "O" {
				pm[name] = verifC02TDFreePort()
			}
		}
		real := func(names []string) []string {
			out := []string{}
			for _, n := range names {
				out = append(out, ":"+pm[n])
			}
			return out
		}
		for k, st := range job.Steps {
			line := verifC02TDLine{Job: ji, Step: k}
			if k == 0 {
				line.Init, line.Map = init, pm
			}
			// the other programs first, then the table
			busy := map[string]bool{}
			for _, p := range real(st.Busy) {
				busy[p] = true
			}
			for p, l := range others {
				if !busy[p] {
					l.Close()
					delete(others, p)
				}
			}
			for p := range busy {
				if others[p] == nil {
					l, err := net.Listen("tcp", p)
					if err != nil {
						line.Err = "cannot take " + p + " for the other program: " + err.Error()
						break
					}
					others[p] = l
				}
			}
			text := st.Text
			for n, p := range pm {
				text = strings.ReplaceAll(text, "{"+n+"}", p)
			}
			var tbl route.Table
			if line.Err == "" {
				if tbl, err = route.NewTable(bytes.NewBufferString(text)); err != nil {
					line.Err = "NewTable: " + err.Error()
				}
			}
			if line.Err != "" {
				emit(line)
				break
			}
			route.SetTable(tbl)
			line.Hosts = verifC02TDHosts(route.GetTable())
			for p := range others {
				line.Busy = append(line.Busy, p)
			}
			sort.Strings(line.Busy)
			waitServed(real(st.Settle), 10*time.Second)
			// a listener goroutine that cannot listen ends the process: give it the time
			time.Sleep(3 * refresh)
			line.Served = proxy.VerifC02Servers()
			emit(line)
		}
		emit(verifC02TDLine{Job: ji, Done: true})
	}
}
