//go:build verif

package proxy

import "sort"

// VerifC02Servers returns the addresses the running proxy servers are
// registered under (the keys of servers), ascending.  Read-only; used by the
// correspondence check of property C02 (/verif) to observe which ports the
// tcp-dynamic listener loop of main.startServers serves.
func VerifC02Servers() []string {
	mu.Lock()
	defer mu.Unlock()
	out := make([]string, 0, len(servers))
	for k := range servers {
		out = append(out, k)
	}
	sort.Strings(out)
	return out
}
