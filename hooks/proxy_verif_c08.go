//go:build verif

package proxy

import (
	"net/http"

	"github.com/fabiolb/fabio/config"
)

// Read-only exports for the verification harness (property C08).

func VerifAddHeaders(r *http.Request, cfg config.Proxy, stripPath string) error {
	return addHeaders(r, cfg, stripPath)
}

func VerifAddResponseHeaders(w http.ResponseWriter, r *http.Request, cfg config.Proxy) error {
	return addResponseHeaders(w, r, cfg)
}

func VerifScheme(r *http.Request) string { return scheme(r) }

func VerifLocalPort(r *http.Request) string { return localPort(r) }
