//go:build verif

package consul

// Read-only exports for the correspondence check of property C14 (/verif).

import (
	"github.com/hashicorp/consul/api"
)

// VerifC14Build is routecmd.build for one catalog entry.
func VerifC14Build(svc *api.CatalogService, prefix string, env map[string]string) []string {
	return routecmd{svc: svc, prefix: prefix, env: env}.build()
}

// VerifC14ParseURLPrefixTag is parseURLPrefixTag.
func VerifC14ParseURLPrefixTag(s, prefix string, env map[string]string) (route, opts string, ok bool) {
	return parseURLPrefixTag(s, prefix, env)
}
