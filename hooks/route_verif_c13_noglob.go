//go:build verif

package route

import "net/http"

// Read-only export for the verification harness (property C13, glob matching disabled).

// VerifC13HostView returns every host key of the table (the key "" of the
// host-less routes included) in the order sortHostsReverseHostPort gives to the
// whole key set, and for each key what the unexported Table.lookup yields for
// the path of req (nil where no route of that host matches the path); fallback
// is what lookup yields for the host-less routes. It calls neither
// matchingHosts nor matchingHostNoGlob nor Lookup and performs none of Lookup's
// side effects (no BuildRedirectURL, req unchanged).
func VerifC13HostView(t Table, req *http.Request, pick picker, match matcher) (hosts []string, targets []*Target, fallback *Target) {
	for h := range t {
		hosts = append(hosts, h)
	}
	hosts = sortHostsReverseHostPort(hosts)
	for _, h := range hosts {
		targets = append(targets, t.lookup(h, req.URL.Path, "", pick, match))
	}
	return hosts, targets, t.lookup("", req.URL.Path, "", pick, match)
}
