//go:build verif

package route

import "sync/atomic"

// Read-only exports for the verification harness (property C06: concurrent
// requests do not influence each other's routing).  Nothing here changes the
// behaviour of the package; VerifC06SetCursor positions the round-robin cursor
// of a route before a measurement (call it only while no lookup is running).

// VerifC06Ring returns, for every slot of the ring rrPicker indexes, the index
// of the slot's target in r.Targets (-1 for a nil slot or a foreign target).
func (r *Route) VerifC06Ring() []int {
	pos := make(map[*Target]int, len(r.Targets))
	for i, t := range r.Targets {
		if _, dup := pos[t]; !dup {
			pos[t] = i
		}
	}
	out := make([]int, len(r.wTargets))
	for k, t := range r.wTargets {
		if i, ok := pos[t]; ok && t != nil {
			out[k] = i
		} else {
			out[k] = -1
		}
	}
	return out
}

// VerifC06Cursor reads the round-robin cursor.
func (r *Route) VerifC06Cursor() uint64 { return atomic.LoadUint64(&r.total) }

// VerifC06SetCursor sets the round-robin cursor.
func (r *Route) VerifC06SetCursor(c uint64) { atomic.StoreUint64(&r.total, c) }

// VerifC06State returns a copy of the glob cache's bookkeeping: the ring l, the
// head h, the fill count n and the keys of the map m (unsorted).  Call it only
// while no Get is running.
func (c *GlobCache) VerifC06State() (l []string, h, n int, keys []string) {
	l = append([]string(nil), c.l...)
	c.m.Range(func(k, _ interface{}) bool {
		keys = append(keys, k.(string))
		return true
	})
	return l, c.h, c.n, keys
}
