//go:build verif

package proxy

// Read-only exports for the verification harness (property C20).

func VerifUint16Base16(n uint16) string { return uint16base16(n) }

func VerifI32toa(n int32) string { return i32toa(n) }
