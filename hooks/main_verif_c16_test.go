//go:build verif

package main

// Driver for the correspondence check of property C16 (/verif): builds the gRPC
// listener's server from the REAL newGrpcProxy (main.go) for configurations with
// unequal proxy.grpcmaxrxmsgsize / proxy.grpcmaxtxmsgsize and relays unary calls to a
// raw-bytes backend.  Per call: request and response sizes around the two limits;
// observed: status code, whether the backend received the request (byte for byte),
// whether the caller received the response (byte for byte).
// Reads the jobs from VERIF_C16_IN, writes the results to VERIF_C16_OUT; skipped otherwise.

import (
	"bytes"
	"context"
	"encoding/json"
	"fmt"
	"io"
	"log"
	"net"
	"os"
	"sync"
	"testing"
	"time"

	"github.com/fabiolb/fabio/config"
	"github.com/fabiolb/fabio/metrics"
	"github.com/fabiolb/fabio/proxy"
	"github.com/fabiolb/fabio/route"

	"google.golang.org/grpc"
	"google.golang.org/grpc/credentials/insecure"
	"google.golang.org/grpc/status"
)

type verifC16Codec struct{}

func (verifC16Codec) Marshal(v any) ([]byte, error) {
	b, ok := v.(*[]byte)
	if !ok {
		return nil, fmt.Errorf("verifC16Codec: %T", v)
	}
	return *b, nil
}
func (verifC16Codec) Unmarshal(data []byte, v any) error {
	b, ok := v.(*[]byte)
	if !ok {
		return fmt.Errorf("verifC16Codec: %T", v)
	}
	*b = append([]byte(nil), data...)
	return nil
}
func (verifC16Codec) Name() string { return "proto" }

type verifC16Call struct {
	Req  int `json:"req"`  // request message size in bytes
	Resp int `json:"resp"` // response message size in bytes
}
type verifC16Job struct {
	Rx    int            `json:"rx"` // cfg.Proxy.GRPCMaxRxMsgSize
	Tx    int            `json:"tx"` // cfg.Proxy.GRPCMaxTxMsgSize
	Calls []verifC16Call `json:"calls"`
}
type verifC16Result struct {
	Code       uint32 `json:"code"`
	Msg        string `json:"msg"`
	BackendGot bool   `json:"backend_got"` // the backend received one message, equal to the request
	BackendLen int    `json:"backend_len"` // -1: no message received
	CallerGot  bool   `json:"caller_got"`  // the caller received one message, equal to the scripted response
	CallerLen  int    `json:"caller_len"`
}

// a well-formed protobuf message of exactly n bytes (n = 0 or n >= 2): unknown field 1 of
// type bytes, preceded by `10 00` (field 2 = 0) where the length prefix leaves a gap
func verifC16Payload(n int, seed byte) []byte {
	if n == 0 {
		return []byte{}
	}
	vlen := func(x int) int {
		k := 1
		for x >= 0x80 {
			x >>= 7
			k++
		}
		return k
	}
	for pad := 0; pad <= 4; pad += 2 {
		for k := 1; k <= 5; k++ {
			body := n - pad - 1 - k
			if body < 0 || vlen(body) != k {
				continue
			}
			out := make([]byte, 0, n)
			for i := 0; i < pad; i += 2 {
				out = append(out, 0x10, 0x00)
			}
			out = append(out, 0x0a)
			x := body
			for x >= 0x80 {
				out = append(out, byte(x)|0x80)
				x >>= 7
			}
			out = append(out, byte(x))
			for i := 0; i < body; i++ {
				out = append(out, seed+byte(i*7))
			}
			return out
		}
	}
	panic(fmt.Sprintf("verifC16Payload: no encoding of %d bytes", n))
}

func TestVerifC16(t *testing.T) {
	inF, outF := os.Getenv("VERIF_C16_IN"), os.Getenv("VERIF_C16_OUT")
	if inF == "" || outF == "" {
		t.Skip("VERIF_C16_IN / VERIF_C16_OUT not set")
	}
	log.SetOutput(io.Discard)
	data, err := os.ReadFile(inF)
	if err != nil {
		t.Fatal(err)
	}
	var jobs []verifC16Job
	if err := json.Unmarshal(data, &jobs); err != nil {
		t.Fatal(err)
	}

	// backend: answers the scripted response, records what it received
	var mu sync.Mutex
	var script []byte
	var got [][]byte
	bln, err := net.Listen("tcp", "127.0.0.1:0")
	if err != nil {
		t.Fatal(err)
	}
	backend := grpc.NewServer(grpc.ForceServerCodec(verifC16Codec{}), grpc.MaxRecvMsgSize(1<<30), grpc.MaxSendMsgSize(1<<30),
		grpc.UnknownServiceHandler(func(_ any, ss grpc.ServerStream) error {
			for {
				var m []byte
				err := ss.RecvMsg(&m)
				if err == io.EOF {
					break
				}
				if err != nil {
					return err
				}
				mu.Lock()
				got = append(got, m)
				mu.Unlock()
			}
			mu.Lock()
			resp := script
			mu.Unlock()
			return ss.SendMsg(&resp)
		}))
	go backend.Serve(bln)
	defer backend.Stop()

	tbl, err := route.NewTable(bytes.NewBufferString("route add svc / grpc://" + bln.Addr().String() + " opts \"proto=grpc\"\n"))
	if err != nil {
		t.Fatal(err)
	}
	route.SetTable(tbl)

	out := make([][]verifC16Result, len(jobs))
	for ji, job := range jobs {
		cfg := &config.Config{}
		cfg.Proxy.Strategy = "rnd"
		cfg.Proxy.Matcher = "prefix"
		cfg.Proxy.GRPCMaxRxMsgSize = job.Rx
		cfg.Proxy.GRPCMaxTxMsgSize = job.Tx
		cfg.Proxy.GRPCGShutdownTimeout = 100 * time.Millisecond
		cfg.GlobCacheSize = 100
		dp := metrics.DiscardProvider{}
		sh := &proxy.GrpcStatsHandler{Connect: dp.NewCounter("c"), Request: dp.NewHistogram("r"), NoRoute: dp.NewCounter("n"), Status: dp.NewHistogram("s", "code")}
		// the code under test: the server options of the gRPC listener
		srv := grpc.NewServer(newGrpcProxy(cfg, nil, sh)...)
		pln, err := net.Listen("tcp", "127.0.0.1:0")
		if err != nil {
			t.Fatal(err)
		}
		go srv.Serve(pln)
		cc, err := grpc.NewClient("passthrough:///"+pln.Addr().String(), grpc.WithTransportCredentials(insecure.NewCredentials()),
			grpc.WithDefaultCallOptions(grpc.ForceCodec(verifC16Codec{}), grpc.MaxCallRecvMsgSize(1<<30), grpc.MaxCallSendMsgSize(1<<30)))
		if err != nil {
			t.Fatal(err)
		}
		for ci, c := range job.Calls {
			req := verifC16Payload(c.Req, byte(ci))
			resp := verifC16Payload(c.Resp, byte(ci)+101)
			mu.Lock()
			script, got = resp, nil
			mu.Unlock()
			ctx, cancel := context.WithTimeout(context.Background(), 20*time.Second)
			var reply []byte
			err := cc.Invoke(ctx, "/verif.C16/Sized", &req, &reply)
			cancel()
			st := status.Convert(err)
			r := verifC16Result{Code: uint32(st.Code()), Msg: st.Message(), BackendLen: -1, CallerLen: -1}
			// a refused call ends at the caller before the backend's handler is torn down
			time.Sleep(5 * time.Millisecond)
			mu.Lock()
			if len(got) == 1 {
				r.BackendLen = len(got[0])
				r.BackendGot = bytes.Equal(got[0], req)
			} else if len(got) > 1 {
				r.BackendLen = -2
			}
			mu.Unlock()
			if err == nil {
				r.CallerLen = len(reply)
				r.CallerGot = bytes.Equal(reply, resp)
			}
			if len(r.Msg) > 120 {
				r.Msg = r.Msg[:120]
			}
			out[ji] = append(out[ji], r)
		}
		cc.Close()
		srv.Stop()
	}
	b, _ := json.Marshal(out)
	if err := os.WriteFile(outF, b, 0o644); err != nil {
		t.Fatal(err)
	}
}
