//go:build verif

package gzip

import "compress/gzip"

// Verification hooks for property C17 (read/seed access to the unexported
// writer pool; no behaviour of the package changes).

// VerifPoolPut puts a writer into the shared gzip writer pool.
func VerifPoolPut(w *gzip.Writer) { gzipWriterPool.Put(w) }

// VerifPoolGet draws a writer from the shared gzip writer pool.
func VerifPoolGet() *gzip.Writer { return gzipWriterPool.Get().(*gzip.Writer) }
