//go:build verif

package proxy

import "sort"

// VerifC18ServerAddrs returns the keys of the package-level registry of
// running servers (read-only; used by the C18 correspondence harness to wait
// until every listener it started has been registered by serve()).
func VerifC18ServerAddrs() []string {
	mu.Lock()
	defer mu.Unlock()
	ks := make([]string, 0, len(servers))
	for k := range servers {
		ks = append(ks, k)
	}
	sort.Strings(ks)
	return ks
}
