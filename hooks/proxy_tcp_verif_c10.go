//go:build verif

package tcp

// Read-only exports for the verification harness (property C10).

func VerifClientHelloBufferSize(data []byte) (int, error) { return clientHelloBufferSize(data) }

func VerifReadServerName(msg []byte) (string, bool) { return readServerName(msg) }
