//go:build verif

package logger

import "bytes"

// Read-only exports for the verification harness (property C20).

func VerifAtoi(i int64, pad int) string {
	var b bytes.Buffer
	atoi(&b, i, pad)
	return b.String()
}

func VerifHostport(s string) (string, string) { return hostport(s) }

// VerifLex returns the item type (0 text, 1 field, 2 header) and the length lex reports.
func VerifLex(s string) (int, int) {
	t, n := lex([]rune(s))
	return int(t), n
}
