//go:build verif

package main

// Second driver for the correspondence check of property C16 (/verif): SEVERAL gRPC listeners
// in one process, started the way fabio starts them -- the real config.Load on a command line
// with `-proxy.addr "A1;proto=grpc,A2;proto=grpcs;cs=verif,..."` and the real startServers
// (main.go), which walks cfg.Listen and builds, for every grpc / grpcs listener, the listener's
// tls.Config (makeTLSConfig, file cert source written by the driver), the server options
// (newGrpcProxy: interceptor, director, backend connection pool) and the listener itself
// (proxy.ListenAndServeGRPC).  What the harness checks through it: every listener proxies with
// the tls.Config of ITS OWN proxy.addr entry and a connection pool of its own, whatever other
// gRPC listeners stand before or after it in proxy.addr.
//
// VERIF_C16_LISTENERS names the status file to write; VERIF_C16_LISTENERS_CFG is
// {"groups":[[false,true],[true,false,true],...],"noglob":bool,"shutdown_ms":int}: one
// startServers call per group (a group = the gRPC listeners of one fabio configuration, in
// proxy.addr order; true = proto=grpcs with a cert source).  The process keeps running while the
// harness (another process: backends and callers) talks to the listeners.  A small control
// endpoint replaces the registry: POST /table sets the routing table from route commands,
// POST /quit ends the test.  Skipped unless VERIF_C16_LISTENERS is set.

import (
	"bytes"
	"crypto/ecdsa"
	"crypto/elliptic"
	"crypto/rand"
	"crypto/x509"
	"crypto/x509/pkix"
	"encoding/json"
	"encoding/pem"
	"fmt"
	"io"
	"log"
	"math/big"
	"net"
	"net/http"
	"os"
	"path/filepath"
	"strings"
	"testing"
	"time"

	"github.com/fabiolb/fabio/config"
	"github.com/fabiolb/fabio/metrics"
	"github.com/fabiolb/fabio/proxy"
	"github.com/fabiolb/fabio/route"
)

type verifC16LListener struct {
	Addr  string `json:"addr"`
	Proto string `json:"proto"` // as config.Load parsed it: grpc | grpcs
	TLS   bool   `json:"tls"`   // the entry has a cert source
}

type verifC16LGroup struct {
	Listeners []verifC16LListener `json:"listeners"`
	ProxyAddr string              `json:"proxy_addr"`   // the -proxy.addr value
	T0        int64               `json:"t0_unix_nano"` // just before startServers
	T1        int64               `json:"t1_unix_nano"` // every listener of the group accepts connections
}

func verifC16LWriteCert(dir string) (certFile, keyFile string, err error) {
	key, err := ecdsa.GenerateKey(elliptic.P256(), rand.Reader)
	if err != nil {
		return "", "", err
	}
	tmpl := &x509.Certificate{SerialNumber: big.NewInt(1616), Subject: pkix.Name{CommonName: "localhost"},
		NotBefore: time.Now().Add(-time.Hour), NotAfter: time.Now().Add(24 * time.Hour),
		KeyUsage: x509.KeyUsageDigitalSignature | x509.KeyUsageCertSign, ExtKeyUsage: []x509.ExtKeyUsage{x509.ExtKeyUsageServerAuth},
		BasicConstraintsValid: true, IsCA: true,
		IPAddresses: []net.IP{net.ParseIP("127.0.0.1")}, DNSNames: []string{"localhost"}}
	der, err := x509.CreateCertificate(rand.Reader, tmpl, tmpl, &key.PublicKey, key)
	if err != nil {
		return "", "", err
	}
	keyDER, err := x509.MarshalECPrivateKey(key)
	if err != nil {
		return "", "", err
	}
	certFile, keyFile = filepath.Join(dir, "cert.pem"), filepath.Join(dir, "key.pem")
	if err = os.WriteFile(certFile, pem.EncodeToMemory(&pem.Block{Type: "CERTIFICATE", Bytes: der}), 0o600); err != nil {
		return "", "", err
	}
	if err = os.WriteFile(keyFile, pem.EncodeToMemory(&pem.Block{Type: "EC PRIVATE KEY", Bytes: keyDER}), 0o600); err != nil {
		return "", "", err
	}
	return certFile, keyFile, nil
}

// n distinct free loopback addresses (all held open until the last one is found)
func verifC16LFreeAddrs(n int) ([]string, error) {
	var lns []net.Listener
	var out []string
	defer func() {
		for _, ln := range lns {
			ln.Close()
		}
	}()
	for i := 0; i < n; i++ {
		ln, err := net.Listen("tcp", "127.0.0.1:0")
		if err != nil {
			return nil, err
		}
		lns = append(lns, ln)
		out = append(out, ln.Addr().String())
	}
	return out, nil
}

func TestVerifC16Listeners(t *testing.T) {
	statusF := os.Getenv("VERIF_C16_LISTENERS")
	if statusF == "" {
		t.Skip("VERIF_C16_LISTENERS not set")
	}
	log.SetOutput(io.Discard)
	var lc struct {
		Groups     [][]bool `json:"groups"`
		NoGlob     bool     `json:"noglob"`
		ShutdownMs int      `json:"shutdown_ms"`
	}
	if err := json.Unmarshal([]byte(os.Getenv("VERIF_C16_LISTENERS_CFG")), &lc); err != nil {
		t.Fatalf("VERIF_C16_LISTENERS_CFG: %v", err)
	}
	dir := t.TempDir()
	certFile, keyFile, err := verifC16LWriteCert(dir)
	if err != nil {
		t.Fatal(err)
	}
	route.SetMetricsProvider(metrics.DiscardProvider{})

	var groups []verifC16LGroup
	for gi, g := range lc.Groups {
		addrs, err := verifC16LFreeAddrs(len(g))
		if err != nil {
			t.Fatal(err)
		}
		var entries []string
		for i, secure := range g {
			if secure {
				entries = append(entries, addrs[i]+";proto=grpcs;cs=verif")
			} else {
				entries = append(entries, addrs[i]+";proto=grpc")
			}
		}
		proxyAddr := strings.Join(entries, ",")
		// the operator's command line
		cfg, err := config.Load([]string{"fabio",
			"-proxy.cs", "cs=verif;type=file;cert=" + certFile + ";key=" + keyFile,
			"-proxy.addr", proxyAddr,
			"-proxy.strategy", "rr",
			"-proxy.matcher", "prefix",
			"-proxy.grpcshutdowntimeout", fmt.Sprintf("%dms", lc.ShutdownMs),
			"-glob.matching.disabled=" + fmt.Sprint(lc.NoGlob),
		}, nil)
		if err != nil {
			t.Fatalf("group %d: config.Load: %v", gi, err)
		}
		if len(cfg.Listen) != len(g) {
			t.Fatalf("group %d: %d listeners configured, %d parsed", gi, len(g), len(cfg.Listen))
		}
		grp := verifC16LGroup{ProxyAddr: proxyAddr, T0: time.Now().UnixNano()}
		for _, l := range cfg.Listen {
			grp.Listeners = append(grp.Listeners, verifC16LListener{Addr: l.Addr, Proto: l.Proto, TLS: l.CertSource.Name != ""})
		}
		// the code under test: main.go's loop over cfg.Listen
		startServers(cfg, metrics.DiscardProvider{})
		for _, l := range grp.Listeners {
			deadline := time.Now().Add(20 * time.Second)
			for {
				c, err := net.DialTimeout("tcp", l.Addr, time.Second)
				if err == nil {
					c.Close()
					break
				}
				if time.Now().After(deadline) {
					t.Fatalf("group %d: listener %s did not come up", gi, l.Addr)
				}
				time.Sleep(5 * time.Millisecond)
			}
		}
		grp.T1 = time.Now().UnixNano()
		groups = append(groups, grp)
	}
	defer proxy.Close()

	quit := make(chan struct{})
	mux := http.NewServeMux()
	mux.HandleFunc("/table", func(w http.ResponseWriter, r *http.Request) {
		b, _ := io.ReadAll(r.Body)
		tbl, err := route.NewTable(bytes.NewBuffer(b))
		if err != nil {
			http.Error(w, err.Error(), 400)
			return
		}
		route.SetTable(tbl)
		w.Write([]byte("ok"))
	})
	mux.HandleFunc("/quit", func(w http.ResponseWriter, r *http.Request) {
		w.Write([]byte("bye"))
		close(quit)
	})
	cln, err := net.Listen("tcp", "127.0.0.1:0")
	if err != nil {
		t.Fatal(err)
	}
	go http.Serve(cln, mux)
	defer cln.Close()

	st, _ := json.Marshal(map[string]interface{}{"groups": groups, "ctrl": cln.Addr().String()})
	if err := os.WriteFile(statusF+".tmp", st, 0o644); err != nil {
		t.Fatal(err)
	}
	os.Rename(statusF+".tmp", statusF)
	select {
	case <-quit:
	case <-time.After(15 * time.Minute):
		t.Fatal("no /quit within 15 minutes")
	}
}
