//go:build verif

package main

// Second driver for the correspondence check of property C18 (/verif): the real main() as a
// process of its own with the CONSUL registry backend and self-registration on, against a
// consul agent that lives in the harness process (address in VERIF_C18_CONSUL_IN), so that the
// FIRST step of the exit handler registered in main() - registry.Default.DeregisterAll(), which
// hands the request to the registration goroutine of registry/consul/register.go and waits for
// its acknowledgement - runs with real signals and an agent that the harness makes refuse,
// fail or hold its calls.  Then the grace period (-proxy.deregistergraceperiod as given) and
// proxy.Shutdown(wait).  Reports like TestVerifC18: file Ready when both listeners are up,
// file Done when main() has returned.  One script per process.  Skipped unless
// VERIF_C18_CONSUL_IN is set.

import (
	"encoding/json"
	"net"
	"os"
	"strconv"
	"testing"
	"time"
)

type verifC18ConsulIn struct {
	Consul  string // host:port of the agent
	WaitMs  int    // -proxy.shutdownwait
	GraceMs int    // -proxy.deregistergraceperiod
	Ready   string // written when the listeners accept: {"Pid":..,"Proxy":..,"UI":..}
	Done    string // written when main() has returned: {"UnixNano":..}
}

func TestVerifC18Consul(t *testing.T) {
	inFile := os.Getenv("VERIF_C18_CONSUL_IN")
	if inFile == "" {
		t.Skip("VERIF_C18_CONSUL_IN not set")
	}
	var in verifC18ConsulIn
	b, err := os.ReadFile(inFile)
	if err != nil {
		t.Fatal(err)
	}
	if err := json.Unmarshal(b, &in); err != nil {
		t.Fatal(err)
	}
	proxyAddr, uiAddr := verifC18FreeAddr(), verifC18FreeAddr()
	os.Args = []string{"fabio",
		"-insecure",
		"-proxy.addr", proxyAddr,
		"-ui.addr", uiAddr,
		"-registry.backend", "consul",
		"-registry.consul.addr", in.Consul,
		"-registry.consul.register.enabled=true",
		"-registry.consul.register.addr", uiAddr,
		"-proxy.shutdownwait", strconv.Itoa(in.WaitMs) + "ms",
		"-proxy.deregistergraceperiod", strconv.Itoa(in.GraceMs) + "ms",
		"-log.level", "INFO",
	}
	returned := make(chan struct{})
	go func() {
		main()
		close(returned)
	}()

	deadline := time.Now().Add(20 * time.Second)
	for _, a := range []string{proxyAddr, uiAddr} {
		for {
			c, err := net.Dial("tcp", a)
			if err == nil {
				c.Close()
				break
			}
			if time.Now().After(deadline) {
				t.Fatal("listener "+a+" did not come up: ", err)
			}
			time.Sleep(10 * time.Millisecond)
		}
	}
	if err := verifC18Write(in.Ready, map[string]interface{}{"Pid": os.Getpid(), "Proxy": proxyAddr, "UI": uiAddr}); err != nil {
		t.Fatal(err)
	}
	<-returned
	if err := verifC18Write(in.Done, map[string]interface{}{"UnixNano": time.Now().UnixNano()}); err != nil {
		t.Fatal(err)
	}
	os.Exit(0) // what the runtime does when main() returns
}
