// Package vh is the shared part of the correspondence harness: a seeded PRNG,
// writers for Coq terms, sharded case files and the meta.json the driver reads.
package vh

import (
	"crypto/sha256"
	"encoding/hex"
	"encoding/json"
	"flag"
	"fmt"
	"io"
	"log"
	"math/rand"
	"os"
	"path/filepath"
	"sort"
	"strconv"
	"strings"
)

// Case is one generated input together with what the real code did on it,
// rendered as a Coq term of the property's `case` type.
type Case struct {
	ID     int         `json:"id"`
	Class  string      `json:"class"`  // generator class, for the input distribution
	Coq    string      `json:"-"`      // Coq term
	Hash   string      `json:"hash"`   // of the Coq term: distinctness of cases
	Sample interface{} `json:"sample"` // human-readable form (evidence samples, replay files)
}

// ImplViolation is a failure observed directly on the implementation side
// (a panic the harness had to recover, a disagreement with the standard
// library, a race report) that needs no model to be judged.
type ImplViolation struct {
	CaseID int         `json:"case_id"`
	What   string      `json:"what"`
	Input  interface{} `json:"input"`
}

type Shard struct {
	File    string `json:"file"`
	CaseIDs []int  `json:"case_ids"`
}

type Meta struct {
	Property       string                 `json:"property"`
	Seed           int64                  `json:"seed"`
	Tier           string                 `json:"tier"`
	Evaluations    int                    `json:"evaluations"`
	Distribution   map[string]int         `json:"distribution"`
	Shards         []Shard                `json:"shards"`
	Samples        []interface{}          `json:"samples"`
	ImplViolations []ImplViolation        `json:"impl_violations"`
	Excluded       map[string]int         `json:"excluded"` // inputs outside the modelled domain, by reason
	Notes          map[string]interface{} `json:"notes"`
}

// Run holds the state of one harness invocation.
type Run struct {
	Property string
	Seed     int64
	Tier     string
	Out      string
	Only     int // >= 0: emit only the case with this id (replay)
	Rng      *rand.Rand
	Cases    []Case
	Viol     []ImplViolation
	Excluded map[string]int
	Notes    map[string]interface{}
	nextID   int
}

// Start parses the common flags: -seed -tier -out -only.
func Start(property string) *Run {
	seed := flag.Int64("seed", 1, "PRNG seed")
	tier := flag.String("tier", "quick", "quick|thorough")
	out := flag.String("out", "", "output directory")
	only := flag.Int("only", -1, "emit only this case id (replay)")
	flag.Parse()
	log.SetOutput(io.Discard) // fabio logs through the standard logger; keep the harness output clean
	if *out == "" {
		fmt.Fprintln(os.Stderr, "missing -out")
		os.Exit(2)
	}
	if err := os.MkdirAll(*out, 0o755); err != nil {
		panic(err)
	}
	return &Run{Property: property, Seed: *seed, Tier: *tier, Out: *out, Only: *only,
		Rng: rand.New(rand.NewSource(*seed)), Excluded: map[string]int{}, Notes: map[string]interface{}{}}
}

func (r *Run) Thorough() bool { return r.Tier == "thorough" }

// Scale returns q for the quick tier and t for the thorough tier.
func (r *Run) Scale(q, t int) int {
	if r.Thorough() {
		return t
	}
	return q
}

// Add records a case; ids are assigned in generation order, so the same seed
// and tier always give the same ids (that is what makes replays exact).
func (r *Run) Add(class, coq string, sample interface{}) int {
	id := r.nextID
	r.nextID++
	h := sha256.Sum256([]byte(coq))
	r.Cases = append(r.Cases, Case{ID: id, Class: class, Coq: coq, Hash: hex.EncodeToString(h[:8]), Sample: sample})
	return id
}

// NextID is the id the next Add will assign.
func (r *Run) NextID() int { return r.nextID }

func (r *Run) Violation(caseID int, what string, input interface{}) {
	r.Viol = append(r.Viol, ImplViolation{CaseID: caseID, What: what, Input: input})
}

func (r *Run) Exclude(reason string) { r.Excluded[reason]++ }

// Finish writes the shards and meta.json.  preamble is Coq text placed at the
// top of every shard (Require/Import lines); every shard ends by printing the
// verdict list R.
func (r *Run) Finish(preamble string, shardSize int) {
	cases := r.Cases
	if r.Only >= 0 {
		cases = nil
		for _, c := range r.Cases {
			if c.ID == r.Only {
				cases = append(cases, c)
			}
		}
	}
	meta := Meta{Property: r.Property, Seed: r.Seed, Tier: r.Tier, Evaluations: len(cases),
		Distribution: map[string]int{}, ImplViolations: r.Viol, Excluded: r.Excluded, Notes: r.Notes}
	if meta.ImplViolations == nil {
		meta.ImplViolations = []ImplViolation{}
	}
	seenClass := map[string]int{}
	for _, c := range cases {
		meta.Distribution[c.Class]++
		if seenClass[c.Class] < 2 && len(meta.Samples) < 12 {
			seenClass[c.Class]++
			meta.Samples = append(meta.Samples, map[string]interface{}{"id": c.ID, "class": c.Class, "case": c.Sample})
		}
	}
	old, _ := filepath.Glob(filepath.Join(r.Out, "cases_*.v"))
	for _, f := range old {
		os.Remove(f)
	}
	for _, pat := range []string{"cases_*.vo", "cases_*.glob", "cases_*.vok", "cases_*.vos", ".cases_*.aux", "cases_*.out"} {
		fs, _ := filepath.Glob(filepath.Join(r.Out, pat))
		for _, f := range fs {
			os.Remove(f)
		}
	}
	all, err := os.Create(filepath.Join(r.Out, "cases.jsonl"))
	if err != nil {
		panic(err)
	}
	enc := json.NewEncoder(all)
	for i := 0; i < len(cases); i += shardSize {
		j := i + shardSize
		if j > len(cases) {
			j = len(cases)
		}
		name := fmt.Sprintf("cases_%04d.v", i/shardSize)
		var sb strings.Builder
		sb.WriteString(preamble)
		sb.WriteString("\nDefinition cases : list case := [\n")
		sh := Shard{File: name}
		for k, c := range cases[i:j] {
			if k > 0 {
				sb.WriteString(";\n")
			}
			sb.WriteString("  ")
			sb.WriteString(c.Coq)
			sh.CaseIDs = append(sh.CaseIDs, c.ID)
			enc.Encode(c)
		}
		sb.WriteString("\n].\nDefinition R := Eval vm_compute in map check_case cases.\nPrint R.\n")
		if err := os.WriteFile(filepath.Join(r.Out, name), []byte(sb.String()), 0o644); err != nil {
			panic(err)
		}
		meta.Shards = append(meta.Shards, sh)
	}
	all.Close()
	b, _ := json.MarshalIndent(meta, "", " ")
	if err := os.WriteFile(filepath.Join(r.Out, "meta.json"), b, 0o644); err != nil {
		panic(err)
	}
}

// ---- Coq term writers ----

// Hx renders a byte string as `(pk len [ints]%uint63)`: 7 bytes big-endian per
// primitive integer, the last one zero-padded (see coq/Lib/Pack.v; an order of
// magnitude cheaper for coqc to read than a string or list-of-N literal).
func Hx(b []byte) string {
	var sb strings.Builder
	sb.WriteString("(pk ")
	sb.WriteString(strconv.Itoa(len(b)))
	sb.WriteString("%uint63 [")
	for i := 0; i < len(b); i += 7 {
		var v uint64
		for k := 0; k < 7; k++ {
			v <<= 8
			if i+k < len(b) {
				v |= uint64(b[i+k])
			}
		}
		if i > 0 {
			sb.WriteByte(';')
		}
		sb.WriteString(strconv.FormatUint(v, 10))
	}
	sb.WriteString("]%uint63)")
	return sb.String()
}

// HexLit renders a byte string as `(hx "6162")` (readable; slow for coqc beyond a few hundred bytes in total).
func HexLit(b []byte) string { return `(hx "` + hex.EncodeToString(b) + `")` }

// HxS is Hx for a Go string.
func HxS(s string) string { return Hx([]byte(s)) }

// N renders a non-negative integer in N scope.
func N(i int) string {
	if i < 0 {
		panic("vh.N: negative")
	}
	return strconv.Itoa(i) + "%N"
}

// N64 renders a uint64 in N scope.
func N64(i uint64) string { return strconv.FormatUint(i, 10) + "%N" }

// Z renders an integer in Z scope.
func Z(i int64) string { return "(" + strconv.FormatInt(i, 10) + ")%Z" }

// Nat renders a small natural number.
func Nat(i int) string { return strconv.Itoa(i) + "%nat" }

func Bool(b bool) string {
	if b {
		return "true"
	}
	return "false"
}

func List(items []string) string { return "[" + strings.Join(items, "; ") + "]" }

func Some(s string) string { return "(Some " + s + ")" }

const None = "None"

func Pair(a, b string) string { return "(" + a + ", " + b + ")" }

// App renders a constructor / function application.
func App(f string, args ...string) string { return "(" + f + " " + strings.Join(args, " ") + ")" }

// Ok / Err / Panic of Lib.Outcome.
func Ok(s string) string { return "(Ok " + s + ")" }
func Err(kind int) string { return "(Err " + N(kind) + ")" }

const Panic = "Panic"

// SortedKeys helps to iterate maps deterministically.
func SortedKeys(m map[string]int) []string {
	ks := make([]string, 0, len(m))
	for k := range m {
		ks = append(ks, k)
	}
	sort.Strings(ks)
	return ks
}

// Recover runs f and reports whether it panicked (and with what).
func Recover(f func()) (panicked bool, val interface{}) {
	defer func() {
		if v := recover(); v != nil {
			panicked, val = true, v
		}
	}()
	f()
	return
}
