// Correspondence harness for C04 (traffic is split by the configured weights):
// builds routes with the real fabio code from generated command sequences
// (route add with weights / tags, route weight over services and tags, route
// del), reads back FixedWeight, Weight, the weighted ring, the order sort.Sort
// gives the slot vector, and picks through Table.LookupHost with the rr and rnd
// pickers; writes the cases for the Coq model (binary64 instance bit for bit,
// exact-rational instance within 1e-9) to judge.
package main

import (
	"bytes"
	"fmt"
	"math"
	"math/rand"
	"net/url"
	"os"
	"strconv"
	"strings"

	"github.com/fabiolb/fabio/route"

	"verifharness/internal/vh"
)

const preamble = `From Coq Require Import List ZArith NArith.
From Fabio Require Import Lib.Outcome Lib.Pack Check.C04.
Import ListNotations.
`

const host = "c04.test"
const firstN = 48

type target struct {
	svc  string
	tags []string
	url  string
}

// one command of a generated sequence
type command struct {
	kind  string   // add | weight | del
	w     float64  // the weight as a float64
	wtext string   // its text in the config language ("" = no weight clause / direct mode)
	tg    target   // add: the new target
	svc   string   // weight/del: service selector ("" = any, weight only with tags)
	tags  []string // weight: tag selector
	url   string   // del: target url ("" = all of the service)
}

type sequence struct {
	cmds   []command
	direct bool // run through the hooks with raw float64 weights instead of config text
	noise  bool // text mode: other routes (another host, another path of the same host) around the commands
	// text mode: the config text comes from somewhere else (class registration-weights: routecmd.build
	// of consul registrations) and [cmds] says what it is meant to say about the observed route
	override string
}

// nonFinite reports whether a weight of the sequence is NaN or +-Inf: since /repo 0b2a40e the
// config language rejects those, they reach weighTargets only through the Go API.
func (s *sequence) nonFinite() bool {
	for _, c := range s.cmds {
		if math.IsNaN(c.w) || math.IsInf(c.w, 0) {
			return true
		}
	}
	return false
}

func contains(src, dst []string) bool {
	for _, d := range dst {
		found := false
		for _, s := range src {
			if s == d {
				found = true
			}
		}
		if !found {
			return false
		}
	}
	return true
}

// text renders the sequence in fabio's config language.
func (s *sequence) text() string {
	if s.override != "" {
		return s.override
	}
	var sb strings.Builder
	if s.noise {
		// routes the commands must not touch, and that must not touch the observed route
		fmt.Fprintf(&sb, "route add n0 other.test/ http://n0.other.test:1/ weight 0.3\n")
		fmt.Fprintf(&sb, "route add s0 %s/sub http://n1.c04.test:1/ weight 0.9 tags \"a,b,c\"\n", host)
		fmt.Fprintf(&sb, "route add s1 other.test/ http://n2.other.test:1/ tags \"c\"\n")
	}
	for k, c := range s.cmds {
		if s.noise && k == len(s.cmds)/2 {
			fmt.Fprintf(&sb, "route weight s0 %s/sub weight 0.2\nroute weight other.test/ weight 0.7 tags \"c\"\nroute weight n0 other.test/ weight 0.6\n", host)
		}
		switch c.kind {
		case "add":
			fmt.Fprintf(&sb, "route add %s %s/ %s", c.tg.svc, host, c.tg.url)
			if c.wtext != "" {
				fmt.Fprintf(&sb, " weight %s", c.wtext)
			}
			if len(c.tg.tags) > 0 {
				fmt.Fprintf(&sb, " tags %q", strings.Join(c.tg.tags, ","))
			}
		case "weight":
			if c.svc != "" {
				fmt.Fprintf(&sb, "route weight %s %s/ weight %s", c.svc, host, c.wtext)
				if len(c.tags) > 0 {
					fmt.Fprintf(&sb, " tags %q", strings.Join(c.tags, ","))
				}
			} else {
				fmt.Fprintf(&sb, "route weight %s/ weight %s tags %q", host, c.wtext, strings.Join(c.tags, ","))
			}
		case "del":
			fmt.Fprintf(&sb, "route del %s %s/", c.svc, host)
			if c.url != "" {
				fmt.Fprintf(&sb, " %s", c.url)
			}
		}
		sb.WriteByte('\n')
	}
	return sb.String()
}

// coq renders the commands for the model; the match / keep masks are computed
// here from the harness's own bookkeeping of services and tags (not from fabio).
// Commands that fabio rejects without touching the route (route weight with no
// match) are dropped by returning ok=false for the whole sequence.
func (s *sequence) coq() (string, int, bool) {
	var cur []target
	var items []string
	for _, c := range s.cmds {
		switch c.kind {
		case "add":
			cur = append(cur, c.tg)
			items = append(items, vh.App("CAdd", zb(c.w)))
		case "weight":
			m := make([]string, len(cur))
			n := 0
			for i, t := range cur {
				ok := (c.svc == "" || t.svc == c.svc) && (len(c.tags) == 0 || contains(t.tags, c.tags))
				m[i] = vh.Bool(ok)
				if ok {
					n++
				}
			}
			if n == 0 {
				return "", 0, false // errNoMatch: NewTable fails
			}
			items = append(items, vh.App("CSetW", vh.List(m), zb(c.w)))
		case "del":
			keep := make([]string, len(cur))
			var next []target
			for i, t := range cur {
				del := t.svc == c.svc && (c.url == "" || t.url == c.url)
				keep[i] = vh.Bool(!del)
				if !del {
					next = append(next, t)
				}
			}
			if len(next) == 0 {
				return "", 0, false // the route would disappear
			}
			cur = next
			items = append(items, vh.App("CDel", vh.List(keep)))
		}
	}
	return vh.List(items), len(cur), true
}

// ---------- running the implementation ----------
type observed struct {
	panicked bool
	pval     string
	err      error
	fixed    []float64
	weights  []float64
	ring     []int
	order    []int
	cursor   uint64
	first    []int
	firstPan bool
	cycle    []int
	hasCycle bool
	rndK     []int
	rndGot   []int // -3 = panic
}

func build(s *sequence) (t route.Table, r *route.Route, o *observed) {
	o = &observed{}
	p, v := vh.Recover(func() {
		if !s.direct {
			t, o.err = route.NewTable(bytes.NewBufferString(s.text()))
			if o.err == nil {
				for _, x := range t[host] {
					if x.Path == "/" {
						r = x
					}
				}
			}
			return
		}
		r = &route.Route{Host: host, Path: "/"}
		for _, c := range s.cmds {
			switch c.kind {
			case "add":
				u, _ := url.Parse(c.tg.url)
				r.VerifAddTarget(c.tg.svc, u, c.w, c.tg.tags)
			case "weight":
				r.VerifSetWeight(c.svc, c.w, c.tags)
			case "del":
				c := c
				r.VerifFilter(func(tg *route.Target) bool {
					return tg.Service == c.svc && (c.url == "" || tg.URL.String() == c.url)
				})
			}
		}
		t = route.Table{host: route.Routes{r}}
	})
	if p {
		o.panicked, o.pval = true, fmt.Sprint(v)
	}
	return
}

func observe(run *vh.Run, s *sequence, cursor uint64) *observed {
	t, r, o := build(s)
	if o.panicked || o.err != nil {
		return o
	}
	if r == nil {
		o.err = fmt.Errorf("route %s/ missing after build", host)
		return o
	}
	pos := map[*route.Target]int{}
	for i, tg := range r.Targets {
		o.fixed = append(o.fixed, tg.FixedWeight)
		o.weights = append(o.weights, tg.Weight)
		pos[tg] = i
	}
	o.ring = r.VerifRing()
	// the order sort.Sort leaves the slot vector in (occupancy = slot count)
	occ := make([]int, len(r.Targets))
	for _, i := range o.ring {
		if i >= 0 && i < len(occ) {
			occ[i]++
		}
	}
	o.order = route.VerifSortOrder(occ)
	idx := func(tg *route.Target) int {
		if tg == nil {
			return 255
		}
		if i, ok := pos[tg]; ok {
			return i
		}
		return 254
	}
	// round-robin through Table.LookupHost
	o.cursor = cursor
	r.VerifSetCursor(cursor)
	p, _ := vh.Recover(func() {
		for k := 0; k < firstN; k++ {
			o.first = append(o.first, idx(t.LookupHost(host, route.Picker["rr"])))
		}
	})
	o.firstPan = p
	U := uint64(len(o.ring))
	if !p && U > 0 && cursor+U >= cursor { // no uint64 wrap inside the cycle
		r.VerifSetCursor(cursor)
		o.cycle = make([]int, len(r.Targets))
		o.hasCycle = true
		for k := uint64(0); k < U; k++ {
			if i := idx(t.LookupHost(host, route.Picker["rr"])); i < len(o.cycle) {
				o.cycle[i]++
			} else {
				o.hasCycle = false
			}
		}
	}
	// random picker with a scripted source
	ks := []int{0, len(o.ring) - 1, len(o.ring) / 2}
	for i := 0; i < 5 && len(o.ring) > 0; i++ {
		ks = append(ks, run.Rng.Intn(len(o.ring)))
	}
	for _, k := range ks {
		if k < 0 {
			k = 0
		}
		k := k
		restore := route.VerifSetRandIntn(func(n int) int {
			if n == 0 {
				return 0
			}
			return k % n
		})
		got := -3
		vh.Recover(func() { got = idx(t.LookupHost(host, route.Picker["rnd"])) })
		restore()
		o.rndK = append(o.rndK, k)
		o.rndGot = append(o.rndGot, got)
	}
	return o
}

// zb renders the bit pattern of a float64 as a non-negative Z literal
func zb(f float64) string { return "(" + strconv.FormatUint(math.Float64bits(f), 10) + ")%Z" }

func zbits(fs []float64) string {
	items := make([]string, len(fs))
	for i, f := range fs {
		items[i] = zb(f)
	}
	return vh.List(items)
}

func ringBytes(ring []int) []byte {
	b := make([]byte, len(ring))
	for i, x := range ring {
		switch {
		case x == -1:
			b[i] = 255
		case x < 0 || x > 253:
			b[i] = 254
		default:
			b[i] = byte(x)
		}
	}
	return b
}

func nlist(xs []int) string {
	items := make([]string, len(xs))
	for i, x := range xs {
		items[i] = vh.N(x)
	}
	return vh.List(items)
}

func (o *observed) coq() string {
	if o.panicked {
		return vh.Panic
	}
	if o.err != nil {
		return vh.Err(1)
	}
	order := make([]string, len(o.order))
	for i, x := range o.order {
		order[i] = vh.Nat(x)
	}
	first := vh.Panic
	if !o.firstPan {
		first = vh.Ok(nlist(o.first))
	}
	cycle := vh.None
	if o.hasCycle {
		cycle = vh.Some(nlist(o.cycle))
	}
	rnd := make([]string, len(o.rndK))
	for i := range o.rndK {
		got := vh.Panic
		if o.rndGot[i] >= 0 {
			got = vh.Ok(vh.N(o.rndGot[i]))
		}
		rnd[i] = vh.Pair(vh.Nat(o.rndK[i]), got)
	}
	return vh.Ok(fmt.Sprintf("{| o_fixed := %s; o_weights := %s; o_ring := %s; o_order := %s; o_cursor := %s; o_first := %s; o_cycle := %s; o_rnd := %s |}",
		zbits(o.fixed), zbits(o.weights), vh.Hx(ringBytes(o.ring)), vh.List(order), vh.N64(o.cursor), first, cycle, vh.List(rnd)))
}

// ---------- generators ----------
var svcs = []string{"s0", "s1", "s2", "s3", "s4"}
var tagPool = []string{"a", "b", "c"}

func mkTarget(r *rand.Rand, i int) target {
	t := target{svc: svcs[r.Intn(len(svcs))], url: fmt.Sprintf("http://h%d.c04.test:%d/", i, 8000+i)}
	for _, tg := range tagPool {
		if r.Intn(3) == 0 {
			t.tags = append(t.tags, tg)
		}
	}
	return t
}

// dec renders k/10^d as a decimal text, with a few spellings
func dec(r *rand.Rand, k int64, d int) string {
	s := strconv.FormatInt(k, 10)
	neg := strings.HasPrefix(s, "-")
	s = strings.TrimPrefix(s, "-")
	for len(s) <= d {
		s = "0" + s
	}
	s = s[:len(s)-d] + "." + s[len(s)-d:]
	if d == 0 {
		s = strings.TrimSuffix(s, ".")
	}
	switch r.Intn(6) {
	case 0:
		if strings.HasPrefix(s, "0.") {
			s = s[1:]
		}
	case 1:
		if d > 0 {
			s = strings.TrimRight(s, "0")
			s = strings.TrimSuffix(s, ".")
			if s == "" {
				s = "0"
			}
		}
	}
	if neg {
		s = "-" + s
	}
	return s
}

func pf(s string) float64 {
	f, err := strconv.ParseFloat(s, 64)
	if err != nil {
		panic("harness: bad weight text " + s)
	}
	return f
}

// a weight vector class: returns the weight texts ("" = dynamic) of n targets
type vecGen func(r *rand.Rand, n int) []string

// split total (in units of 10^-d) into k positive parts
func splitUnits(r *rand.Rand, total int64, k int) []int64 {
	parts := make([]int64, k)
	if total < int64(k) {
		total = int64(k)
	}
	rem := total - int64(k)
	cuts := make([]int64, k)
	var sum int64
	for i := range cuts {
		cuts[i] = int64(r.Intn(1000)) + 1
		sum += cuts[i]
	}
	var used int64
	for i := range parts {
		parts[i] = 1 + rem*cuts[i]/sum
		used += parts[i]
	}
	parts[r.Intn(k)] += total - used
	return parts
}

// fixedSum gives nf of n targets fixed weights summing to total/10^d, the rest dynamic
func fixedSum(r *rand.Rand, n, nf int, total int64, d int) []string {
	ws := make([]string, n)
	perm := r.Perm(n)
	for i, p := range splitUnits(r, total, nf) {
		ws[perm[i]] = dec(r, p, d)
	}
	return ws
}

func pow10(d int) int64 {
	x := int64(1)
	for i := 0; i < d; i++ {
		x *= 10
	}
	return x
}

var classes = []struct {
	name string
	gen  vecGen
}{
	{"none-fixed", func(r *rand.Rand, n int) []string { return make([]string, n) }},
	{"some-fixed-lt1", func(r *rand.Rand, n int) []string {
		if n < 2 {
			n = 2
		}
		d := 2 + r.Intn(3)
		return fixedSum(r, n, 1+r.Intn(n-1), int64(n)+r.Int63n(pow10(d)-int64(n)-1), d)
	}},
	{"some-fixed-eq1", func(r *rand.Rand, n int) []string {
		if n < 2 {
			n = 2
		}
		d := 2 + r.Intn(3)
		return fixedSum(r, n, 1+r.Intn(n-1), pow10(d), d)
	}},
	{"some-fixed-gt1", func(r *rand.Rand, n int) []string {
		if n < 2 {
			n = 2
		}
		d := 2 + r.Intn(3)
		return fixedSum(r, n, 1+r.Intn(n-1), pow10(d)+1+r.Int63n(3*pow10(d)), d)
	}},
	{"all-fixed-lt1", func(r *rand.Rand, n int) []string {
		d := 2 + r.Intn(3)
		return fixedSum(r, n, n, int64(n)+r.Int63n(pow10(d)-int64(n)-1), d)
	}},
	{"all-fixed-eq1", func(r *rand.Rand, n int) []string {
		d := 2 + r.Intn(3)
		return fixedSum(r, n, n, pow10(d), d)
	}},
	{"all-fixed-gt1", func(r *rand.Rand, n int) []string {
		d := 2 + r.Intn(3)
		return fixedSum(r, n, n, pow10(d)+1+r.Int63n(3*pow10(d)), d)
	}},
	{"tiny", func(r *rand.Rand, n int) []string {
		// some targets below the ring's resolution of 1e-4: the one-slot guard
		ws := make([]string, n)
		for i := range ws {
			switch r.Intn(4) {
			case 0:
				ws[i] = dec(r, 1+r.Int63n(99), 6) // < 1e-4
			case 1:
				ws[i] = []string{"1e-5", "9.9e-5", "1e-7", "0.00009999", "1e-12", "0.0001", "0.00011"}[r.Intn(7)]
			case 2:
				ws[i] = dec(r, 1+r.Int63n(3000), 4)
			}
		}
		return ws
	}},
	{"boundary", func(r *rand.Rand, n int) []string {
		// k/10000 exactly: 1e4*w sits on an integer up to rounding
		ws := make([]string, n)
		for i := range ws {
			if r.Intn(4) != 0 {
				ws[i] = dec(r, 1+r.Int63n(int64(20000/n)), 4)
			}
		}
		return ws
	}},
	{"negative", func(r *rand.Rand, n int) []string {
		ws := make([]string, n)
		for i := range ws {
			switch r.Intn(3) {
			case 0:
				ws[i] = dec(r, -1-r.Int63n(20000), 4)
			case 1:
				ws[i] = dec(r, 1+r.Int63n(3000), 4)
			}
		}
		return ws
	}},
}

func sizeOf(r *rand.Rand) int {
	switch r.Intn(10) {
	case 0:
		return 1
	case 1:
		return 2
	case 2:
		return 3
	case 3, 4:
		return 13 + r.Intn(28) // beyond pdqsort's insertion-sort threshold: unstable tie order
	default:
		return 1 + r.Intn(40)
	}
}

func cursorOf(r *rand.Rand) uint64 {
	switch r.Intn(8) {
	case 0:
		return 0
	case 1:
		return math.MaxUint64 - uint64(r.Intn(40)) // the uint64 wrap falls inside the first picks
	case 2:
		return math.MaxUint64 - uint64(10000+r.Intn(20000))
	case 3:
		return uint64(r.Intn(30000))
	default:
		return r.Uint64()
	}
}

func addsOf(r *rand.Rand, ws []string) []command {
	cmds := make([]command, len(ws))
	for i, w := range ws {
		c := command{kind: "add", tg: mkTarget(r, i), wtext: w}
		if w != "" {
			c.w = pf(w)
		}
		cmds[i] = c
	}
	return cmds
}

func main() {
	run := vh.Start("C04")
	r := run.Rng
	nFull := 0
	// the real-listener class runs beside the in-process classes (listener.go); its cases are added last
	finishListen := listenStart(run)

	emit := func(class string, s *sequence, full bool) {
		term, ntargets, ok := s.coq()
		if !ok {
			run.Exclude("generated sequence leaves no target / a route weight command matches nothing")
			return
		}
		if !s.direct && s.nonFinite() {
			// /repo 0b2a40e: parseWeight rejects NaN and +-Inf, NewTable must fail; the sequence itself
			// is then run at the level such weights can still occur (addTarget / setWeight through the hooks)
			var bits []string
			for _, c := range s.cmds {
				if c.kind != "del" {
					bits = append(bits, zb(c.w))
				}
			}
			var err error
			p, _ := vh.Recover(func() { _, err = route.NewTable(bytes.NewBufferString(s.text())) })
			impl := vh.Ok(vh.Bool(err == nil))
			if p {
				impl = vh.Panic
			}
			run.Add(class+"-text-rejected", vh.App("CParse", vh.List(bits), impl),
				map[string]interface{}{"config": s.text(), "newtable_error": fmt.Sprint(err), "panic": p})
			s.direct = true
			class += "-hook"
		}
		if !s.direct && r.Intn(4) == 0 {
			s.noise = true
		}
		o := observe(run, s, cursorOf(r))
		if full {
			nFull++
		}
		sample := map[string]interface{}{"direct": s.direct, "targets": ntargets, "full_ring_compared": full}
		if s.direct {
			var ws []string
			for _, c := range s.cmds {
				ws = append(ws, c.kind+":"+strconv.FormatFloat(c.w, 'g', -1, 64))
			}
			sample["cmds"] = ws
		} else {
			sample["config"] = s.text()
		}
		if o.panicked {
			sample["impl"] = "panic: " + o.pval
		} else if o.err != nil {
			sample["impl"] = "error: " + o.err.Error()
		} else {
			ws := make([]string, len(o.weights))
			for i, w := range o.weights {
				ws[i] = strconv.FormatFloat(w, 'g', -1, 64) // strings: JSON has no NaN / Inf
			}
			sample["weights"] = ws
			sample["ring_len"] = len(o.ring)
			sample["cursor"] = o.cursor
			sample["pick_panic"] = o.firstPan
		}
		run.Add(class, vh.App("CRoute", term, vh.Bool(full), o.coq()), sample)
	}

	// how many cases get the complete ring layout recomputed by the model (list-based fill of ~10^4 slots)
	fullEvery := run.Scale(70, 40)
	debugEdgeOnly := os.Getenv("C04_DEBUG_EDGE_ONLY") != "" // development aid: only the float corner cases

	// 1. weight vectors by class, through the config language
	perClass := run.Scale(38, 1500)
	if debugEdgeOnly {
		perClass = 0
	}
	k := 0
	for _, cl := range classes {
		for i := 0; i < perClass; i++ {
			n := sizeOf(r)
			ws := cl.gen(r, n)
			s := &sequence{cmds: addsOf(r, ws)}
			k++
			emit(cl.name, s, k%fullEvery == 0)
		}
	}

	// 2. route weight commands over services and tags (and deletions) after the adds
	for i := 0; i < run.Scale(110, 4000) && !debugEdgeOnly; i++ {
		n := 2 + r.Intn(24)
		cl := classes[r.Intn(len(classes))]
		s := &sequence{cmds: addsOf(r, cl.gen(r, n))}
		for j := 1 + r.Intn(4); j > 0; j-- {
			switch r.Intn(5) {
			case 0: // delete a service / one target
				c := command{kind: "del", svc: svcs[r.Intn(len(svcs))]}
				if r.Intn(2) == 0 {
					tg := s.cmds[r.Intn(n)].tg
					c.svc, c.url = tg.svc, tg.url
				}
				s.cmds = append(s.cmds, c)
			default:
				c := command{kind: "weight"}
				switch r.Intn(8) {
				case 0:
					c.wtext = "0"
				case 1:
					c.wtext = dec(r, -1-r.Int63n(5000), 4)
				case 2:
					c.wtext = dec(r, 10000+r.Int63n(20000), 4)
				case 3:
					c.wtext = dec(r, 1+r.Int63n(99), 6)
				default:
					c.wtext = dec(r, 1+r.Int63n(9999), 4)
				}
				c.w = pf(c.wtext)
				switch r.Intn(3) {
				case 0:
					c.svc = svcs[r.Intn(len(svcs))]
				case 1:
					c.svc = svcs[r.Intn(len(svcs))]
					c.tags = []string{tagPool[r.Intn(len(tagPool))]}
				default:
					c.tags = []string{tagPool[r.Intn(len(tagPool))]}
					if r.Intn(3) == 0 {
						c.tags = append(c.tags, tagPool[r.Intn(len(tagPool))])
					}
				}
				s.cmds = append(s.cmds, c)
			}
		}
		k++
		emit("route-weight-del", s, k%fullEvery == 0)
	}

	// 3. raw float64 weights through the hooks: k/10000 +- 1 ulp, random doubles
	for i := 0; i < run.Scale(80, 3000) && !debugEdgeOnly; i++ {
		n := 1 + r.Intn(16)
		s := &sequence{direct: true}
		for j := 0; j < n; j++ {
			c := command{kind: "add", tg: mkTarget(r, j)}
			switch r.Intn(6) {
			case 0:
			case 1, 2:
				w := float64(1+r.Intn(20000/n)) / 10000
				switch r.Intn(3) {
				case 0:
					w = math.Nextafter(w, 0)
				case 1:
					w = math.Nextafter(w, 2)
				}
				c.w = w
			case 3:
				c.w = r.Float64() / float64(n)
			case 4:
				c.w = r.Float64() * 3
			case 5:
				c.w = math.Ldexp(r.Float64(), -r.Intn(60))
			}
			s.cmds = append(s.cmds, c)
		}
		if r.Intn(3) == 0 {
			s.cmds = append(s.cmds, command{kind: "weight", svc: s.cmds[r.Intn(n)].tg.svc, w: r.Float64() * 1.2})
		}
		k++
		emit("raw-float", s, k%fullEvery == 0)
	}

	// 4. equal slot counts on more than 12 targets (tie order of the unstable sort decides the layout)
	for i := 0; i < run.Scale(9, 200) && !debugEdgeOnly; i++ {
		n := 13 + r.Intn(28)
		ws := make([]string, n)
		for j := range ws {
			ws[j] = []string{"0.01", "0.02", "0.01", "0.005"}[r.Intn(4)]
		}
		emit("ties", &sequence{cmds: addsOf(r, ws)}, i%3 == 0)
	}

	// 4b. the boundaries of the fallback of commit 290c777 (weighEvenly when a computed weight fails
	// `w >= 0 && w <= 1+1e-9` or usedSlots <= 0).
	// (i) subnormal / tiny fixed weights: 1/sumFixed is finite or +Inf depending on the sum
	for i := 0; i < run.Scale(40, 600) && !debugEdgeOnly; i++ {
		n := 1 + r.Intn(4)
		if r.Intn(4) == 0 {
			n = 5 + r.Intn(36)
		}
		s := &sequence{direct: true}
		for j := 0; j < n; j++ {
			c := command{kind: "add", tg: mkTarget(r, j)}
			switch r.Intn(6) {
			case 0: // dynamic
			case 1:
				c.w = math.Float64frombits(uint64(1 + r.Intn(1<<20))) // deep subnormal
			case 2:
				c.w = (1 + 7*r.Float64()) * 1e-309 // around 2^-1024 .. 2^-1021: 1/sum at the overflow threshold
			case 3:
				c.w = math.Ldexp(1+r.Float64(), -1025+r.Intn(6))
			case 4:
				c.w = math.Ldexp(1+r.Float64(), -1000+r.Intn(900))
			case 5:
				c.w = []float64{1e-300, 1e-310, 2.2250738585072014e-308, 1.1125369292536007e-308, 5.562684646268003e-309}[r.Intn(5)]
			}
			s.cmds = append(s.cmds, c)
		}
		emit("fallback-subnormal", s, false)
	}
	// (ii) huge fixed weights: the sum is finite or +Inf (scale 0, every weight 0, usedSlots = 0)
	for i := 0; i < run.Scale(30, 400) && !debugEdgeOnly; i++ {
		n := 2 + r.Intn(3)
		s := &sequence{direct: true}
		for j := 0; j < n; j++ {
			c := command{kind: "add", tg: mkTarget(r, j)}
			switch r.Intn(5) {
			case 0:
			case 1:
				c.w = (0.2 + 1.5*r.Float64()) * 1e308
			case 2:
				c.w = math.MaxFloat64 / float64(n) * (0.999 + 0.002*r.Float64())
			case 3:
				c.w = math.Ldexp(1+r.Float64(), 900+r.Intn(123))
			case 4:
				c.w = []float64{math.MaxFloat64, 8.98846567431158e307, 1e308, 1.7e308}[r.Intn(4)]
			}
			s.cmds = append(s.cmds, c)
		}
		emit("fallback-huge", s, false)
	}
	// (iii) the literal of the test itself, and weights next to it (only reachable as FixedWeights, which
	// are scaled before they are tested; included so that a change of the constant's role shows)
	for _, w := range []float64{1 + 1e-9, math.Nextafter(1+1e-9, 2), math.Nextafter(1+1e-9, 0), 1, math.Nextafter(1, 2), 1.000001} {
		for _, extra := range []int{0, 1, 3} {
			s := &sequence{direct: true}
			s.cmds = append(s.cmds, command{kind: "add", tg: mkTarget(r, 0), w: w})
			for j := 0; j < extra; j++ {
				c := command{kind: "add", tg: mkTarget(r, j+1)}
				if j == 1 {
					c.w = 1e-12
				}
				s.cmds = append(s.cmds, c)
			}
			emit("fallback-literal", s, false)
		}
	}
	// (iv) one or two small fixed weights in front of a large pool of dynamic targets: every
	// target is below or near one slot (quick: up to 250 targets, the ring bytes hold indices < 254)
	for i := 0; i < run.Scale(6, 60) && !debugEdgeOnly; i++ {
		n := 120 + r.Intn(130)
		ws := make([]string, n)
		ws[r.Intn(n)] = []string{"1e-5", "0.99", "0.9999", "0.00001", "1e-12", "0.5"}[r.Intn(6)]
		if r.Intn(2) == 0 {
			ws[r.Intn(n)] = []string{"1e-5", "0.009", "1e-7"}[r.Intn(3)]
		}
		emit("many-dynamic", &sequence{cmds: addsOf(r, ws)}, false)
	}

	// (v) the same service, destination and tags added AGAIN with another weight: addTarget's
	// de-duplication compares the weight too, so this is a further target of the route and the
	// route is weighed again - also when the re-add is the last command that touches the route.
	// Own random stream.
	{
		rr := rand.New(rand.NewSource(run.Seed*7919 + 44))
		pairs := [][2]string{{"", "0.9"}, {"0.1", "0.6"}, {"0.5", "0.25"}, {"0.2", "0.7"}, {"", "0.05"}, {"0.3", "1"}, {"0.05", "0.5"}}
		for i := 0; i < run.Scale(14, 140); i++ {
			pw := pairs[i%len(pairs)]
			s := &sequence{}
			t0 := mkTarget(rr, 0)
			first := command{kind: "add", tg: t0, wtext: pw[0]}
			if pw[0] != "" {
				first.w, _ = strconv.ParseFloat(pw[0], 64)
			}
			s.cmds = append(s.cmds, first)
			for j := 1; j <= 1+rr.Intn(3); j++ {
				c := command{kind: "add", tg: mkTarget(rr, j)}
				if rr.Intn(3) == 0 {
					c.wtext = []string{"0.1", "0.2", "0.05"}[rr.Intn(3)]
					c.w, _ = strconv.ParseFloat(c.wtext, 64)
				}
				s.cmds = append(s.cmds, c)
			}
			again := command{kind: "add", tg: t0, wtext: pw[1]}
			again.w, _ = strconv.ParseFloat(pw[1], 64)
			s.cmds = append(s.cmds, again)
			if i%3 == 2 { // sometimes something else follows (which weighs the route again anyway)
				s.cmds = append(s.cmds, command{kind: "add", tg: mkTarget(rr, 9)})
			}
			emit("re-add-other-weight", s, false)
		}
	}

	// 5. float64 corner cases through the config language and through setWeight
	edge := [][]string{
		{"Inf"}, {"+Inf", ""}, {"", "inf"}, {"0.5", "Inf"}, {"Inf", "Inf"},
		{"1e308", "1e308"}, {"1e308", "1e308", ""}, {"1.7e308", "1e307", "0.5"}, {"1e308"}, {"1e308", ""},
		{"5e-324"}, {"5e-324", ""}, {"5e-324", "5e-324"}, {"1e-310"}, {"2e-308"}, {"1e-320", "1e-320", "1e-320"},
		{"NaN"}, {"NaN", ""}, {"nan", "0.5"}, {"-Inf", ""}, {"-Inf"}, {"1e300", "1e-300"}, {"1e-300"}, {"4e-309", "4e-309"},
		// proportional scaling lost to the even fallback (finding F-C04-3): 1/3 : 2/3 and 0.4 : 0.6 expected
		{"5e-324", "1e-323"}, {"1e-323", "5e-324", "1.5e-323"}, {"1e308", "1.5e308"}, {"1.7e308", "1e307", "0.5"}, {"3e-320", "1e-320"},
		// just inside the range where 1/sumFixed is finite: proportional
		{"6e-309", "1.2e-308"}, {"1e-300", "3e-300"}, {"4e307", "1.2e308"},
	}
	for _, ws := range edge {
		emit("float-edge", &sequence{cmds: addsOf(r, ws)}, false)
	}
	for _, w := range []string{"Inf", "NaN", "-Inf", "1e308", "5e-324", "1e-323"} {
		for _, n := range []int{1, 2, 3} {
			s := &sequence{cmds: addsOf(r, make([]string, n))}
			for i := range s.cmds {
				s.cmds[i].tg.svc = "s0"
			}
			s.cmds = append(s.cmds, command{kind: "weight", svc: "s0", wtext: w, w: pf(w)})
			emit("float-edge-setweight", s, false)
		}
	}

	// 9. weights written in consul registrations (registration.go; own random stream)
	if !debugEdgeOnly {
		registrationCases(run.Seed, run.Scale(60, 1500), emit)
	}

	finishListen()
	run.Notes["full_ring_cases"] = nFull
	run.Finish(preamble, run.Scale(38, 250))
}
