// Class registration-weights: the weights of a route whose targets come from consul registrations.
//
// What an operator writes is a list of service instances, each with an ordered list of tags:
// `urlprefix-c04.test/ weight=0.2` gives THAT instance the fixed weight 0.2 on the route c04.test/,
// `urlprefix-c04.test/` gives it none (it shares the remainder); tags of the same instance for other
// routes (c04.test/app, other.test/) and plain tags say nothing about the route c04.test/.  The harness
// writes down this meaning as the command sequence of the case (one add per instance that names the
// route, with the weight of its own tag); the implementation side is the real routecmd.build of every
// instance (hook VerifC14Build) and the real route.NewTable of the text it produced.  The case is an
// ordinary CRoute case: Check/C04.v compares the route's fixed weights, weights, ring and picks with
// the model run on the sequence and evaluates the property's clauses on them.
package main

import (
	"fmt"
	"math/rand"
	"strings"

	"github.com/fabiolb/fabio/registry/consul"
	"github.com/hashicorp/consul/api"
)

type regInstance struct {
	name string
	addr string
	port int
	tags []string
}

func registrationCases(seed int64, n int, emit func(class string, s *sequence, full bool)) {
	r := rand.New(rand.NewSource(seed*1299709 + 4))
	weightText := func() string {
		switch r.Intn(4) {
		case 0:
			return []string{"0.1", "0.25", "0.5", "0.05", "0.9", "1", "0"}[r.Intn(7)]
		default:
			return dec(r, 1+r.Int63n(6000), 4)
		}
	}
	for i := 0; i < n; i++ {
		ninst := 2 + r.Intn(6)
		var insts []regInstance
		s := &sequence{}
		class := "registration-weights"
		earlier, sumFixed := false, 0.0
		for j := 0; j < ninst; j++ {
			in := regInstance{name: svcs[r.Intn(len(svcs))], addr: fmt.Sprintf("h%d.c04.test", j), port: 8000 + j}
			var plain []string
			for _, tg := range tagPool {
				if r.Intn(4) == 0 {
					plain = append(plain, tg)
				}
			}
			// the tag of the observed route: with a weight of its own, or without
			own, wtext := "urlprefix-"+host+"/", ""
			if r.Intn(2) == 0 {
				wtext = weightText()
				if sumFixed+pf(wtext) > 1.2 { // keep most sums below one; the over-committed case has classes of its own
					wtext = ""
				} else {
					sumFixed += pf(wtext)
					own += " weight=" + wtext
				}
			}
			if r.Intn(3) == 0 {
				own += " strip=/x"
			}
			// tags of the same instance for OTHER routes, before and after it
			other := func() string {
				t := "urlprefix-" + []string{host + "/app", host + "/checkout", "other.test/", "other.test/api"}[r.Intn(4)]
				if r.Intn(3) > 0 {
					t += " weight=" + weightText()
				}
				return t
			}
			var before, after []string
			for k := r.Intn(3); k > 0; k-- {
				before = append(before, other())
			}
			for k := r.Intn(3); k > 0; k-- {
				after = append(after, other())
			}
			names := r.Intn(6) > 0 // most instances name the observed route
			tags := append([]string{}, before...)
			if names {
				tags = append(tags, own)
			}
			tags = append(tags, after...)
			// plain tags anywhere
			for _, p := range plain {
				k := r.Intn(len(tags) + 1)
				tags = append(tags[:k], append([]string{p}, tags[k:]...)...)
			}
			in.tags = tags
			insts = append(insts, in)
			if names {
				c := command{kind: "add", wtext: wtext, tg: target{svc: in.name, tags: plain, url: fmt.Sprintf("http://%s:%d/", in.addr, in.port)}}
				if wtext != "" {
					c.w = pf(wtext)
				}
				s.cmds = append(s.cmds, c)
				for _, b := range before {
					if wtext == "" && strings.Contains(b, "weight=") {
						earlier = true
					}
				}
			}
		}
		if len(s.cmds) == 0 {
			continue
		}
		if earlier {
			class += "-unweighted-after-weighted-tag"
		}
		var lines []string
		for _, in := range insts {
			svc := &api.CatalogService{ServiceName: in.name, ServiceID: in.name + "-" + in.addr, ServiceAddress: in.addr, Address: "node.c04.test", ServicePort: in.port, ServiceTags: in.tags}
			lines = append(lines, consul.VerifC14Build(svc, "urlprefix-", map[string]string{})...)
		}
		s.override = strings.Join(lines, "\n") + "\n"
		emit(class, s, i%7 == 0)
	}
}
