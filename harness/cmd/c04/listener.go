// The real-listener class of the C04 harness: fabio's real main() (driver
// /repo/verif_c04_test.go, one `go test` process per job since main() parses flags once) with
// ONE listener `proto=https+tcp+sni`, the static registry backend, a tcp route and an http
// route with generated weights, and a generated schedule of sequential connections (TLS with
// the SNI name of the tcp route, HTTPS requests for the http route with and without a Trace
// header, HTTPS requests for a name without route).  What the pickers are asked by main.go's wiring - the tcpproxy matcher
// (lookupHostMatcher), the SNI proxy (lookupHostFn) and the http proxy (newHTTPProxy) - is
// thereby inside the correspondence: the Coq side (Check/C04.v: CListen) runs
// Model/ListenerPick.v over the same schedule and compares the upstream of every connection
// and the final round-robin cursors, and judges the property's clauses on the observed
// per-target counts.  The random choices come from a source of their own so that the inputs of
// the other classes do not depend on this one.
package main

import (
	"encoding/json"
	"fmt"
	"math/rand"
	"os"
	"os/exec"
	"path/filepath"
	"strings"
	"sync"

	"verifharness/internal/vh"
)

type listenJob struct {
	Strategy string
	TCP      []string
	HTTP     []string
	Sched    string
	class    string
}

type listenRoute struct {
	Fixed   []uint64
	Weights []uint64
	Ring    []int
	Order   []int
	Before  uint64
	After   uint64
}

type listenOut struct {
	DB, Web listenRoute
	Ups     []int
	Errs    []string
}

type listenResult struct {
	job  listenJob
	out  *listenOut
	tail string // output of the driver when it produced no result
}

// weight vectors of a route of n targets ("" = no weight clause)
func listenWeights(r *rand.Rand, n int, fixed bool) []string {
	ws := make([]string, n)
	if !fixed {
		return ws
	}
	switch r.Intn(5) {
	case 0: // every target fixed, equal parts of 100%
		for i := range ws {
			ws[i] = []string{"1", "0.5", "0.3333", "0.25", "0.2", "0.1666"}[n-1]
		}
	case 1: // one fixed, the others share the rest
		ws[r.Intn(n)] = []string{"0.2", "0.5", "0.75", "0.05", "0.9"}[r.Intn(5)]
	case 2: // more than 100% fixed next to dynamic targets: those get weight 0 and no connection
		for i := range ws {
			if i < 2 && i < n-1 || n == 1 {
				ws[i] = []string{"0.7", "0.6", "0.9"}[r.Intn(3)]
			}
		}
	case 3: // all fixed below 100%: scaled up
		for i := range ws {
			ws[i] = fmt.Sprintf("0.%02d", 1+r.Intn(99/n))
		}
	default: // a random mix
		for i := range ws {
			if r.Intn(2) == 0 {
				ws[i] = fmt.Sprintf("0.%02d", 1+r.Intn(60))
			}
		}
	}
	return ws
}

func anyFixed(ws []string) bool {
	for _, w := range ws {
		if w != "" {
			return true
		}
	}
	return false
}

// number of connections for a route: whole cycles of the target list when no weight is fixed
// (the ring is the target list), sometimes with a rest; a window of the 10^4-slot ring otherwise
func listenConns(r *rand.Rand, ws []string, full bool) int {
	if anyFixed(ws) {
		if full {
			return 10050 // at least one whole cycle of the filled ring (10000 +- len slots)
		}
		return 24 + r.Intn(24)
	}
	n := len(ws) * (2 + r.Intn(5))
	if r.Intn(4) == 0 {
		n += r.Intn(len(ws))
	}
	return n
}

func listenJobs(run *vh.Run, r *rand.Rand) []listenJob {
	var jobs []listenJob
	directed := [][2]int{{2, 2}, {4, 3}, {3, 4}, {2, 6}, {6, 2}, {1, 2}, {5, 1}}
	n := run.Scale(14, 40)
	for i := 0; i < n; i++ {
		k, m := 1+r.Intn(6), 1+r.Intn(6)
		if i < len(directed) {
			k, m = directed[i][0], directed[i][1]
		}
		j := listenJob{Strategy: "rr", class: "listener-rr-equal"}
		fixed := i >= len(directed) && i%3 == 1
		if i >= len(directed) && i%7 == 3 {
			j.Strategy, j.class, fixed = "rnd", "listener-rnd-control", false
		}
		j.TCP, j.HTTP = listenWeights(r, k, fixed && r.Intn(3) != 0), listenWeights(r, m, fixed && r.Intn(3) != 0)
		if anyFixed(j.TCP) || anyFixed(j.HTTP) {
			j.class = "listener-rr-fixed"
		}
		var sched []byte
		for c := listenConns(r, j.TCP, false); c > 0; c-- {
			sched = append(sched, 'd')
		}
		for c := listenConns(r, j.HTTP, false); c > 0; c-- {
			// every third request or so carries a Trace header (main.go hands it to Table.Lookup)
			if r.Intn(3) == 0 {
				sched = append(sched, 't')
			} else {
				sched = append(sched, 'w')
			}
		}
		for c := r.Intn(4); c > 0; c-- {
			sched = append(sched, 'x')
		}
		switch r.Intn(4) {
		case 0: // route by route
		default:
			r.Shuffle(len(sched), func(a, b int) { sched[a], sched[b] = sched[b], sched[a] })
		}
		j.Sched = string(sched)
		jobs = append(jobs, j)
	}
	if run.Thorough() {
		// whole cycles of a filled ring (about 10^4 connections each), judged by the per-target counts
		for _, ws := range [][]string{{"0.25", "", ""}, {"0.5", "0.5"}, {"0.1", "0.3"}, {"0.7", "0.6", ""}} {
			j := listenJob{Strategy: "rr", class: "listener-rr-fixed-full-cycle", TCP: ws, HTTP: []string{"", ""}}
			j.Sched = strings.Repeat("d", listenConns(r, ws, true)) + "wtwt"
			jobs = append(jobs, j)
		}
	}
	return jobs
}

// listenStart builds the driver and runs the jobs in the background; the returned function waits
// for them and adds the cases (after all other classes, so that their case ids do not move).
func listenStart(run *vh.Run) (finish func()) {
	r := rand.New(rand.NewSource(run.Seed*7919 + 4))
	jobs := listenJobs(run, r)
	repo := os.Getenv("VERIF_REPO")
	if repo == "" {
		repo = "/repo"
	}
	dir, err := os.MkdirTemp("", "c04listen")
	if err != nil {
		panic(err)
	}
	results := make([]listenResult, len(jobs))
	var buildErr string
	done := make(chan struct{})
	go func() {
		defer close(done)
		bin := filepath.Join(dir, "fabio.test")
		cmd := exec.Command("go", "test", "-tags", "verif", "-c", "-o", bin, ".")
		cmd.Dir = repo
		if out, err := cmd.CombinedOutput(); err != nil {
			buildErr = err.Error() + "\n" + string(out)
			return
		}
		var wg sync.WaitGroup
		sem := make(chan struct{}, 4)
		for i := range jobs {
			i := i
			wg.Add(1)
			sem <- struct{}{}
			go func() {
				defer wg.Done()
				defer func() { <-sem }()
				results[i] = listenRun(bin, repo, dir, i, jobs[i])
			}()
		}
		wg.Wait()
	}()
	return func() {
		<-done
		defer os.RemoveAll(dir)
		if buildErr != "" {
			run.Violation(run.NextID(), "cannot build the real-main driver (go test -tags verif -c in "+repo+")", buildErr)
			return
		}
		for _, res := range results {
			listenEmit(run, res)
		}
	}
}

func listenRun(bin, repo, dir string, i int, job listenJob) listenResult {
	res := listenResult{job: job}
	b, _ := json.Marshal(job)
	inF, outF := filepath.Join(dir, fmt.Sprintf("in%d.json", i)), filepath.Join(dir, fmt.Sprintf("out%d.json", i))
	os.WriteFile(inF, b, 0o644)
	// a second attempt only when the driver produced nothing at all (a port of the proxy taken in the meantime)
	for attempt := 0; attempt < 2 && res.out == nil; attempt++ {
		c := exec.Command(bin, "-test.run", "TestVerifC04$", "-test.count=1", "-test.timeout=5m")
		c.Dir = repo
		c.Env = append(os.Environ(), "VERIF_C04_IN="+inF, "VERIF_C04_OUT="+outF)
		outb, err := c.CombinedOutput()
		ob, rerr := os.ReadFile(outF)
		var out listenOut
		if err == nil && rerr == nil && json.Unmarshal(ob, &out) == nil {
			res.out = &out
			break
		}
		res.tail = string(outb)
		if len(res.tail) > 1500 {
			res.tail = res.tail[len(res.tail)-1500:]
		}
	}
	return res
}

func bitsList(bs []uint64) string {
	items := make([]string, len(bs))
	for i, b := range bs {
		items[i] = fmt.Sprintf("(%d)%%Z", b)
	}
	return vh.List(items)
}

func listenEmit(run *vh.Run, res listenResult) {
	job := res.job
	if res.out == nil {
		run.Violation(run.NextID(), fmt.Sprintf("fabio's real main() did not come up with an https+tcp+sni listener or the C04 driver failed (job %+v)", job), res.tail)
		return
	}
	out := res.out
	strategy := 0
	if job.Strategy == "rnd" {
		strategy = 1
	}
	routeIn := func(ws []string) string {
		items := make([]string, len(ws))
		for i, w := range ws {
			f := 0.0
			if w != "" {
				f = pf(w)
			}
			items[i] = zb(f)
		}
		return vh.List(items)
	}
	routeObs := func(o listenRoute) string {
		return fmt.Sprintf("{| lo_fixed := %s; lo_weights := %s; lo_ring := %s; lo_before := %s; lo_after := %s |}",
			bitsList(o.Fixed), bitsList(o.Weights), vh.Hx(ringBytes(o.Ring)), vh.N64(o.Before), vh.N64(o.After))
	}
	// upstream index -> index of the target in r.Targets
	inv := func(o listenRoute, up int) int {
		for p, u := range o.Order {
			if u == up {
				return p
			}
		}
		return 254
	}
	sched := make([]string, len(job.Sched))
	ups := make([]string, len(out.Ups))
	for i, c := range job.Sched {
		sched[i] = vh.N(map[rune]int{'d': 0, 'w': 1, 't': 1, 'x': 2}[c])
		if i >= len(out.Ups) {
			continue
		}
		up := out.Ups[i]
		switch {
		case up == -1:
			up = 255
		case up < 0:
			up = 254
		case c == 'd':
			up = inv(out.DB, up)
		case c == 'w' || c == 't':
			up = inv(out.Web, up)
		default:
			up = 254 // an upstream answered for a name without route
		}
		ups[i] = vh.N(up)
	}
	impl := vh.Ok(fmt.Sprintf("{| l_routes := [%s; %s]; l_ups := %s |}", routeObs(out.DB), routeObs(out.Web), vh.List(ups)))
	sample := map[string]interface{}{"strategy": job.Strategy, "tcp_weights": job.TCP, "http_weights": job.HTTP, "schedule": job.Sched,
		"upstreams": out.Ups, "tcp_ring_len": len(out.DB.Ring), "http_ring_len": len(out.Web.Ring),
		"tcp_cursor_after": out.DB.After, "http_cursor_after": out.Web.After, "driver_errors": out.Errs}
	run.Add(job.class, vh.App("CListen", vh.N(strategy), vh.List([]string{routeIn(job.TCP), routeIn(job.HTTP)}), vh.List(sched), impl), sample)
}
