// Correspondence harness for C13 (redirect routes): runs the real
// Target.BuildRedirectURL + url.URL.String, the real redirect-option parsing
// through route.NewTable, and the real HTTPProxy.ServeHTTP over the real
// Table.Lookup (httptest recorder + counting RoundTripper), including the forced
// two-request schedule Lookup A, Lookup B, serve A, serve B.
package main

import (
	"bytes"
	"crypto/tls"
	"fmt"
	"io"
	"bufio"
	"math/rand"
	"net"
	"net/http"
	"net/http/httptest"
	"net/url"
	"strconv"
	"strings"
	"sync"
	"sync/atomic"
	"time"

	"github.com/fabiolb/fabio/config"
	"github.com/fabiolb/fabio/proxy"
	"github.com/fabiolb/fabio/registry/consul"
	"github.com/fabiolb/fabio/route"
	"github.com/hashicorp/consul/api"

	"verifharness/internal/vh"
)

const preamble = `From Coq Require Import String List NArith ZArith.
From Fabio Require Import Lib.Outcome Lib.Bytes Lib.Pack Model.Redirect Model.RedirectSpec Model.RedirectTag Model.RedirectProto Model.RedirectNoGlob Check.C13.
Import ListNotations.
Local Open Scope N_scope.
`

// ---- generators ----

var schemes = []string{"https", "http"}
var tmplHosts = []string{"$host", "$host", "bar.com", "www.foo.com", "www.$host", "bar.com:8443", "$host:8443"}

// path part of the documented template forms ("" and "/" and "/a/b/c" are static)
var tmplPaths = []string{"$path", "/$path", "/bbb$path", "/bbb/$path", "$path", "/$path", "", "/", "/a/b/c", "/bbb/$path/tail", "/v1/x-y_z/$path"}
var tmplQueries = []string{"", "", "", "?foo=bar", "?a=1&b=2"}

// templates outside the documented forms: every guard of BuildRedirectURL is still exercised
var oddTemplates = []string{
	"http://bar.com/x$path/y$path", "http://bar.com/a/$path/b/$path", "https://$host.$host/$path",
	"https://$host$path/more", "http://bar.com/a%2Fb/$path", "http://bar.com/a b/$path", "http://bar.com/$pathx",
	"https://$host$path?x=1", "http://bar.com/*", "http://bar.com/$path/$host", "http://$path/abc", "http://bar.com//$path",
	"http://bar.com/%41$path", "https://www.$host$path", "http://u:p@bar.com/$path", "http://bar.com/a/$path#frag",
	"http://bar.com/é/$path", "http://$host$path$path", "http://bar.com/$path$path",
	"http://$path.bar.com/y", "http://a$pathb.com/$path", "http://$path$host/x$path", // $path inside the host, not as its suffix
}

var segs = []string{"abc", "a", "b", "c", "foo", "stripme", "a%2Fb", "x%25y", "a%20b", "%C3%A9", "caf%c3%a9", "a+b", "a;b", "p;v=1",
	"%3B", "%2B", "%61bc", "%5B1%5D", "a!b", "(x)", "a%21", "$path", "$host", "a:b", "a@b", "a=b&c", "~u", "a,b", "%3F", "%23", "a.b-c_d", "*", "%2f", "é", "a[1]", "%7E", "%24path"}

func randWire(r *rand.Rand, lead string) string {
	var sb strings.Builder
	sb.WriteString(lead)
	n := r.Intn(4)
	if lead == "" && n == 0 && r.Intn(3) != 0 {
		n = 1
	}
	for i := 0; i < n; i++ {
		if !(i == 0 && lead != "" && r.Intn(3) == 0) { // sometimes glue the first segment to the lead: /stripmeabc
			sb.WriteByte('/')
		}
		sb.WriteString(segs[r.Intn(len(segs))])
	}
	if r.Intn(4) == 0 {
		sb.WriteByte('/')
	}
	s := sb.String()
	if s == "" || s[0] != '/' {
		s = "/" + s
	}
	return s
}

var queries = []string{"", "", "aaa=1", "x=%20y&z=2", "q=a+b", "q=é", "a=1&a=2", "redirect=$path"}
var hosts = []string{"foo.com", "foo.com", "FOO.com", "foo.com:80", "foo.com:8080", "[::1]:8080", "a.b.foo.com", "xn--caf-dma.example", "fo o.com", "h$path", "$host"}
var strips = []string{"", "", "", "/stripme", "/foo", "/abc", "/a", "/a b", "/a%20b", "/a/b"}
var prepends = []string{"", "", "", "/prefix", "/p/q", "pre", "/a b", "/x%2Fy"}

type tdesc struct {
	id      int
	tmpl    string
	u       *url.URL
	strip   string
	prepend string
	code    int
}

func coqTarget(t tdesc) string {
	return vh.App("mkTarget", vh.Nat(t.id), vh.HxS(t.u.Scheme), vh.HxS(t.u.Host), vh.HxS(t.u.Path), vh.HxS(t.u.RawQuery),
		vh.HxS(t.strip), vh.HxS(t.prepend), vh.Z(int64(t.code)))
}

type rdesc struct {
	host, wire, query, xfp string
	tls                    bool
	u                      *url.URL
}

func coqReq(q rdesc) string {
	return vh.App("mkReq", vh.HxS(q.host), vh.HxS(q.u.Path), vh.HxS(q.u.RawPath), vh.HxS(q.u.RawQuery), vh.HxS(q.xfp), vh.Bool(q.tls))
}
func coqURL(u *url.URL) string {
	return vh.App("mkUrl", vh.HxS(u.Scheme), vh.HxS(u.Host), vh.HxS(u.Path), vh.HxS(u.RawPath), vh.HxS(u.RawQuery))
}

func isASCII(s string) bool {
	for i := 0; i < len(s); i++ {
		if s[i] >= 0x80 {
			return false
		}
	}
	return true
}

func uri(wire, query string) string {
	if query == "" {
		return wire
	}
	return wire + "?" + query
}

func mkReq(host, wire, query, xfp string, isTLS bool) (rdesc, bool) {
	u, err := url.ParseRequestURI(uri(wire, query))
	if err != nil || u.Scheme != "" || u.Host != "" || u.Opaque != "" {
		return rdesc{}, false
	}
	return rdesc{host: host, wire: wire, query: query, xfp: xfp, tls: isTLS, u: u}, true
}

func httpReq(q rdesc) *http.Request {
	u := *q.u
	req := &http.Request{Method: "GET", URL: &u, Host: q.host, Header: http.Header{}, Proto: "HTTP/1.1", ProtoMajor: 1, ProtoMinor: 1,
		RemoteAddr: "1.2.3.4:5555", RequestURI: uri(q.wire, q.query), Body: http.NoBody}
	if q.xfp != "" {
		req.Header.Set("X-Forwarded-Proto", q.xfp)
	}
	if q.tls {
		req.TLS = &tls.ConnectionState{}
	}
	return req
}

// ---- upstream stub ----
type countingRT struct {
	mu    sync.Mutex
	n     int
	hosts []string
}

func (c *countingRT) RoundTrip(r *http.Request) (*http.Response, error) {
	c.mu.Lock()
	c.n++
	c.hosts = append(c.hosts, r.URL.Host)
	c.mu.Unlock()
	return &http.Response{StatusCode: 200, Status: "200 OK", Proto: "HTTP/1.1", ProtoMajor: 1, ProtoMinor: 1,
		Header: http.Header{}, Body: io.NopCloser(strings.NewReader("")), Request: r}, nil
}

func coqResp(status int, loc string, hasLoc bool, hits int, upstreamID int, panicked bool, pval interface{}) (string, bool) {
	switch {
	case panicked:
		s := fmt.Sprint(pval)
		const pfx = "invalid WriteHeader code "
		if strings.HasPrefix(s, pfx) {
			if v, err := strconv.ParseInt(s[len(pfx):], 10, 64); err == nil {
				return vh.App("RBadCode", vh.Z(v)), true
			}
		}
		return "", false
	case hasLoc:
		return vh.App("RRedirect", vh.Z(int64(status)), vh.HxS(loc)), true
	case hits > 0 && upstreamID >= 0:
		return vh.App("RProxy", vh.Nat(upstreamID)), true
	case status == 404:
		return "RNoRoute", true
	}
	return "", false
}

func main() {
	run := vh.Start("C13")
	r := run.Rng

	// ---------- 1. BuildRedirectURL + String ----------
	build := func(class, tmpl, strip, prepend, host, wire, query string) {
		tu, err := url.Parse(tmpl)
		if err != nil {
			run.Exclude("template does not parse as a URL")
			return
		}
		if tu.Scheme == "" && tu.Host == "" {
			run.Exclude("template without scheme and host (relative Location)")
			return
		}
		q, ok := mkReq(host, wire, query, "", false)
		if !ok {
			run.Exclude("request line does not parse")
			return
		}
		t := &route.Target{URL: tu, StripPath: strip, PrependPath: prepend, RedirectCode: 301}
		ru := *q.u
		ru.Host = host // Table.Lookup: req.URL.Host = req.Host
		var s string
		if p, v := vh.Recover(func() { t.BuildRedirectURL(&ru); s = t.RedirectURL.String() }); p {
			run.Violation(run.NextID(), fmt.Sprintf("BuildRedirectURL panicked: %v", v), map[string]string{"template": tmpl, "wire": wire})
			return
		}
		td := tdesc{id: 0, tmpl: tmpl, u: tu, strip: strip, prepend: prepend, code: 301}
		run.Add(class, vh.App("CBuild", coqTarget(td), vh.HxS(wire), coqReq(q), coqURL(t.RedirectURL), vh.HxS(s)),
			map[string]interface{}{"template": tmpl, "strip": strip, "prepend": prepend, "host": host, "request": uri(wire, query), "location": s})
	}
	docTmpl := func() string {
		return schemes[r.Intn(2)] + "://" + tmplHosts[r.Intn(len(tmplHosts))] + tmplPaths[r.Intn(len(tmplPaths))] + tmplQueries[r.Intn(len(tmplQueries))]
	}
	// every documented form x every segment kind, plain host, no strip/prepend
	for _, tp := range tmplPaths[:6] {
		for _, sg := range segs {
			build("build-form-x-segment", "https://$host"+tp, "", "", "foo.com", "/"+sg+"/z", "")
		}
	}
	// the test-suite rows of TestTarget_BuildRedirectURL in spirit: each form x a few requests
	for _, tp := range tmplPaths {
		for _, h := range []string{"$host", "bar.com"} {
			for _, w := range []string{"/", "/abc", "/a/b/c", "/abc/"} {
				for _, qy := range []string{"", "aaa=1"} {
					build("build-documented-grid", "http://"+h+tp, "", "", "foo.com", w, qy)
				}
			}
		}
	}
	// finding region 6 (F-C13-6), directed: the strip prefix matches only after decoding
	for _, tp := range []string{"$path", "/$path", "/bbb/$path"} {
		for _, w := range []string{"/%61bc/a%2Fb", "/%61bc/x", "/a%62c/a%20b", "/%61bc", "/%61bc/%61", "/ab%63/p;v=1/a%2Bb"} {
			build("build-strip-decoded-only", "https://$host"+tp, "/abc", []string{"", "/pre"}[len(w)%2], "foo.com", w, "")
		}
	}
	for i := 0; i < run.Scale(700, 20000); i++ {
		strip := strips[r.Intn(len(strips))]
		lead := ""
		if strip != "" && r.Intn(4) != 0 {
			lead = strip
			if r.Intn(6) == 0 {
				lead = strings.Replace(lead, "a", "%61", 1) // prefix present only after decoding
			}
		}
		build("build-random-documented", docTmpl(), strip, prepends[r.Intn(len(prepends))], hosts[r.Intn(len(hosts))], randWire(r, lead), queries[r.Intn(len(queries))])
	}
	for _, ot := range oddTemplates {
		for k := 0; k < run.Scale(6, 60); k++ {
			build("build-odd-template", ot, strips[r.Intn(len(strips))], prepends[r.Intn(len(prepends))], hosts[r.Intn(len(hosts))], randWire(r, ""), queries[r.Intn(len(queries))])
		}
	}

	// ---------- 2. redirect option -> RedirectCode ----------
	codes := []string{"301", "302", "303", "307", "308", "300", "399", "299", "400", "0", "-301", "+301", "0301", "00000000000000000301", "3x1", "30", "3010",
		"301 ", "0x12d", "3_01", "301.0", "", "+", "-", "99999999999999999999", "-99999999999999999999", "9223372036854775807", "9223372036854775808",
		"-9223372036854775808", "-9223372036854775809", "999999999999999999", "1000000000000000000", "399999999999999999999", "٣٠١", "301a", "a"}
	for i := 0; i < run.Scale(30, 600); i++ {
		codes = append(codes, strconv.Itoa(250+r.Intn(200)))
	}
	for _, c := range codes {
		if strings.ContainsAny(c, " \"") || c == "" {
			if c == "" { // opts "redirect=" : empty value
				c = ""
			} else {
				run.Exclude("redirect option value that the route command syntax cannot carry")
				continue
			}
		}
		tbl, err := route.NewTable(bytes.NewBufferString(`route add svc /x http://bar.com/ opts "redirect=` + c + `"`))
		if err != nil || len(tbl[""]) != 1 || len(tbl[""][0].Targets) != 1 {
			run.Exclude("route command rejected")
			continue
		}
		got := tbl[""][0].Targets[0].RedirectCode
		run.Add("redirect-option", vh.App("CCode", vh.HxS(c), vh.Z(int64(got))), map[string]interface{}{"redirect": c, "RedirectCode": got})
	}

	// ---------- 3. ServeHTTP over Table.Lookup ----------
	gc := route.NewGlobCache(1000)
	srvCodes := []string{"301", "302", "303", "307", "308", "300", "399", "301", "301", "400", "299", "0", "3x1", "99999999999999999999", "-99999999999999999999"}
	routeHosts := []string{"foo.com", "*.com", "*o.com", "", "foo.com:8080", "*"}
	selfTmpl := func(q rdesc) string { // a template that points back at the request
		sc := []string{"http", "https"}[r.Intn(2)]
		switch r.Intn(4) {
		case 0:
			return sc + "://$host$path"
		case 1:
			return sc + "://$host/$path"
		case 2:
			return sc + "://" + q.host + "$path"
		}
		return sc + "://" + q.host + q.wire
	}
	serveOne := func(class string) {
		host := []string{"foo.com", "foo.com", "FOO.com", "foo.com:8080", "bar.org"}[r.Intn(5)]
		wire := randWire(r, []string{"", "", "/x"}[r.Intn(3)])
		xfp := []string{"", "http", "https", "http"}[r.Intn(4)]
		q, ok := mkReq(host, wire, queries[r.Intn(len(queries))], xfp, r.Intn(4) == 0)
		if !ok {
			run.Exclude("request line does not parse")
			return
		}
		var lines []string
		var descs []tdesc
		used := map[string]bool{}
		usedDst := map[string]bool{}
		n := 1 + r.Intn(3)
		for i := 0; i < n; i++ {
			rh := routeHosts[r.Intn(len(routeHosts))]
			rp := []string{"/", "/", "/x"}[r.Intn(3)]
			if used[rh+rp] {
				continue
			}
			used[rh+rp] = true
			id := len(descs)
			if r.Intn(4) == 0 { // plain upstream
				dst := fmt.Sprintf("http://10.0.0.%d:80/", id+1)
				lines = append(lines, fmt.Sprintf("route add svc%d %s%s %s", id, rh, rp, dst))
				u, _ := url.Parse(dst)
				descs = append(descs, tdesc{id: id, tmpl: dst, u: u})
				continue
			}
			tmpl := docTmpl()
			if class == "serve-self-redirect" || r.Intn(3) == 0 {
				tmpl = selfTmpl(q)
			}
			code := srvCodes[r.Intn(len(srvCodes))]
			if class == "serve-self-redirect" {
				code = "301"
			}
			strip, prepend := "", ""
			if r.Intn(4) == 0 {
				strip = []string{"/x", "/a", "/abc"}[r.Intn(3)]
			}
			if r.Intn(6) == 0 {
				prepend = "/pre"
			}
			opts := "redirect=" + code
			if strip != "" {
				opts += " strip=" + strip
			}
			if prepend != "" {
				opts += " prepend=" + prepend
			}
			u, err := url.Parse(tmpl)
			if err != nil || strings.ContainsAny(tmpl, " \"") || (u.Scheme == "" && u.Host == "") || usedDst[u.Host] {
				continue // (the upstream stub tells targets apart by their URL host)
			}
			usedDst[u.Host] = true
			// an upstream host of its own, in case the code is rejected and the target is proxied to
			lines = append(lines, fmt.Sprintf("route add svc%d %s%s %s opts \"%s\"", id, rh, rp, tmpl, opts))
			descs = append(descs, tdesc{id: id, tmpl: tmpl, u: u, strip: strip, prepend: prepend})
		}
		if len(lines) == 0 {
			return
		}
		text := strings.Join(lines, "\n")
		tbl, err := route.NewTable(bytes.NewBufferString(text))
		if err != nil {
			run.Exclude("route table rejected")
			return
		}
		// identify the real targets
		byService := map[string]*route.Target{}
		for _, rs := range tbl {
			for _, rt := range rs {
				for _, t := range rt.Targets {
					byService[t.Service] = t
				}
			}
		}
		idOf := map[*route.Target]int{}
		for i := range descs {
			t := byService[fmt.Sprintf("svc%d", descs[i].id)]
			if t == nil {
				run.Exclude("route table rejected")
				return
			}
			descs[i].code = t.RedirectCode
			idOf[t] = descs[i].id
		}
		pick, match := route.Picker["rr"], route.Matcher["prefix"]
		var cands []string
		for _, c := range route.VerifC13Candidates(tbl, httpReq(q), pick, match, gc) {
			if c == nil {
				cands = append(cands, vh.None)
			} else {
				cands = append(cands, vh.Some(coqTarget(descs[idOf[c]])))
			}
		}
		tr := &countingRT{}
		p := &proxy.HTTPProxy{Config: config.Proxy{}, Transport: tr, Lookup: func(req *http.Request) *route.Target {
			return tbl.Lookup(req, "", pick, match, gc, false)
		}}
		w := httptest.NewRecorder()
		panicked, pval := vh.Recover(func() { p.ServeHTTP(w, httpReq(q)) })
		up := -1
		if tr.n > 0 {
			for _, d := range descs {
				if d.u.Host == tr.hosts[0] {
					up = d.id
				}
			}
		}
		_, hasLoc := w.Header()["Location"]
		resp, ok := coqResp(w.Code, w.Header().Get("Location"), hasLoc, tr.n, up, panicked, pval)
		sample := map[string]interface{}{"routes": text, "host": q.host, "request": uri(q.wire, q.query), "x-forwarded-proto": q.xfp, "tls": q.tls,
			"status": w.Code, "location": w.Header().Get("Location"), "upstream_hits": tr.n}
		if !ok {
			run.Violation(run.NextID(), fmt.Sprintf("ServeHTTP on a redirect table ended in an unclassifiable way (status %d, panic %v)", w.Code, pval), sample)
			return
		}
		run.Add(class, vh.App("CServe", vh.List(cands), vh.HxS(q.wire), coqReq(q), resp, vh.Nat(tr.n)), sample)
	}
	for i := 0; i < run.Scale(500, 12000); i++ {
		serveOne("serve-random-table")
	}
	for i := 0; i < run.Scale(250, 5000); i++ {
		serveOne("serve-self-redirect")
	}

	// ---------- 3a. requests with header fields, over a socket, to a real http.Server ----------
	// A listener stands behind the host:port of the redirect templates and counts accepted
	// connections: "no upstream is contacted" is observed, not inferred.
	{
		ln, err := net.Listen("tcp", "127.0.0.1:0")
		if err != nil {
			panic(err)
		}
		var contacts int64
		go func() {
			for {
				c, err := ln.Accept()
				if err != nil {
					return
				}
				atomic.AddInt64(&contacts, 1)
				go func(c net.Conn) {
					c.SetDeadline(time.Now().Add(2 * time.Second))
					br := bufio.NewReader(c)
					for { // read the request head
						l, err := br.ReadString('\n')
						if err != nil || l == "\r\n" {
							break
						}
					}
					io.WriteString(c, "HTTP/1.1 200 OK\r\nContent-Length: 0\r\nConnection: close\r\n\r\n")
					c.Close()
				}(c)
			}
		}()
		backend := ln.Addr().String()
		var curTbl atomic.Value // route.Table
		pick, match := route.Picker["rr"], route.Matcher["prefix"]
		tr := &countingRT{}
		px := &proxy.HTTPProxy{Config: config.Proxy{}, Transport: tr, Lookup: func(req *http.Request) *route.Target {
			return curTbl.Load().(route.Table).Lookup(req, "", pick, match, gc, false)
		}}
		srv := httptest.NewServer(px)
		upgrades := []string{"", "", "websocket", "Websocket", "WebSocket", "h2c"}
		accepts := []string{"", "", "text/event-stream", "text/html", "text/event-stream, */*"}
		conns := []string{"", "Upgrade", "keep-alive", "close"}
		others := [][2]string{{"User-Agent", "verif/1"}, {"X-Foo", "bar"}, {"Cookie", "a=b"}, {"Sec-WebSocket-Key", "dGhlIHNhbXBsZSBub25jZQ=="}, {"Sec-WebSocket-Version", "13"}, {"Cache-Control", "no-cache"}, {"Accept-Encoding", "gzip"}}
		for i := 0; i < run.Scale(260, 6000); i++ {
			// 1-2 redirect routes whose templates point at the listener (literally or through $host)
			var lines []string
			var descs []tdesc
			n := 1 + r.Intn(2)
			for id := 0; id < n; id++ {
				th := []string{backend, backend, "$host"}[r.Intn(3)]
				tmpl := []string{"http", "http", "https"}[r.Intn(3)] + "://" + th + tmplPaths[r.Intn(len(tmplPaths))] + tmplQueries[r.Intn(len(tmplQueries))]
				u, err := url.Parse(tmpl)
				if err != nil {
					continue
				}
				src := []string{"/", "/x", "foo.com/"}[id%3]
				if id == 1 {
					src = []string{"foo.com/", "*/", "/x"}[r.Intn(3)]
				}
				code := []string{"301", "302", "307", "308"}[r.Intn(4)]
				lines = append(lines, fmt.Sprintf("route add svc%d %s %s opts \"redirect=%s\"", len(descs), src, tmpl, code))
				descs = append(descs, tdesc{id: len(descs), tmpl: tmpl, u: u})
			}
			if len(lines) == 0 {
				continue
			}
			text := strings.Join(lines, "\n")
			tbl, err := route.NewTable(bytes.NewBufferString(text))
			if err != nil {
				run.Exclude("route table rejected")
				continue
			}
			idOf := map[*route.Target]int{}
			okTbl := true
			for _, rts := range tbl {
				for _, rt := range rts {
					for _, t := range rt.Targets {
						var id int
						fmt.Sscanf(t.Service, "svc%d", &id)
						if id >= len(descs) {
							okTbl = false
							continue
						}
						descs[id].code = t.RedirectCode
						idOf[t] = id
					}
				}
			}
			if !okTbl || len(idOf) != len(descs) {
				run.Exclude("route table rejected") // two routes with the same source collapse into one
				continue
			}
			curTbl.Store(tbl)
			host := []string{backend, backend, "foo.com", "FOO.com"}[r.Intn(4)]
			wire := randWire(r, []string{"", "/x"}[r.Intn(2)])
			var hs [][2]string
			if v := upgrades[r.Intn(len(upgrades))]; v != "" {
				hs = append(hs, [2]string{"Upgrade", v})
			}
			if v := accepts[r.Intn(len(accepts))]; v != "" {
				hs = append(hs, [2]string{"Accept", v})
			}
			if v := conns[r.Intn(len(conns))]; v != "" {
				hs = append(hs, [2]string{"Connection", v})
			}
			xfp := []string{"", "", "http", "https"}[r.Intn(4)]
			if xfp != "" {
				hs = append(hs, [2]string{[]string{"X-Forwarded-Proto", "x-forwarded-proto"}[r.Intn(2)], xfp})
			}
			for k := r.Intn(3); k > 0; k-- {
				hs = append(hs, others[r.Intn(len(others))])
			}
			r.Shuffle(len(hs), func(a, b int) { hs[a], hs[b] = hs[b], hs[a] })
			q, ok := mkReq(host, wire, queries[r.Intn(len(queries))], xfp, false)
			if !ok || strings.ContainsAny(uri(q.wire, q.query), " \x7f") || !isASCII(uri(q.wire, q.query)) {
				run.Exclude("request line net/http's server would refuse")
				continue
			}
			var cands []string
			for _, c := range route.VerifC13Candidates(tbl, httpReq(q), pick, match, gc) {
				if c == nil {
					cands = append(cands, vh.None)
				} else {
					cands = append(cands, vh.Some(coqTarget(descs[idOf[c]])))
				}
			}
			tr.mu.Lock()
			hitsBefore := tr.n
			tr.mu.Unlock()
			contactsBefore := atomic.LoadInt64(&contacts)
			c, err := net.Dial("tcp", srv.Listener.Addr().String())
			if err != nil {
				panic(err)
			}
			c.SetDeadline(time.Now().Add(5 * time.Second))
			var sb strings.Builder
			sb.WriteString("GET " + uri(q.wire, q.query) + " HTTP/1.1\r\nHost: " + host + "\r\n")
			var coqH []string
			for _, h := range hs {
				sb.WriteString(h[0] + ": " + h[1] + "\r\n")
				coqH = append(coqH, vh.Pair(vh.HxS(h[0]), vh.HxS(h[1])))
			}
			sb.WriteString("\r\n")
			io.WriteString(c, sb.String())
			resp, rerr := http.ReadResponse(bufio.NewReader(c), nil)
			c.Close()
			tr.mu.Lock()
			hits := tr.n - hitsBefore
			tr.mu.Unlock()
			cont := int(atomic.LoadInt64(&contacts) - contactsBefore)
			sample := map[string]interface{}{"routes": text, "host": host, "request": uri(q.wire, q.query), "headers": hs, "upstream_hits": hits, "backend_connections": cont}
			if rerr != nil {
				run.Violation(run.NextID(), fmt.Sprintf("request to a redirect route got no HTTP response (%v); transport calls %d, connections to the template's host %d", rerr, hits, cont), sample)
				continue
			}
			sample["status"], sample["location"] = resp.StatusCode, resp.Header.Get("Location")
			_, hasLoc := resp.Header["Location"]
			var impl string
			switch {
			case hasLoc:
				impl = vh.App("RRedirect", vh.Z(int64(resp.StatusCode)), vh.HxS(resp.Header.Get("Location")))
			case resp.StatusCode == 404 && hits+cont == 0:
				impl = "RNoRoute"
			default:
				run.Violation(run.NextID(), fmt.Sprintf("request to a redirect route answered %d without Location; transport calls %d, connections to the template's host %d", resp.StatusCode, hits, cont), sample)
				continue
			}
			run.Add("serve-headers-socket", vh.App("CServeH", vh.List(coqH), vh.List(cands), vh.HxS(host), vh.HxS(q.wire), vh.HxS(q.u.Path), vh.HxS(q.u.RawPath), vh.HxS(q.u.RawQuery),
				"false", impl, vh.Nat(hits), vh.Nat(cont)), sample)
		}
		srv.Close()
		ln.Close()
	}

	// ---------- 3b. histories: several requests through ONE table / ONE target object ----------
	histHosts := []string{"shop.example.com", "blog.example.org", "foo.com", "FOO.com", "a.b.foo.com", "foo.com:8080"}
	type hroute struct{ src, tmpl, opts string }
	histRoutes := func() []hroute {
		sc := schemes[r.Intn(2)]
		rs := []hroute{
			{"/welcome", sc + "://$host/welcome", ""},                                  // $host without $path
			{"/h", sc + "://www.$host/", ""},                                           // $host without $path, empty path
			{"/p", sc + "://bar.com/$path", []string{"", "strip=/p", "prepend=/pre"}[r.Intn(3)]}, // $path without $host
			{"/b", sc + "://$host" + []string{"$path", "/$path", "/bbb$path"}[r.Intn(3)], ""},   // both
			{"/s", sc + "://bar.com/static?x=1", ""},                                   // neither
			{"/up", "http://10.0.0.9:80/", "-"},                                        // plain upstream
		}
		if r.Intn(2) == 0 { // the catch-all as a $host-only redirect on a glob host
			rs = append(rs, hroute{"*:80/", sc + "://$host/", ""})
		} else {
			rs = append(rs, hroute{"/", sc + "://$host:8443/", ""})
		}
		return rs
	}
	for i := 0; i < run.Scale(120, 3000); i++ {
		rs := histRoutes()
		var lines []string
		var descs []tdesc
		for id, hr := range rs {
			u, err := url.Parse(hr.tmpl)
			if err != nil {
				panic(err)
			}
			d := tdesc{id: id, tmpl: hr.tmpl, u: u}
			if hr.opts == "-" {
				lines = append(lines, fmt.Sprintf("route add svc%d %s %s", id, hr.src, hr.tmpl))
			} else {
				opts := "redirect=" + []string{"301", "302", "307", "308"}[r.Intn(4)]
				if hr.opts != "" {
					opts += " " + hr.opts
					kv := strings.SplitN(hr.opts, "=", 2)
					if kv[0] == "strip" {
						d.strip = kv[1]
					} else {
						d.prepend = kv[1]
					}
				}
				lines = append(lines, fmt.Sprintf("route add svc%d %s %s opts \"%s\"", id, hr.src, hr.tmpl, opts))
			}
			descs = append(descs, d)
		}
		text := strings.Join(lines, "\n")
		tbl, err := route.NewTable(bytes.NewBufferString(text))
		if err != nil {
			run.Exclude("route table rejected")
			continue
		}
		idOf := map[*route.Target]int{}
		for _, rts := range tbl {
			for _, rt := range rts {
				for _, t := range rt.Targets {
					var id int
					fmt.Sscanf(t.Service, "svc%d", &id)
					descs[id].code = t.RedirectCode
					idOf[t] = id
				}
			}
		}
		pick, match := route.Picker["rr"], route.Matcher["prefix"]
		tr := &countingRT{}
		p := &proxy.HTTPProxy{Config: config.Proxy{}, Transport: tr, Lookup: func(req *http.Request) *route.Target {
			return tbl.Lookup(req, "", pick, match, gc, false)
		}}
		var steps []string
		var hist []interface{}
		bad := false
		prefixes := []string{"/welcome", "/welcome", "/h", "/p", "/b", "/s", "/up", "", "/other"}
		n := 3 + r.Intn(6)
		for k := 0; k < n && !bad; k++ {
			host := histHosts[r.Intn(len(histHosts))]
			pre := prefixes[r.Intn(len(prefixes))]
			if k > 0 && r.Intn(2) == 0 { // revisit the previous route with another host
				pre = prefixes[0]
				if r.Intn(2) == 0 {
					pre = prefixes[2+r.Intn(3)]
				}
			}
			wire := pre
			if pre != "/welcome" || r.Intn(3) == 0 {
				wire = randWire(r, pre)
			}
			// direct requests (plain and TLS) and requests behind a proxy whose header agrees or
			// disagrees with the connection
			q, ok := mkReq(host, wire, queries[r.Intn(len(queries))], []string{"", "", "http", "https"}[r.Intn(4)], r.Intn(3) == 0)
			if !ok {
				run.Exclude("request line does not parse")
				continue
			}
			var cands []string
			for _, c := range route.VerifC13Candidates(tbl, httpReq(q), pick, match, gc) {
				if c == nil {
					cands = append(cands, vh.None)
				} else {
					cands = append(cands, vh.Some(coqTarget(descs[idOf[c]])))
				}
			}
			before := tr.n
			w := httptest.NewRecorder()
			panicked, pval := vh.Recover(func() { p.ServeHTTP(w, httpReq(q)) })
			hits := tr.n - before
			up := -1
			if hits > 0 {
				up = 5 // the only upstream of a history table
			}
			_, hasLoc := w.Header()["Location"]
			resp, ok := coqResp(w.Code, w.Header().Get("Location"), hasLoc, hits, up, panicked, pval)
			step := map[string]interface{}{"host": q.host, "request": uri(q.wire, q.query), "x-forwarded-proto": q.xfp, "tls": q.tls, "status": w.Code, "location": w.Header().Get("Location"), "upstream_hits": hits}
			hist = append(hist, step)
			if !ok {
				run.Violation(run.NextID(), fmt.Sprintf("ServeHTTP in a request history ended in an unclassifiable way (status %d, panic %v)", w.Code, pval),
					map[string]interface{}{"routes": text, "history": hist})
				bad = true
				break
			}
			steps = append(steps, "("+coqReq(q)+", "+vh.HxS(q.wire)+", "+vh.List(cands)+", "+resp+", "+vh.Nat(hits)+")")
		}
		if bad || len(steps) == 0 {
			continue
		}
		run.Add("history-one-table", vh.App("CHistory", vh.List(steps)), map[string]interface{}{"routes": text, "history": hist})
	}
	// BuildRedirectURL again and again on one target object
	for i := 0; i < run.Scale(150, 3000); i++ {
		tmpl := docTmpl()
		if i%3 == 0 {
			tmpl = schemes[r.Intn(2)] + "://" + []string{"$host", "www.$host", "$host:8443"}[r.Intn(3)] + []string{"", "/", "/welcome", "/a/b/c?foo=bar"}[r.Intn(4)]
		}
		tu, err := url.Parse(tmpl)
		if err != nil || (tu.Scheme == "" && tu.Host == "") {
			run.Exclude("template does not parse as a URL")
			continue
		}
		td := tdesc{id: 0, tmpl: tmpl, u: tu, strip: []string{"", "", "/a"}[r.Intn(3)], prepend: []string{"", "", "/pre"}[r.Intn(3)], code: 301}
		t := &route.Target{URL: tu, StripPath: td.strip, PrependPath: td.prepend, RedirectCode: 301}
		var steps []string
		var hist []interface{}
		for k, n := 0, 3+r.Intn(6); k < n; k++ {
			q, ok := mkReq(histHosts[r.Intn(len(histHosts))], randWire(r, ""), queries[r.Intn(len(queries))], "", false)
			if !ok {
				run.Exclude("request line does not parse")
				continue
			}
			ru := *q.u
			ru.Host = q.host
			var str string
			if pn, v := vh.Recover(func() { t.BuildRedirectURL(&ru); str = t.RedirectURL.String() }); pn {
				run.Violation(run.NextID(), fmt.Sprintf("BuildRedirectURL panicked: %v", v), tmpl)
				break
			}
			steps = append(steps, "("+coqReq(q)+", "+vh.HxS(str)+")")
			hist = append(hist, map[string]string{"host": q.host, "request": uri(q.wire, q.query), "location": str})
		}
		if len(steps) > 0 {
			run.Add("build-history-one-target", vh.App("CBuildHistory", coqTarget(td), vh.List(steps)),
				map[string]interface{}{"template": tmpl, "strip": td.strip, "prepend": td.prepend, "history": hist})
		}
	}

	// ---------- 4. 2-4 simultaneous requests, forced into a random interleaving ----------
	// Every request runs ServeHTTP in its own goroutine; the Lookup function calls the real
	// Table.Lookup and then blocks.  "ALookup i" = start request i and wait until its Lookup
	// returned; "AServe i" = release request i and wait for its response.
	for i := 0; i < run.Scale(60, 1500); i++ {
		sc := schemes[r.Intn(2)]
		other := "https"
		if sc == "https" {
			other = "http"
		}
		// a table with mixed templates: a first host whose redirect points back at requests for
		// it (skipped), a fallback with $path, sometimes an upstream
		var lines []string
		var descs []tdesc
		add := func(src, tmpl, opts string) {
			u, err := url.Parse(tmpl)
			if err != nil {
				return
			}
			id := len(descs)
			if opts == "-" {
				lines = append(lines, fmt.Sprintf("route add svc%d %s %s", id, src, tmpl))
			} else {
				lines = append(lines, fmt.Sprintf("route add svc%d %s %s opts \"redirect=%s\"", id, src, tmpl, opts))
			}
			descs = append(descs, tdesc{id: id, tmpl: tmpl, u: u})
		}
		selfScheme := []string{"http", "https"}[r.Intn(2)]
		add("a.foo.com/", selfScheme+"://a.foo.com"+[]string{"$path", "/$path"}[r.Intn(2)], "301")
		switch i % 6 {
		case 5:
			add("/", "https://bar.com/static", "302") // every request gets the same Location
		default:
			add("/", sc+"://"+tmplHosts[r.Intn(len(tmplHosts))]+tmplPaths[r.Intn(6)], []string{"302", "307"}[r.Intn(2)])
		}
		if r.Intn(3) == 0 {
			add("/up", "http://10.0.0.9:80/", "-")
		}
		text := strings.Join(lines, "\n")
		tbl, err := route.NewTable(bytes.NewBufferString(text))
		if err != nil {
			run.Exclude("route table rejected")
			continue
		}
		idOf := map[*route.Target]int{}
		for _, rts := range tbl {
			for _, rt := range rts {
				for _, t := range rt.Targets {
					var id int
					fmt.Sscanf(t.Service, "svc%d", &id)
					descs[id].code = t.RedirectCode
					idOf[t] = id
				}
			}
		}
		pick, match := route.Picker["rr"], route.Matcher["prefix"]
		n := 2 + r.Intn(3)
		var qs []rdesc
		okAll := true
		for k := 0; k < n; k++ {
			xfp := []string{"", "http", "https", other}[r.Intn(4)]
			pre := fmt.Sprintf("/from-%c", 'A'+k)
			if r.Intn(5) == 0 {
				pre = "/up" + pre
			}
			q, ok := mkReq([]string{"a.foo.com", "a.foo.com", "b.foo.com"}[r.Intn(3)], pre+randWire(r, ""), queries[r.Intn(len(queries))], xfp, false)
			if !ok {
				okAll = false
				break
			}
			qs = append(qs, q)
		}
		if !okAll {
			run.Exclude("request line does not parse")
			continue
		}
		// a random interleaving in which every request is looked up once and served once afterwards
		type act struct {
			serve bool
			r     int
		}
		var sched []act
		pendingL := r.Perm(n)
		var canServe []int
		for len(pendingL)+len(canServe) > 0 {
			if len(canServe) == 0 || (len(pendingL) > 0 && r.Intn(2) == 0) {
				k := pendingL[0]
				pendingL = pendingL[1:]
				sched = append(sched, act{false, k})
				canServe = append(canServe, k)
			} else {
				j := r.Intn(len(canServe))
				k := canServe[j]
				canServe = append(canServe[:j], canServe[j+1:]...)
				sched = append(sched, act{true, k})
			}
		}
		looked := make(chan int, n)
		release := make([]chan struct{}, n)
		done := make([]chan struct{}, n)
		rec := make([]*httptest.ResponseRecorder, n)
		for k := range release {
			release[k], done[k], rec[k] = make(chan struct{}), make(chan struct{}), httptest.NewRecorder()
		}
		tr := &countingRT{}
		p := &proxy.HTTPProxy{Config: config.Proxy{}, Transport: tr, Lookup: func(req *http.Request) *route.Target {
			t := tbl.Lookup(req, "", pick, match, gc, false)
			who, _ := strconv.Atoi(req.Header.Get("X-Verif-Who"))
			looked <- who
			<-release[who]
			return t
		}}
		var candsOf []string
		for k := 0; k < n; k++ {
			var cands []string
			for _, c := range route.VerifC13Candidates(tbl, httpReq(qs[k]), pick, match, gc) {
				if c == nil {
					cands = append(cands, vh.None)
				} else {
					cands = append(cands, vh.Some(coqTarget(descs[idOf[c]])))
				}
			}
			candsOf = append(candsOf, vh.List(cands))
		}
		established := true
		var coqSched, coqOut []string
		var outs []interface{}
		for _, a := range sched {
			if !a.serve {
				coqSched = append(coqSched, vh.App("ALookup", vh.Nat(a.r)))
				req := httpReq(qs[a.r])
				req.Header.Set("X-Verif-Who", strconv.Itoa(a.r))
				k := a.r
				go func() {
					defer close(done[k])
					vh.Recover(func() { p.ServeHTTP(rec[k], req) })
				}()
				select {
				case <-looked:
				case <-time.After(10 * time.Second):
					established = false
				}
				continue
			}
			coqSched = append(coqSched, vh.App("AServe", vh.Nat(a.r)))
			hitsBefore := tr.n
			close(release[a.r])
			<-done[a.r]
			w := rec[a.r]
			_, hasLoc := w.Header()["Location"]
			up := -1
			if tr.n > hitsBefore {
				for _, d := range descs {
					if d.u.Host == tr.hosts[len(tr.hosts)-1] {
						up = d.id
					}
				}
			}
			resp, ok := coqResp(w.Code, w.Header().Get("Location"), hasLoc, tr.n-hitsBefore, up, false, nil)
			if !ok {
				run.Violation(run.NextID(), fmt.Sprintf("forced interleaving: a response is neither a redirect, nor proxied, nor 'no route' (status %d)", w.Code), text)
				established = false
				break
			}
			coqOut = append(coqOut, vh.Pair(vh.Nat(a.r), resp))
			outs = append(outs, map[string]interface{}{"request": a.r, "status": w.Code, "location": w.Header().Get("Location")})
		}
		if !established {
			run.Violation(run.NextID(), "forced interleaving could not be established (Lookup did not return)", text)
			for k := range release { // let the goroutines go
				select {
				case <-release[k]:
				default:
					close(release[k])
				}
			}
			continue
		}
		var coqReqs []string
		var reqSample []string
		for k := 0; k < n; k++ {
			coqReqs = append(coqReqs, "("+coqReq(qs[k])+", "+vh.HxS(qs[k].wire)+", "+candsOf[k]+")")
			reqSample = append(reqSample, qs[k].host+uri(qs[k].wire, qs[k].query)+" xfp="+qs[k].xfp)
		}
		var schedSample []string
		for _, a := range sched {
			schedSample = append(schedSample, fmt.Sprintf("%s %d", map[bool]string{false: "lookup", true: "serve"}[a.serve], a.r))
		}
		run.Add("forced-interleaving", vh.App("CSched", vh.List(coqReqs), vh.List(coqSched), vh.List(coqOut)),
			map[string]interface{}{"routes": text, "requests": reqSample, "schedule": schedSample, "responses": outs})
	}

	// =====================================================================================
	// round 5: classes with rand sources of their own (the inputs of the classes above do
	// not change)
	// =====================================================================================
	gc5 := route.NewGlobCache(1000)
	pick5, match5 := route.Picker["rr"], route.Matcher["prefix"]

	// serveTable: one request through HTTPProxy.ServeHTTP over the table built from lines;
	// descs[i] describes the target of service svc<i>.
	serveTable := func(class string, lines []string, descs []tdesc, q rdesc) {
		text := strings.Join(lines, "\n")
		tbl, err := route.NewTable(bytes.NewBufferString(text))
		if err != nil {
			run.Exclude("route table rejected")
			return
		}
		idOf := map[*route.Target]int{}
		seen := 0
		for _, rts := range tbl {
			for _, rt := range rts {
				for _, t := range rt.Targets {
					var id int
					if _, err := fmt.Sscanf(t.Service, "svc%d", &id); err != nil || id >= len(descs) {
						continue
					}
					descs[id].code = t.RedirectCode
					idOf[t] = id
					seen++
				}
			}
		}
		if seen != len(descs) {
			run.Exclude("route table rejected") // two routes with the same source collapse into one
			return
		}
		var cands []string
		for _, c := range route.VerifC13Candidates(tbl, httpReq(q), pick5, match5, gc5) {
			if c == nil {
				cands = append(cands, vh.None)
			} else {
				cands = append(cands, vh.Some(coqTarget(descs[idOf[c]])))
			}
		}
		tr := &countingRT{}
		up := -1
		p := &proxy.HTTPProxy{Config: config.Proxy{}, Transport: tr, Lookup: func(req *http.Request) *route.Target {
			t := tbl.Lookup(req, "", pick5, match5, gc5, false)
			if t != nil {
				fmt.Sscanf(t.Service, "svc%d", &up)
			}
			return t
		}}
		w := httptest.NewRecorder()
		panicked, pval := vh.Recover(func() { p.ServeHTTP(w, httpReq(q)) })
		_, hasLoc := w.Header()["Location"]
		resp, ok := coqResp(w.Code, w.Header().Get("Location"), hasLoc, tr.n, up, panicked, pval)
		sample := map[string]interface{}{"routes": text, "host": q.host, "request": uri(q.wire, q.query), "x-forwarded-proto": q.xfp, "tls": q.tls,
			"status": w.Code, "location": w.Header().Get("Location"), "upstream_hits": tr.n}
		if !ok {
			run.Violation(run.NextID(), fmt.Sprintf("ServeHTTP on a redirect table ended in an unclassifiable way (status %d, panic %v)", w.Code, pval), sample)
			return
		}
		run.Add(class, vh.App("CServe", vh.List(cands), vh.HxS(q.wire), coqReq(q), resp, vh.Nat(tr.n)), sample)
	}

	// ---------- 5a. redirects that differ from the request's URL only in LETTER CASE ----------
	// "only a redirect that points back at the request's own scheme, host and path is skipped":
	// the canonical-lower-case redirect (/Docs -> /docs, /API/v1$path -> /api/v1$path) has to be
	// answered; the same tables with no letter flipped are true self-redirects (skipped).
	{
		rj := rand.New(rand.NewSource(run.Seed*7919 + 13))
		words := []string{"docs", "api", "v1", "users", "intro", "shop", "a", "index.html", "x-y"}
		flip := func(s string, prob int) string { // flips the case of some letters
			b := []byte(s)
			for i, c := range b {
				if rj.Intn(prob) == 0 {
					switch {
					case c >= 'a' && c <= 'z':
						b[i] = c - 32
					case c >= 'A' && c <= 'Z':
						b[i] = c + 32
					}
				}
			}
			return string(b)
		}
		for i := 0; i < run.Scale(220, 5000); i++ {
			n := 1 + rj.Intn(3)
			var segsReq []string
			for k := 0; k < n; k++ {
				segsReq = append(segsReq, flip(words[rj.Intn(len(words))], 3))
			}
			pReq := "/" + strings.Join(segsReq, "/")
			k := 1 + rj.Intn(n) // the first k segments are the route's path
			sReq := "/" + strings.Join(segsReq[:k], "/")
			rest := pReq[len(sReq):]
			// the target's spelling of the same segments: 1/4 unchanged (a true self-redirect when
			// scheme and host agree), otherwise some letters flipped
			sTgt := sReq
			switch rj.Intn(4) {
			case 0:
			case 1:
				sTgt = strings.ToLower(sReq)
			default:
				sTgt = flip(sReq, 2)
			}
			host := []string{"example.com", "example.com", "foo.com", "Example.COM", "foo.com:8080"}[rj.Intn(5)]
			sc := schemes[rj.Intn(2)]
			// the request's own scheme: mostly that of the template
			xfp, isTLS := "", sc == "https"
			switch rj.Intn(6) {
			case 0:
				xfp = sc
				isTLS = rj.Intn(2) == 0
			case 1:
				xfp = map[string]string{"http": "https", "https": "http"}[sc]
			case 2:
				isTLS = !isTLS
			}
			th := []string{"$host", "$host", host, strings.ToLower(host)}[rj.Intn(4)]
			src := strings.ToLower(host) + sReq
			if rj.Intn(4) == 0 {
				src = sReq
			}
			var tmpl, strip, prepend string
			wire := pReq
			switch rj.Intn(4) {
			case 0: // static target, the request is for the route's path itself
				tmpl = sc + "://" + th + sTgt
				wire = sReq
				rest = ""
			case 1: // strip + differently spelled prefix glued to $path
				tmpl, strip = sc+"://"+th+sTgt+"$path", sReq
			case 2: // strip + differently spelled prefix, $path after a slash
				tmpl, strip = sc+"://"+th+sTgt+"/$path", sReq
				if rest == "" { // /api/v1/$path with an empty rest would end in a slash
					tmpl = sc + "://" + th + sTgt + "$path"
				}
			default: // strip + prepend
				tmpl, strip, prepend = sc+"://"+th+[]string{"$path", "/$path"}[rj.Intn(2)], sReq, sTgt
			}
			_ = rest
			q, ok := mkReq(host, wire, []string{"", "", "page=2", "x=%20y"}[rj.Intn(4)], xfp, isTLS)
			if !ok {
				run.Exclude("request line does not parse")
				continue
			}
			u, err := url.Parse(tmpl)
			if err != nil {
				run.Exclude("template does not parse as a URL")
				continue
			}
			opts := "redirect=" + []string{"301", "302", "307", "308"}[rj.Intn(4)]
			if strip != "" {
				opts += " strip=" + strip
			}
			if prepend != "" {
				opts += " prepend=" + prepend
			}
			lines := []string{fmt.Sprintf("route add svc0 %s %s opts \"%s\"", src, tmpl, opts)}
			descs := []tdesc{{id: 0, tmpl: tmpl, u: u, strip: strip, prepend: prepend}}
			switch rj.Intn(4) {
			case 0: // nothing behind the redirect
			case 1: // another redirect on the host-less fallback
				t2 := "https://other.example.org/$path"
				u2, _ := url.Parse(t2)
				lines = append(lines, fmt.Sprintf("route add svc1 / %s opts \"redirect=302\"", t2))
				descs = append(descs, tdesc{id: 1, tmpl: t2, u: u2})
			default: // an upstream behind it
				dst := "http://10.0.0.9:80/"
				u2, _ := url.Parse(dst)
				lines = append(lines, fmt.Sprintf("route add svc1 / %s", dst))
				descs = append(descs, tdesc{id: 1, tmpl: dst, u: u2})
			}
			serveTable("serve-case-variant", lines, descs, q)
		}
	}

	// ---------- 5b. histories through ONE table whose templates have $path INSIDE ----------
	// ($path in the middle of the template path, with and without $host; $path inside the host
	// part but not as its suffix): every Location of the history must be the one the request
	// gets on fresh targets.
	{
		rh := rand.New(rand.NewSource(run.Seed*104729 + 7))
		type hroute5 struct{ src, tmpl, opts string }
		hHosts := []string{"docs.example.com", "shop.example.com", "foo.com", "FOO.com", "foo.com:8080"}
		for i := 0; i < run.Scale(100, 2500); i++ {
			sc := schemes[rh.Intn(2)]
			rs := []hroute5{
				{"/docs", sc + "://docs.example.com/$path/index.html", []string{"", "strip=/docs"}[rh.Intn(2)]}, // the documented-looking "directory index" form
				{"/m", sc + "://bar.com/pre/$path/tail" + []string{"", "?x=1"}[rh.Intn(2)], []string{"", "strip=/m", "prepend=/pp"}[rh.Intn(3)]},
				{"/mh", sc + "://$host/v2/$path/end", ""},           // $host and $path in the middle
				{"/hp", sc + "://$path.bar.com/y", ""},             // $path inside the host, not as its suffix: stays as written
				{"/hq", sc + "://a$pathb.com/$path/z", ""},         // both
				{"/hm", sc + "://$path.bar.com/q/$path/r", ""},     // $path inside the host and in the middle of the path
				{"/e", sc + "://bar.com" + []string{"/$path", "$path", "/bbb$path"}[rh.Intn(3)], ""}, // $path at the end (as in class history-one-table)
				{"/up", "http://10.0.0.9:80/", "-"},
			}
			var lines []string
			var descs []tdesc
			for id, hr := range rs {
				u, err := url.Parse(hr.tmpl)
				if err != nil {
					panic(err)
				}
				d := tdesc{id: id, tmpl: hr.tmpl, u: u}
				if hr.opts == "-" {
					lines = append(lines, fmt.Sprintf("route add svc%d %s %s", id, hr.src, hr.tmpl))
				} else {
					opts := "redirect=" + []string{"301", "302", "307", "308"}[rh.Intn(4)]
					if hr.opts != "" {
						opts += " " + hr.opts
						kv := strings.SplitN(hr.opts, "=", 2)
						if kv[0] == "strip" {
							d.strip = kv[1]
						} else {
							d.prepend = kv[1]
						}
					}
					lines = append(lines, fmt.Sprintf("route add svc%d %s %s opts \"%s\"", id, hr.src, hr.tmpl, opts))
				}
				descs = append(descs, d)
			}
			text := strings.Join(lines, "\n")
			tbl, err := route.NewTable(bytes.NewBufferString(text))
			if err != nil {
				run.Exclude("route table rejected")
				continue
			}
			idOf := map[*route.Target]int{}
			for _, rts := range tbl {
				for _, rt := range rts {
					for _, t := range rt.Targets {
						var id int
						fmt.Sscanf(t.Service, "svc%d", &id)
						descs[id].code = t.RedirectCode
						idOf[t] = id
					}
				}
			}
			tr := &countingRT{}
			p := &proxy.HTTPProxy{Config: config.Proxy{}, Transport: tr, Lookup: func(req *http.Request) *route.Target {
				return tbl.Lookup(req, "", pick5, match5, gc5, false)
			}}
			var steps []string
			var hist []interface{}
			bad := false
			prefixes := []string{"/docs", "/docs", "/m", "/m", "/mh", "/hp", "/hq", "/hm", "/e", "/up", "/other"}
			n := 3 + rh.Intn(6)
			prev := ""
			for k := 0; k < n && !bad; k++ {
				host := hHosts[rh.Intn(len(hHosts))]
				pre := prefixes[rh.Intn(len(prefixes))]
				if prev != "" && rh.Intn(2) == 0 { // the same route again, with another path / query / host
					pre = prev
				}
				prev = pre
				wire := randWire(rh, pre)
				if rh.Intn(3) == 0 {
					wire = pre + fmt.Sprintf("/page-%d", k)
				}
				q, ok := mkReq(host, wire, queries[rh.Intn(len(queries))], []string{"", "", "http", "https"}[rh.Intn(4)], rh.Intn(3) == 0)
				if !ok {
					run.Exclude("request line does not parse")
					continue
				}
				var cands []string
				for _, c := range route.VerifC13Candidates(tbl, httpReq(q), pick5, match5, gc5) {
					if c == nil {
						cands = append(cands, vh.None)
					} else {
						cands = append(cands, vh.Some(coqTarget(descs[idOf[c]])))
					}
				}
				before := tr.n
				w := httptest.NewRecorder()
				panicked, pval := vh.Recover(func() { p.ServeHTTP(w, httpReq(q)) })
				hits := tr.n - before
				up := -1
				if hits > 0 {
					up = len(rs) - 1 // the only upstream of the table
				}
				_, hasLoc := w.Header()["Location"]
				resp, ok := coqResp(w.Code, w.Header().Get("Location"), hasLoc, hits, up, panicked, pval)
				step := map[string]interface{}{"host": q.host, "request": uri(q.wire, q.query), "x-forwarded-proto": q.xfp, "tls": q.tls, "status": w.Code, "location": w.Header().Get("Location"), "upstream_hits": hits}
				hist = append(hist, step)
				if !ok {
					run.Violation(run.NextID(), fmt.Sprintf("ServeHTTP in a request history ended in an unclassifiable way (status %d, panic %v)", w.Code, pval),
						map[string]interface{}{"routes": text, "history": hist})
					bad = true
					break
				}
				steps = append(steps, "("+coqReq(q)+", "+vh.HxS(q.wire)+", "+vh.List(cands)+", "+resp+", "+vh.Nat(hits)+")")
			}
			if bad || len(steps) == 0 {
				continue
			}
			run.Add("history-path-inside", vh.App("CHistory", vh.List(steps)), map[string]interface{}{"routes": text, "history": hist})
		}
	}

	// ---------- 5c. END TO END from consul tags ----------
	// tag -> the real routecmd.build -> route.NewTable -> HTTPProxy.ServeHTTP.  Each service
	// registers one urlprefix tag.  The Coq side reads template, code, strip and prepend off the
	// TEXT of the tag (Model/RedirectTag.v) and judges status and Location by the reference loop
	// and expected_location of that template.
	{
		rc := rand.New(rand.NewSource(run.Seed*15485863 + 3))
		const prefix = "urlprefix-"
		env := map[string]string{"DC": "dc1"}
		cHosts := []string{"www.foo.com", "$host", "$host", "www.$host", "bar.com:8443", "$host:8443"}
		cPaths := []string{"$path", "$path", "/$path", "/new$path", "/new/$path", "/$path/index.html", "", "/", "/fixed/page"}
		cQueries := []string{"", "", "", "?v=2"}
		cCodes := []string{"301", "302", "303", "307", "308", "301", "303", "300", "399", "200", "400", "3x1"}
		srcHosts := []string{"", "", "example.com", "Example.COM", "$DC.bar.com", "*.example.com"}
		srcPaths := []string{"/", "/path", "/tls", "/old", "/Docs", "/a/b"}
		reqHostFor := map[string][]string{
			"":              {"example.com", "other.org", "foo.com:8080"},
			"example.com":   {"example.com", "example.com", "other.org"},
			"Example.COM":   {"example.com", "EXAMPLE.com"},
			"$DC.bar.com":   {"dc1.bar.com", "dc1.bar.com", "dc2.bar.com"},
			"*.example.com": {"a.example.com", "shop.example.com", "example.com"},
		}
		type ctag struct {
			tag      string
			redirect bool
			tmpl     string
			strip    string
			prepend  string
		}
		mkRedirectTag := func(src string, srcPath string) ctag {
			tmpl := schemes[rc.Intn(2)] + "://" + cHosts[rc.Intn(len(cHosts))] + cPaths[rc.Intn(len(cPaths))] + cQueries[rc.Intn(len(cQueries))]
			if rc.Intn(5) == 0 { // the forms of the documentation, literally
				tmpl = []string{"https://www.foo.com$path", "https://$host$path", "https://www.google.com/", "https://www.bar.com$path"}[rc.Intn(4)]
			}
			ct := ctag{redirect: true, tmpl: tmpl}
			fields := []string{"redirect=" + cCodes[rc.Intn(len(cCodes))] + "," + tmpl}
			if srcPath != "/" && rc.Intn(3) == 0 {
				ct.strip = srcPath
				fields = append(fields, "strip="+srcPath)
			}
			if rc.Intn(5) == 0 {
				ct.prepend = "/pre"
				fields = append(fields, "prepend=/pre")
			}
			if rc.Intn(5) == 0 {
				fields = append(fields, "tlsskipverify=true")
			}
			rc.Shuffle(len(fields), func(a, b int) { fields[a], fields[b] = fields[b], fields[a] })
			if rc.Intn(6) == 0 { // proto= BEFORE the redirect option: the redirect's url wins
				at := 0
				for k, f := range fields {
					if strings.HasPrefix(f, "redirect=") {
						at = rc.Intn(k + 1)
					}
				}
				fields = append(fields[:at], append([]string{"proto=https"}, fields[at:]...)...)
			}
			sep := func() string {
				if rc.Intn(8) == 0 {
					return "  "
				}
				return " "
			}
			tag := prefix + src
			for _, f := range fields {
				tag += sep() + f
			}
			switch rc.Intn(8) {
			case 0:
				tag = " " + tag
			case 1:
				tag = tag + "  "
			}
			ct.tag = tag
			return ct
		}
		for i := 0; i < run.Scale(260, 6000); i++ {
			sh := srcHosts[rc.Intn(len(srcHosts))]
			sp := srcPaths[rc.Intn(len(srcPaths))]
			tags := []ctag{mkRedirectTag(sh+sp, sp)}
			if rc.Intn(4) == 0 { // a second redirect service on the host-less fallback
				tags = append(tags, mkRedirectTag("/", "/"))
			}
			switch rc.Intn(3) {
			case 0: // an ordinary service behind them
				tags = append(tags, ctag{tag: prefix + "/"})
			case 1:
				tags = append(tags, ctag{tag: prefix + sp + " tlsskipverify=true"})
			}
			if len(tags) > 1 && tags[0].tag == tags[1].tag {
				continue
			}
			// the consul catalog entries and the real route commands
			var cmds []string
			panicked := false
			for k, ct := range tags {
				svc := &api.CatalogService{ServiceName: fmt.Sprintf("svc%d", k), ServiceAddress: fmt.Sprintf("10.0.0.%d", k+1), ServicePort: 8000 + k,
					ServiceTags: []string{ct.tag}}
				if rc.Intn(4) == 0 {
					svc.ServiceTags = []string{"v1", ct.tag}
				}
				var out []string
				if p, pv := vh.Recover(func() { out = consul.VerifC14Build(svc, prefix, env) }); p {
					run.Violation(run.NextID(), fmt.Sprintf("routecmd.build panicked on a redirect tag: %v", pv), ct.tag)
					panicked = true
					break
				}
				cmds = append(cmds, out...)
			}
			if panicked {
				continue
			}
			text := strings.Join(cmds, "\n")
			tbl, err := route.NewTable(bytes.NewBufferString(text))
			if err != nil {
				run.Violation(run.NextID(), fmt.Sprintf("route.NewTable rejects the commands generated from redirect tags: %v", err), map[string]interface{}{"tags": tags, "commands": cmds})
				continue
			}
			realOf := map[int]*route.Target{}
			dup := false
			for _, rts := range tbl {
				for _, rt := range rts {
					if len(rt.Targets) > 1 { // two services on one route: the picker would choose
						dup = true
					}
					for _, t := range rt.Targets {
						var id int
						if _, err := fmt.Sscanf(t.Service, "svc%d", &id); err == nil {
							if realOf[id] != nil {
								dup = true
							}
							realOf[id] = t
						}
					}
				}
			}
			if dup {
				run.Exclude("consul services collapse into one route")
				continue
			}
			// the request
			hs := reqHostFor[sh]
			host := hs[rc.Intn(len(hs))]
			lead := sp
			if rc.Intn(6) == 0 {
				lead = ""
			}
			wire := randWire(rc, strings.TrimSuffix(lead, "/"))
			if rc.Intn(4) == 0 && lead != "" {
				wire = lead
			}
			xfp, isTLS := "", false
			switch rc.Intn(6) {
			case 0:
				xfp = "https"
			case 1:
				isTLS = true
			case 2:
				xfp = "http"
			}
			q, ok := mkReq(host, wire, queries[rc.Intn(len(queries))], xfp, isTLS)
			if !ok {
				run.Exclude("request line does not parse")
				continue
			}
			// per tag: text, the generator's view, the real target
			var coqTags []string
			var tagSample []string
			bad := false
			for k, ct := range tags {
				gen := vh.None
				if ct.redirect {
					u, err := url.Parse(ct.tmpl)
					if err != nil {
						bad = true
						break
					}
					gen = vh.Some(coqTarget(tdesc{id: k, u: u, strip: ct.strip, prepend: ct.prepend}))
				}
				real := vh.None
				if t := realOf[k]; t != nil {
					real = vh.Some(vh.App("mkTarget", vh.Nat(k), vh.HxS(t.URL.Scheme), vh.HxS(t.URL.Host), vh.HxS(t.URL.Path), vh.HxS(t.URL.RawQuery),
						vh.HxS(t.StripPath), vh.HxS(t.PrependPath), vh.Z(int64(t.RedirectCode))))
				}
				coqTags = append(coqTags, "("+vh.HxS(ct.tag)+", "+gen+", "+real+")")
				tagSample = append(tagSample, ct.tag)
			}
			if bad {
				run.Exclude("template does not parse as a URL")
				continue
			}
			var cands []string
			for _, c := range route.VerifC13Candidates(tbl, httpReq(q), pick5, match5, gc5) {
				if c == nil {
					cands = append(cands, vh.None)
					continue
				}
				var id int
				fmt.Sscanf(c.Service, "svc%d", &id)
				cands = append(cands, vh.Some(vh.Nat(id)))
			}
			tr := &countingRT{}
			up := -1
			p := &proxy.HTTPProxy{Config: config.Proxy{}, Transport: tr, InsecureTransport: tr, Lookup: func(req *http.Request) *route.Target {
				t := tbl.Lookup(req, "", pick5, match5, gc5, false)
				if t != nil {
					fmt.Sscanf(t.Service, "svc%d", &up)
				}
				return t
			}}
			w := httptest.NewRecorder()
			pn, pval := vh.Recover(func() { p.ServeHTTP(w, httpReq(q)) })
			_, hasLoc := w.Header()["Location"]
			resp, ok := coqResp(w.Code, w.Header().Get("Location"), hasLoc, tr.n, up, pn, pval)
			sample := map[string]interface{}{"tags": tagSample, "commands": cmds, "host": q.host, "request": uri(q.wire, q.query), "x-forwarded-proto": q.xfp, "tls": q.tls,
				"status": w.Code, "location": w.Header().Get("Location"), "upstream_hits": tr.n}
			if !ok {
				run.Violation(run.NextID(), fmt.Sprintf("ServeHTTP on a table built from consul tags ended in an unclassifiable way (status %d, panic %v)", w.Code, pval), sample)
				continue
			}
			run.Add("consul-tag-redirect", vh.App("CConsul", vh.HxS(prefix), vh.List(coqTags), vh.List(cands), vh.HxS(q.wire), coqReq(q), resp, vh.Nat(tr.n)), sample)
		}
	}


	// =====================================================================================
	// round 6: the scheme of the self-redirect test.  Requests given by their header fields AS
	// SENT: X-Forwarded-Proto absent / http / https  x  Forwarded absent / without proto / with
	// proto  x  plain / TLS connection, over the usual "http -> https" pair of routes (a
	// redirect route for the host with a service route behind it) and its variants.  Rand
	// source of its own.
	// =====================================================================================
	{
		rk := rand.New(rand.NewSource(run.Seed*32452843 + 11))
		gc6 := route.NewGlobCache(1000)
		pick6, match6 := route.Picker["rr"], route.Matcher["prefix"]
		type hdr = [2]string
		xfpNames := []string{"X-Forwarded-Proto", "X-Forwarded-Proto", "x-forwarded-proto", "X-FORWARDED-PROTO"}
		fwdNames := []string{"Forwarded", "Forwarded", "forwarded", "FORWARDED"}
		fwdNoProto := []string{"for=203.0.113.7", "for=203.0.113.7;by=10.0.0.1", `for="[2001:db8::1]:4711"`, "for=192.0.2.43, for=198.51.100.17",
			"by=10.0.0.1;host=example.com", "for=1.2.3.4; httpproto=http/1.1"}
		fwdProto := []string{"for=203.0.113.7;proto=https", "for=203.0.113.7;proto=http", "proto=https", "proto=http;for=1.2.3.4",
			"for=1.2.3.4; proto=https; by=10.0.0.1", "for=192.0.2.43, for=198.51.100.17;proto=https", "for=1.2.3.4;Proto=https", "for=1.2.3.4;proto=http;by=10.0.0.1"}
		others6 := []hdr{{"User-Agent", "verif/1"}, {"X-Forwarded-For", "203.0.113.7"}, {"X-Forwarded-Port", "443"}, {"X-Forwarded-Host", "example.com"},
			{"Accept", "text/html"}, {"X-Real-Ip", "203.0.113.7"}, {"Cookie", "a=b"}}

		// the servers of the socket cases: one plain, one TLS, over the same HTTPProxy
		var curTbl atomic.Value // route.Table
		var upSock int64
		trSock := &countingRT{}
		pxSock := &proxy.HTTPProxy{Config: config.Proxy{}, Transport: trSock, Lookup: func(req *http.Request) *route.Target {
			t := curTbl.Load().(route.Table).Lookup(req, "", pick6, match6, gc6, false)
			id := -1
			if t != nil {
				fmt.Sscanf(t.Service, "svc%d", &id)
			}
			atomic.StoreInt64(&upSock, int64(id))
			return t
		}}
		srvPlain := httptest.NewServer(pxSock)
		srvTLS := httptest.NewTLSServer(pxSock)

		// shape of the table: a redirect route for the host, what stands behind it
		mkTable := func(shape int, h, sc string, isTLS bool) ([]string, []tdesc) {
			var lines []string
			var descs []tdesc
			add := func(src, tmpl, opts string) {
				u, err := url.Parse(tmpl)
				if err != nil {
					panic(err)
				}
				id := len(descs)
				if opts == "" {
					lines = append(lines, fmt.Sprintf("route add svc%d %s %s", id, src, tmpl))
				} else {
					lines = append(lines, fmt.Sprintf("route add svc%d %s %s opts \"%s\"", id, src, tmpl, opts))
				}
				descs = append(descs, tdesc{id: id, tmpl: tmpl, u: u})
			}
			switch shape {
			case 0: // the usual pair: host:port/ redirects to the other scheme, host/ is the service
				port := "80"
				if isTLS != (rk.Intn(5) == 0) { // mostly the port of the connection, so that the redirect route matches
					port = "443"
				}
				add(h+":"+port+"/", sc+"://"+h+"$path", "redirect=301")
				add(h+"/", "http://10.0.0.9:80/", "")
			case 1: // $host template on the host, the service on the host-less fallback
				add(h+"/", sc+"://$host"+[]string{"$path", "/$path"}[rk.Intn(2)], "redirect="+[]string{"302", "307"}[rk.Intn(2)])
				add("/", "http://10.0.0.9:80/", "")
			case 2: // another redirect behind it
				add(h+"/", sc+"://"+h+"/$path", "redirect=308")
				add("/", "https://other.example.org/$path", "redirect=302")
			default: // nothing behind it
				add("/", sc+"://$host$path", "redirect=301")
			}
			return lines, descs
		}

		serveP := func(class string, lines []string, descs []tdesc, host, wire, query string, hs []hdr, isTLS, sock bool) {
			text := strings.Join(lines, "\n")
			tbl, err := route.NewTable(bytes.NewBufferString(text))
			if err != nil {
				run.Exclude("route table rejected")
				return
			}
			idOf := map[*route.Target]int{}
			for _, rts := range tbl {
				for _, rt := range rts {
					for _, t := range rt.Targets {
						var id int
						if _, err := fmt.Sscanf(t.Service, "svc%d", &id); err != nil || id >= len(descs) {
							continue
						}
						descs[id].code = t.RedirectCode
						idOf[t] = id
					}
				}
			}
			if len(idOf) != len(descs) {
				run.Exclude("route table rejected")
				return
			}
			var sb strings.Builder
			sb.WriteString("GET " + uri(wire, query) + " HTTP/1.1\r\nHost: " + host + "\r\n")
			var coqH []string
			for _, h := range hs {
				sb.WriteString(h[0] + ": " + h[1] + "\r\n")
				coqH = append(coqH, vh.Pair(vh.HxS(h[0]), vh.HxS(h[1])))
			}
			sb.WriteString("\r\n")
			raw := sb.String()
			parse := func() *http.Request { // the request as net/http reads it from the wire
				req, err := http.ReadRequest(bufio.NewReader(strings.NewReader(raw)))
				if err != nil {
					return nil
				}
				req.RemoteAddr = "1.2.3.4:5555"
				if isTLS {
					req.TLS = &tls.ConnectionState{}
				}
				return req
			}
			creq := parse()
			if creq == nil {
				run.Exclude("request net/http's server would refuse")
				return
			}
			rHost, rPath, rRaw, rQuery := creq.Host, creq.URL.Path, creq.URL.RawPath, creq.URL.RawQuery
			var cands []string
			for _, c := range route.VerifC13Candidates(tbl, creq, pick6, match6, gc6) {
				if c == nil {
					cands = append(cands, vh.None)
				} else {
					cands = append(cands, vh.Some(coqTarget(descs[idOf[c]])))
				}
			}
			sample := map[string]interface{}{"routes": text, "host": host, "request": uri(wire, query), "headers": hs, "tls": isTLS, "socket": sock}
			var status, hits, up int
			var loc string
			var hasLoc bool
			if sock {
				curTbl.Store(tbl)
				trSock.mu.Lock()
				before := trSock.n
				trSock.mu.Unlock()
				var c net.Conn
				if isTLS {
					c, err = tls.Dial("tcp", srvTLS.Listener.Addr().String(), &tls.Config{InsecureSkipVerify: true})
				} else {
					c, err = net.Dial("tcp", srvPlain.Listener.Addr().String())
				}
				if err != nil {
					panic(err)
				}
				c.SetDeadline(time.Now().Add(5 * time.Second))
				io.WriteString(c, raw)
				resp, rerr := http.ReadResponse(bufio.NewReader(c), nil)
				c.Close()
				if rerr != nil {
					run.Violation(run.NextID(), fmt.Sprintf("request with forwarding headers got no HTTP response (%v)", rerr), sample)
					return
				}
				trSock.mu.Lock()
				hits = trSock.n - before
				trSock.mu.Unlock()
				status, loc = resp.StatusCode, resp.Header.Get("Location")
				_, hasLoc = resp.Header["Location"]
				up = int(atomic.LoadInt64(&upSock))
			} else {
				tr := &countingRT{}
				up = -1
				p := &proxy.HTTPProxy{Config: config.Proxy{}, Transport: tr, Lookup: func(req *http.Request) *route.Target {
					t := tbl.Lookup(req, "", pick6, match6, gc6, false)
					if t != nil {
						fmt.Sscanf(t.Service, "svc%d", &up)
					}
					return t
				}}
				w := httptest.NewRecorder()
				if panicked, pval := vh.Recover(func() { p.ServeHTTP(w, parse()) }); panicked {
					run.Violation(run.NextID(), fmt.Sprintf("ServeHTTP panicked on a request with forwarding headers: %v", pval), sample)
					return
				}
				status, loc, hits = w.Code, w.Header().Get("Location"), tr.n
				_, hasLoc = w.Header()["Location"]
			}
			sample["status"], sample["location"], sample["upstream_hits"] = status, loc, hits
			resp, ok := coqResp(status, loc, hasLoc, hits, up, false, nil)
			if !ok {
				run.Violation(run.NextID(), fmt.Sprintf("request with forwarding headers ended in an unclassifiable way (status %d)", status), sample)
				return
			}
			run.Add(class, vh.App("CServeP", vh.List(coqH), vh.List(cands), vh.HxS(rHost), vh.HxS(wire), vh.HxS(rPath), vh.HxS(rRaw), vh.HxS(rQuery),
				vh.Bool(isTLS), resp, vh.Nat(hits)), sample)
		}
		mkHeaders := func(xfp, fwd string, spell bool) []hdr {
			var hs []hdr
			if xfp != "" {
				n := "X-Forwarded-Proto"
				if spell {
					n = xfpNames[rk.Intn(len(xfpNames))]
				}
				hs = append(hs, hdr{n, xfp})
			}
			if fwd != "" {
				n := "Forwarded"
				if spell {
					n = fwdNames[rk.Intn(len(fwdNames))]
				}
				hs = append(hs, hdr{n, fwd})
			}
			if len(hs) == 2 && rk.Intn(2) == 0 {
				hs[0], hs[1] = hs[1], hs[0]
			}
			return hs
		}
		paths6 := []string{"/account/settings", "/x", "/", "/a/b", "/a%2Fb/c"}

		// 6a. the whole grid, directed
		for shape := 0; shape < 3; shape++ {
			for _, sc := range schemes {
				for _, xfp := range []string{"", "http", "https"} {
					for _, fwd := range []string{"", fwdNoProto[0], fwdNoProto[1], fwdProto[0], fwdProto[1], fwdProto[2]} {
						for _, isTLS := range []bool{false, true} {
							lines, descs := mkTable(shape, "example.com", sc, isTLS)
							serveP("serve-self-forwarded", lines, descs, "example.com", paths6[rk.Intn(len(paths6))], "", mkHeaders(xfp, fwd, false), isTLS, false)
						}
					}
				}
			}
		}
		// 6b. random: every form of the Forwarded value, other spellings of the names, repeated
		// fields (the first one counts), an empty X-Forwarded-Proto, unrelated fields around
		for i := 0; i < run.Scale(140, 4000); i++ {
			h := []string{"example.com", "shop.example.com", "foo.com"}[rk.Intn(3)]
			sc := schemes[rk.Intn(2)]
			isTLS := rk.Intn(2) == 0
			xfp := []string{"", "http", "https", "https"}[rk.Intn(4)]
			fwd := ""
			switch rk.Intn(5) {
			case 0:
			case 1, 2:
				fwd = fwdNoProto[rk.Intn(len(fwdNoProto))]
			default:
				fwd = fwdProto[rk.Intn(len(fwdProto))]
			}
			hs := mkHeaders(xfp, fwd, true)
			switch rk.Intn(8) {
			case 0: // a second X-Forwarded-Proto field
				hs = append(hs, hdr{"X-Forwarded-Proto", []string{"http", "https"}[rk.Intn(2)]})
			case 1: // a second Forwarded field
				hs = append(hs, hdr{"Forwarded", []string{"for=10.1.1.1", "for=10.1.1.1;proto=http", "for=10.1.1.1;proto=https"}[rk.Intn(3)]})
			case 2: // an X-Forwarded-Proto field that says nothing, in front
				if xfp == "" {
					hs = append([]hdr{{"X-Forwarded-Proto", ""}}, hs...)
				}
			}
			for k := rk.Intn(3); k > 0; k-- {
				hs = append(hs, others6[rk.Intn(len(others6))])
				if rk.Intn(2) == 0 {
					j := rk.Intn(len(hs))
					hs[j], hs[len(hs)-1] = hs[len(hs)-1], hs[j]
				}
			}
			lines, descs := mkTable(rk.Intn(4), h, sc, isTLS)
			serveP("serve-self-forwarded-random", lines, descs, h, paths6[rk.Intn(len(paths6))], []string{"", "", "page=2"}[rk.Intn(3)], hs, isTLS, false)
		}
		// 6c. over real sockets: the connection is a plain or a TLS one for net/http itself
		for _, xfp := range []string{"", "http", "https"} {
			for _, fwd := range []string{"", fwdNoProto[0], fwdProto[1], fwdProto[0]} {
				for _, isTLS := range []bool{false, true} {
					for _, sc := range schemes {
						lines, descs := mkTable(rk.Intn(3), "example.com", sc, isTLS)
						serveP("serve-self-forwarded-socket", lines, descs, "example.com", paths6[rk.Intn(len(paths6))], "", mkHeaders(xfp, fwd, true), isTLS, true)
					}
				}
			}
		}
		srvPlain.Close()
		srvTLS.Close()
	}

	// =====================================================================================
	// 7. round 8: Table.Lookup with GLOB MATCHING DISABLED (glob.matching.disabled=true, the last
	// argument of Table.Lookup as main.go passes cfg.GlobMatchingDisabled).  Every class above
	// calls Lookup with globDisabled=false; here the same kinds of tables - in particular
	// HOST-LESS redirect routes, requests whose Host no table host matches, table hosts written
	// with the default port, glob patterns (literal keys in this mode) - are served in that mode.
	// The case carries EVERY host key of the real table with what Table.lookup yields for it
	// (hook VerifC13HostView); which of them are visited is computed by the model
	// (matching_noglob) and judged by the specification's own decision (same_hostb).  The same
	// table and request are also served with glob matching enabled (class serve-noglob-control,
	// case CServe).  Own rand source.
	// =====================================================================================
	{
		rn := rand.New(rand.NewSource(run.Seed*49979687 + 17))
		serveNG := func(class string, lines []string, descs []tdesc, q rdesc, control bool) {
			text := strings.Join(lines, "\n")
			tbl, err := route.NewTable(bytes.NewBufferString(text))
			if err != nil {
				run.Exclude("route table rejected")
				return
			}
			idOf := map[*route.Target]int{}
			seen := 0
			for _, rts := range tbl {
				for _, rt := range rts {
					for _, t := range rt.Targets {
						var id int
						if _, err := fmt.Sscanf(t.Service, "svc%d", &id); err != nil || id >= len(descs) {
							continue
						}
						descs[id].code = t.RedirectCode
						idOf[t] = id
						seen++
					}
				}
			}
			if seen != len(descs) {
				run.Exclude("route table rejected")
				return
			}
			optT := func(t *route.Target) string {
				if t == nil {
					return vh.None
				}
				return vh.Some(coqTarget(descs[idOf[t]]))
			}
			hosts, targets, fb := route.VerifC13HostView(tbl, httpReq(q), pick5, match5)
			var tv []string
			for i, h := range hosts {
				tv = append(tv, vh.Pair(vh.HxS(h), optT(targets[i])))
			}
			tr := &countingRT{}
			up := -1
			p := &proxy.HTTPProxy{Config: config.Proxy{}, Transport: tr, Lookup: func(req *http.Request) *route.Target {
				t := tbl.Lookup(req, "", pick5, match5, gc5, true)
				if t != nil {
					fmt.Sscanf(t.Service, "svc%d", &up)
				}
				return t
			}}
			w := httptest.NewRecorder()
			panicked, pval := vh.Recover(func() { p.ServeHTTP(w, httpReq(q)) })
			_, hasLoc := w.Header()["Location"]
			resp, ok := coqResp(w.Code, w.Header().Get("Location"), hasLoc, tr.n, up, panicked, pval)
			sample := map[string]interface{}{"glob.matching.disabled": true, "routes": text, "host": q.host, "request": uri(q.wire, q.query),
				"x-forwarded-proto": q.xfp, "tls": q.tls, "status": w.Code, "location": w.Header().Get("Location"), "upstream_hits": tr.n,
				"upstream_hosts": tr.hosts}
			if !ok {
				run.Violation(run.NextID(), fmt.Sprintf("ServeHTTP (glob matching disabled) on a redirect table ended in an unclassifiable way (status %d, panic %v)", w.Code, pval), sample)
				return
			}
			run.Add(class, vh.App("CServeNG", vh.List(tv), optT(fb), vh.HxS(q.wire), coqReq(q), resp, vh.Nat(tr.n)), sample)
			if control {
				d2 := append([]tdesc(nil), descs...)
				serveTable("serve-noglob-control", lines, d2, q)
			}
		}
		upstream := func(id int, src string) (string, tdesc) {
			dst := fmt.Sprintf("http://10.0.0.%d:80/", id+1)
			u, _ := url.Parse(dst)
			return fmt.Sprintf("route add svc%d %s %s", id, src, dst), tdesc{id: id, tmpl: dst, u: u}
		}
		redirect := func(id int, src, tmpl, code, strip, prepend string) (string, tdesc, bool) {
			u, err := url.Parse(tmpl)
			if err != nil || strings.ContainsAny(tmpl, " \"") || (u.Scheme == "" && u.Host == "") {
				return "", tdesc{}, false
			}
			opts := "redirect=" + code
			if strip != "" {
				opts += " strip=" + strip
			}
			if prepend != "" {
				opts += " prepend=" + prepend
			}
			return fmt.Sprintf("route add svc%d %s %s opts \"%s\"", id, src, tmpl, opts), tdesc{id: id, tmpl: tmpl, u: u, strip: strip, prepend: prepend}, true
		}

		// 7a. directed: a HOST-LESS redirect route (the first form of docs/feature/http-redirects.md)
		// alone or beside routes of named hosts, asked for under hosts the table knows / does not know
		for _, fbSrc := range []string{"/", "/docs"} {
			for _, tmpl := range []string{"https://www.foo.com$path", "https://$host/new$path", "https://www.foo.com/"} {
				for shape := 0; shape < 5; shape++ {
					for _, host := range []string{"intranet.local", "example.com", "a.example.com", "EXAMPLE.com:80", "example.com:443"} {
						for _, isTLS := range []bool{false, true} {
							var lines []string
							var descs []tdesc
							l, d, _ := redirect(0, fbSrc, tmpl, []string{"302", "301", "307", "308"}[rn.Intn(4)], "", "")
							lines, descs = append(lines, l), append(descs, d)
							switch shape {
							case 1: // a service on the table's own host
								l, d := upstream(1, "example.com/")
								lines, descs = append(lines, l), append(descs, d)
							case 2: // a glob pattern: a literal key in this mode
								l, d := upstream(1, "*.example.com/")
								lines, descs = append(lines, l), append(descs, d)
							case 3: // the usual http -> https pair on the named host
								l, d, _ := redirect(1, "example.com:80/", "https://example.com$path", "301", "", "")
								lines, descs = append(lines, l), append(descs, d)
								l2, d2 := upstream(2, "example.com/")
								lines, descs = append(lines, l2), append(descs, d2)
							case 4: // a named host whose routes do not cover the path
								l, d := upstream(1, "example.com/other")
								lines, descs = append(lines, l), append(descs, d)
								l2, d2 := upstream(2, "unrelated.org/")
								lines, descs = append(lines, l2), append(descs, d2)
							}
							wire := []string{"/docs/setup", "/docs", "/docs/a%2Fb", "/"}[rn.Intn(4)]
							q, ok := mkReq(host, wire, []string{"", "", "v=2"}[rn.Intn(3)], []string{"", "", "", "http", "https"}[rn.Intn(5)], isTLS)
							if !ok {
								run.Exclude("request line does not parse")
								continue
							}
							serveNG("serve-noglob-hostless", lines, descs, q, shape == 0 && !isTLS)
						}
					}
				}
			}
		}

		// 7b. random tables in the manner of serve-random-table / serve-self-redirect
		ngRouteHosts := []string{"", "", "example.com", "example.com:80", "example.com:443", "example.com:8080", "*.example.com", "*.com", "*", "other.org"}
		ngReqHosts := []string{"example.com", "example.com", "Example.COM", "example.com:80", "EXAMPLE.com:80", "example.com:443", "example.com:8080",
			"www.example.com", "intranet.local", "other.org", "10.1.2.3:9999"}
		ngCodes := []string{"301", "302", "303", "307", "308", "300", "399", "301", "302", "400", "299", "0", "3x1"}
		for i := 0; i < run.Scale(250, 6000); i++ {
			host := ngReqHosts[rn.Intn(len(ngReqHosts))]
			wire := randWire(rn, []string{"", "", "/x"}[rn.Intn(3)])
			q, ok := mkReq(host, wire, queries[rn.Intn(len(queries))], []string{"", "", "http", "https"}[rn.Intn(4)], rn.Intn(3) == 0)
			if !ok {
				run.Exclude("request line does not parse")
				continue
			}
			var lines []string
			var descs []tdesc
			used := map[string]bool{}
			usedDst := map[string]bool{}
			self := rn.Intn(3) == 0
			for k := 1 + rn.Intn(4); k > 0; k-- {
				rh := ngRouteHosts[rn.Intn(len(ngRouteHosts))]
				rp := []string{"/", "/", "/x"}[rn.Intn(3)]
				if used[rh+rp] {
					continue
				}
				id := len(descs)
				if rn.Intn(4) == 0 {
					l, d := upstream(id, rh+rp)
					used[rh+rp] = true
					lines, descs = append(lines, l), append(descs, d)
					continue
				}
				tmpl := schemes[rn.Intn(2)] + "://" + tmplHosts[rn.Intn(len(tmplHosts))] + tmplPaths[rn.Intn(len(tmplPaths))] + tmplQueries[rn.Intn(len(tmplQueries))]
				if self || rn.Intn(4) == 0 { // a template that points back at the request
					sc := schemes[rn.Intn(2)]
					tmpl = []string{sc + "://$host$path", sc + "://$host/$path", sc + "://" + q.host + "$path", sc + "://" + q.host + q.wire}[rn.Intn(4)]
				}
				strip, prepend := "", ""
				if rn.Intn(4) == 0 {
					strip = []string{"/x", "/a", "/abc"}[rn.Intn(3)]
				}
				if rn.Intn(6) == 0 {
					prepend = "/pre"
				}
				l, d, ok := redirect(id, rh+rp, tmpl, ngCodes[rn.Intn(len(ngCodes))], strip, prepend)
				if !ok || usedDst[d.u.Host] {
					continue
				}
				usedDst[d.u.Host] = true
				used[rh+rp] = true
				lines, descs = append(lines, l), append(descs, d)
			}
			if len(lines) == 0 {
				continue
			}
			serveNG("serve-noglob-random", lines, descs, q, i%4 == 0)
		}
	}

	run.Finish(preamble, (len(run.Cases)+15)/16+1)
}
