package main

import "crypto/tls"

func nil2tls() *tls.ConnectionState { return &tls.ConnectionState{} }
