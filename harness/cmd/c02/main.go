package main

import (
	"bytes"
	"fmt"
	"net/http"
	"net/url"
	"strconv"

	"github.com/fabiolb/fabio/route"
)

func try(text string, host string, globOff bool) {
	var t route.Table
	var err error
	func() {
		defer func() {
			if v := recover(); v != nil {
				fmt.Printf("BUILD PANIC %q: %v\n", text, v)
				t = nil
				err = fmt.Errorf("panic")
			}
		}()
		t, err = route.NewTable(bytes.NewBufferString(text))
	}()
	if err != nil {
		fmt.Printf("build err %q: %v\n", text, err)
		return
	}
	func() {
		defer func() {
			if v := recover(); v != nil {
				fmt.Printf("LOOKUP PANIC %q: %v\n", text, v)
			}
		}()
		req := &http.Request{Host: host, URL: &url.URL{Path: "/"}, Header: http.Header{}}
		tg := t.Lookup(req, "", route.Picker["rr"], route.Matcher["prefix"], route.NewGlobCache(10), globOff)
		fmt.Printf("lookup ok %q -> %v\n", text, tg != nil)
	}()
}

func main() {
	try("route add s [/ http://h/", "x.com", false)
	try("route add s [/ http://h/", "x.com", true)
	try("route add s h.com/ http://h/ weight Inf", "h.com", false)
	try("route add s h.com/ http://h/ weight NaN\nroute add s h.com/ http://h/ weight NaN", "h.com", false)
	try("route add s h.com/ http://h/ weight 5e-324", "h.com", false)
	try("route add s h.com/ http://a/ weight 1e308\nroute add s h.com/ http://b/ weight 1e308", "h.com", false)
	try("route add s h.com/ http://a/ weight 1e999", "h.com", false)
	try("route add s h.com/[ http://a/", "h.com", false)
	try("route add s h.com/ http://a/\x00", "h.com", false)
	try("route add s h.com/ http://a/ opts \"redirect=9999999999999999999999\"", "h.com", false)
	for _, s := range []string{"1e-999", "Inf", "nan", "0x1p-2", "1_0", "infinity", "-Inf", "1e400"} {
		f, err := strconv.ParseFloat(s, 64)
		fmt.Println(s, f, err)
	}
	var defs []route.RouteDef
	defs = append(defs, route.RouteDef{Cmd: route.RouteAddCmd, Service: "s", Src: "", Dst: "http://a/"})
	_, err := route.NewTableCustom(&defs)
	fmt.Println("custom empty src:", err)
	defs = []route.RouteDef{{Cmd: "bogus"}}
	_, err = route.NewTableCustom(&defs)
	fmt.Println("custom bogus:", err)
}
