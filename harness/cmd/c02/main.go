// Harness for property C02: table replacement is atomic, keeps the last good table, never
// crashes.  Runs the REAL fabio code:
//
//	(i)   route.NewTable / route.NewTableCustom on generated and mutated configuration texts /
//	      definition lists, and Table.Lookup on the result (panics recovered and reported as the
//	      observable);
//	(ii)  the real main.watchBackend and the real custom backend (registry/custom) through the
//	      driver /repo/verif_c02_test.go, in a separate `go test` process because the update
//	      loops have no recover: a crash kills that process, which is what is observed;
//	(iii) a forced schedule of SetTable / GetTable / Lookup on the real cell, and a stress run
//	      (writer alternating two tables, readers taking GetTable() once) under the race detector.
package main

import (
	"bufio"
	"bytes"
	"encoding/json"
	"fmt"
	"math"
	"math/rand"
	"net/http"
	"net/http/httptest"
	"net/url"
	"os"
	"os/exec"
	"path/filepath"
	"regexp"
	"sort"
	"strconv"
	"strings"
	"sync"
	"sync/atomic"
	"syscall"
	"time"

	"github.com/gobwas/glob"

	"github.com/fabiolb/fabio/admin/api"
	"github.com/fabiolb/fabio/proxy"
	"github.com/fabiolb/fabio/route"

	"verifharness/internal/vh"
)

const preamble = `From Coq Require Import List NArith ZArith String.
From Fabio Require Import Lib.Outcome Lib.Bytes Lib.Pack Model.WtF64 Model.TableCmd Model.RouteText Model.TableSwap Check.C02.
Import ListNotations.
Local Open Scope N_scope.
`

// ---------- race detector plumbing (same scheme as C06 / C17) ----------
func raceReexec() {
	if !raceEnabled || os.Getenv("C02_RACE_CHILD") != "" {
		return
	}
	out := ""
	for i, a := range os.Args {
		if (a == "-out" || a == "--out") && i+1 < len(os.Args) {
			out = os.Args[i+1]
		} else if strings.HasPrefix(a, "-out=") {
			out = a[5:]
		}
	}
	exe, err := os.Executable()
	if out == "" || err != nil {
		return
	}
	os.MkdirAll(out, 0o755)
	old, _ := filepath.Glob(filepath.Join(out, "race.*"))
	for _, f := range old {
		os.Remove(f)
	}
	env := append(os.Environ(), "C02_RACE_CHILD=1", "GORACE=log_path="+filepath.Join(out, "race")+" halt_on_error=0 exitcode=0 history_size=3")
	syscall.Exec(exe, os.Args, env)
}

func raceReports(run *vh.Run) {
	files, _ := filepath.Glob(filepath.Join(run.Out, "race.*"))
	n := 0
	for _, f := range files {
		b, _ := os.ReadFile(f)
		for _, rep := range strings.Split(string(b), "==================") {
			if !strings.Contains(rep, "DATA RACE") {
				continue
			}
			n++
			if n <= 3 {
				if len(rep) > 3000 {
					rep = rep[:3000]
				}
				run.Violation(-1, "data race on the routing table (race detector; writer alternating SetTable, readers using GetTable + Lookup)", rep)
			}
		}
		os.Remove(f)
	}
	run.Notes["race_detector"] = raceEnabled
	run.Notes["race_reports"] = n
}

// ---------- Coq term helpers ----------
func hx(s string) string { return vh.HxS(s) }

func strList(l []string) string {
	items := make([]string, len(l))
	for i, s := range l {
		items[i] = hx(s)
	}
	return vh.List(items)
}

// wtOf renders the exact value of a float64 as a C05 weight; ok=false for NaN
func wtOf(f float64) (string, bool) {
	switch {
	case math.IsNaN(f):
		return "", false
	case f == 0:
		return "WZ", true
	case math.IsInf(f, 1):
		return "(WP 4503599627370496 972%Z)", true
	case math.IsInf(f, -1):
		return "(WN 4503599627370496 972%Z)", true
	}
	fr, exp := math.Frexp(math.Abs(f))
	m := uint64(math.Ldexp(fr, 53))
	e := exp - 53
	c := "WP"
	if f < 0 {
		c = "WN"
	}
	return fmt.Sprintf("(%s %d (%d)%%Z)", c, m, e), true
}

func errKind(err error) int {
	s := err.Error()
	switch {
	case strings.Contains(s, "'route' expected"):
		return 1
	case strings.Contains(s, "'route add' invalid"):
		return 2
	case strings.Contains(s, "'route del' invalid"):
		return 3
	case strings.Contains(s, "'route weight' invalid"):
		return 4
	case strings.Contains(s, "weight value invalid"):
		return 5
	case strings.Contains(s, "prefix must not be empty"):
		return 6
	case strings.Contains(s, "target must not be empty"):
		return 7
	case strings.Contains(s, "invalid target."):
		return 8
	case strings.Contains(s, "no target match"):
		return 9
	case strings.Contains(s, "invalid host."):
		return 11
	case strings.Contains(s, "invalid command"):
		return 12
	case strings.Contains(s, "token too long"):
		return 13
	case strings.Contains(s, "no route definitions"):
		return 14
	}
	return 10
}

type tobs [][3]interface{} // host, path, []string services; hosts ascending, routes in slice order

func dumpTable(t route.Table) tobs {
	hosts := []string{}
	for h := range t {
		hosts = append(hosts, h)
	}
	sort.Strings(hosts)
	out := tobs{}
	for _, h := range hosts {
		for _, r := range t[h] {
			svcs := []string{}
			for _, tg := range r.Targets {
				svcs = append(svcs, tg.Service+"\x00"+optsText(tg.Opts))
			}
			out = append(out, [3]interface{}{h, r.Path, svcs})
		}
	}
	return out
}

// optsText renders a target's options as "k=v k=v", keys ascending (see Check/C02.v obs_of): the
// options a target carries are part of what "the complete new table" means
func optsText(m map[string]string) string {
	ks := make([]string, 0, len(m))
	for k := range m {
		ks = append(ks, k)
	}
	sort.Strings(ks)
	for i, k := range ks {
		ks[i] = k + "=" + m[k]
	}
	return strings.Join(ks, " ")
}

func toStrings(v interface{}) []string {
	switch x := v.(type) {
	case []string:
		return x
	case []interface{}:
		out := make([]string, len(x))
		for i, e := range x {
			out[i], _ = e.(string)
		}
		return out
	}
	return nil
}

func coqTobs(t tobs) string {
	var hosts []string
	var cur string
	var routes []string
	flush := func() {
		if routes != nil {
			hosts = append(hosts, vh.Pair(hx(cur), vh.List(routes)))
		}
		routes = nil
	}
	for i, e := range t {
		h, _ := e[0].(string)
		p, _ := e[1].(string)
		if i == 0 || h != cur {
			flush()
			cur = h
			routes = []string{}
		}
		routes = append(routes, vh.Pair(hx(p), strList(toStrings(e[2]))))
	}
	flush()
	return vh.List(hosts)
}

// ---------- what the libraries say about the strings of a text ----------
var reSpace = regexp.MustCompile(`[\t\n\f\r ]+`)

type env struct {
	urls     map[string]string // token -> Coq option
	badglobs map[string]bool
	wlits    map[string]string
	badhosts map[string]bool
	// domain flags
	nan, nonASCII, longLine, hostClass, weightCmdExtreme, edgeWeight bool
	stripBreaks                                                      []string // hosts that compile but whose normalised form does not (assumption of the lookup theorem)
}

func newEnv() *env {
	return &env{urls: map[string]string{}, badglobs: map[string]bool{}, wlits: map[string]string{}, badhosts: map[string]bool{}}
}

func hostpath(prefix string) (string, string) {
	if strings.HasPrefix(prefix, ":") {
		return prefix, ""
	}
	p := strings.SplitN(prefix, "/", 2)
	if len(p) == 1 {
		return p[0], "/"
	}
	return p[0], "/" + p[1]
}

func normHost(h string, tls bool) string {
	if !tls && strings.HasSuffix(h, ":80") {
		h = h[:len(h)-3]
	}
	if tls && strings.HasSuffix(h, ":443") {
		h = h[:len(h)-4]
	}
	return strings.ToLower(h)
}

func (e *env) addDst(d string) {
	if _, ok := e.urls[d]; ok {
		return
	}
	u, err := url.Parse(d)
	if err != nil {
		e.urls[d] = vh.None
	} else {
		e.urls[d] = vh.Some(hx(u.String()))
	}
}

func (e *env) addSrc(src string) {
	h, p := hostpath(src)
	if _, err := glob.Compile(p); err != nil {
		e.badglobs[p] = true
	}
	h = strings.ToLower(h)
	_, herr := glob.Compile(h) // what addRoute checks for a new host (since c9fb527)
	if herr != nil {
		e.badglobs[h] = true
	}
	ok := herr == nil
	for _, tls := range []bool{false, true} {
		n := normHost(h, tls)
		if _, err := glob.Compile(n); err != nil {
			e.badhosts[n] = true
			ok = false
			if herr == nil {
				e.stripBreaks = append(e.stripBreaks, h)
			}
		}
	}
	if ok && (strings.ContainsAny(h, "[]{}\\") || strings.HasPrefix(h, ":")) {
		e.hostClass = true
	}
}

// what the code's own parseWeight says about a weight token, asked through route.Parse (since 0b2a40e
// it rejects NaN and infinities that strconv reads)
func weightRejected(tok string) bool {
	_, err := route.Parse(bytes.NewBufferString("route add s a.test/ http://h/ weight " + tok))
	return err != nil && strings.Contains(err.Error(), "weight value invalid")
}

func (e *env) addWeight(tok string, inWeightCmd bool) {
	f, err := strconv.ParseFloat(tok, 64)
	if err != nil || weightRejected(tok) {
		e.wlits[tok] = vh.Err(5)
		return
	}
	w, ok := wtOf(f)
	if !ok {
		e.nan = true
		return
	}
	e.wlits[tok] = vh.Ok(w)
	if f != 0 && (math.IsInf(f, 0) || math.Abs(f) < 1e-300 || math.Abs(f) > 1e300) {
		e.edgeWeight = true
	}
	if inWeightCmd && f != 0 && (math.IsInf(f, 0) || math.Abs(f) < 1e-290 || math.Abs(f) > 1e290) {
		e.weightCmdExtreme = true
	}
}

func (e *env) addText(text string) {
	for i := 0; i < len(text); i++ {
		if text[i] >= 128 {
			e.nonASCII = true
		}
	}
	for _, line := range strings.Split(text, "\n") {
		if len(line) >= 60000 {
			e.longLine = true
		}
		line = strings.TrimSpace(strings.TrimSuffix(line, "\r"))
		f := reSpace.Split(line, -1)
		if len(f) < 3 || f[0] != "route" {
			continue
		}
		if len(f) > 3 && f[1] == "add" {
			e.addSrc(f[3])
		}
		if len(f) > 4 {
			e.addDst(f[4])
		}
		for i := 2; i+1 < len(f); i++ {
			if f[i] == "weight" {
				e.addWeight(f[i+1], f[1] == "weight")
			}
		}
	}
}

func (e *env) coq() string {
	var urls, bg, wl, bh []string
	for _, k := range sortedKeys(e.urls) {
		urls = append(urls, vh.Pair(hx(k), e.urls[k]))
	}
	for _, k := range sortedBool(e.badglobs) {
		bg = append(bg, hx(k))
	}
	for _, k := range sortedKeys(e.wlits) {
		wl = append(wl, vh.Pair(hx(k), e.wlits[k]))
	}
	for _, k := range sortedBool(e.badhosts) {
		bh = append(bh, hx(k))
	}
	return vh.App("Env", vh.List(urls), vh.List(bg), vh.List(wl), vh.List(bh))
}

func (e *env) excluded() string {
	switch {
	case e.nonASCII:
		return "non-ASCII byte in the text (the parser model is ASCII)"
	case e.nan:
		return "NaN weight (no exact value; not representable in the command-layer model)"
	case e.weightCmdExtreme:
		return "route weight command with a non-finite / subnormal-range weight (division modelled on normal numbers only)"
	case e.hostClass:
		return "host key with glob classes/alternatives or a ':port' key (outside the host-matching model)"
	}
	return ""
}

// a crash on an input the model does not cover is judged directly: since 290c777 / c9fb527 no
// input may make NewTable or a lookup panic
func outsideWhat(fn, why string, e *env, buildPanic bool) string {
	return fn + " / Lookup panicked on an input outside the modelled domain (" + why + ")"
}

func sortedKeys(m map[string]string) []string {
	ks := make([]string, 0, len(m))
	for k := range m {
		ks = append(ks, k)
	}
	sort.Strings(ks)
	return ks
}
func sortedBool(m map[string]bool) []string {
	ks := make([]string, 0, len(m))
	for k := range m {
		ks = append(ks, k)
	}
	sort.Strings(ks)
	return ks
}

// ---------- generators ----------
var (
	services = []string{"svc-a", "svc-b", "svc-c", "web"}
	hosts    = []string{"a.test", "b.test", "www.a.test", "*.a.test", "*.test", "A.Test", "", "a.test:80", "x.a.test:8080", "b.test:443"}
	paths    = []string{"/", "/foo", "/foo/bar", "/Foo", "/api", "/*", "/a?c"}
	weights  = []string{"0.1", "0.2", "0.25", "0.3", "0.5", "0.7", "0.9", "1", "1.5", "0", "-0.5", "1e-3", "2", ".5", "5e-1", "0.3333", "100", "0.00001", "+0.4"}
	tagsPool = []string{"a", "b", "a,b", " a , b ", "x"}
	optsPool = []string{"strip=/foo", "proto=http", "register=alias", "tlsskipverify=true", "prepend=/x strip=/foo"}
	edgeW    = []string{"Inf", "+Inf", "-Inf", "inf", "Infinity", "1e308", "1.7976931348623157e308", "5e-324", "1e-310", "4e-309",
		"2.2250738585072014e-308", "1e-300", "1e300", "1e-320", "0x1p-1074", "0x1p1023", "1e999", "-1e308", "1e-999", "9e307", "1e-308", "3e-308"}
	badHostG = []string{"[", "a[.test", "{a.test", "x\\", "[a-", "*[", "a.test["}
	badPathG = []string{"/[", "/{a", "/x[a-", "/\\"}
	badURLs  = []string{"http://a b/", "h:1", "http://[::1/", "http://h/%zz", ":", "http://h:port/", "\x7f", "http://h/\x01", "#", "http://a/?q=%"}
)

func pick(r *rand.Rand, l []string) string { return l[r.Intn(len(l))] }

func genDst(r *rand.Rand) string {
	switch r.Intn(8) {
	case 0:
		return "https://up" + strconv.Itoa(r.Intn(3)) + ".test/"
	case 1:
		return "HTTP://UP.test:8080/x"
	case 2:
		return "tcp://1.2.3.4:5"
	}
	return fmt.Sprintf("http://10.0.0.%d:%d/", 1+r.Intn(4), 8000+r.Intn(3))
}

func ws(r *rand.Rand) string {
	switch r.Intn(12) {
	case 0:
		return "  "
	case 1:
		return "\t"
	}
	return " "
}

func genAdd(r *rand.Rand, fixedP int) string {
	s := "route" + ws(r) + "add" + ws(r) + pick(r, services) + ws(r) + pick(r, hosts) + pick(r, paths) + ws(r) + genDst(r)
	if r.Intn(100) < fixedP {
		s += ws(r) + "weight" + ws(r) + pick(r, weights)
	}
	if r.Intn(5) == 0 {
		s += ` tags "` + pick(r, tagsPool) + `"`
	}
	if r.Intn(8) == 0 {
		s += ` opts "` + pick(r, optsPool) + `"`
	}
	return s
}

func genDel(r *rand.Rand) string {
	switch r.Intn(5) {
	case 0:
		return "route del " + pick(r, services)
	case 1:
		return "route del " + pick(r, services) + " " + pick(r, hosts) + pick(r, paths)
	case 2:
		return "route del " + pick(r, services) + " " + pick(r, hosts) + pick(r, paths) + " " + genDst(r)
	case 3:
		return `route del ` + pick(r, services) + ` tags "` + pick(r, tagsPool) + `"`
	}
	return `route del tags "` + pick(r, tagsPool) + `"`
}

func genWeight(r *rand.Rand) string {
	switch r.Intn(3) {
	case 0:
		return "route weight " + pick(r, services) + " " + pick(r, hosts) + pick(r, paths) + " weight " + pick(r, weights)
	case 1:
		return "route weight " + pick(r, services) + " " + pick(r, hosts) + pick(r, paths) + " weight " + pick(r, weights) + ` tags "` + pick(r, tagsPool) + `"`
	}
	return "route weight " + pick(r, hosts) + pick(r, paths) + " weight " + pick(r, weights) + ` tags "` + pick(r, tagsPool) + `"`
}

// a mostly valid text; weight commands refer to routes that exist with good probability
func genText(r *rand.Rand, n int) []string {
	var lines []string
	fixedP := []int{0, 30, 60}[r.Intn(3)]
	for len(lines) < n {
		switch k := r.Intn(20); {
		case k < 13 || len(lines) == 0:
			lines = append(lines, genAdd(r, fixedP))
		case k < 15:
			lines = append(lines, genDel(r))
		case k < 17:
			// a weight command on an existing add line's service and source
			prev := reSpace.Split(strings.TrimSpace(lines[r.Intn(len(lines))]), -1)
			if len(prev) > 4 && prev[1] == "add" {
				lines = append(lines, "route weight "+prev[2]+" "+prev[3]+" weight "+pick(r, weights))
			} else {
				lines = append(lines, genWeight(r))
			}
		case k < 18:
			lines = append(lines, []string{"# comment", "// comment", "", "   ", "#route add x"}[r.Intn(5)])
		default:
			lines = append(lines, lines[r.Intn(len(lines))]) // a duplicated command
		}
	}
	return lines
}

func joinLines(r *rand.Rand, lines []string) string {
	sep := "\n"
	if r.Intn(10) == 0 {
		sep = "\r\n"
	}
	s := strings.Join(lines, sep)
	if r.Intn(3) == 0 {
		s += sep
	}
	return s
}

func replaceField(line string, idx int, v string) string {
	f := reSpace.Split(strings.TrimSpace(line), -1)
	if idx >= len(f) {
		return line
	}
	f[idx] = v
	return strings.Join(f, " ")
}

// one mutation of a valid text
func mutate(r *rand.Rand, lines []string) ([]string, string) {
	out := append([]string{}, lines...)
	i := r.Intn(len(out))
	switch r.Intn(16) {
	case 0:
		if len(out[i]) > 0 {
			out[i] = out[i][:r.Intn(len(out[i]))]
		}
		return out, "mut-truncated-line"
	case 1:
		f := reSpace.Split(strings.TrimSpace(out[i]), -1)
		if len(f) > 1 {
			k := r.Intn(len(f))
			f = append(f[:k], f[k+1:]...)
		}
		out[i] = strings.Join(f, " ")
		return out, "mut-dropped-token"
	case 2:
		out[i] = strings.Replace(out[i], "route", pick(r, []string{"rout", "Route", "routes", "route\v", ""}), 1)
		return out, "mut-keyword"
	case 3:
		out[i] = strings.Replace(out[i], `"`, "", 1)
		return out, "mut-quote"
	case 4:
		out[i] = replaceField(out[i], 3, pick(r, badHostG)+"/")
		return out, "mut-bad-host-glob"
	case 5:
		out[i] = replaceField(out[i], 3, "a.test"+pick(r, badPathG))
		return out, "mut-bad-path-glob"
	case 6:
		out[i] = replaceField(out[i], 4, pick(r, badURLs))
		return out, "mut-bad-url"
	case 7, 8, 9:
		w := pick(r, edgeW)
		if strings.Contains(out[i], " weight ") {
			f := reSpace.Split(strings.TrimSpace(out[i]), -1)
			for k := range f {
				if f[k] == "weight" && k+1 < len(f) && k > 1 {
					f[k+1] = w
				}
			}
			out[i] = strings.Join(f, " ")
		} else if strings.Contains(out[i], " add ") && !strings.Contains(out[i], `"`) {
			out[i] += " weight " + w
		} else {
			out = append(out, "route add svc-a a.test/ http://10.0.0.9:9/ weight "+w)
		}
		return out, "mut-edge-weight"
	case 10:
		out[i] = replaceField(out[i], 2, strings.Repeat("s", 3000+r.Intn(4000)))
		return out, "mut-long-line"
	case 11:
		out[i] = out[i] + pick(r, []string{" extra", " weight", ` tags "`, " weight abc", " weight 0.5 weight 0.6", "\x00", " \x0b"})
		return out, "mut-trailing-garbage"
	case 12:
		k := r.Intn(len(out))
		out[i], out[k] = out[k], out[i]
		return out, "mut-reordered"
	case 13:
		out = append(out, "route weight nosuch a.test/ weight 0.5")
		return out, "mut-weight-no-match"
	case 14:
		out[i] = replaceField(out[i], 1, pick(r, []string{"ad", "delete", "weigh", "add\x0c"}))
		return out, "mut-subcommand"
	}
	out[i] = strings.ToUpper(out[i])
	return out, "mut-upper"
}

// ---------- running the real code ----------
type lookupReq struct {
	host    string
	tls     bool
	uri     string
	matcher int // 0 prefix, 1 iprefix, 2 glob
	globOff bool
	total   uint64 // the round-robin cursor every route starts this lookup from
	direct  bool   // Table.LookupHost(host) instead of Table.Lookup
}

func (q lookupReq) coq() string {
	return vh.App("Req", hx(q.host), vh.Bool(q.tls), hx(q.uri), vh.N(q.matcher), vh.Bool(q.globOff), vh.N64(q.total), vh.Bool(q.direct))
}

// a second stream, seeded from the run's seed, for choices added later (so that the inputs the older
// classes draw from run.Rng stay what they were)
var auxRng *rand.Rand

var cursors = []uint64{0, 0, 1, 7, 9999, 10000, 1 << 32, 1<<63 - 1, 1 << 63, 1<<64 - 2, 1<<64 - 1}

func globDomain(t route.Table) bool {
	for _, rs := range t {
		for _, r := range rs {
			if strings.ContainsAny(r.Path, "[]{}\\") || !printable(r.Path) {
				return false
			}
		}
	}
	return true
}

var globCache = route.NewGlobCache(1000)

// the read-only users of route.GetTable() besides Lookup: k = 0 GET /api/routes, 1 GET /api/routes?raw,
// 2 Table.String, 3 Table.Dump, 4 the gRPC connection pool's hasTarget scan.  local = the table of the
// calling reader for 2 and 3 (nil: the active table).  Returns a panic message, "" if none.
const nReaders = 5

func readTable(k int, local route.Table) string {
	p, v := vh.Recover(func() {
		t := local
		if t == nil {
			t = route.GetTable()
		}
		switch k {
		case 0:
			(&api.RoutesHandler{}).ServeHTTP(httptest.NewRecorder(), httptest.NewRequest("GET", "/api/routes", nil))
		case 1:
			(&api.RoutesHandler{}).ServeHTTP(httptest.NewRecorder(), httptest.NewRequest("GET", "/api/routes?raw", nil))
		case 2:
			_ = t.String()
		case 3:
			_ = t.Dump()
		case 4:
			proxy.VerifC16HasTarget("no-such-target", route.GetTable())
		}
	})
	if p {
		return fmt.Sprint(v)
	}
	return ""
}

// lookup returns the Coq term of the observable and whether it panicked
func doLookup(t route.Table, q lookupReq) (string, bool, string) {
	var tg *route.Target
	req := &http.Request{Host: q.host, URL: &url.URL{Path: q.uri}, Header: http.Header{}}
	if q.tls {
		req.TLS = tlsState
	}
	m := route.Matcher["prefix"]
	switch q.matcher {
	case 1:
		m = route.Matcher["iprefix"]
	case 2:
		m = route.Matcher["glob"]
	}
	for _, rs := range t {
		for _, r := range rs {
			r.VerifSetCursor(q.total)
		}
	}
	p, v := vh.Recover(func() {
		if q.direct {
			tg = t.LookupHost(q.host, route.Picker["rr"])
		} else {
			tg = t.Lookup(req, "", route.Picker["rr"], m, globCache, q.globOff)
		}
	})
	if p {
		return vh.Panic, true, fmt.Sprint(v)
	}
	if tg == nil {
		return vh.Ok(vh.None), false, ""
	}
	for _, rs := range t {
		for _, r := range rs {
			for _, x := range r.Targets {
				if x == tg {
					svc := r.Targets[0].Service
					for _, y := range r.Targets {
						if y.Service != svc {
							svc = ""
						}
					}
					return vh.Ok(vh.Some(fmt.Sprintf("(%s, %s, %s)", hx(r.Host), hx(r.Path), hx(svc)))), false, ""
				}
			}
		}
	}
	return vh.Err(98), false, "" // a target that is in no route of the table
}

func printable(s string) bool {
	for i := 0; i < len(s); i++ {
		if s[i] < 33 || s[i] > 126 || s[i] == '[' || s[i] == ']' {
			return false
		}
	}
	return true
}

func genLookups(r *rand.Rand, t route.Table, n int) []lookupReq {
	var keys []string
	for k := range t {
		keys = append(keys, k)
	}
	sort.Strings(keys)
	var out []lookupReq
	for i := 0; i < n; i++ {
		q := lookupReq{host: "nomatch.test", uri: "/", matcher: r.Intn(4) / 3, globOff: r.Intn(3) == 0, tls: r.Intn(6) == 0}
		if len(keys) > 0 && r.Intn(5) > 0 {
			k := keys[r.Intn(len(keys))]
			h := strings.Replace(k, "*", "x", -1)
			switch r.Intn(5) {
			case 0:
				h = strings.ToUpper(h)
			case 1:
				if !strings.Contains(h, ":") {
					h += ":80"
				}
			case 2:
				h = "y." + h
			}
			if rs := t[k]; len(rs) > 0 {
				rt := rs[r.Intn(len(rs))]
				q.uri = rt.Path
				switch r.Intn(4) {
				case 0:
					q.uri += "/z"
				case 1:
					q.uri = strings.ToUpper(q.uri)
				}
			}
			if h != "" && printable(h) {
				q.host = h
			}
		}
		if q.uri == "" || !printable(q.uri) {
			q.uri = "/"
		}
		q.total = cursors[auxRng.Intn(len(cursors))]
		if auxRng.Intn(4) == 0 && globDomain(t) {
			q.matcher = 2
		}
		out = append(out, q)
	}
	// Table.LookupHost on every built table: a key as written, upper-cased, and one that is no key
	for i := 0; i < 2; i++ {
		h := "nokey.test"
		if len(keys) > 0 && i == 0 {
			h = keys[auxRng.Intn(len(keys))]
			if auxRng.Intn(2) == 0 {
				h = strings.ToUpper(h)
			}
		}
		if !printable(h) && h != "" {
			continue
		}
		out = append(out, lookupReq{host: h, uri: "/", direct: true, total: cursors[auxRng.Intn(len(cursors))]})
	}
	return out
}

// buildCase runs NewTable (or NewTableCustom) and lookups; returns impl terms
func observeBuild(r *rand.Rand, build func() (route.Table, error), nLook int) (implTerm string, lookTerms []string, human map[string]interface{}, t route.Table) {
	var err error
	human = map[string]interface{}{}
	var p bool
	var v interface{}
	finished := make(chan bool, 1)
	go func() {
		p, v = vh.Recover(func() { t, err = build() })
		finished <- true
	}()
	select {
	case <-finished:
	case <-time.After(30 * time.Second):
		// the table build does not return: the update loop would hang as surely as it would die of a
		// panic.  The spinning goroutine cannot be stopped; report and end the run.
		theRun.Violation(theRun.NextID(), "route.NewTable / NewTableCustom did not return within 30 s (endless loop while the table is built)", buildInput)
		theRun.Finish(preamble, theRun.Scale(32, 300))
		os.Exit(0)
	}
	switch {
	case p:
		implTerm = vh.Panic
		human["build"] = "PANIC: " + fmt.Sprint(v)
		return implTerm, nil, human, nil
	case err != nil:
		implTerm = vh.Err(errKind(err))
		human["build"] = "error: " + err.Error()
		if t != nil {
			human["partial_table_returned"] = true
			implTerm = vh.Err(97)
		}
		return implTerm, nil, human, nil
	}
	if t == nil {
		// (nil, nil): SetTable would ignore it, so this configuration could never be installed
		human["build"] = "nil table without an error"
		return vh.Err(96), nil, human, nil
	}
	// publish the table and let every other reader of the active table look at it first: the
	// observations below (route order, lookups) must be those of the table NewTable returned
	route.SetTable(t)
	for k := 0; k < nReaders; k++ {
		if msg := readTable(k, t); msg != "" {
			human["reader_panic"] = fmt.Sprintf("reader %d: %s", k, msg)
			return vh.Panic, nil, human, nil
		}
	}
	route.SetTable(make(route.Table))
	implTerm = vh.Ok(coqTobs(dumpTable(t)))
	human["build"] = "ok"
	var hl []string
	for _, q := range genLookups(r, t, nLook) {
		o, pan, msg := doLookup(t, q)
		lookTerms = append(lookTerms, vh.Pair(q.coq(), o))
		if pan {
			hl = append(hl, fmt.Sprintf("%s%s globoff=%v: PANIC %s", q.host, q.uri, q.globOff, msg))
		}
	}
	if hl != nil {
		human["lookup_panics"] = hl
	}
	return implTerm, lookTerms, human, t
}

var (
	theRun     *vh.Run
	buildInput interface{} // what the running build was given (for the hang report)
)

func textCase(run *vh.Run, class, text string, nLook int) {
	buildInput = text
	if len(text) > 2000 {
		buildInput = text[:2000]
	}
	e := newEnv()
	e.addText(text)
	impl, looks, human, _ := observeBuild(run.Rng, func() (route.Table, error) { return route.NewTable(bytes.NewBufferString(text)) }, nLook)
	show := text
	if len(show) > 600 {
		show = show[:600] + fmt.Sprintf("... (%d bytes)", len(text))
	}
	human["text"] = show
	if len(e.stripBreaks) > 0 {
		run.Violation(run.NextID(), "assumption broken: a host pattern compiles as a glob but not after its :80 / :443 suffix is removed", e.stripBreaks)
	}
	if why := e.excluded(); why != "" {
		run.Exclude(why)
		// outside the model, but the property still speaks: no text may crash the code
		if impl == vh.Panic || human["lookup_panics"] != nil {
			what := outsideWhat("route.NewTable", why, e, impl == vh.Panic)
			run.Violation(run.NextID(), what, human)
		}
		if p, v := vh.Recover(func() { route.ParseAliases(text) }); p {
			run.Violation(run.NextID(), "route.ParseAliases panicked on an input outside the modelled domain ("+why+"): "+fmt.Sprint(v), human)
		}
		return
	}
	run.Add(class, vh.App("CBuild", e.coq(), hx(text), impl, vh.List(looks)), human)
	aliasCount++
	if aliasCount%5 == 0 && len(text) < 20000 {
		aliasCase(run, class, e, text)
	}
}

var aliasCount int

// route.ParseAliases runs on every candidate text in the update loop, before NewTable
func aliasCase(run *vh.Run, class string, e *env, text string) {
	var names []string
	var err error
	p, v := vh.Recover(func() { names, err = route.ParseAliases(text) })
	impl := vh.Ok(strList(names))
	switch {
	case p:
		impl = vh.Panic
	case err != nil:
		impl = vh.Err(errKind(err))
	}
	run.Add("aliases-"+class, vh.App("CAliases", e.coq(), hx(text), impl), map[string]interface{}{"text": text, "aliases": names, "err": fmt.Sprint(err), "panic": fmt.Sprint(v)})
}

// a line beyond bufio.Scanner's token limit: either an error or the complete table, never a table
// that silently lacks the rest of the configuration
func longLineCase(run *vh.Run) {
	text := "route add svc-a a.test/ http://10.0.0.1:80/\nroute add " + strings.Repeat("x", 70000) + " b.test/ http://10.0.0.2:80/\nroute add svc-c c.test/ http://10.0.0.3:80/"
	var t route.Table
	var err error
	if p, v := vh.Recover(func() { t, err = route.NewTable(bytes.NewBufferString(text)) }); p {
		run.Violation(run.NextID(), "route.NewTable panicked on a 70000-byte line: "+fmt.Sprint(v), nil)
		return
	}
	if err == nil && (t["a.test"] == nil || t["b.test"] == nil || t["c.test"] == nil) {
		hosts := []string{}
		for h := range t {
			hosts = append(hosts, h)
		}
		sort.Strings(hosts)
		run.Violation(run.NextID(), "a configuration line longer than bufio.Scanner's 64 KiB token limit silently truncates the table: NewTable returned no error and a table without that line and everything after it",
			map[string]interface{}{"text": "route add svc-a a.test/ ...\\nroute add <70000 x> b.test/ ...\\nroute add svc-c c.test/ ...", "hosts_in_table": hosts})
	}
}

// ---------- (i) build cases ----------
func buildCases(run *vh.Run) {
	r := run.Rng
	// directed: the recorded witnesses and their neighbours
	directed := []string{
		"route add s1 c02.test/ http://h0.c02.test:8000/ weight Inf",
		"route add s1 c02.test/ http://h0.c02.test:8000/ weight 5e-324",
		"route add s1 c02.test/ http://h0.c02.test:8000/ weight 1e-310",
		"route add s2 c02.test/ http://h0.c02.test:8000/ weight 1e308\nroute add s3 c02.test/ http://h1.c02.test:8001/ weight 1e308",
		"route add s2 c02.test/ http://h0.c02.test:8000/ weight 4e-309\nroute add s3 c02.test/ http://h1.c02.test:8001/ weight 4e-309",
		"route add s [/ http://h/\nroute add t x.test/ http://x/",
		"route add s a[.test/ http://h/",
		"route add s1 c02.test/ http://h0/\nroute weight s1 c02.test/ weight Inf",
		"route add s1 c02.test/ http://h0/ weight 0.5\nroute add s2 c02.test/ http://h1/ weight -Inf",
		"route add s1 c02.test/ http://h0/ weight 1e308\nroute add s2 c02.test/ http://h1/\nroute add s3 c02.test/ http://h2/ weight 1e308",
		"route add s1 c02.test/ http://h0/ weight Inf\nroute del s1",
		"route add s1 c02.test/ http://h0/ weight 1e308\nroute add s2 c02.test/ http://h1/ weight 1e308\nroute del s2",
		"route add s1 c02.test/ http://h0/ weight 0.2\nroute add s1 c02.test/ http://h0/ weight 0.2\nroute add s1 c02.test/ http://h0/ weight 0.3",
		"route add s1 c02.test/ http://h0/\nroute del s1\nroute weight s1 c02.test/ weight 0.2",
		"route add s1 c02.test/ http://h0/ weight 1e999",
		"route add s1 c02.test/[ http://h0/",
		"",
		"\n\n# nothing\n",
		"route add s1 c02.test/ http://h0/ weight 1e-5\nroute add s2 c02.test/ http://h1/ weight 1e-9\nroute add s3 c02.test/ http://h2/",
		"route add s1 *.c02.test/ http://h0/\nroute add s2 a.c02.test/ http://h1/\nroute add s3 /x http://h2/",
	}
	for _, t := range directed {
		textCase(run, "directed-witnesses-and-neighbours", t, 6)
	}
	nValid := run.Scale(110, 3000)
	for i := 0; i < nValid; i++ {
		lines := genText(r, 1+r.Intn(12))
		textCase(run, "generated-valid", joinLines(r, lines), 5)
	}
	nMut := run.Scale(190, 6000)
	for i := 0; i < nMut; i++ {
		lines := genText(r, 1+r.Intn(8))
		out, class := mutate(r, lines)
		if r.Intn(4) == 0 {
			out, _ = mutate(r, out)
			class = "mut-double"
		}
		textCase(run, class, joinLines(r, out), 4)
	}
	// lines around bufio.Scanner's token limit (65536 bytes incl. a trailing \r): modelled since 5dd66bf
	lineOf := func(n int) string {
		pre, post := "route add ", " b.test/ http://10.0.0.2:80/"
		return pre + strings.Repeat("x", n-len(pre)-len(post)) + post
	}
	first, last := "route add svc-a a.test/ http://10.0.0.1:80/", "route add svc-c c.test/ http://10.0.0.3:80/"
	// at the limit: rejected (the model does not parse the long line: cheap to evaluate)
	textCase(run, "long-line-boundary", first+"\n"+lineOf(65536)+"\n"+last, 2)
	textCase(run, "long-line-boundary", first+"\n"+lineOf(65536), 2)
	textCase(run, "long-line-boundary", first+"\n"+lineOf(65535)+"\r\n"+last, 2)
	textCase(run, "long-line-boundary", first+"\n#"+strings.Repeat("y", 65535)+"\n"+last, 2)
	textCase(run, "long-line-boundary", first+"\n"+strings.Repeat(" ", 65536)+"\n"+last, 2)
	// one byte below: accepted, complete table.  C05's trim_space / drop_cr are quadratic (list
	// reversal), about 4 minutes per such line under vm_compute: compared with the model in the thorough
	// tier only, judged directly here
	for i, text := range []string{first + "\n" + lineOf(65535) + "\n" + last, first + "\n" + lineOf(65535), first + "\n" + lineOf(65534) + "\r\n" + last} {
		if run.Thorough() && i == 0 {
			textCase(run, "long-line-below-limit", text, 1)
			continue
		}
		var t route.Table
		var err error
		p, v := vh.Recover(func() { t, err = route.NewTable(bytes.NewBufferString(text)) })
		if p || err != nil || t["a.test"] == nil || t["b.test"] == nil || (i != 1 && t["c.test"] == nil) {
			run.Violation(run.NextID(), fmt.Sprintf("a configuration with a line of 65535 bytes (one below bufio.Scanner's limit) was not accepted completely: panic=%v err=%v hosts=%d", v, err, len(t)), i)
		}
	}
	textCase(run, "long-line-boundary", "rout x\n"+lineOf(65536)+"\n"+last, 1)
	textCase(run, "long-line-boundary", lineOf(65537)+"\nrout x\n", 1)
	longLineCase(run)
	textCase(run, "long-line", "route add svc-a a.test/ http://10.0.0.1:80/\nroute add "+strings.Repeat("x", 70000)+" a.test/ http://10.0.0.1:80/\nroute add svc-b b.test/ http://10.0.0.2:80/", 2)
	textCase(run, "non-ascii", "route add svc-ä a.test/ http://10.0.0.1:80/ weight NaN ", 2)
	textCase(run, "nan", "route add s a.test/ http://h/ weight NaN\nroute add s a.test/ http://h/ weight NaN\nroute add t a.test/ http://g/ weight 0.5", 3)
}

// ---------- (i-b) NewTableCustom ----------
func coqDef(d route.RouteDef) (string, bool) {
	var c string
	switch d.Cmd {
	case route.RouteAddCmd:
		c = "CmdAdd"
	case route.RouteDelCmd:
		c = "CmdDel"
	case route.RouteWeightCmd:
		c = "CmdWeight"
	default:
		return vh.None, true
	}
	w, ok := wtOf(d.Weight)
	if !ok {
		return "", false
	}
	keys := []string{}
	for k := range d.Opts {
		keys = append(keys, k)
	}
	sort.Strings(keys)
	opts := []string{}
	for _, k := range keys {
		opts = append(opts, vh.Pair(hx(k), hx(d.Opts[k])))
	}
	return vh.Some(vh.App("Build_def", c, hx(d.Service), hx(d.Src), hx(d.Dst), w, strList(d.Tags), vh.List(opts))), true
}

func defsEnv(defs []route.RouteDef) *env {
	e := newEnv()
	defsEnvInto(e, defs)
	return e
}

func defsEnvInto(e *env, defs []route.RouteDef) {
	for _, d := range defs {
		for _, s := range []string{d.Service, d.Src, d.Dst} {
			for i := 0; i < len(s); i++ {
				if s[i] >= 128 {
					e.nonASCII = true
				}
			}
		}
		if d.Dst != "" {
			e.addDst(d.Dst)
		}
		if d.Src != "" && d.Cmd == route.RouteAddCmd {
			e.addSrc(d.Src)
		}
		if math.IsNaN(d.Weight) {
			e.nan = true
		}
		if d.Weight != 0 && (math.IsInf(d.Weight, 0) || math.Abs(d.Weight) < 1e-300 || math.Abs(d.Weight) > 1e300) {
			e.edgeWeight = true
		}
		if d.Cmd == route.RouteWeightCmd && d.Weight != 0 && (math.IsInf(d.Weight, 0) || math.Abs(d.Weight) < 1e-290 || math.Abs(d.Weight) > 1e290) {
			e.weightCmdExtreme = true
		}
		if len(d.Tags) == 0 && d.Tags != nil {
			e.hostClass = true // empty non-nil tag slice: reflect.DeepEqual(nil, []string{}) is outside the model
		}
	}
}

func genDefs(r *rand.Rand) ([]route.RouteDef, string) {
	lines := genText(r, 1+r.Intn(8))
	ptrs, err := route.Parse(bytes.NewBufferString(strings.Join(lines, "\n")))
	if err != nil {
		return nil, ""
	}
	defs := make([]route.RouteDef, len(ptrs))
	for i, p := range ptrs {
		defs[i] = *p
	}
	class := "custom-valid"
	if len(defs) > 0 {
		i := r.Intn(len(defs))
		switch r.Intn(12) {
		case 0:
			defs[i].Src = ""
			class = "custom-empty-src"
		case 1:
			defs[i].Dst = ""
			class = "custom-empty-dst"
		case 2:
			defs[i].Cmd = route.Cmd(pick(r, []string{"", "route", "route ad", "ROUTE ADD"}))
			class = "custom-unknown-cmd"
		case 3:
			defs[i].Weight = []float64{math.Inf(1), 1e308, 5e-324, -1, 1e-310, 0.5}[r.Intn(6)]
			class = "custom-edge-weight"
		case 4:
			defs[i].Service = ""
			class = "custom-empty-service"
		case 5:
			defs[i].Dst = pick(r, badURLs)
			class = "custom-bad-url"
		case 6:
			defs[i].Src = pick(r, badHostG) + "/"
			class = "custom-bad-host-glob"
		}
	}
	return defs, class
}

func customCase(run *vh.Run, class string, defs []route.RouteDef) {
	e := defsEnv(defs)
	cp := append([]route.RouteDef{}, defs...)
	buildInput = fmt.Sprintf("%+v", defs)
	impl, looks, human, _ := observeBuild(run.Rng, func() (route.Table, error) { return route.NewTableCustom(&cp) }, 4)
	human["defs"] = fmt.Sprintf("%+v", defs)
	var terms []string
	for _, d := range defs {
		t, ok := coqDef(d)
		if !ok {
			e.nan = true
			break
		}
		terms = append(terms, t)
	}
	if why := e.excluded(); why != "" {
		run.Exclude(why)
		if impl == vh.Panic || human["lookup_panics"] != nil {
			run.Violation(run.NextID(), outsideWhat("route.NewTableCustom", why, e, impl == vh.Panic), human)
		}
		return
	}
	run.Add(class, vh.App("CCustom", e.coq(), vh.Some(vh.List(terms)), impl, vh.List(looks)), human)
}

func customCases(run *vh.Run) {
	r := run.Rng
	{ // NewTableCustom(nil): what a poll body `null` decodes to
		buildInput = "NewTableCustom(nil)"
		impl, _, human, _ := observeBuild(r, func() (route.Table, error) { return route.NewTableCustom(nil) }, 0)
		human["defs"] = "nil pointer"
		run.Add("custom-nil-pointer", vh.App("CCustom", newEnv().coq(), vh.None, impl, "[]"), human)
	}
	customCase(run, "custom-empty-src", []route.RouteDef{{Cmd: route.RouteAddCmd, Service: "s", Src: "", Dst: "http://h/"}})
	customCase(run, "custom-empty-src", []route.RouteDef{{Cmd: route.RouteWeightCmd, Service: "s", Src: "", Weight: 0.5}})
	customCase(run, "custom-empty-src", []route.RouteDef{{Cmd: route.RouteAddCmd, Service: "s", Src: "a.test/", Dst: "http://h/"}, {Cmd: route.RouteDelCmd, Service: "s", Src: "", Dst: "http://h/"}})
	customCase(run, "custom-empty-dst", []route.RouteDef{{Cmd: route.RouteAddCmd, Service: "s", Src: "a.test/", Dst: ""}})
	customCase(run, "custom-unknown-cmd", []route.RouteDef{{Cmd: "bogus"}})
	customCase(run, "custom-valid", []route.RouteDef{})
	customCase(run, "custom-edge-weight", []route.RouteDef{{Cmd: route.RouteAddCmd, Service: "s", Src: "a.test/", Dst: "http://h/", Weight: math.Inf(1)}})
	n := run.Scale(50, 1500)
	for i := 0; i < n; i++ {
		defs, class := genDefs(r)
		if class == "" {
			continue
		}
		customCase(run, class, defs)
	}
}

// ---------- (ii) the real update loops, in a separate process ----------
type wEvent struct {
	Man  bool   `json:"man"`
	Text string `json:"text"`
	Obs  bool   `json:"obs"`
}
type wJob struct {
	Kind   string   `json:"kind"`
	Format string   `json:"format"`
	Events []wEvent `json:"events"`
	Docs   []string `json:"docs"`
}
type wLine struct {
	Job   int      `json:"job"`
	Step  int      `json:"step"`
	Table tobs     `json:"table"`
	Msgs  []string `json:"msgs"`
	Done  bool     `json:"done"`
	Stuck bool     `json:"stuck"`
}

var (
	badTexts = []string{"rout add x", "route add svc-a", "route add svc-a /foo", "route weight nosuch /foo weight 0.5", "route add svc-a a.test/ http://a b/",
		"route add svc-a a.test/[ http://10.0.0.1:80/", "route del", "route add svc-a a.test/ http://10.0.0.1:80/ weight abc", "garbage",
		"route add svc-a [/ http://10.0.0.1:80/", "route add svc-a a[.test/foo http://10.0.0.1:80/", "route add svc-b b.test/ http://10.0.0.2:80/\nroute add svc-a {a.test/ http://10.0.0.1:80/"}
	crashTexts = []string{"route add s1 c02.test/ http://h0.c02.test:8000/ weight Inf", "route add s1 c02.test/ http://h0.c02.test:8000/ weight 5e-324"}
)

// a text of more than 4 KiB (bufio.Scanner's first read) with a syntax error on an early line
func bigTextEarlyError(r *rand.Rand) string {
	var lines []string
	for i := 0; i < 110+r.Intn(40); i++ {
		lines = append(lines, fmt.Sprintf("route add big-%d big%d.test/p%d http://10.1.%d.%d:80/", i, i%7, i, i/200, i%200))
	}
	// a SYNTAX error (Parse returns before the scanner has drained the buffer), not one that addRoute finds
	lines[1+r.Intn(3)] = pick(r, []string{"rout add x", "route add svc-a", "route add svc-a /foo", "route del", "route add svc-a a.test/ http://10.0.0.1:80/ weight abc", "garbage"})
	return strings.Join(lines, "\n")
}

type watchScript struct {
	class  string
	texts  []string
	evs    [][3]int // man, text index, obs
	format string
	crash  bool
}

func genWatchScript(r *rand.Rand, si int, crash bool) watchScript {
	sc := watchScript{class: "watch-valid-only", texts: []string{""}, format: []string{"delta", "detail", "all", "bogus"}[si%4]}
	add := func(t string) int {
		for i, x := range sc.texts {
			if x == t {
				return i
			}
		}
		sc.texts = append(sc.texts, t)
		return len(sc.texts) - 1
	}
	pBad := []int{0, 25, 45}[si%3]
	n := 3 + r.Intn(5)
	crashAt := -1
	if crash {
		crashAt = 1 + r.Intn(n-1)
		sc.class = "watch-edge-weight-text"
		sc.crash = true
	}
	big := si%5 == 4 && !crash
	emptied := si%5 == 2 && !crash
	longl := si%20 == 3 && !crash
	for k := 0; k < n; k++ {
		man := r.Intn(5) < 2
		var t string
		switch {
		case k == crashAt:
			t = crashTexts[si%len(crashTexts)]
		case emptied && k >= 1 && k <= 2:
			// both channels deliver a configuration without commands: the EMPTY table is installed
			t = pick(r, []string{"", "# nothing left", "\n\n", "// none\n   "})
			man = k == 2
			sc.class = "watch-valid-empty-valid"
		case longl && k == 1:
			// a line the scanner cannot hold: the update is rejected, the last good table stays
			t = "route add svc-a a.test/ http://10.0.0.1:80/\nroute add " + strings.Repeat("x", 65536+r.Intn(3)) + " b.test/ http://10.0.0.2:80/\nroute add svc-c c.test/ http://10.0.0.3:80/"
			sc.class = "watch-long-line"
		case big && k == 1:
			t = bigTextEarlyError(r)
			sc.class = "watch-big-text-early-error"
		case r.Intn(100) < pBad:
			t = pick(r, badTexts)
			if r.Intn(2) == 0 {
				t = joinLines(r, genText(r, 1+r.Intn(3))) + "\n" + t
			}
			if sc.class == "watch-valid-only" {
				sc.class = "watch-mixed-valid-invalid"
			}
		default:
			t = joinLines(r, genText(r, 1+r.Intn(4)))
		}
		if r.Intn(7) == 0 && len(sc.texts) > 1 && k != crashAt {
			t = sc.texts[r.Intn(len(sc.texts))]
		}
		i := add(t)
		m := 0
		if man {
			m = 1
		}
		sc.evs = append(sc.evs, [3]int{m, i, 0})
		sc.evs = append(sc.evs, [3]int{m, i, 1}) // re-delivery: once accepted, the first one has been processed
	}
	return sc
}

// Histories in which consecutive VALID texts differ but have exactly the same byte length (the loop
// must compare texts, not lengths or stale buffers), with controls one byte shorter / longer, and
// histories whose texts differ in white space only (same table; the post-install bookkeeping -
// logRoutes - sees an "empty" difference), each under every log.routes.format value.
func directedWatchScripts(r *rand.Rand, rounds int) []watchScript {
	type sub struct{ from, to string }
	sameLen := []sub{{":5000/", ":5001/"}, {"svc-a", "svc-c"}, {"a.test", "c.test"}, {"weight 0.10", "weight 0.20"}, {"10.0.0.1", "10.0.0.7"}, {"/foo", "/fop"}}
	var out []watchScript
	mk := func(class, format string, steps [][2]interface{}) {
		sc := watchScript{class: class, texts: []string{""}, format: format}
		for _, st := range steps {
			t := st[1].(string)
			i := -1
			for k, x := range sc.texts {
				if x == t {
					i = k
				}
			}
			if i < 0 {
				sc.texts = append(sc.texts, t)
				i = len(sc.texts) - 1
			}
			m := 0
			if st[0].(bool) {
				m = 1
			}
			sc.evs = append(sc.evs, [3]int{m, i, 0}, [3]int{m, i, 1})
		}
		out = append(out, sc)
	}
	S := func(t string) [2]interface{} { return [2]interface{}{false, t} }
	M := func(t string) [2]interface{} { return [2]interface{}{true, t} }
	for round := 0; round < rounds; round++ {
		for _, format := range []string{"delta", "detail", "all", "bogus"} {
			base := fmt.Sprintf("route add svc-a a.test/ http://10.0.0.1:5000/\nroute add svc-b b.test/foo http://10.0.0.2:%d/ weight 0.10", 8000+r.Intn(1000))
			su := sameLen[r.Intn(len(sameLen))]
			v1 := strings.Replace(base, su.from, su.to, 1)
			su2 := sameLen[r.Intn(len(sameLen))]
			v2 := strings.Replace(v1, su2.from, su2.to, 1)
			if v2 == v1 {
				v2 = strings.Replace(v1, "svc-b", "svc-d", 1)
			}
			other := base + "\nroute add svc-e e.test/ http://10.0.0.5:80/"
			// same length, directly after the installed text
			mk("watch-equal-length", format, [][2]interface{}{S(base), S(v1), S(v2), S(base)})
			// same length after an invalid text of any length
			mk("watch-equal-length-after-invalid", format, [][2]interface{}{S(base), S(pick(r, badTexts)), S(v1), S("rout x" + strings.Repeat("y", len(base)-6)), S(v2)})
			// same length as the text two steps ago
			mk("watch-equal-length-two-steps", format, [][2]interface{}{S(base), S(other), S(v1), S(other), S(base)})
			// manual overrides of equal length
			mk("watch-equal-length-manual", format, [][2]interface{}{S(base), M("route del svc-a"), M("route del svc-b"), M("route del svc-a"), M("route del svc-x")})
			// controls: one byte shorter / longer
			mk("watch-length-controls", format, [][2]interface{}{S(base), S(strings.Replace(base, ":5000/", ":500/", 1)), S(strings.Replace(base, ":5000/", ":50000/", 1)), S(base)})
			// NaN / infinite weights (rejected by the parser since 0b2a40e) and non-ASCII bytes through the loop
			mk("watch-nan-inf-weight", format, [][2]interface{}{S(base), S(base + "\nroute add svc-n n.test/ http://10.0.0.9:80/ weight NaN"), S(v1), M("route add svc-i i.test/ http://10.0.0.8:80/ weight -Inf"), M("")})
			mk("watch-non-ascii", format, [][2]interface{}{S(base), S(base + "\nroute add svc-\xc3\xa4 \xc3\xa4.test/ http://10.0.0.9:80/ tags \"\xe2\x80\xa8\""), S("route add \xff\xfe x.test/ http://h/\x85"), S(v1)})
			// only the OPTIONS of a route change (same service, destination, weight, tags): the new table
			// is the complete new one, options included; then back, then the option removed again
			{
				ob := "route add svc-a a.test/ http://10.0.0.1:5000/\nroute add svc-b b.test/foo http://10.0.0.2:8000/ tags \"t\""
				o1 := "route add svc-a a.test/ http://10.0.0.1:5000/ opts \"strip=/x\"\nroute add svc-b b.test/foo http://10.0.0.2:8000/ tags \"t\" opts \"" +
					pick(r, []string{"deny=ip:10.0.0.0/8", "host=dst", "prepend=/p", "auth=basic", "redirect=301", "proto=https tlsskipverify=true"}) + "\""
				o2 := strings.Replace(o1, "strip=/x", pick(r, []string{"strip=/y", "strip=/x host=dst", "allow=ip:127.0.0.1"}), 1)
				mk("watch-options-only", format, [][2]interface{}{S(ob), S(o1), S(o2), S(ob), S(o1), M("route add svc-a a.test/ http://10.0.0.1:5000/ opts \"strip=/m\""), M("")})
			}
			// white space only: the same table, a different text
			mk("watch-whitespace-only", format, [][2]interface{}{S(base), S(base + "\n"), S(base + " "), S(strings.Replace(base, " ", "  ", 3)), S(strings.Replace(base, "\n", "\r\n", -1)), S(base + "\n\n"), M("\n"), M(" "), M(""), S("\t" + base)})
		}
	}
	return out
}

func runDriver(run *vh.Run, jobs []wJob) (map[int][]wLine, map[int]bool, map[int]string) {
	lines := map[int][]wLine{}
	done := map[int]bool{}
	crashLog := map[int]string{}
	repo := os.Getenv("VERIF_REPO")
	if repo == "" {
		repo = "/repo"
	}
	dir, err := os.MkdirTemp("", "verif-c02-")
	if err != nil {
		panic(err)
	}
	defer os.RemoveAll(dir)
	inF, outF, bin := filepath.Join(dir, "in.json"), filepath.Join(dir, "out.jsonl"), filepath.Join(dir, "main.test")
	b, _ := json.Marshal(jobs)
	os.WriteFile(inF, b, 0o644)
	cmd := exec.Command("go", "test", "-tags", "verif", "-c", "-o", bin, ".")
	cmd.Dir = repo
	if out, err := cmd.CombinedOutput(); err != nil {
		tail := string(out)
		if len(tail) > 1500 {
			tail = tail[len(tail)-1500:]
		}
		run.Violation(run.NextID(), "cannot build the watchBackend driver (go test -tags verif -c in "+repo+"): "+err.Error(), tail)
		return lines, done, crashLog
	}
	from := 0
	for restarts := 0; from < len(jobs) && restarts < 40; restarts++ {
		os.Remove(outF)
		c := exec.Command(bin, "-test.run", "TestVerifC02$", "-test.count=1", "-test.timeout=20m")
		c.Dir = repo
		c.Env = append(os.Environ(), "VERIF_C02_IN="+inF, "VERIF_C02_OUT="+outF, "VERIF_C02_FROM="+strconv.Itoa(from))
		var log bytes.Buffer
		c.Stdout, c.Stderr = &log, &log
		errc := make(chan error, 1)
		if err := c.Start(); err != nil {
			run.Violation(run.NextID(), "cannot start the watchBackend driver: "+err.Error(), nil)
			return lines, done, crashLog
		}
		go func() { errc <- c.Wait() }()
		var werr error
		select {
		case werr = <-errc:
		case <-time.After(25 * time.Minute):
			c.Process.Kill()
			werr = fmt.Errorf("timeout")
		}
		last := from - 1
		if f, err := os.Open(outF); err == nil {
			sc := bufio.NewScanner(f)
			sc.Buffer(make([]byte, 1<<20), 1<<26)
			for sc.Scan() {
				var l wLine
				if json.Unmarshal(sc.Bytes(), &l) != nil {
					continue
				}
				if l.Done {
					done[l.Job] = true
					last = l.Job
				} else {
					lines[l.Job] = append(lines[l.Job], l)
				}
			}
			f.Close()
		}
		if werr == nil {
			break
		}
		// the process died in job last+1
		tail := log.String()
		if i := strings.Index(tail, "panic:"); i >= 0 {
			tail = tail[i:]
		}
		if len(tail) > 1200 {
			tail = tail[:1200]
		}
		crashLog[last+1] = fmt.Sprintf("%v: %s", werr, tail)
		from = last + 2
	}
	return lines, done, crashLog
}

func candVerdict(text string) (string, string) {
	var t route.Table
	var err error
	p, v := vh.Recover(func() { t, err = route.NewTable(bytes.NewBufferString(text)) })
	switch {
	case p:
		return vh.Panic, "PANIC " + fmt.Sprint(v)
	case err != nil:
		return vh.Err(errKind(err)), "invalid"
	}
	return vh.Ok(coqTobs(dumpTable(t))), "valid"
}

func loopCases(run *vh.Run) {
	r := run.Rng
	nseq := run.Scale(40, 600)
	ncrash := run.Scale(2, 12)
	var scripts []watchScript
	for si := 0; si < nseq; si++ {
		scripts = append(scripts, genWatchScript(r, si, false))
	}
	for si := 0; si < ncrash; si++ {
		scripts = append(scripts, genWatchScript(r, si, true))
	}
	// directed histories with their own random stream (the classes above keep their inputs)
	scripts = append(scripts, directedWatchScripts(rand.New(rand.NewSource(run.Seed*7919+2)), run.Scale(1, 8))...)
	var jobs []wJob
	for _, sc := range scripts {
		j := wJob{Kind: "watch", Format: sc.format}
		for _, e := range sc.evs {
			j.Events = append(j.Events, wEvent{Man: e[0] == 1, Text: sc.texts[e[1]], Obs: e[2] == 1})
		}
		jobs = append(jobs, j)
	}
	// custom backend jobs
	type cjob struct {
		defs  [][]route.RouteDef // nil entry = a body that is not a definition list
		class []string
		reset []bool
	}
	var cjobs []cjob
	ncj := run.Scale(4, 40)
	for k := 0; k < ncj; k++ {
		var cj cjob
		var docs []string
		for d := 0; d < 6; d++ {
			defs, class := genDefs(r)
			if class == "" || d == 3 {
				// an undecodable body: the table must stay as it is
				// (incl. a list cut off between / inside / before its definitions - a source that died
				// mid-answer: none of them is a list of definitions; a complete list followed by other
				// bytes IS accepted by json.Decoder.Decode, which reads one value, and is not generated)
				docs = append(docs, pick(r, []string{"{", `{"cmd":1}`, `[{"weight":"x"}]`, "[1,2]", "", `[{"cmd":"route add","service":"cut","src":"cut.test/","dst":"http://h/"}`, `[{"cmd":"route add","service":"cut","src":"cut.test/","dst":"http://h/"},`, `[`, `[{"cmd":"route add","service":"cut","src":"cut.test/","dst":"http://h/"},{"cmd":"route add","service":"cut2","src":"cut2.test/"`}))
				cj.defs = append(cj.defs, nil)
				cj.class = append(cj.class, "custom-backend-undecodable")
				cj.reset = append(cj.reset, false)
				continue
			}
			if d == 1 {
				defs = []route.RouteDef{{Cmd: route.RouteAddCmd, Service: "s", Src: "", Dst: "http://h/"}}
				class = "custom-empty-src"
			}
			ex := defsEnv(defs)
			if ex.excluded() != "" || class == "custom-edge-weight" { // crashing weights: the dedicated job below
				defs = []route.RouteDef{{Cmd: route.RouteAddCmd, Service: "s", Src: "a.test/", Dst: "http://h/"}}
				class = "custom-valid"
			}
			body := fullJSON(defs)
			if r.Intn(2) == 0 {
				body = sparseJSON(defs) // keys with zero values omitted: must be defaulted, never inherited
				class += "-sparse"
			}
			if d == 1 {
				body = pick(r, []string{`[{"cmd":"route add","service":"s","src":"","dst":"http://h/"}]`, `[{"cmd":"route add","service":"s","dst":"http://h/"}]`})
			}
			reset := d != 1 && d != 2
			if reset {
				body = "!reset!" + body
			}
			docs = append(docs, body)
			cj.defs = append(cj.defs, defs)
			cj.class = append(cj.class, "custom-backend-"+strings.TrimPrefix(class, "custom-"))
			cj.reset = append(cj.reset, reset)
		}
		cjobs = append(cjobs, cj)
		jobs = append(jobs, wJob{Kind: "custom", Docs: docs})
	}

	// sequences of polls WITHOUT a reset in between: the table after each poll is the one of the last
	// poll NewTableCustom accepted (CCustomPolls; own random stream)
	type pjob struct {
		bodies, verdicts []string
		human            []string
		env              *env
	}
	var pjobs []pjob
	firstPJob := len(jobs)
	for k := 0; k < run.Scale(5, 40); k++ {
		pj := pjob{env: newEnv()}
		var docs []string
		for d := 0; d < 6; d++ {
			switch kind := auxRng.Intn(8); {
			case kind == 0:
				docs = append(docs, pick(auxRng, []string{"{", `{"cmd":1}`, `[{"weight":"x"}]`, "[1,2]", "", `"routes"`, "42", `[{"cmd":"route add","service":"cut","src":"cut.test/","dst":"http://h/"}`, `[{"cmd":"route add","service":"cut","src":"cut.test/","dst":"http://h/"},`, `[`, `[{"cmd":"route add","service":"cut","src":"cut.test/","dst":"http://h/"},{"cmd":"route add","service":"cut2","src":"cut2.test/"`}))
				pj.bodies = append(pj.bodies, vh.None)
				pj.verdicts = append(pj.verdicts, vh.Err(0))
				pj.human = append(pj.human, "undecodable")
			case kind == 1:
				docs = append(docs, "null")
				pj.bodies = append(pj.bodies, vh.Some(vh.None))
				var err error
				var t route.Table
				p, _ := vh.Recover(func() { t, err = route.NewTableCustom(nil) })
				v := vh.Panic
				if !p && err != nil {
					v = vh.Err(errKind(err))
				} else if !p {
					v = vh.Ok(coqTobs(dumpTable(t)))
				}
				pj.verdicts = append(pj.verdicts, v)
				pj.human = append(pj.human, "null")
			default:
				defs, class := genDefs(auxRng)
				ex := defsEnv(defs)
				if class == "" || class == "custom-edge-weight" || ex.excluded() != "" {
					defs, class = []route.RouteDef{{Cmd: route.RouteAddCmd, Service: fmt.Sprintf("s%d", d), Src: fmt.Sprintf("p%d.test/", d), Dst: "http://h/"}}, "custom-valid"
				}
				defsEnvInto(pj.env, defs)
				if auxRng.Intn(2) == 0 {
					docs = append(docs, sparseJSON(defs))
				} else {
					docs = append(docs, fullJSON(defs))
				}
				var terms []string
				for _, x := range defs {
					t, _ := coqDef(x)
					terms = append(terms, t)
				}
				pj.bodies = append(pj.bodies, vh.Some(vh.Some(vh.List(terms))))
				cp := append([]route.RouteDef{}, defs...)
				var err error
				var t route.Table
				p, _ := vh.Recover(func() { t, err = route.NewTableCustom(&cp) })
				v := vh.Panic
				if !p && err != nil {
					v = vh.Err(errKind(err))
				} else if !p {
					v = vh.Ok(coqTobs(dumpTable(t)))
				}
				pj.verdicts = append(pj.verdicts, v)
				pj.human = append(pj.human, class+": "+fmt.Sprintf("%+v", defs))
			}
		}
		pjobs = append(pjobs, pj)
		jobs = append(jobs, wJob{Kind: "custom", Docs: docs})
	}

	staleJob := len(jobs)
	jobs = append(jobs, wJob{Kind: "custom", Docs: []string{
		`!reset![{"cmd":"route add","service":"svc-a","src":"a.test/","dst":"http://10.0.0.1:80/"}]`,
		`!reset![{"cmd":"route add","service":"svc-s","dst":"http://10.0.0.2:80/"}]`}})
	customCrashJob := len(jobs)
	jobs = append(jobs, wJob{Kind: "custom", Docs: []string{
		`!reset![{"cmd":"route add","service":"svc-a","src":"a.test/","dst":"http://10.0.0.1:80/"}]`,
		`[{"cmd":"route add","service":"svc-b","src":"b.test/","dst":"http://10.0.0.2:80/","weight":5e-324}]`}})

	nullJob := len(jobs)
	jobs = append(jobs, wJob{Kind: "custom", Docs: []string{
		`!reset![{"cmd":"route add","service":"svc-a","src":"a.test/","dst":"http://10.0.0.1:80/"}]`, `null`, `{}`, `"routes"`, `42`, ` null `, `true`}})

	// a poll body cut off before, between or inside its definitions (the source died mid-answer):
	// no list of definitions was received, the active table stays as it is
	cutJob := len(jobs)
	jobs = append(jobs, wJob{Kind: "custom", Docs: []string{
		`!reset![{"cmd":"route add","service":"svc-a","src":"a.test/","dst":"http://10.0.0.1:80/"}]`,
		`[`,
		`[{"cmd":"route add","service":"cut","src":"cut.test/","dst":"http://h/"}`,
		`[{"cmd":"route add","service":"cut","src":"cut.test/","dst":"http://h/"},`,
		`[{"cmd":"route add","service":"cut","src":"cut.test/","dst":"http://h/"},{"cmd":"route add","service":"cut2","src":"cut2.test/"`,
		`[{"cmd":"route add","service":"svc-a","src":"a.test/","dst":"http://10.0.0.1:80/"},{"cmd":"route add","service":"svc-z","src":"z.test/","dst":"http://10.0.0.9:80/"}`,
		`[ `}})

	lines, done, crashLog := runDriver(run, jobs)
	if ls := lines[cutJob]; crashLog[cutJob] != "" || len(ls) != len(jobs[cutJob].Docs) {
		run.Violation(run.NextID(), "custom backend driver: the cut-off body job did not complete: "+crashLog[cutJob], lines[cutJob])
	} else {
		for k := 1; k < len(ls); k++ {
			failed := false
			for _, m := range ls[k].Msgs {
				if strings.HasPrefix(m, "Error") {
					failed = true
				}
			}
			if !failed || len(ls[k].Table) != 1 {
				run.Violation(run.NextID(), "custom backend: a poll body cut off before the end of its definition list was not rejected with the active table left alone (a partial list was installed)",
					map[string]interface{}{"body": jobs[cutJob].Docs[k], "reported": ls[k].Msgs, "table": ls[k].Table})
			}
		}
	}
	if crashLog[nullJob] != "" {
		run.Violation(run.NextID(), "custom backend: a poll body `null` crashed the process (NewTableCustom(nil) dereferences the nil definition list; no recover in the polling goroutine): "+crashLog[nullJob], "null")
	} else if ls := lines[nullJob]; len(ls) != 7 {
		run.Violation(run.NextID(), "custom backend driver: the null / non-array body job did not complete", lines[nullJob])
	} else {
		for k := 1; k < 7; k++ {
			failed := false
			for _, m := range ls[k].Msgs {
				if strings.HasPrefix(m, "Error") {
					failed = true
				}
			}
			if !failed || len(ls[k].Table) != 1 {
				run.Violation(run.NextID(), "custom backend: a poll body that is no definition list (null, object, string, number) was not rejected with the active table left alone",
					map[string]interface{}{"body": jobs[nullJob].Docs[k], "reported": ls[k].Msgs, "table": ls[k].Table})
			}
		}
	}
	// a definition without "src" is an error (route: prefix must not be empty), whatever was polled before
	if ls := lines[staleJob]; len(ls) == 2 {
		reported := false
		for _, m := range ls[1].Msgs {
			if strings.Contains(m, "prefix must not be empty") {
				reported = true
			}
		}
		if !reported || len(ls[1].Table) != 0 {
			run.Violation(run.NextID(), "custom backend: a definition without \"src\" was not rejected with 'prefix must not be empty' after a poll that had one (fields inherited from the previous poll)",
				map[string]interface{}{"poll1": jobs[staleJob].Docs[0], "poll2": jobs[staleJob].Docs[1], "reported": ls[1].Msgs, "table_after_poll2": ls[1].Table})
		}
	} else {
		run.Violation(run.NextID(), "custom backend driver: the stale-state job did not complete", crashLog[staleJob])
	}
	if crashLog[customCrashJob] != "" {
		run.Violation(run.NextID(), "custom backend: the polling goroutine crashed the process on a definition with weight 5e-324: "+crashLog[customCrashJob], jobs[customCrashJob].Docs[1])
	} else if ls := lines[customCrashJob]; len(ls) != 2 {
		run.Violation(run.NextID(), "custom backend driver: the crash job did not complete", nil)
	}

	for si, sc := range scripts {
		ls := lines[si]
		if !done[si] && crashLog[si] == "" {
			run.Violation(run.NextID(), "watchBackend driver did not run this sequence", sc.texts)
			continue
		}
		stuck := false
		for _, l := range ls {
			if l.Stuck {
				stuck = true
			}
		}
		if stuck {
			run.Violation(run.NextID(), "watchBackend stopped accepting config deliveries (loop stuck or dead)", sc.texts)
			continue
		}
		e := newEnv()
		for _, t := range sc.texts {
			e.addText(t)
		}
		// observations by step
		byStep := map[int]tobs{}
		for _, l := range ls {
			byStep[l.Step] = l.Table
		}
		var impl, human []string
		for k, ev := range sc.evs {
			if ev[2] != 1 {
				continue
			}
			if t, ok := byStep[k]; ok {
				impl = append(impl, vh.Some(coqTobs(t)))
				human = append(human, fmt.Sprintf("step %d: %d routes", k, len(t)))
			} else {
				impl = append(impl, vh.None)
				human = append(human, fmt.Sprintf("step %d: PROCESS DEAD", k))
			}
		}
		// the real NewTable on every candidate of the history
		seen := map[[2]int]bool{}
		cur := [2]int{0, 0}
		var cands, hc []string
		for _, ev := range sc.evs {
			cur[ev[0]] = ev[1]
			if seen[cur] {
				continue
			}
			seen[cur] = true
			v, h := candVerdict(sc.texts[cur[0]] + "\n" + sc.texts[cur[1]])
			cands = append(cands, fmt.Sprintf("(%d%%nat, %d%%nat, %s)", cur[0], cur[1], v))
			hc = append(hc, fmt.Sprintf("%d+%d %s", cur[0], cur[1], h))
		}
		evs := make([]string, len(sc.evs))
		for i, ev := range sc.evs {
			evs[i] = fmt.Sprintf("(%s, %d%%nat, %s)", vh.Bool(ev[0] == 1), ev[1], vh.Bool(ev[2] == 1))
		}
		show := make([]string, len(sc.texts))
		for i, t := range sc.texts {
			show[i] = t
			if len(t) > 300 {
				show[i] = t[:300] + fmt.Sprintf("... (%d bytes)", len(t))
			}
		}
		sample := map[string]interface{}{"texts": show, "events(man,text,obs)": sc.evs, "candidates": hc, "observed": human, "format": sc.format}
		if crashLog[si] != "" {
			sample["process"] = crashLog[si]
		}
		if why := e.excluded(); why != "" {
			run.Exclude(why)
			// outside the model, but the process must survive the history and keep answering
			for _, hline := range human {
				if strings.Contains(hline, "PROCESS DEAD") {
					run.Violation(run.NextID(), "the real watchBackend process died on a history outside the modelled domain ("+why+")", sample)
					break
				}
			}
			continue
		}
		run.Add(sc.class, vh.App("CWatch", e.coq(), strList(sc.texts), vh.List(evs), vh.List(cands), vh.List(impl)), sample)
	}
	for k, pj := range pjobs {
		ji := firstPJob + k
		ls := lines[ji]
		var impl []string
		for d := range pj.bodies {
			if d < len(ls) && !ls[d].Stuck {
				impl = append(impl, vh.Some(coqTobs(ls[d].Table)))
			} else {
				impl = append(impl, vh.None)
			}
		}
		sample := map[string]interface{}{"polls": pj.human, "observed_polls": len(ls)}
		if crashLog[ji] != "" {
			sample["process"] = crashLog[ji]
		}
		run.Add("custom-backend-poll-sequence", vh.App("CCustomPolls", pj.env.coq(), vh.List(pj.bodies), vh.List(pj.verdicts), vh.List(impl)), sample)
	}
	for k, cj := range cjobs {
		ji := len(scripts) + k
		ls := lines[ji]
		if crashLog[ji] != "" {
			run.Violation(run.NextID(), "custom backend: the polling goroutine crashed the process on generated definitions: "+crashLog[ji], nil)
		}
		var prev tobs
		for d, l := range ls {
			if d >= len(cj.defs) {
				break
			}
			if l.Stuck {
				run.Violation(run.NextID(), "custom backend stopped reporting", nil)
				break
			}
			errMsg := ""
			for _, m := range l.Msgs {
				if strings.HasPrefix(m, "Error") {
					errMsg = m
				}
			}
			if cj.reset[d] {
				prev = tobs{}
			}
			if cj.defs[d] == nil || errMsg != "" {
				// nothing may have been installed
				if a, b := coqTobs(l.Table), coqTobs(prev); a != b {
					run.Violation(run.NextID(), "custom backend: an update that was reported as failed changed the active table", map[string]interface{}{"msgs": l.Msgs, "table": l.Table, "before": prev})
				}
			}
			if cj.defs[d] != nil {
				e := defsEnv(cj.defs[d])
				var terms []string
				for _, x := range cj.defs[d] {
					t, _ := coqDef(x)
					terms = append(terms, t)
				}
				impl := vh.Ok(coqTobs(l.Table))
				if errMsg != "" {
					impl = vh.Err(errKind(fmt.Errorf("%s", errMsg)))
				} else if !cj.reset[d] {
					prev = l.Table
					continue // built on top of nothing but observed after a non-reset: compare only failures above
				}
				run.Add(cj.class[d], vh.App("CCustom", e.coq(), vh.Some(vh.List(terms)), impl, "[]"),
					map[string]interface{}{"defs": fmt.Sprintf("%+v", cj.defs[d]), "msgs": l.Msgs, "table": l.Table})
			}
			prev = l.Table
		}
		if len(ls) < len(cj.defs) && crashLog[ji] == "" {
			run.Violation(run.NextID(), "custom backend driver: missing observations", nil)
		}
	}
}

// only the keys with a non-zero value: everything else must get its zero value, whatever the
// previous poll contained (F-C02-5, fixed by 9bd16b3: the backend used to decode into the previous
// poll's definitions)
func sparseJSON(defs []route.RouteDef) string {
	l := make([]map[string]interface{}, len(defs))
	for i, d := range defs {
		m := map[string]interface{}{}
		if d.Cmd != "" {
			m["cmd"] = string(d.Cmd)
		}
		if d.Service != "" {
			m["service"] = d.Service
		}
		if d.Src != "" {
			m["src"] = d.Src
		}
		if d.Dst != "" {
			m["dst"] = d.Dst
		}
		if d.Weight != 0 {
			m["weight"] = d.Weight
		}
		if len(d.Tags) > 0 {
			m["tags"] = d.Tags
		}
		if len(d.Opts) > 0 {
			m["opts"] = d.Opts
		}
		l[i] = m
	}
	b, _ := json.Marshal(l)
	return string(b)
}

// every key explicit (null for no tags / no opts)
func fullJSON(defs []route.RouteDef) string {
	type full struct {
		Cmd     string            `json:"cmd"`
		Service string            `json:"service"`
		Src     string            `json:"src"`
		Dst     string            `json:"dst"`
		Weight  float64           `json:"weight"`
		Tags    []string          `json:"tags"`
		Opts    map[string]string `json:"opts"`
	}
	l := make([]full, len(defs))
	for i, d := range defs {
		l[i] = full{string(d.Cmd), d.Service, d.Src, d.Dst, d.Weight, d.Tags, d.Opts}
	}
	b, _ := json.Marshal(l)
	return string(b)
}

// ---------- (iii) the cell: forced schedules and the stress run ----------
var tlsState = nil2tls()

func schedCases(run *vh.Run) {
	r := run.Rng
	n := run.Scale(40, 1000)
	for c := 0; c < n; c++ {
		nt := 2 + r.Intn(2)
		texts := make([]string, nt)
		e := newEnv()
		for i := range texts {
			// same hosts in every table, nested prefixes per host (route order matters for every
			// lookup), a different service per generation and path
			var lines []string
			for hi, h := range []string{"a.test", "*.test", "", "b.test"}[:2+r.Intn(3)] {
				for pi, pth := range []string{"/", "/foo", "/foo/bar", "/api"}[:2+r.Intn(3)] {
					lines = append(lines, fmt.Sprintf("route add gen%d-%d-%d %s%s http://10.%d.%d.%d:80/", i, hi, pi, h, pth, i, hi, pi))
				}
			}
			r.Shuffle(len(lines), func(a, b int) { lines[a], lines[b] = lines[b], lines[a] })
			if r.Intn(6) == 0 {
				lines = append(lines, pick(r, badTexts)) // an invalid text: NewTable fails, SetTable(nil)
			}
			texts[i] = strings.Join(lines, "\n")
			e.addText(texts[i])
		}
		loaded := map[int]bool{}
		local := map[int]route.Table{}
		route.SetTable(make(route.Table))
		var acts, impl, human []string
		steps := 10 + r.Intn(12)
		for s := 0; s < steps; s++ {
			rd := r.Intn(3)
			switch k := r.Intn(10); {
			case k < 3:
				i := r.Intn(nt)
				t, _ := route.NewTable(bytes.NewBufferString(texts[i]))
				route.SetTable(t)
				acts = append(acts, fmt.Sprintf("(SSet %d%%nat)", i))
				human = append(human, fmt.Sprintf("set %d", i))
			case k == 3:
				route.SetTable(nil)
				acts = append(acts, "SNil")
				human = append(human, "set nil")
			case k == 4 || (k == 5 && loaded[rd]):
				// another user of the active table (read-only by contract)
				kind := r.Intn(nReaders)
				var lt route.Table
				if loaded[rd] && r.Intn(2) == 0 {
					lt = local[rd]
				}
				if msg := readTable(kind, lt); msg != "" {
					run.Violation(run.NextID(), "a reader of the active table panicked: "+msg, texts)
				}
				acts = append(acts, fmt.Sprintf("(SRead %d%%nat %d)", rd, kind))
				human = append(human, fmt.Sprintf("read r%d kind %d", rd, kind))
			case k < 6 || !loaded[rd]:
				local[rd] = route.GetTable()
				loaded[rd] = true
				acts = append(acts, fmt.Sprintf("(SLoad %d%%nat)", rd))
				human = append(human, fmt.Sprintf("load r%d", rd))
			default:
				q := lookupReq{host: pick(r, []string{"a.test", "b.test", "A.TEST:80", "x.test"}), uri: pick(r, []string{"/", "/foo/x", "/foo/bar/x", "/api", "/zzz"}), globOff: r.Intn(4) == 0}
				q.total = cursors[auxRng.Intn(len(cursors))]
				if auxRng.Intn(6) == 0 {
					q.direct, q.host, q.uri = true, pick(auxRng, []string{"a.test", "B.TEST", "", "zzz.test"}), "/"
				}
				o, _, _ := doLookup(local[rd], q)
				acts = append(acts, vh.App("SLook", vh.Nat(rd), q.coq()))
				impl = append(impl, o)
				human = append(human, fmt.Sprintf("lookup r%d %s%s", rd, q.host, q.uri))
			}
		}
		if why := e.excluded(); why != "" {
			run.Exclude(why)
			continue
		}
		run.Add("forced-schedule", vh.App("CSched", e.coq(), strList(texts), vh.List(acts), vh.List(impl)),
			map[string]interface{}{"texts": texts, "schedule": human})
	}
	route.SetTable(make(route.Table))
}

func stress(run *vh.Run) {
	// 4 hosts, nested prefixes per host: the service name says which generation and which depth
	mk := func(gen string) route.Table {
		var lines []string
		for k := 0; k < 12; k++ {
			for _, d := range []string{"", "/deep", "/deep/er"} {
				depth := strings.Count(d, "/")
				lines = append(lines, fmt.Sprintf("route add %s-%d-%d h%d.test/p%d%s http://10.9.%d.1:80/", gen, k, depth, k%4, k, d, k))
				lines = append(lines, fmt.Sprintf("route add %s-%d-%d h%d.test/p%d%s http://10.9.%d.2:80/ weight 0.3", gen, k, depth, k%4, k, d, k))
			}
		}
		for h := 0; h < 4; h++ {
			lines = append(lines, fmt.Sprintf("route add %s-root-9 h%d.test/ http://10.9.9.%d:80/", gen, h, h))
		}
		t, err := route.NewTable(bytes.NewBufferString(strings.Join(lines, "\n")))
		if err != nil {
			panic(err)
		}
		return t
	}
	dur := time.Duration(run.Scale(2, 30)) * time.Second
	var stop int32
	var wg sync.WaitGroup
	var mixed, lookups, generations, reads int64
	var firstMixed atomic.Value
	route.SetTable(mk("A"))
	wg.Add(1)
	go func() {
		defer wg.Done()
		for i := 0; atomic.LoadInt32(&stop) == 0; i++ {
			// a fresh table every time, as the update loop builds one
			route.SetTable(mk([]string{"A", "B"}[i%2]))
			if i%5 == 0 {
				route.SetTable(nil)
			}
			atomic.AddInt64(&generations, 1)
		}
	}()
	gc := route.NewGlobCache(100)
	for rd := 0; rd < 8; rd++ {
		wg.Add(1)
		go func(rd int) {
			defer wg.Done()
			rng := rand.New(rand.NewSource(int64(rd) + run.Seed))
			for atomic.LoadInt32(&stop) == 0 {
				t := route.GetTable()
				gen := ""
				for k := 0; k < 20; k++ {
					j := rng.Intn(12)
					depth := rng.Intn(3)
					req := &http.Request{Host: fmt.Sprintf("h%d.test", j%4), URL: &url.URL{Path: fmt.Sprintf("/p%d%s/x", j, []string{"", "/deep", "/deep/er"}[depth])}, Header: http.Header{}}
					tg := t.Lookup(req, "", route.Picker["rr"], route.Matcher["prefix"], gc, rng.Intn(2) == 0)
					atomic.AddInt64(&lookups, 1)
					g := "none"
					if tg != nil {
						g = tg.Service[:1]
						// the most specific route of the snapshot must answer
						if want := fmt.Sprintf("%s-%d-%d", g, j, depth); tg.Service != want {
							atomic.AddInt64(&mixed, 1)
							firstMixed.CompareAndSwap(nil, fmt.Sprintf("reader %d: %s answered by %s, want %s (route order of the published table changed)", rd, req.URL.Path, tg.Service, want))
						}
					}
					if gen == "" {
						gen = g
					}
					if g != gen || tg == nil {
						atomic.AddInt64(&mixed, 1)
						firstMixed.CompareAndSwap(nil, fmt.Sprintf("reader %d: generation %s then %s", rd, gen, g))
					}
				}
			}
		}(rd)
	}
	// the other users of the active table, concurrently
	for k := 0; k < nReaders; k++ {
		wg.Add(1)
		go func(k int) {
			defer wg.Done()
			for atomic.LoadInt32(&stop) == 0 {
				if msg := readTable(k, nil); msg != "" {
					firstMixed.CompareAndSwap(nil, fmt.Sprintf("table reader %d panicked: %s", k, msg))
					atomic.AddInt64(&mixed, 1)
				}
				atomic.AddInt64(&reads, 1)
				time.Sleep(200 * time.Microsecond)
			}
		}(k)
	}
	time.Sleep(dur)
	// on a loaded machine keep going until the run means something (at most 40 s more)
	for extra := 0; extra < 400 && (atomic.LoadInt64(&lookups) < 1000 || atomic.LoadInt64(&generations) < 10); extra++ {
		time.Sleep(100 * time.Millisecond)
	}
	atomic.StoreInt32(&stop, 1)
	wg.Wait()
	route.SetTable(make(route.Table))
	run.Notes["stress_lookups"] = lookups
	run.Notes["stress_tables_installed"] = generations
	run.Notes["stress_other_reader_calls"] = reads
	if mixed > 0 {
		run.Violation(-1, "lookups of one reader on one GetTable() snapshot were answered from different table generations, by a less specific route, or found nothing", map[string]interface{}{"count": mixed, "first": firstMixed.Load()})
	}
	if lookups < 1000 || generations < 10 {
		run.Violation(-1, "stress run too short to mean anything", map[string]interface{}{"lookups": lookups, "tables": generations})
	}
}

func main() {
	raceReexec()
	run := vh.Start("C02")
	theRun = run
	auxRng = rand.New(rand.NewSource(run.Seed*104729 + 11))
	// the tcp-dynamic listener loop runs beside the other classes (its driver process mostly sleeps);
	// its cases are added after theirs, so their ids and inputs do not change
	tdCh := make(chan *tdResult, 1)
	go func() { tdCh <- tcpDynCases(run.Seed, !run.Thorough()) }()
	buildCases(run)
	customCases(run)
	schedCases(run)
	loopCases(run)
	stress(run)
	raceReports(run)
	td := <-tdCh
	for _, a := range td.adds {
		run.Add(a.class, a.term, a.sample)
	}
	for _, v := range td.viol {
		run.Violation(-1, v.what, v.input)
	}
	for _, e := range td.excl {
		run.Exclude(e)
	}
	run.Finish(preamble, run.Scale(32, 300))
}
