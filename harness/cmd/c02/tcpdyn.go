package main

// The tcp-dynamic listener loop of main.startServers (class family tcpdyn-*, Coq case CTcpDyn).
// Histories of complete routing tables are fed to the REAL loop in a separate `go test` process
// (driver /repo/verif_c02_tcpdyn_test.go): some of the ports the route texts name are held by
// another socket, are fabio's own static listener, or are no port numbers.  Observables: the
// addresses the proxy serves after every table, and whether the process is still there.
// All random choices come from a source of their own, so the other classes keep their inputs.

import (
	"bufio"
	"bytes"
	"encoding/json"
	"fmt"
	"math/rand"
	"net"
	"os"
	"os/exec"
	"path/filepath"
	"sort"
	"strconv"
	"strings"
	"time"

	"github.com/fabiolb/fabio/route"
	"verifharness/internal/vh"
)

type tdStep struct {
	Text   string   `json:"text"`
	Busy   []string `json:"busy"`
	Settle []string `json:"settle"`
}
type tdJob struct {
	Ports []string `json:"ports"`
	Steps []tdStep `json:"steps"`
	class string
}
type tdHost struct {
	Host    string   `json:"host"`
	Schemes []string `json:"schemes"`
}
type tdLine struct {
	Job    int               `json:"job"`
	Step   int               `json:"step"`
	Init   []string          `json:"init"`
	Map    map[string]string `json:"map"`
	Hosts  []tdHost          `json:"hosts"`
	Busy   []string          `json:"busy"`
	Served []string          `json:"served"`
	Err    string            `json:"err"`
	Done   bool              `json:"done"`
}

const tdUp = "tcp://127.0.0.1:9"

var tdInvalid = []string{"70000", "65536", "99999"}

func tdTCP(name string) string { return "route add s" + name + " :{" + name + "} " + tdUp }

// tdExpect replays, for the driver's wait condition only, what the generator expects to be served
type tdExpect struct {
	served map[string]bool
	last   map[string]bool
}

func (x *tdExpect) step(ports map[string]bool, busy map[string]bool) []string {
	for p := range x.last {
		if !ports[p] {
			delete(x.served, p)
		}
	}
	for p := range ports {
		valid := true
		for _, iv := range tdInvalid {
			if p == iv {
				valid = false
			}
		}
		if valid && !busy[p] {
			x.served[p] = true
		}
	}
	x.last = ports
	out := []string{}
	for p := range x.served {
		if _, err := strconv.Atoi(p); err != nil { // literal numbers are never served
			out = append(out, p)
		}
	}
	sort.Strings(out)
	return out
}

func tdDirected() []tdJob {
	mk := func(class string, ports []string, steps ...tdStep) tdJob {
		return tdJob{Ports: ports, Steps: steps, class: class}
	}
	st := func(busy, settle []string, lines ...string) tdStep {
		if busy == nil {
			busy = []string{}
		}
		return tdStep{Text: strings.Join(lines, "\n"), Busy: busy, Settle: settle}
	}
	S := func(s ...string) []string { return s }
	web := "route add web w.test/ http://10.0.0.1:80/"
	return []tdJob{
		// a free port, then a port another program listens on, then a number that is no port
		mk("tcpdyn-other-program-then-no-port", S("F0", "B0"),
			st(S("B0"), S("O", "F0"), tdTCP("F0")),
			st(S("B0"), S("O", "F0"), tdTCP("F0"), tdTCP("B0")),
			st(S("B0"), S("O", "F0"), tdTCP("F0"), tdTCP("B0"), "route add big :70000 "+tdUp),
			st(S("B0"), S("O"), "route add big :70000 "+tdUp, web)),
		// the other program goes away while the route is there; comes back after the route left
		mk("tcpdyn-port-changes-hands", S("F0", "B0"),
			st(S("B0"), S("O"), tdTCP("B0")),
			st(nil, S("O", "B0"), tdTCP("B0")),
			st(nil, S("O", "F0"), tdTCP("F0")),
			st(S("B0"), S("O", "F0"), tdTCP("F0"), tdTCP("B0")),
			st(S("B0"), S("O"), tdTCP("B0"), web),
			st(nil, S("O", "B0"), tdTCP("B0"), web)),
		// several invalid port numbers, alone and beside a good one
		mk("tcpdyn-no-port-numbers", S("F0"),
			st(nil, S("O"), "route add a :70000 "+tdUp, "route add b :65536 "+tdUp),
			st(nil, S("O", "F0"), "route add a :70000 "+tdUp, tdTCP("F0"), "route add c :99999 "+tdUp),
			st(nil, S("O"), "route add c :99999 "+tdUp)),
		// host:port keys, two keys with one port, mixed schemes (no listener), http only
		mk("tcpdyn-keys-and-schemes", S("F0", "F1", "F2"),
			st(nil, S("O", "F0"), "route add a h.test:{F0} "+tdUp, tdTCP("F0")),
			st(nil, S("O", "F0"), "route add a h.test:{F0} "+tdUp, tdTCP("F1"), "route add m :{F1} http://10.0.0.1:80/"),
			st(nil, S("O", "F1"), tdTCP("F1"), "route add h :{F2} http://10.0.0.1:80/", web),
			st(S("F2"), S("O", "F1"), tdTCP("F1"), tdTCP("F2")),
			st(nil, S("O"), web)),
		// every port busy at once, then all released
		mk("tcpdyn-all-busy", S("B0", "B1"),
			st(S("B0", "B1"), S("O"), tdTCP("B0"), tdTCP("B1")),
			st(S("B1"), S("O", "B0"), tdTCP("B0"), tdTCP("B1")),
			st(nil, S("O", "B0", "B1"), tdTCP("B0"), tdTCP("B1"))),
	}
}

// the LAST job: a route for the port of one of fabio's own listeners
func tdOwnJob() tdJob {
	S := func(s ...string) []string { return s }
	return tdJob{class: "tcpdyn-own-listener-port", Ports: S("F0", "O"), Steps: []tdStep{
		{Text: tdTCP("F0"), Busy: S(), Settle: S("O", "F0")},
		{Text: tdTCP("F0") + "\n" + tdTCP("O"), Busy: S(), Settle: S("O", "F0")},
		{Text: tdTCP("F0") + "\n" + tdTCP("O") + "\nroute add web w.test/ http://10.0.0.1:80/", Busy: S(), Settle: S("O", "F0")},
	}}
}

func tdRandom(r *rand.Rand, k int) tdJob {
	pool := []string{"F0", "F1", "F2", "B0", "B1"}
	j := tdJob{Ports: pool, class: "tcpdyn-random"}
	x := &tdExpect{served: map[string]bool{"O": true}, last: map[string]bool{}}
	busy := map[string]bool{}
	n := 3 + r.Intn(4)
	for s := 0; s < n; s++ {
		for _, p := range pool {
			if busy[p] {
				if r.Intn(10) < 3 {
					delete(busy, p)
				}
			} else if !x.served[p] && r.Intn(4) == 0 {
				busy[p] = true
			}
		}
		ports := map[string]bool{}
		var lines []string
		for _, p := range pool {
			if r.Intn(100) >= 55 {
				continue
			}
			switch v := r.Intn(20); {
			case v < 2: // http only: no port of the loop
				lines = append(lines, "route add w"+p+" :{"+p+"} http://10.0.0.1:80/")
			case v < 4: // mixed schemes on one key
				lines = append(lines, tdTCP(p), "route add w"+p+" :{"+p+"} http://10.0.0.1:80/")
			case v < 7: // host:port key
				lines = append(lines, "route add h"+p+" h"+strconv.Itoa(r.Intn(3))+".test:{"+p+"} "+tdUp)
				ports[p] = true
			default:
				lines = append(lines, tdTCP(p))
				ports[p] = true
			}
		}
		for _, iv := range tdInvalid {
			if r.Intn(10) < 3 {
				lines = append(lines, "route add n"+iv+" :"+iv+" "+tdUp)
				ports[iv] = true
			}
		}
		if r.Intn(3) == 0 {
			lines = append(lines, "route add web w.test/ http://10.0.0.1:80/")
		}
		r.Shuffle(len(lines), func(a, b int) { lines[a], lines[b] = lines[b], lines[a] })
		bl := []string{}
		bm := map[string]bool{}
		for p := range busy {
			bl = append(bl, p)
			bm[p] = true
		}
		sort.Strings(bl)
		j.Steps = append(j.Steps, tdStep{Text: strings.Join(lines, "\n"), Busy: bl, Settle: x.step(ports, bm)})
	}
	return j
}

type tdResult struct {
	adds []struct {
		class, term string
		sample      interface{}
	}
	viol []struct {
		what  string
		input interface{}
	}
	excl []string
}

// tdRunProc runs the driver binary on jobs, restarting it after the job it died in.
func tdRunProc(bin, repo, dir string, jobs []tdJob, refresh string) (map[int][]tdLine, map[int]bool, map[int]string, error) {
	lines, done, crash := map[int][]tdLine{}, map[int]bool{}, map[int]string{}
	inF, outF := filepath.Join(dir, "td-in"+refresh+".json"), filepath.Join(dir, "td-out"+refresh+".jsonl")
	b, _ := json.Marshal(jobs)
	os.WriteFile(inF, b, 0o644)
	from := 0
	for restarts := 0; from < len(jobs) && restarts < 60; restarts++ {
		os.Remove(outF)
		c := exec.Command(bin, "-test.run", "TestVerifC02TcpDyn$", "-test.count=1", "-test.timeout=20m")
		c.Dir = repo
		c.Env = append(os.Environ(), "VERIF_C02TD_IN="+inF, "VERIF_C02TD_OUT="+outF, "VERIF_C02TD_FROM="+strconv.Itoa(from),
			"VERIF_C02TD_LOG=1")
		if refresh != "" {
			c.Env = append(c.Env, "VERIF_C02TD_REFRESH="+refresh)
		}
		var log bytes.Buffer
		c.Stdout, c.Stderr = &log, &log
		if err := c.Start(); err != nil {
			return lines, done, crash, err
		}
		errc := make(chan error, 1)
		go func() { errc <- c.Wait() }()
		var werr error
		select {
		case werr = <-errc:
		case <-time.After(15 * time.Minute):
			c.Process.Kill()
			werr = fmt.Errorf("timeout")
		}
		last := from - 1
		if f, err := os.Open(outF); err == nil {
			sc := bufio.NewScanner(f)
			sc.Buffer(make([]byte, 1<<20), 1<<26)
			for sc.Scan() {
				var l tdLine
				if json.Unmarshal(sc.Bytes(), &l) != nil {
					continue
				}
				if l.Done {
					done[l.Job] = true
					last = l.Job
				} else {
					lines[l.Job] = append(lines[l.Job], l)
				}
			}
			f.Close()
		}
		if werr == nil && last == len(jobs)-1 {
			break
		}
		// the process ended in job last+1 (exit.Fatal ends it with os.Exit(1): no panic trace)
		tail := ""
		for _, ln := range strings.Split(log.String(), "\n") {
			if strings.Contains(ln, "[FATAL]") || strings.Contains(ln, "panic:") || strings.Contains(ln, "FAIL") {
				tail += ln + "\n"
			}
		}
		if len(tail) > 600 {
			tail = tail[:600]
		}
		crash[last+1] = fmt.Sprintf("%v: %s", werr, tail)
		from = last + 2
	}
	return lines, done, crash, nil
}

func tdHosts(text string) ([]tdHost, error) {
	t, err := route.NewTable(bytes.NewBufferString(text))
	if err != nil {
		return nil, err
	}
	out := []tdHost{}
	for h, rs := range t {
		x := tdHost{Host: h, Schemes: []string{}}
		for _, r := range rs {
			for _, tg := range r.Targets {
				x.Schemes = append(x.Schemes, tg.URL.Scheme)
			}
		}
		out = append(out, x)
	}
	sort.Slice(out, func(i, j int) bool { return out[i].Host < out[j].Host })
	return out, nil
}

func tdCoqHosts(hs []tdHost) string {
	items := make([]string, len(hs))
	for i, h := range hs {
		items[i] = "(" + hx(h.Host) + ", " + strList(h.Schemes) + ")"
	}
	return vh.List(items)
}

// tcpDynCases runs in a goroutine of its own beside the other classes (it mostly sleeps); it touches
// neither run.Rng nor the case list: main adds what it returns.
func tcpDynCases(seed int64, quick bool) *tdResult {
	res := &tdResult{}
	violation := func(what string, input interface{}) {
		res.viol = append(res.viol, struct {
			what  string
			input interface{}
		}{what, input})
	}
	r := rand.New(rand.NewSource(seed*7927 + 3))
	jobs := tdDirected()
	nrand := 7
	if !quick {
		nrand = 60
	}
	for k := 0; k < nrand; k++ {
		jobs = append(jobs, tdRandom(r, k))
	}
	jobs = append(jobs, tdOwnJob())

	repo := os.Getenv("VERIF_REPO")
	if repo == "" {
		repo = "/repo"
	}
	dir, err := os.MkdirTemp("", "verif-c02td-")
	if err != nil {
		panic(err)
	}
	defer os.RemoveAll(dir)
	bin := filepath.Join(dir, "main.test")
	cmd := exec.Command("go", "test", "-tags", "verif", "-c", "-o", bin, ".")
	cmd.Dir = repo
	if out, err := cmd.CombinedOutput(); err != nil {
		tail := string(out)
		if len(tail) > 1500 {
			tail = tail[len(tail)-1500:]
		}
		violation("cannot build the tcp-dynamic driver (go test -tags verif -c in "+repo+"): "+err.Error(), tail)
		return res
	}
	lines, done, crash, err := tdRunProc(bin, repo, dir, jobs, "")
	if err != nil {
		violation("cannot start the tcp-dynamic driver: "+err.Error(), nil)
		return res
	}

	// what the real net package says about the numbers that are no ports
	unres := []string{}
	for _, iv := range tdInvalid {
		if _, err := net.ResolveTCPAddr("tcp", ":"+iv); err != nil {
			unres = append(unres, ":"+iv)
		}
	}
	ncases := 0
	for ji, job := range jobs {
		ls := lines[ji]
		pm := map[string]string{"O": "61000"}
		init := []string{":61000"}
		if len(ls) > 0 && ls[0].Step == 0 && ls[0].Map != nil {
			pm, init = ls[0].Map, ls[0].Init
		} else {
			for i, n := range job.Ports {
				if n != "O" {
					pm[n] = strconv.Itoa(61001 + i)
				}
			}
		}
		var steps []string
		var human []map[string]interface{}
		died := false
		for k, st := range job.Steps {
			var hosts []tdHost
			var busy []string
			served := "None"
			var servedH interface{} = "THE PROCESS DIED: " + crash[ji]
			if k < len(ls) && ls[k].Step == k {
				if ls[k].Err != "" {
					res.excl = append(res.excl, "tcpdyn: step could not be arranged ("+strings.SplitN(ls[k].Err, ":", 2)[0]+")")
					break
				}
				hosts, busy = ls[k].Hosts, ls[k].Busy
				served, servedH = "Some "+strList(ls[k].Served), ls[k].Served
			} else {
				if done[ji] { // the job finished without this step: cannot happen
					violation("tcp-dynamic driver: step missing in a finished job", map[string]interface{}{"job": ji, "step": k})
					break
				}
				died = true
				text := st.Text
				for n, p := range pm {
					text = strings.ReplaceAll(text, "{"+n+"}", p)
				}
				var err error
				if hosts, err = tdHosts(text); err != nil {
					res.excl = append(res.excl, "tcpdyn: NewTable rejects a generated text")
					break
				}
				for _, n := range st.Busy {
					busy = append(busy, ":"+pm[n])
				}
			}
			unusable := append(append([]string{}, busy...), unres...)
			steps = append(steps, "("+strList(unusable)+", "+tdCoqHosts(hosts)+", "+served+")")
			human = append(human, map[string]interface{}{"text": st.Text, "held_by_another_socket": busy, "table": hosts, "served": servedH})
			if died {
				break
			}
		}
		if len(steps) == 0 {
			continue
		}
		term := "CTcpDyn " + strList(init) + " " + vh.List(steps)
		res.adds = append(res.adds, struct {
			class, term string
			sample      interface{}
		}{job.class, term, map[string]interface{}{"ports": pm, "served_at_start": init, "steps": human}})
		ncases++
	}
	if ncases < len(jobs)/2 {
		violation("the tcp-dynamic class did not run: too few histories could be arranged", map[string]interface{}{"jobs": len(jobs), "cases": ncases, "excluded": res.excl})
	}

	// F-C02-11 (fixed in /repo f96f61f; this rehearsal reports it again if it returns): a listener configured WITHOUT refresh= (l.Refresh = 0, the parser's default): the probe of
	// the next refresh overtakes the listener goroutine of the previous one, two goroutines bind the port
	zjobs := []tdJob{{Ports: []string{"F0"}, Steps: []tdStep{{Text: tdTCP("F0"), Busy: []string{}, Settle: []string{"O", "F0"}}}}}
	_, zdone, zcrash, err := tdRunProc(bin, repo, dir, zjobs, "0s")
	if err == nil && !zdone[0] {
		violation("tcp-dynamic listener without refresh= (l.Refresh = 0): one valid tcp route for a free port ends the process (exit.Fatal in the listener goroutine)",
			map[string]interface{}{"listen": ":0;proto=tcp-dynamic", "routes": tdTCP("F0"), "log": zcrash[0]})
	}
	return res
}
