// inflight.go: calls that are still in flight while the proxy does other things -- other calls,
// table changes, REAL cleanup passes of the connection pool -- with the targets written the way
// routing tables write them: not only grpc://host:port but also http://host:port/ (what the
// consul registry produces for a service tagged without proto=grpc, and what `route add svc
// /pkg.Svc http://host:port/` says), https://, tcp://.  A gRPC listener proxies to all of them
// (everything that is not grpcs:// behind a listener with a tls.Config is dialled in the clear
// at URL.Host), the pool is keyed by URL.String() and hasTarget compares those strings.
//
// One history per run on an instance of the real newGrpcProxy listener of its own (case
// CInFlight, Model/GrpcInFlight.v [frun]): a table, calls that end at once, calls that are HELD
// at their backend (the handler has read the requests, sent some of its messages and waits), a
// table change that keeps some of their backends and drops one, a real cleanup tick, more
// calls, then the backends end the held calls one by one.  Observed after every step:
// connections begun / ended at every backend; per held call what the backend saw when it began
// and what the caller has when it ends.  Own random source.
package main

import (
	"bytes"
	"fmt"
	"math/rand"
	"strings"
	"sync/atomic"
	"time"

	"github.com/fabiolb/fabio/route"
	"google.golang.org/grpc"
	"google.golang.org/grpc/credentials/insecure"

	"verifharness/internal/vh"
)

type longRes struct {
	cv   cview
	herr string
}

type longCall struct {
	id      int
	sc      *script
	rec     *bview
	backend string
	res     chan longRes
}

func inflightCases(run *vh.Run, backends []*backend, d *driver) {
	r := rand.New(rand.NewSource(run.Seed*32452843 + 16))
	<-d.ready
	if d.err != nil {
		tail := d.logb.String()
		if len(tail) > 1500 {
			tail = tail[len(tail)-1500:]
		}
		run.Violation(run.NextID(), fmt.Sprintf("newGrpcProxy serve driver for the calls in flight failed: %v", d.err), tail)
		return
	}
	defer d.stop()
	t0 := time.Unix(0, d.Plain.T0)
	noglob := false

	// every backend under one way of writing its address, for the whole history
	forms := []string{"http://%s/", "http://%s", "https://%s/", "tcp://%s", "grpc://%s"}
	r.Shuffle(len(forms), func(a, b int) { forms[a], forms[b] = forms[b], forms[a] })
	saved := make([]string, len(backends))
	var written []string
	for i, b := range backends {
		b.quiet(2 * time.Second)
		saved[i] = b.url
		w := fmt.Sprintf(forms[i%len(forms)], b.addr)
		t, err := route.NewTable(bytes.NewBufferString("route add x / " + w + "\n"))
		if err != nil {
			panic(err)
		}
		b.url = tableURLs(t)[0] // as the table renders it (the pool's key)
		written = append(written, w)
	}
	defer func() {
		for i, b := range backends {
			b.url = saved[i]
		}
	}()

	setTable := func(txt string) route.Table {
		if err := d.post("/table", txt); err != nil {
			panic("driver rejected the table: " + err.Error())
		}
		t, err := route.NewTable(bytes.NewBufferString(txt))
		if err != nil {
			panic(err)
		}
		return t
	}
	// half of the routes as the registry writes them for a tag without proto=grpc: no opts
	genT := func() string {
		_, txt := genTable(r, written, 5, true)
		var out []string
		for _, ln := range strings.Split(strings.TrimSpace(txt), "\n") {
			if ln == "" {
				continue
			}
			if r.Intn(2) == 0 {
				ln = strings.Replace(ln, ` opts "proto=grpc"`, "", 1)
			}
			out = append(out, ln)
		}
		// three host-less routes to three different backends, so that calls are held at several of them
		perm := r.Perm(len(written))
		for k, pth := range []string{"/pkg.Svc", "/other.Api/", "/p"} {
			ln := fmt.Sprintf("route add held%d %s %s", k, pth, written[perm[k]])
			if r.Intn(2) == 0 {
				ln += ` opts "proto=grpc"`
			}
			out = append(out, ln)
		}
		r.Shuffle(len(out), func(a, b int) { out[a], out[b] = out[b], out[a] })
		return strings.Join(out, "\n") + "\n"
	}
	cc, err := grpc.NewClient("passthrough:///"+d.Plain.Addr, grpc.WithTransportCredentials(insecure.NewCredentials()),
		grpc.WithDefaultCallOptions(grpc.ForceCodec(rawCodec{"proto"}), grpc.MaxCallRecvMsgSize(16<<20)))
	if err != nil {
		panic(err)
	}
	defer cc.Close()

	base := make([][2]int64, len(backends))
	for i, b := range backends {
		base[i] = [2]int64{atomic.LoadInt64(&b.begins), atomic.LoadInt64(&b.ends)}
	}
	observe := func() string {
		var it []string
		for i, b := range backends {
			it = append(it, vh.App("mkcnt", vh.HxS(b.url), vh.N(int(atomic.LoadInt64(&b.begins)-base[i][0])), vh.N(int(atomic.LoadInt64(&b.ends)-base[i][1]))))
		}
		return vh.List(it)
	}

	var steps, obs, ssample []string
	var curTbl route.Table
	var curTxt string
	record := func(step, what string) {
		steps = append(steps, step)
		obs = append(obs, observe())
		ssample = append(ssample, what)
	}

	const period = 5 * time.Second
	ticks := int(time.Since(t0) / period)
	realTicks := 0
	awaitTick := func() {
		next := t0.Add(time.Duration(ticks+1) * period)
		time.Sleep(time.Until(next.Add(500 * time.Millisecond)))
		ticks++
		realTicks++
		in := map[string]bool{}
		for _, u := range tableURLs(curTbl) {
			in[u] = true
		}
		deadline := time.Now().Add(8 * time.Second)
		for time.Now().Before(deadline) {
			ok := true
			for _, b := range backends {
				if !in[b.url] && atomic.LoadInt64(&b.begins) != atomic.LoadInt64(&b.ends) {
					ok = false
				}
			}
			if ok {
				break
			}
			time.Sleep(10 * time.Millisecond)
		}
		time.Sleep(30 * time.Millisecond)
		record("(FH HTick)", "tick")
	}
	// stay clear of the moment the real cleanup loop wakes up
	guard := func() {
		if until := time.Until(t0.Add(time.Duration(ticks+1) * period)); until < 900*time.Millisecond {
			awaitTick()
		}
	}
	table := func(txt string) {
		guard()
		curTxt = txt
		curTbl = setTable(txt)
		record(vh.App("FH", vh.App("HSetTable", tableCoq(curTbl))), "table")
	}

	calls := 0
	instant := func() {
		guard()
		calls++
		res, ok := doOneCall(run, r, cc, curTbl, curTxt, map[string]bool{}, calls, "")
		if !ok {
			return
		}
		hchosen := "HNobody"
		if res.chosen != "" {
			hchosen = vh.App("HBackend", vh.HxS(res.chosen))
		}
		record(vh.App("FH", vh.App("HCall", res.mdT, res.upT, hchosen)), "call->"+res.chosen)
		run.Add("inflight-history-"+res.class, vh.App("CCall", tableCoq(curTbl), vh.Bool(noglob), vh.Bool(false), "[]", res.ciTerm, hchosen, res.bvT, cviewCoq(res.cv)), res.sample)
	}

	nextID := 0
	held, cut, spanning := 0, 0, 0
	// begin starts a call that is held at its backend; nil: the call ended at once (no route)
	begin := func() *longCall {
		guard()
		method := methodPool[r.Intn(len(methodPool))]
		md := genMD(r, mdKeys, 3)
		if r.Intn(3) == 0 {
			addDstHost(r, md)
		} else {
			method = []string{"/pkg.Svc/Get", "/pkg.Svc/Put", "/other.Api/Stream", "/other.Api/X", "/p.q/r"}[r.Intn(5)]
		}
		sc := &script{hdr: genMD(r, mdKeys[:9], 2), trl: genMD(r, mdKeys[:9], 2), earlyHdr: r.Intn(2) == 0,
			hold: make(chan struct{}), holding: make(chan struct{})}
		if r.Intn(3) == 0 {
			sc.code = uint32(1 + r.Intn(16))
			sc.msg = statusMsgs[r.Intn(len(statusMsgs))]
		}
		reqs := genMsgs(r, 1+r.Intn(3), false)
		sc.msgs = genMsgs(r, 1+r.Intn(4), false)
		sc.holdAfter = r.Intn(len(sc.msgs) + 1)
		curScript.Store(sc)
		seenMu.Lock()
		seen = nil
		seenMu.Unlock()
		nextID++
		lc := &longCall{id: nextID, sc: sc, res: make(chan longRes, 1)}
		go func() {
			cv, herr := doCallT(cc, kBidi, method, md, reqs, 0, 150*time.Second)
			lc.res <- longRes{cv, herr}
		}()
		up, okp := parsedPath(method)
		upT, mdT := optStr(up, okp), mdCoq(md, nil)
		sample := map[string]interface{}{"table": curTxt, "method": method, "md": mdSample(md), "held_after_messages": sc.holdAfter, "of": len(sc.msgs)}
		select {
		case <-sc.holding:
		case res := <-lc.res:
			seenMu.Lock()
			n := len(seen)
			seenMu.Unlock()
			if n > 0 || res.herr != "" {
				run.Violation(run.NextID(), fmt.Sprintf("a call that its backend holds ended at once: status %d %q %s", res.cv.code, res.cv.msg, res.herr), sample)
			}
			record(vh.App("FH", vh.App("HCall", mdT, upT, "HNobody")), "call->")
			return nil
		case <-time.After(8 * time.Second):
			run.Violation(run.NextID(), "a call neither reached a backend nor ended within 8 s", sample)
			return nil
		}
		seenMu.Lock()
		recs := append([]*bview(nil), seen...)
		seenMu.Unlock()
		if len(recs) != 1 {
			run.Violation(run.NextID(), fmt.Sprintf("one call reached %d backend handlers", len(recs)), sample)
			return nil
		}
		lc.rec = recs[0]
		lc.backend = lc.rec.url
		ci := vh.App("mkcallin", mdT, vh.HxS(method), upT, msgsCoq(reqs),
			vh.App("mkscript", vh.N(sc.mode), mdCoq(sc.hdr, nil), msgsCoq(sc.msgs), mdCoq(sc.trl, nil), vh.N(int(sc.code)), vh.HxS(sc.msg)))
		bvT := vh.App("mkbview", vh.HxS(lc.rec.method), mdCoq(lc.rec.md, transportKeysBackend), msgsCoq(lc.rec.msgs))
		record(vh.App("FHBegin", vh.N(lc.id), ci, vh.App("HBackend", vh.HxS(lc.backend)), bvT), fmt.Sprintf("begin %d->%s", lc.id, lc.backend))
		held++
		return lc
	}
	end := func(lc *longCall, sinceTicks int) {
		guard()
		close(lc.sc.hold)
		var res longRes
		select {
		case res = <-lc.res:
		case <-time.After(10 * time.Second):
			run.Violation(run.NextID(), "a held call did not end within 10 s of its backend ending it", lc.backend)
			return
		}
		select {
		case <-lc.rec.done:
		case <-time.After(3 * time.Second):
			run.Violation(run.NextID(), "backend handler of a held call still running 3 s after the caller saw the end of the call", lc.backend)
		}
		if res.herr != "" {
			run.Violation(run.NextID(), res.herr, lc.backend)
		}
		if realTicks > sinceTicks {
			spanning++
		}
		if res.cv.code != lc.sc.code || len(res.cv.msgs) != len(lc.sc.msgs) {
			cut++
		}
		record(vh.App("FHEnd", vh.N(lc.id), cviewCoq(res.cv)), fmt.Sprintf("end %d (%s): %d of %d messages, status %d %q", lc.id, lc.backend, len(res.cv.msgs), len(lc.sc.msgs), res.cv.code, res.cv.msg))
	}

	rounds := run.Scale(1, 4)
	for round := 0; round < rounds; round++ {
		table(genT())
		for i, n := 0, 4+r.Intn(6); i < n; i++ {
			instant()
		}
		type heldCall struct {
			lc    *longCall
			since int
		}
		var fly []heldCall
		for tries, want := 0, 4+r.Intn(3); tries < 14 && len(fly) < want; tries++ {
			if lc := begin(); lc != nil {
				fly = append(fly, heldCall{lc, realTicks})
			}
			if r.Intn(3) == 0 {
				instant()
			}
		}
		// one of the backends with a call in flight leaves the table (when another one stays);
		// every second time the table changes otherwise as well
		if len(fly) > 0 {
			victim := fly[r.Intn(len(fly))].lc.backend
			others := false
			for _, h := range fly {
				others = others || h.lc.backend != victim
			}
			if others && (round == 0 || r.Intn(3) > 0) {
				var vw string
				for i, b := range backends {
					if b.url == victim {
						vw = written[i]
					}
				}
				var keep []string
				for _, ln := range strings.Split(strings.TrimSpace(curTxt), "\n") {
					f := strings.Fields(ln)
					if len(f) >= 5 && f[4] == vw {
						continue
					}
					keep = append(keep, ln)
				}
				if r.Intn(2) == 0 {
					// the routes of the backends that stay move to other paths / hosts, the targets stay
					for _, h := range fly {
						if h.lc.backend != victim {
							for i, b := range backends {
								if b.url == h.lc.backend {
									keep = append(keep, fmt.Sprintf("route add moved%d %s %s", i, pathPool[r.Intn(len(pathPool))], written[i]))
								}
							}
						}
					}
				}
				if len(keep) == 0 {
					table("")
				} else {
					table(strings.Join(keep, "\n") + "\n")
				}
			}
		}
		for i, n := 0, r.Intn(3); i < n; i++ {
			instant()
		}
		awaitTick()
		for i, n := 0, 3+r.Intn(5); i < n; i++ {
			instant()
		}
		r.Shuffle(len(fly), func(a, b int) { fly[a], fly[b] = fly[b], fly[a] })
		for _, h := range fly {
			end(h.lc, h.since)
			if r.Intn(2) == 0 {
				instant()
			}
		}
	}
	run.Notes["inflight_calls_held"] = held
	run.Notes["inflight_calls_held_across_a_real_tick"] = spanning
	run.Notes["inflight_calls_cut"] = cut
	run.Notes["inflight_real_ticks"] = realTicks
	if len(steps) > 0 {
		run.Add("inflight-history", vh.App("CInFlight", vh.Bool(noglob), vh.List(steps), vh.List(obs)),
			map[string]interface{}{"steps": len(steps), "targets": written, "real_ticks": realTicks, "held": held, "cut": cut, "history": ssample[:min(len(ssample), 80)]})
	}
	setTable("")
}
