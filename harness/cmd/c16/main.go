// Correspondence harness for C16 (gRPC calls are proxied transparently to a matching
// backend).  Several kinds of cases, all on the real code of /repo:
//
//	CLookup   GrpcProxyInterceptor.lookup (hook) on generated tables, metadata and method names
//	CPool     histories Get / SetTable / cleanup tick / connection shutdown on the real
//	          grpcConnectionPool (hook: same struct, cleanup loop started by the harness)
//	CCall     end-to-end over loopback: caller -> proxy.ListenAndServeGRPC with the server
//	          options of main.go:newGrpcProxy (replicated below, 6 lines) -> raw-bytes backends
//	          playing scripted outcomes; unary and streaming calls with generated metadata
//	CLimit    unary calls of sizes around proxy.grpcmaxrxmsgsize / grpcmaxtxmsgsize through a server
//	          built by the REAL main.go:newGrpcProxy (driver /repo/verif_c16_test.go, run with go test)
//	CSession  the same calls as one history with table changes and the real 5 s cleanup
//	          ticks in between; observable = connections begun / ended at every backend
//	CHistoryX one more such history in which backends are restarted on their address (graceful
//	          stop = GOAWAY) or reset the connections they accepted while they stay in the table:
//	          the pooled channel has to connect again for the next call (Model/GrpcTransport.v)
//	CListeners histories on processes started by the real config.Load + main.go:startServers with
//	          SEVERAL gRPC listeners (plain and TLS, every order of 1 to 3): calls for plain and TLS
//	          backends through each listener (listeners.go, Model/GrpcListeners.v)
//	CQuiet    histories of calls that are silent for 33 s (45 s) and pauses, each on one backend,
//	          through a second listener process, and by clients of the harness (quiet.go,
//	          Model/GrpcKeepalive.v); they run in the background for the whole run
package main

import (
	"bytes"
	"context"
	"crypto/ecdsa"
	"crypto/elliptic"
	crand "crypto/rand"
	"crypto/sha256"
	"crypto/tls"
	"crypto/x509"
	"crypto/x509/pkix"
	"encoding/binary"
	"encoding/json"
	"fmt"
	"io"
	"math/big"
	"math/rand"
	"net"
	"net/http"
	"net/url"
	"os"
	"os/exec"
	"path/filepath"
	"sort"
	"strings"
	"sync"
	"sync/atomic"
	"time"

	"github.com/fabiolb/fabio/config"
	"github.com/fabiolb/fabio/proxy"
	"github.com/fabiolb/fabio/route"

	gkm "github.com/go-kit/kit/metrics"
	"google.golang.org/grpc"
	"google.golang.org/grpc/codes"
	"google.golang.org/grpc/connectivity"
	"google.golang.org/grpc/credentials"
	"google.golang.org/grpc/credentials/insecure"
	"google.golang.org/grpc/metadata"
	"google.golang.org/grpc/stats"
	"google.golang.org/grpc/status"
	"google.golang.org/protobuf/encoding/protowire"
	"google.golang.org/protobuf/proto"
	"google.golang.org/protobuf/types/known/emptypb"

	"verifharness/internal/vh"
)

const preamble = `From Coq Require Import List NArith String.
From Fabio Require Import Lib.Outcome Lib.Bytes Lib.Pack Model.GrpcPool Model.GrpcKeepalive Check.C16.
Import ListNotations.
Local Open Scope N_scope.
`

// ---------------------------------------------------------------------------
// raw codec: messages are byte slices

type rawCodec struct{ name string }

func (c rawCodec) Marshal(v any) ([]byte, error) {
	b, ok := v.(*[]byte)
	if !ok {
		return nil, fmt.Errorf("rawCodec: %T", v)
	}
	return *b, nil
}
func (c rawCodec) Unmarshal(data []byte, v any) error {
	b, ok := v.(*[]byte)
	if !ok {
		return fmt.Errorf("rawCodec: %T", v)
	}
	*b = append([]byte(nil), data...)
	return nil
}
func (c rawCodec) Name() string { return c.name }

// ---------------------------------------------------------------------------
// scripted backends

const (
	modeDrain     = 0 // read every request message, then answer
	modePingPong  = 1 // answer message i after request message i, the rest after EOF
	modeEarlyFail = 2 // return the status without reading anything
)

type script struct {
	mode     int
	earlyHdr bool // SendHeader before reading (otherwise SetHeader, sent with the first message / status)
	hdr, trl metadata.MD
	msgs     [][]byte
	code     uint32
	msg      string
	// a call that stays in flight (inflight.go): after holdAfter messages the handler closes
	// holding and waits for hold to be closed (or for the call to be cut)
	hold      chan struct{}
	holding   chan struct{}
	holdAfter int
}

type bview struct {
	backend int
	url     string
	method  string
	md      metadata.MD
	msgs    [][]byte
	done    chan struct{}
}

type backend struct {
	idx    int
	url    string // as written in the route commands
	addr   string
	srv    *grpc.Server
	begins int64
	ends   int64
	// when the backend saw a connection end last (unix ns; written before ends is incremented)
	lastEnd int64
	pump    *acceptPump
	child   *childListener
	opts    []grpc.ServerOption
}

// The backend's socket stays bound for the life of the harness: one goroutine accepts on it,
// the grpc.Server of the moment reads the accepted connections through a childListener.  That
// way a backend can be restarted on the same address (graceful stop = GOAWAY, then a new
// server) without giving the port away, and can reset the connections it has accepted.
type acceptPump struct {
	ln net.Listener
	ch chan net.Conn
}

func (p *acceptPump) run() {
	for {
		c, err := p.ln.Accept()
		if err != nil {
			close(p.ch)
			return
		}
		p.ch <- c
	}
}

type childListener struct {
	p     *acceptPump
	done  chan struct{}
	once  sync.Once
	mu    sync.Mutex
	conns []net.Conn
}

func (c *childListener) Accept() (net.Conn, error) {
	select {
	case <-c.done:
		return nil, net.ErrClosed
	default:
	}
	select {
	case <-c.done:
		return nil, net.ErrClosed
	case conn, ok := <-c.p.ch:
		if !ok {
			return nil, net.ErrClosed
		}
		c.mu.Lock()
		c.conns = append(c.conns, conn)
		c.mu.Unlock()
		return conn, nil
	}
}
func (c *childListener) Close() error   { c.once.Do(func() { close(c.done) }); return nil }
func (c *childListener) Addr() net.Addr { return c.p.ln.Addr() }

func (b *backend) serve() {
	b.child = &childListener{p: b.pump, done: make(chan struct{})}
	b.srv = grpc.NewServer(b.opts...)
	go b.srv.Serve(b.child)
}

// resetConns closes every connection the backend has accepted (as a network reset or a crash
// of the peer would); it keeps listening.
func (b *backend) resetConns() {
	b.child.mu.Lock()
	conns := b.child.conns
	b.child.conns = nil
	b.child.mu.Unlock()
	for _, c := range conns {
		c.Close()
	}
}

// restart stops the backend's server gracefully (GOAWAY to every client, as a server retiring
// its connections or shutting down for a deployment does) and starts a new one on the same address.
func (b *backend) restart() {
	old := b.srv
	done := make(chan struct{})
	go func() { old.GracefulStop(); close(done) }()
	select {
	case <-done:
	case <-time.After(2 * time.Second):
		old.Stop()
	}
	b.serve()
}

// quiet waits until every connection begun at the backend has ended
func (b *backend) quiet(d time.Duration) bool {
	deadline := time.Now().Add(d)
	for time.Now().Before(deadline) {
		if atomic.LoadInt64(&b.begins) == atomic.LoadInt64(&b.ends) {
			return true
		}
		time.Sleep(time.Millisecond)
	}
	return false
}

var (
	curScript atomic.Pointer[script]
	seenMu    sync.Mutex
	seen      []*bview
)

func (b *backend) TagConn(ctx context.Context, _ *stats.ConnTagInfo) context.Context { return ctx }
func (b *backend) TagRPC(ctx context.Context, _ *stats.RPCTagInfo) context.Context   { return ctx }
func (b *backend) HandleRPC(context.Context, stats.RPCStats)                         {}
func (b *backend) HandleConn(_ context.Context, s stats.ConnStats) {
	switch s.(type) {
	case *stats.ConnBegin:
		atomic.AddInt64(&b.begins, 1)
	case *stats.ConnEnd:
		atomic.StoreInt64(&b.lastEnd, time.Now().UnixNano())
		atomic.AddInt64(&b.ends, 1)
	}
}

func (b *backend) handle(_ any, ss grpc.ServerStream) error {
	sc := curScript.Load()
	method, _ := grpc.MethodFromServerStream(ss)
	md, _ := metadata.FromIncomingContext(ss.Context())
	rec := &bview{backend: b.idx, url: b.url, method: method, md: md.Copy(), done: make(chan struct{})}
	seenMu.Lock()
	seen = append(seen, rec)
	seenMu.Unlock()
	defer close(rec.done)
	if sc == nil {
		return status.Error(codes.Internal, "harness: no script")
	}
	st := func() error {
		if sc.code == 0 {
			return nil
		}
		return status.Error(codes.Code(sc.code), sc.msg)
	}
	if sc.mode == modeEarlyFail {
		ss.SetHeader(sc.hdr)
		ss.SetTrailer(sc.trl)
		return st()
	}
	if sc.earlyHdr {
		if err := ss.SendHeader(sc.hdr); err != nil {
			return err
		}
	} else {
		ss.SetHeader(sc.hdr)
	}
	sent := 0
	for i := 0; ; i++ {
		var m []byte
		err := ss.RecvMsg(&m)
		if err == io.EOF {
			break
		}
		if err != nil {
			return err
		}
		rec.msgs = append(rec.msgs, m)
		if sc.mode == modePingPong && sent < len(sc.msgs) {
			if err := ss.SendMsg(&sc.msgs[sent]); err != nil {
				return err
			}
			sent++
		}
	}
	for ; ; sent++ {
		if sc.hold != nil && sent == sc.holdAfter {
			close(sc.holding)
			select {
			case <-sc.hold:
			case <-ss.Context().Done():
				return ss.Context().Err()
			}
		}
		if sent >= len(sc.msgs) {
			break
		}
		if err := ss.SendMsg(&sc.msgs[sent]); err != nil {
			return err
		}
	}
	ss.SetTrailer(sc.trl)
	return st()
}

func selfSigned() tls.Certificate {
	key, err := ecdsa.GenerateKey(elliptic.P256(), crand.Reader)
	if err != nil {
		panic(err)
	}
	tmpl := &x509.Certificate{SerialNumber: big.NewInt(16), Subject: pkix.Name{CommonName: "verif-c16-backend"},
		NotBefore: time.Now().Add(-time.Hour), NotAfter: time.Now().Add(24 * time.Hour),
		KeyUsage: x509.KeyUsageDigitalSignature, ExtKeyUsage: []x509.ExtKeyUsage{x509.ExtKeyUsageServerAuth},
		IPAddresses: []net.IP{net.ParseIP("127.0.0.1")}}
	der, err := x509.CreateCertificate(crand.Reader, tmpl, tmpl, &key.PublicKey, key)
	if err != nil {
		panic(err)
	}
	return tls.Certificate{Certificate: [][]byte{der}, PrivateKey: key}
}

func startBackend(idx int, secure bool) *backend {
	ln, err := net.Listen("tcp", "127.0.0.1:0")
	if err != nil {
		panic(err)
	}
	b := &backend{idx: idx, addr: ln.Addr().String()}
	b.url = "grpc://" + b.addr
	opts := []grpc.ServerOption{grpc.ForceServerCodec(rawCodec{"proto"}), grpc.UnknownServiceHandler(b.handle),
		grpc.StatsHandler(b), grpc.MaxRecvMsgSize(16 << 20), grpc.MaxSendMsgSize(16 << 20)}
	if secure {
		b.url = "grpcs://" + b.addr
		opts = append(opts, grpc.Creds(credentials.NewTLS(&tls.Config{Certificates: []tls.Certificate{selfSigned()}})))
	}
	b.opts = opts
	b.pump = &acceptPump{ln: ln, ch: make(chan net.Conn)}
	go b.pump.run()
	b.serve()
	return b
}

// ---------------------------------------------------------------------------
// Coq renderers

// big payloads are compared through a digest: same function on both sides of the comparison
func fold(b []byte) []byte {
	if len(b) <= 40 {
		return b
	}
	h := sha256.Sum256(b)
	out := append([]byte(nil), b[:8]...)
	var l [8]byte
	binary.BigEndian.PutUint64(l[:], uint64(len(b)))
	out = append(out, l[:]...)
	return append(out, h[:]...)
}

func msgsCoq(ms [][]byte) string {
	var it []string
	for _, m := range ms {
		it = append(it, vh.Hx(fold(m)))
	}
	return vh.List(it)
}

func mdCoq(md metadata.MD, skip map[string]bool) string {
	var ks []string
	for k := range md {
		if !skip[k] {
			ks = append(ks, k)
		}
	}
	sort.Strings(ks)
	var it []string
	for _, k := range ks {
		var vs []string
		for _, v := range md[k] {
			vs = append(vs, vh.Hx(fold([]byte(v))))
		}
		it = append(it, vh.Pair(vh.HxS(k), vh.List(vs)))
	}
	return vh.List(it)
}

func mdSample(md metadata.MD) map[string][]string {
	out := map[string][]string{}
	for k, vs := range md {
		for _, v := range vs {
			if len(v) > 24 {
				v = fmt.Sprintf("%q...(%d bytes)", v[:16], len(v))
			} else {
				v = fmt.Sprintf("%q", v)
			}
			out[k] = append(out[k], v)
		}
	}
	return out
}

// what every gRPC peer sees of its transport, with or without a proxy in between
var transportKeysBackend = map[string]bool{":authority": true, "content-type": true, "user-agent": true, "grpc-accept-encoding": true}
var transportKeysCaller = map[string]bool{"content-type": true}

// the live routing table as data: host key -> routes in table order -> target URLs
func tableCoq(t route.Table) string {
	var hosts []string
	for h := range t {
		hosts = append(hosts, h)
	}
	sort.Strings(hosts)
	var hs []string
	for _, h := range hosts {
		var rs []string
		for _, r := range t[h] {
			var ts []string
			for _, tg := range r.Targets {
				ts = append(ts, vh.HxS(tg.URL.String()))
			}
			rs = append(rs, vh.Pair(vh.HxS(r.Path), vh.List(ts)))
		}
		hs = append(hs, vh.Pair(vh.HxS(h), vh.List(rs)))
	}
	return vh.List(hs)
}

func tableURLs(t route.Table) []string {
	set := map[string]bool{}
	for _, rs := range t {
		for _, r := range rs {
			for _, tg := range r.Targets {
				set[tg.URL.String()] = true
			}
		}
	}
	var out []string
	for u := range set {
		out = append(out, u)
	}
	sort.Strings(out)
	return out
}

func strsCoq(ss []string) string {
	var it []string
	for _, s := range ss {
		it = append(it, vh.HxS(s))
	}
	return vh.List(it)
}

func optStr(s string, ok bool) string {
	if !ok {
		return vh.None
	}
	return vh.Some(vh.HxS(s))
}

// ---------------------------------------------------------------------------
// generators

var hostPool = []string{"", "betatest", "api.example.com", "svc:8080", "beta.internal",
	"*.beta.example", "*a.beta.example", "svc-?.beta.example", "api.beta.example"}

// hosts a caller may name: exact keys, hosts only a glob key matches (one pattern, two
// patterns, '?'), a host with an exact key and a glob key, hosts nothing matches
var dstPool = []string{"betatest", "api.example.com", "svc:8080", "beta.internal", "x.beta.example", "aa.beta.example",
	"svc-1.beta.example", "svc-12.beta.example", "api.beta.example", "beta.example", "unknown.host", "*.beta.example"}
var pathPool = []string{"/", "/pkg.Svc", "/pkg.Svc/", "/pkg.Svc/Get", "/pkg.", "/other.Api/", "/other.Api/Stream", "/p"}
var methodPool = []string{"/pkg.Svc/Get", "/pkg.Svc/GetAll", "/pkg.Svc/Put", "/pkg.Svc2/Get", "/other.Api/Stream", "/other.Api/X",
	"/p.q/r", "/zz.None/Nothing", "/pkg.Svc/Get/extra"}

// genTable writes route commands over the given target URLs and parses them with the real parser.
func genTable(r *rand.Rand, urls []string, maxRoutes int, catchAll bool) (route.Table, string) {
	var sb strings.Builder
	n := r.Intn(maxRoutes + 1)
	if catchAll {
		n = 2 + r.Intn(maxRoutes-1)
	}
	if (!catchAll && r.Intn(10) == 0) || (catchAll && r.Intn(25) == 0) {
		n = 0
	}
	used := map[string]bool{}
	if catchAll && n > 0 && r.Intn(4) > 0 {
		// a catch-all, host-less or under one host, so that most calls of a session are routed
		h := ""
		if r.Intn(3) == 0 {
			h = hostPool[1+r.Intn(len(hostPool)-1)]
		}
		u := urls[r.Intn(len(urls))]
		used[h+"/ "+u] = true
		fmt.Fprintf(&sb, "route add svc9 %s/ %s opts \"proto=grpc\"\n", h, u)
	}
	for i := 0; i < n; i++ {
		h := hostPool[r.Intn(len(hostPool))]
		if r.Intn(3) == 0 {
			h = ""
		}
		p := pathPool[r.Intn(len(pathPool))]
		nt := 1
		if r.Intn(3) == 0 {
			nt = 2 + r.Intn(2)
		}
		for j := 0; j < nt; j++ {
			u := urls[r.Intn(len(urls))]
			key := h + p + " " + u
			if used[key] {
				continue
			}
			used[key] = true
			fmt.Fprintf(&sb, "route add svc%d %s%s %s opts \"proto=grpc\"\n", r.Intn(3), h, p, u)
		}
	}
	txt := sb.String()
	t, err := route.NewTable(bytes.NewBufferString(txt))
	if err != nil {
		panic("route text rejected: " + err.Error() + "\n" + txt)
	}
	return t, txt
}

// the last two are names grpc-go reserves: its client transport leaves them out (only callers use them)
var mdKeys = []string{"x-a", "x-request-id", "k", "a.b_c-d", "authorization", "trace", "x-data-bin", "z-bin", "x-0", "accept-language", "user-agent", "te"}

func asciiVal(r *rand.Rand) string {
	switch r.Intn(8) {
	case 0:
		return ""
	case 1:
		return "a,b, c"
	case 2:
		return "100%, =?utf-8?b? ~"
	case 3:
		return " lead and trail "
	}
	n := 1 + r.Intn(20)
	if r.Intn(10) == 0 {
		n = 200 + r.Intn(3000)
	}
	b := make([]byte, n)
	for i := range b {
		b[i] = byte(0x20 + r.Intn(0x5f))
	}
	return string(b)
}

func binVal(r *rand.Rand) string {
	n := r.Intn(24)
	if r.Intn(6) == 0 {
		n = 0
	}
	b := make([]byte, n)
	r.Read(b)
	if n > 2 && r.Intn(3) == 0 {
		b[0], b[n-1] = 0, 0xff
	}
	return string(b)
}

func genMD(r *rand.Rand, keys []string, maxKeys int) metadata.MD {
	md := metadata.MD{}
	n := r.Intn(maxKeys + 1)
	for i := 0; i < n; i++ {
		k := keys[r.Intn(len(keys))]
		if _, dup := md[k]; dup {
			continue
		}
		nv := 1
		if r.Intn(3) == 0 {
			nv = 2 + r.Intn(2)
		}
		for j := 0; j < nv; j++ {
			if strings.HasSuffix(k, "-bin") {
				md[k] = append(md[k], binVal(r))
			} else {
				md[k] = append(md[k], asciiVal(r))
			}
		}
	}
	return md
}

// dsthost values: table hosts, their upper-case / :80 forms, unknown hosts, none, several
func addDstHost(r *rand.Rand, md metadata.MD) {
	pick := func() string { return dstPool[r.Intn(len(dstPool))] }
	switch r.Intn(12) {
	case 0, 1, 2:
		return
	case 3:
		md["dsthost"] = []string{pick(), pick()}
	case 4:
		md["dsthost"] = []string{strings.ToUpper(pick())}
	case 5:
		md["dsthost"] = []string{pick() + ":80"}
	case 6:
		h := pick()
		md["dsthost"] = []string{strings.ToUpper(h[:1]) + h[1:] + ":80"}
	case 7:
		md["dsthost"] = []string{""}
	case 8:
		md["dsthost"] = []string{pick() + ":8080"}
	default:
		md["dsthost"] = []string{pick()}
	}
}

func appendVarintOverlong(b []byte, v uint64, extra int) []byte {
	for v >= 0x80 {
		b = append(b, byte(v)|0x80)
		v >>= 7
	}
	if extra == 0 {
		return append(b, byte(v))
	}
	b = append(b, byte(v)|0x80)
	for i := 1; i < extra; i++ {
		b = append(b, 0x80)
	}
	return append(b, 0)
}

// a well-formed protobuf message of unknown fields
func genProto(r *rand.Rand, depth int) []byte {
	var b []byte
	n := r.Intn(5)
	for i := 0; i < n; i++ {
		var num protowire.Number
		switch r.Intn(4) {
		case 0:
			num = protowire.Number(1 + r.Intn(15))
		case 1:
			num = protowire.Number(16 + r.Intn(2032))
		case 2:
			num = protowire.MaxValidNumber
		default:
			num = protowire.Number(1 + r.Intn(1<<20))
		}
		switch r.Intn(6) {
		case 0:
			b = protowire.AppendTag(b, num, protowire.VarintType)
			v := r.Uint64() >> uint(r.Intn(64))
			nb := 0
			for x := v; x >= 0x80; x >>= 7 {
				nb++
			}
			if r.Intn(6) == 0 && nb < 9 {
				// padded with continuation bytes up to the 10 bytes a varint may take
				b = appendVarintOverlong(b, v, 1+r.Intn(9-nb))
			} else {
				b = protowire.AppendVarint(b, v)
			}
		case 1:
			b = protowire.AppendTag(b, num, protowire.Fixed64Type)
			b = protowire.AppendFixed64(b, r.Uint64())
		case 2:
			b = protowire.AppendTag(b, num, protowire.Fixed32Type)
			b = protowire.AppendFixed32(b, r.Uint32())
		case 3:
			b = protowire.AppendTag(b, num, protowire.BytesType)
			p := make([]byte, r.Intn(30))
			r.Read(p)
			b = protowire.AppendBytes(b, p)
		case 4:
			b = protowire.AppendTag(b, num, protowire.BytesType)
			if depth < 3 {
				b = protowire.AppendBytes(b, genProto(r, depth+1))
			} else {
				b = protowire.AppendBytes(b, nil)
			}
		case 5:
			if depth < 3 {
				b = protowire.AppendTag(b, num, protowire.StartGroupType)
				b = append(b, genProto(r, depth+1)...)
				b = protowire.AppendTag(b, num, protowire.EndGroupType)
			}
		}
	}
	return b
}

func genMsg(r *rand.Rand, allowBig bool) []byte {
	switch r.Intn(12) {
	case 0:
		return []byte{}
	case 1:
		if allowBig {
			n := 20000 + r.Intn(120000)
			if r.Intn(4) == 0 {
				n = 1<<20 + r.Intn(1<<20)
			}
			p := make([]byte, n)
			r.Read(p)
			return protowire.AppendBytes(protowire.AppendTag(nil, 1, protowire.BytesType), p)
		}
	}
	return genProto(r, 0)
}

func wellFormed(b []byte) bool { return proto.Unmarshal(b, &emptypb.Empty{}) == nil }

func genMsgs(r *rand.Rand, n int, allowBig bool) [][]byte {
	out := make([][]byte, 0, n)
	for i := 0; i < n; i++ {
		out = append(out, genMsg(r, allowBig))
	}
	return out
}

var statusMsgs = []string{"", "boom", "not here", "100% \"quoted\" \t tab", "ünïcödé ✓ 漢字", "a\nb", "trailing space ", "%41%zz"}

// ---------------------------------------------------------------------------
// metrics stubs

type counter struct{ n *int64 }

func (c counter) With(...string) gkm.Counter { return c }
func (c counter) Add(d float64)              { atomic.AddInt64(c.n, int64(d)) }

type histogram struct{}

func (h histogram) With(...string) gkm.Histogram { return h }
func (h histogram) Observe(float64)              {}

// ---------------------------------------------------------------------------

func newCfg(shutdownTimeout time.Duration, noglob bool) *config.Config {
	cfg := &config.Config{}
	cfg.Proxy.Strategy = "rr"
	cfg.Proxy.Matcher = "prefix"
	cfg.Proxy.GRPCMaxRxMsgSize = 4 * 1024 * 1024
	cfg.Proxy.GRPCMaxTxMsgSize = 4 * 1024 * 1024
	cfg.Proxy.GRPCGShutdownTimeout = shutdownTimeout
	cfg.GlobCacheSize = 1000
	cfg.GlobMatchingDisabled = noglob
	return cfg
}

func main() {
	run := vh.Start("C16")
	r := run.Rng

	nb := 5
	var backends []*backend
	var burls []string
	for i := 0; i < nb; i++ {
		b := startBackend(i, false)
		backends = append(backends, b)
		burls = append(burls, b.url)
	}
	defer func() {
		for _, b := range backends {
			b.srv.Stop()
		}
	}()

	tlsBackend := startBackend(nb, true)
	defer tlsBackend.srv.Stop()
	// quiet calls (32 s of real silence, 45 s in the thorough tier) run in the background from
	// now to the end of the run, through a listener process of their own (quiet.go)
	quiet := startQuiet(run)
	// compiled and started while the hook-driven parts run
	drv := startDriver(false, 150)
	// likewise: the real config.Load + startServers with several gRPC listeners per process (listeners.go)
	ldrv := startListenersDriver(run, false, 150)
	// likewise: one more instance of the real newGrpcProxy listener for the calls in flight (inflight.go)
	fdrv := startDriver(false, 150)
	phase := time.Now()
	lap := func(name string) {
		run.Notes["seconds_"+name] = time.Since(phase).Seconds()
		phase = time.Now()
	}
	lookupCases(run, r, burls)
	lap("lookup")
	poolCases(run, r, backends)
	lap("pool")
	raceProbe(run, backends)
	waitQuiet(backends, 3*time.Second)
	waitStable(backends, time.Second, 15*time.Second)
	lap("race")
	session(run, r, backends, tlsBackend, drv)
	lap("session")
	limitCases(run, r)
	lap("limits")
	waitStable(backends, time.Second, 15*time.Second)
	listenersCases(run, backends, tlsBackend, ldrv)
	lap("listeners")
	waitStable(backends, time.Second, 15*time.Second)
	inflightCases(run, backends, fdrv)
	lap("inflight")
	quiet.collect(run)
	lap("waiting_for_quiet_calls")

	run.Finish(preamble, run.Scale(100, 120))
	if len(run.Viol) > 0 {
		fmt.Fprintf(os.Stderr, "c16: %d implementation-side violations\n", len(run.Viol))
	}
}

// ---------------------------------------------------------------------------
// CLookup: the interceptor's lookup through the hook

func parsedPath(m string) (string, bool) {
	u, err := url.ParseRequestURI(m)
	if err != nil {
		return "", false
	}
	return u.Path, true
}

func lookupCases(run *vh.Run, r *rand.Rand, burls []string) {
	oddMethods := []string{"", "pkg.Svc/Get", "/pkg.Svc/Get?x=/other.Api/", "/pkg.Svc/G%65t", "/pkg.Svc/Get%zz", "/%6fther.Api/X",
		"http://betatest/other.Api/X", "*", "//pkg.Svc/Get", "/PKG.SVC/GET", "/pkg.Svc/Get#frag", "/pkg.Svc/ Get"}
	n := run.Scale(900, 9000)
	for i := 0; i < n; i++ {
		noglob := r.Intn(4) == 0
		cfg := newCfg(0, noglob)
		t, txt := genTable(r, burls, 7, false)
		route.SetTable(t)
		g := proxy.GrpcProxyInterceptor{Config: cfg, GlobCache: route.NewGlobCache(cfg.GlobCacheSize)}
		for j := 0; j < 3; j++ {
			class := "lookup"
			m := methodPool[r.Intn(len(methodPool))]
			if r.Intn(6) == 0 {
				m = oddMethods[r.Intn(len(oddMethods))]
				class = "lookup-odd-method"
			}
			md := genMD(r, mdKeys, 3)
			addDstHost(r, md)
			if _, ok := md["dsthost"]; ok && class == "lookup" {
				class = "lookup-dsthost"
				if strings.ContainsAny(txt, "*?") {
					class = "lookup-dsthost-glob-table"
				}
			}
			ctx := context.Background()
			mdTerm := vh.None
			if r.Intn(25) == 0 {
				class = "lookup-no-metadata"
			} else {
				ctx = metadata.NewIncomingContext(ctx, md)
				mdTerm = vh.Some(mdCoq(md, nil))
			}
			var tg *route.Target
			var err error
			if p, v := vh.Recover(func() { tg, err = proxy.VerifC16Lookup(g, ctx, m) }); p {
				run.Violation(run.NextID(), fmt.Sprintf("interceptor lookup panicked: %v", v), map[string]interface{}{"table": txt, "method": m, "md": mdSample(md)})
				continue
			}
			impl := "LNone"
			switch {
			case err != nil:
				impl = "LErr"
			case tg != nil:
				impl = vh.App("LTarget", vh.HxS(tg.URL.String()))
			}
			up, ok := parsedPath(m)
			run.Add(class, vh.App("CLookup", tableCoq(t), vh.Bool(noglob), mdTerm, optStr(up, ok), impl),
				map[string]interface{}{"table": txt, "noglob": noglob, "method": m, "md": mdSample(md), "impl": impl})
		}
	}
}

// ---------------------------------------------------------------------------
// CPool: histories on the real pool

var sentinelURL = &url.URL{Scheme: "verif-sentinel", Host: "tick"}

func closedConn() *grpc.ClientConn {
	c, err := grpc.NewClient("passthrough:///127.0.0.1:1", grpc.WithTransportCredentials(insecure.NewCredentials()))
	if err != nil {
		panic(err)
	}
	c.Close()
	return c
}

// tick runs the body of the real cleanup loop once and returns when it is over: an already
// shut-down sentinel connection is put into the pool (through the pool's own Set) and the
// loop is started; the body holds the pool's lock from start to end, so once a snapshot
// (read lock) no longer shows the sentinel the whole body has run.
func tick(p *proxy.VerifC16Pool) bool {
	sentinel := closedConn()
	p.Set(&route.Target{URL: sentinelURL}, sentinel)
	p.Tick()
	deadline := time.Now().Add(3 * time.Second)
	for time.Now().Before(deadline) {
		there := false
		for _, c := range p.Snapshot() {
			if c == sentinel {
				there = true
			}
		}
		if !there {
			return true
		}
		time.Sleep(50 * time.Microsecond)
	}
	return false
}

func poolCases(run *vh.Run, r *rand.Rand, backends []*backend) {
	b0, b1, b2 := backends[0].addr, backends[1].addr, backends[2].addr
	universe := []string{"grpc://" + b0, "grpc://" + b1, "grpc://" + b2, "grpcs://" + b0, "grpc://" + b0 + "/sub",
		"grpc://" + strings.Replace(b1, "127.0.0.1", "localhost", 1), "grpc://127.0.0.1:1", "grpc://" + b2 + "/"}
	poolCasesOver(run, r, universe, run.Scale(260, 2600), "")
	// the same histories over targets written with other schemes: what `route add svc /pkg.Svc
	// http://host:port/` and the consul registry (a tag without proto=grpc) put into the table;
	// the pool is keyed by URL.String() and hasTarget compares those strings, whatever the scheme
	// (own random source: the histories above do not change)
	other := []string{"http://" + b0 + "/", "http://" + b1, "https://" + b2 + "/", "tcp://" + b0, "grpc://" + b1,
		"http://" + b2 + "/sub", "grpc://127.0.0.1:1", "h2c://" + b2}
	poolCasesOver(run, rand.New(rand.NewSource(run.Seed*86028121+16)), other, run.Scale(70, 700), "-other-schemes")
}

func poolCasesOver(run *vh.Run, r *rand.Rand, universe []string, n int, suffix string) {
	for i := 0; i < n; i++ {
		cfg := newCfg(0, false)
		pool := proxy.VerifC16NewPool(nil, cfg)
		ids := map[*grpc.ClientConn]int{}
		var conns []*grpc.ClientConn
		idOf := func(c *grpc.ClientConn) int {
			if id, ok := ids[c]; ok {
				return id
			}
			ids[c] = len(conns)
			conns = append(conns, c)
			return ids[c]
		}
		nu := 2 + r.Intn(len(universe)-1)
		us := append([]string(nil), universe...)
		r.Shuffle(len(us), func(a, b int) { us[a], us[b] = us[b], us[a] })
		us = us[:nu]
		subset := func() []string {
			var s []string
			for _, u := range us {
				if r.Intn(2) == 0 {
					s = append(s, u)
				}
			}
			return s
		}
		setTable := func(s []string) []string {
			var sb strings.Builder
			for k, u := range s {
				fmt.Fprintf(&sb, "route add s%d %s %s opts \"proto=grpc\"\n", k, pathPool[r.Intn(len(pathPool))], u)
			}
			t, err := route.NewTable(bytes.NewBufferString(sb.String()))
			if err != nil {
				panic(err)
			}
			route.SetTable(t)
			return tableURLs(t)
		}
		// every 8th history is about a backend that is down: its pooled connection sits in
		// TransientFailure (not Shutdown) and is still the one connection of that backend
		const deadURL = "grpc://127.0.0.1:1"
		downHistory := i%8 == 0
		class := "pool-history"
		if downHistory {
			class = "pool-backend-down"
			has := false
			for _, u := range us {
				has = has || u == deadURL
			}
			if !has {
				us = append(us, deadURL)
			}
		}
		t0 := setTable(subset())
		if downHistory {
			t0 = setTable(append(subset(), deadURL))
		}
		nops := 3 + r.Intn(14)
		var ops, obs, sample []string
		bad := false
		// every 3rd history also replays interleavings of concurrent first calls: dials by the
		// harness, stores through the real setIfAbsent (other live connection pooled / pooled one
		// shut down / the same connection again)
		raceHistory := i%3 == 1
		type pdial struct {
			u string
			c *grpc.ClientConn
		}
		var pendingDials []pdial
		if raceHistory {
			class = "pool-interleaved-callers"
			nops += 6
		}
		for k := 0; k < nops && !bad; k++ {
			var got string = vh.None
			before := pool.Snapshot()
			x := r.Intn(10)
			if raceHistory {
				x = r.Intn(15)
			}
			if downHistory && k < 3 {
				x = 0
			}
			switch {
			case x < 5:
				u := us[r.Intn(len(us))]
				if downHistory && (k < 3 || r.Intn(2) == 0) {
					u = deadURL
				}
				pu, _ := url.Parse(u)
				c, err := pool.Get(context.Background(), &route.Target{URL: pu})
				if err == nil && c != nil && u == deadURL {
					// let the refused connection attempt register before the next operation
					dl := time.Now().Add(500 * time.Millisecond)
					for c.GetState() != connectivity.TransientFailure && c.GetState() != connectivity.Shutdown && time.Now().Before(dl) {
						time.Sleep(100 * time.Microsecond)
					}
				}
				if err != nil || c == nil {
					run.Violation(run.NextID(), fmt.Sprintf("pool.Get(%s) failed: %v", u, err), nil)
					bad = true
					continue
				}
				got = vh.Some(vh.N(idOf(c)))
				ops = append(ops, vh.App("P1", vh.App("PGet", vh.HxS(u))))
				sample = append(sample, "get "+u)
			case x < 7:
				s := setTable(subset())
				ops = append(ops, vh.App("P1", vh.App("PSetTable", strsCoq(s))))
				sample = append(sample, "table "+strings.Join(s, ","))
			case x < 9:
				if !tick(pool) {
					run.Violation(run.NextID(), "cleanup tick did not remove a shut-down connection from the pool within 3 s", sample)
					bad = true
					continue
				}
				ops = append(ops, "(P1 PTick)")
				sample = append(sample, "tick")
			case x < 10:
				u := us[r.Intn(len(us))]
				if c := before[u]; c != nil {
					c.Close()
				}
				ops = append(ops, vh.App("P1", vh.App("PShutdown", vh.HxS(u))))
				sample = append(sample, "shutdown "+u)
			case x < 12:
				// a caller between its lookup (miss) and its store: it has dialled, nobody knows yet
				u := us[r.Intn(len(us))]
				pu, _ := url.Parse(u)
				c, err := grpc.NewClient("passthrough:///"+pu.Host, grpc.WithTransportCredentials(insecure.NewCredentials()))
				if err != nil {
					panic(err)
				}
				pendingDials = append(pendingDials, pdial{u, c})
				got = vh.Some(vh.N(idOf(c)))
				ops = append(ops, vh.App("PDial", vh.HxS(u)))
				sample = append(sample, "dial "+u)
			default:
				// ... and arrives at the real setIfAbsent, whatever happened in between
				if len(pendingDials) == 0 {
					continue
				}
				pd := pendingDials[r.Intn(len(pendingDials))]
				pu, _ := url.Parse(pd.u)
				rc := pool.SetIfAbsent(&route.Target{URL: pu}, pd.c)
				got = vh.Some(vh.N(idOf(rc)))
				ops = append(ops, vh.App("PSetIfAbsent", vh.HxS(pd.u), vh.N(idOf(pd.c))))
				sample = append(sample, fmt.Sprintf("set-if-absent %s conn %d", pd.u, idOf(pd.c)))
			}
			after := pool.Snapshot()
			// connections the step removed from the pool: the close is asynchronous, give it time
			for key, c := range before {
				if after[key] != c {
					waitShutdown(c, 2*time.Second)
				}
			}
			var keys []string
			for key := range after {
				keys = append(keys, key)
			}
			sort.Strings(keys)
			var pl []string
			for _, key := range keys {
				pl = append(pl, vh.Pair(vh.HxS(key), vh.N(idOf(after[key]))))
			}
			var shut []string
			for id, c := range conns {
				if c.GetState() == connectivity.Shutdown {
					shut = append(shut, vh.N(id))
				}
			}
			obs = append(obs, vh.App("mkpobs", got, vh.List(pl), vh.List(shut)))
		}
		// a last look after the asynchronous closes had time to happen
		time.Sleep(2 * time.Millisecond)
		var shut []string
		for id, c := range conns {
			if c.GetState() == connectivity.Shutdown {
				shut = append(shut, vh.N(id))
			}
		}
		for _, c := range conns {
			c.Close()
		}
		if bad {
			continue
		}
		run.Add(class+suffix, vh.App("CPool", strsCoq(t0), vh.List(ops), vh.List(obs), vh.List(shut)),
			map[string]interface{}{"table0": t0, "ops": sample})
	}
}

// once a close that should have happened did not happen within the full wait, later
// waits are short: the observation is already different from the model's
var lateCloses int32

func waitShutdown(c *grpc.ClientConn, d time.Duration) {
	if atomic.LoadInt32(&lateCloses) > 0 {
		d = 30 * time.Millisecond
	}
	deadline := time.Now().Add(d)
	for c.GetState() != connectivity.Shutdown && time.Now().Before(deadline) {
		time.Sleep(100 * time.Microsecond)
	}
	if c.GetState() != connectivity.Shutdown {
		atomic.AddInt32(&lateCloses, 1)
	}
}

// raceProbe: first calls for one backend arriving together.  Get reads the map under the read
// lock, dials, and stores through setIfAbsent (one critical section that keeps an already
// pooled live connection and closes the newcomer; /repo 8fc2c4a).  Expected for every
// interleaving (C16_concurrent_gets_converge): all callers are handed the one pooled
// connection, and after an empty table and a tick every connection dialled is in Shutdown.
// Before 8fc2c4a each caller stored its own connection and all but the last were orphaned.
func raceProbe(run *vh.Run, backends []*backend) {
	pu, _ := url.Parse(backends[0].url)
	rounds := run.Scale(12, 60)
	orphans, split, multiDial := 0, 0, 0
	for round := 0; round < rounds; round++ {
		pool := proxy.VerifC16NewPool(nil, newCfg(0, false))
		const w = 8
		got := make([]*grpc.ClientConn, w)
		start := make(chan struct{})
		var wg sync.WaitGroup
		for i := 0; i < w; i++ {
			wg.Add(1)
			go func(i int) {
				defer wg.Done()
				<-start
				got[i], _ = pool.Get(context.Background(), &route.Target{URL: pu})
			}(i)
		}
		close(start)
		wg.Wait()
		distinct := map[*grpc.ClientConn]bool{}
		for _, c := range got {
			if c != nil {
				distinct[c] = true
			}
		}
		var pooled *grpc.ClientConn
		snap := pool.Snapshot()
		for _, c := range snap {
			if distinct[c] {
				pooled = c
			}
		}
		if len(distinct) != 1 || pooled == nil || len(snap) != 1 {
			split++
		}
		// an empty table and a tick: whatever was handed out must end up closed
		route.SetTable(route.Table{})
		tick(pool)
		for c := range distinct {
			waitShutdown(c, 2*time.Second)
		}
		for c := range distinct {
			if c.GetState() != connectivity.Shutdown {
				orphans++
			}
			c.Close()
		}
		if len(distinct) > 1 {
			multiDial++
		}
	}
	run.Notes["race_probe_rounds"] = rounds
	run.Notes["race_probe_orphans"] = orphans
	run.Notes["race_probe_callers_not_sharing"] = split
	if split > 0 {
		run.Violation(-1, fmt.Sprintf("concurrent first calls for one backend: in %d of %d rounds the 8 callers were not all handed the one pooled connection", split, rounds),
			map[string]interface{}{"callers": 8, "rounds": rounds})
	}
	if orphans > 0 {
		run.Violation(-1, fmt.Sprintf("concurrent first calls for one backend: %d connection(s) handed to a caller were still open after the backend left the table and a cleanup tick ran (not pooled, never closed)", orphans),
			map[string]interface{}{"callers": 8, "rounds": rounds})
	}
}

// waitStable returns when no backend has an open connection AND no counter has moved for [still]: a
// connection that a finished class was still dialling when it closed its channel reaches the backend a
// little later (begin, then end) -- on a loaded machine after waitQuiet has already seen "all ended" --
// and would be counted by the class that starts next.
func waitStable(backends []*backend, still, d time.Duration) {
	deadline := time.Now().Add(d)
	snap := func() (int64, bool) {
		var sum int64
		ok := true
		for _, b := range backends {
			bg, en := atomic.LoadInt64(&b.begins), atomic.LoadInt64(&b.ends)
			sum += bg + en
			if bg != en {
				ok = false
			}
		}
		return sum, ok
	}
	for time.Now().Before(deadline) {
		s0, ok0 := snap()
		time.Sleep(still)
		s1, ok1 := snap()
		if ok0 && ok1 && s0 == s1 {
			return
		}
	}
}

func waitQuiet(backends []*backend, d time.Duration) {
	deadline := time.Now().Add(d)
	for time.Now().Before(deadline) {
		ok := true
		for _, b := range backends {
			if atomic.LoadInt64(&b.begins) != atomic.LoadInt64(&b.ends) {
				ok = false
			}
		}
		if ok {
			return
		}
		time.Sleep(5 * time.Millisecond)
	}
}

// ---------------------------------------------------------------------------
// CCall / CSession: end to end

type cview struct {
	hdr, trl metadata.MD
	msgs     [][]byte
	code     uint32
	msg      string
}

const (
	kUnary = iota
	kBidi
	kPingPong
	kServerStream
	kClientStream
	kEarlyFail
)

var kindNames = []string{"unary", "bidi", "pingpong", "server-stream", "client-stream", "early-fail"}

func doCall(cc *grpc.ClientConn, kind int, method string, md metadata.MD, reqs [][]byte, nresp int) (cv cview, herr string) {
	return doCallT(cc, kind, method, md, reqs, nresp, 8*time.Second)
}

func doCallT(cc *grpc.ClientConn, kind int, method string, md metadata.MD, reqs [][]byte, nresp int, timeout time.Duration) (cv cview, herr string) {
	ctx, cancel := context.WithTimeout(context.Background(), timeout)
	defer cancel()
	ctx = metadata.NewOutgoingContext(ctx, md)
	fin := func(err error) {
		if err == io.EOF {
			err = nil
		}
		st := status.Convert(err)
		cv.code, cv.msg = uint32(st.Code()), st.Message()
		if len(st.Details()) > 0 {
			herr = "unexpected status details"
		}
	}
	if kind == kUnary {
		var resp []byte
		var hdr, trl metadata.MD
		respSet := false
		err := cc.Invoke(ctx, method, &reqs[0], &resp, grpc.Header(&hdr), grpc.Trailer(&trl))
		if err == nil {
			respSet = true
		}
		cv.hdr, cv.trl = hdr, trl
		if respSet {
			cv.msgs = [][]byte{resp}
		}
		fin(err)
		return
	}
	desc := &grpc.StreamDesc{ClientStreams: true, ServerStreams: true}
	switch kind {
	case kServerStream:
		desc = &grpc.StreamDesc{ServerStreams: true}
	case kClientStream:
		desc = &grpc.StreamDesc{ClientStreams: true}
	}
	cs, err := cc.NewStream(ctx, desc, method)
	if err != nil {
		fin(err)
		return
	}
	recvOne := func() error {
		var m []byte
		if err := cs.RecvMsg(&m); err != nil {
			return err
		}
		cv.msgs = append(cv.msgs, m)
		return nil
	}
	var rerr error
	got := 0
	for i := range reqs {
		if err := cs.SendMsg(&reqs[i]); err != nil {
			break // io.EOF: the stream is over, RecvMsg tells why
		}
		if kind == kPingPong && got < nresp {
			if rerr = recvOne(); rerr != nil {
				break
			}
			got++
		}
	}
	cs.CloseSend()
	for rerr == nil {
		rerr = recvOne()
		if kind == kClientStream && rerr == nil {
			// non-server-streaming: one message, the status came with it
			rerr = io.EOF
		}
	}
	if h, err := cs.Header(); err == nil {
		cv.hdr = h
	}
	cv.trl = cs.Trailer()
	fin(rerr)
	return
}

func cviewCoq(cv cview) string {
	return vh.App("mkcview", mdCoq(cv.hdr, transportKeysCaller), msgsCoq(cv.msgs), mdCoq(cv.trl, transportKeysCaller), vh.N(int(cv.code)), vh.HxS(cv.msg))
}

// ---- the proxy under test: main.go's own wiring, in a process of the repository under test ----

type proxyInst struct {
	Addr string `json:"addr"`
	T0   int64  `json:"t0_unix_nano"`
}
type driver struct {
	Plain proxyInst `json:"plain"`
	TLS   proxyInst `json:"tls"`
	Ctrl  string    `json:"ctrl"`
	cmd   *exec.Cmd
	logb  *bytes.Buffer
	dir   string
	err   error
	ready chan struct{}
}

// startDriver launches `go test -tags verif -run TestVerifC16Serve` in $VERIF_REPO: newGrpcProxy +
// proxy.ListenAndServeGRPC as main.go calls them (one plaintext listener, one TLS listener).
func startDriver(noglob bool, shutdownMs int) *driver {
	d := &driver{ready: make(chan struct{}), logb: &bytes.Buffer{}}
	repo := os.Getenv("VERIF_REPO")
	if repo == "" {
		repo = "/repo"
	}
	dir, err := os.MkdirTemp("", "verif-c16-serve-")
	if err != nil {
		panic(err)
	}
	d.dir = dir
	statusF := filepath.Join(dir, "status.json")
	d.cmd = exec.Command("go", "test", "-tags", "verif", "-count=1", "-timeout", "20m", "-run", "TestVerifC16Serve$", ".")
	d.cmd.Dir = repo
	d.cmd.Env = append(os.Environ(), "VERIF_C16_SERVE="+statusF, fmt.Sprintf(`VERIF_C16_SERVE_CFG={"noglob":%v,"shutdown_ms":%d}`, noglob, shutdownMs))
	d.cmd.Stdout, d.cmd.Stderr = d.logb, d.logb
	if err := d.cmd.Start(); err != nil {
		d.err = err
		close(d.ready)
		return d
	}
	exited := make(chan error, 1)
	go func() { exited <- d.cmd.Wait() }()
	go func() {
		defer close(d.ready)
		deadline := time.Now().Add(8 * time.Minute)
		for time.Now().Before(deadline) {
			if b, err := os.ReadFile(statusF); err == nil {
				if err := json.Unmarshal(b, d); err == nil && d.Ctrl != "" {
					return
				}
			}
			select {
			case err := <-exited:
				d.err = fmt.Errorf("driver exited before it was ready: %v", err)
				return
			case <-time.After(50 * time.Millisecond):
			}
		}
		d.err = fmt.Errorf("driver not ready after 8 minutes")
	}()
	return d
}

func (d *driver) post(path, body string) error {
	resp, err := http.Post("http://"+d.Ctrl+path, "text/plain", strings.NewReader(body))
	if err != nil {
		return err
	}
	defer resp.Body.Close()
	b, _ := io.ReadAll(resp.Body)
	if resp.StatusCode != 200 {
		return fmt.Errorf("%s: %s", resp.Status, b)
	}
	return nil
}

func (d *driver) stop() {
	if d.Ctrl != "" {
		d.post("/quit", "")
	}
	if d.cmd != nil && d.cmd.Process != nil {
		time.AfterFunc(3*time.Second, func() { d.cmd.Process.Kill() })
	}
	os.RemoveAll(d.dir)
}

// one call through the proxy; returns the case pieces
type callResult struct {
	chosen   string // "" = nobody
	chosenOK bool
	ciTerm   string
	chosenT  string
	bvT      string
	cv       cview
	sample   map[string]interface{}
	class    string
	upT      string
	mdT      string
}

func doOneCall(run *vh.Run, r *rand.Rand, cc *grpc.ClientConn, tbl route.Table, txt string, unreachable map[string]bool, calls int, forceMethod string) (res callResult, ok bool) {
	kind := r.Intn(6)
	method := methodPool[r.Intn(len(methodPool))]
	if r.Intn(16) == 0 {
		// still "/service/method" for grpc-go; net/url decodes, splits or rejects them
		method = []string{"/pkg.Svc/G%65t", "/pkg.Svc/Get%zz", "/pkg.Svc/Get?x=/other.Api/", "/%6fther.Api/X", "/pkg.Svc/Get#frag", "/pkg.Svc/%zz"}[r.Intn(6)]
	}
	if forceMethod != "" {
		method = forceMethod
	}
	md := genMD(r, mdKeys, 4)
	addDstHost(r, md)
	sc := &script{hdr: genMD(r, mdKeys[:9], 3), trl: genMD(r, mdKeys[:9], 3), earlyHdr: r.Intn(2) == 0}
	if r.Intn(3) > 0 {
		sc.code = uint32(1 + r.Intn(16))
		if r.Intn(8) == 0 {
			sc.code = uint32(17 + r.Intn(80))
		}
		sc.msg = statusMsgs[r.Intn(len(statusMsgs))]
	}
	nreq, nresp := r.Intn(5), r.Intn(5)
	allowBig := calls%7 == 0
	switch kind {
	case kUnary:
		nreq, nresp = 1, 1
		if sc.code != 0 {
			nresp = 0
		}
	case kServerStream:
		nreq = 1
	case kClientStream:
		nresp = 1
		if sc.code != 0 {
			nresp = 0
		}
	case kPingPong:
		sc.mode = modePingPong
	case kEarlyFail:
		sc.mode = modeEarlyFail
		nresp = 0
		if sc.code == 0 {
			sc.code = uint32(codes.FailedPrecondition)
			sc.msg = "early"
		}
	}
	reqs := genMsgs(r, nreq, allowBig)
	sc.msgs = genMsgs(r, nresp, allowBig)
	for _, m := range append(append([][]byte{}, reqs...), sc.msgs...) {
		if !wellFormed(m) {
			panic("generator produced a malformed protobuf payload")
		}
	}
	curScript.Store(sc)
	seenMu.Lock()
	seen = nil
	seenMu.Unlock()
	cv, herr := doCall(cc, kind, method, md, reqs, nresp)
	seenMu.Lock()
	recs := append([]*bview(nil), seen...)
	seenMu.Unlock()
	id := run.NextID()
	sample := map[string]interface{}{"table": txt, "kind": kindNames[kind], "method": method, "md": mdSample(md),
		"requests": len(reqs), "script": map[string]interface{}{"hdr": mdSample(sc.hdr), "trl": mdSample(sc.trl), "msgs": len(sc.msgs), "code": sc.code, "msg": sc.msg},
		"caller_saw": map[string]interface{}{"hdr": mdSample(cv.hdr), "trl": mdSample(cv.trl), "msgs": len(cv.msgs), "code": cv.code, "msg": cv.msg}}
	if herr != "" {
		run.Violation(id, herr, sample)
	}
	if len(recs) > 1 {
		run.Violation(id, fmt.Sprintf("one call reached %d backend handlers", len(recs)), sample)
		return res, false
	}
	res.chosenT, res.bvT = vh.None, vh.None
	res.class = "call-" + kindNames[kind]
	if len(recs) == 1 {
		rec := recs[0]
		select {
		case <-rec.done:
		case <-time.After(3 * time.Second):
			run.Violation(id, "backend handler still running 3 s after the caller saw the end of the call", sample)
			return res, false
		}
		res.chosen = rec.url
		res.chosenT = vh.Some(vh.HxS(rec.url))
		res.bvT = vh.Some(vh.App("mkbview", vh.HxS(rec.method), mdCoq(rec.md, transportKeysBackend), msgsCoq(rec.msgs)))
		sample["backend"] = rec.url
		sample["backend_saw"] = map[string]interface{}{"method": rec.method, "md": mdSample(rec.md), "msgs": len(rec.msgs)}
	} else {
		res.class = "call-no-backend"
		if cv.code == uint32(codes.Unavailable) {
			// nobody was reached and the proxy says Unavailable: the call went to the target of the
			// matched route that cannot be reached (at most one per route, see genT); found by
			// asking the real table which routes carry such a target and checking the model's choice
			for _, u := range tableURLs(tbl) {
				if unreachable[u] {
					// the model decides whether u is a target of the route for this call
					res.chosen = "?"
				}
			}
		}
	}
	up, okp := parsedPath(method)
	res.upT = optStr(up, okp)
	res.mdT = mdCoq(md, nil)
	res.ciTerm = vh.App("mkcallin", res.mdT, vh.HxS(method), res.upT, msgsCoq(reqs),
		vh.App("mkscript", vh.N(sc.mode), mdCoq(sc.hdr, nil), msgsCoq(sc.msgs), mdCoq(sc.trl, nil), vh.N(int(sc.code)), vh.HxS(sc.msg)))
	res.cv = cv
	res.sample = sample
	return res, true
}

const deadBackendURL = "grpc://127.0.0.1:1" // nobody listens there

func session(run *vh.Run, r *rand.Rand, backends []*backend, tlsBackend *backend, d *driver) {
	noglob := false
	<-d.ready
	if d.err != nil {
		tail := d.logb.String()
		if len(tail) > 1500 {
			tail = tail[len(tail)-1500:]
		}
		run.Violation(run.NextID(), fmt.Sprintf("newGrpcProxy serve driver (go test -tags verif -run TestVerifC16Serve) failed: %v", d.err), tail)
		return
	}
	defer d.stop()
	t0 := time.Unix(0, d.Plain.T0)
	var burls []string
	for _, b := range backends {
		burls = append(burls, b.url)
	}
	// routes may also name a backend that is down and a TLS backend (at most one of the two per route)
	turls := append(append([]string{}, burls...), deadBackendURL, tlsBackend.url)
	unreachablePlain := map[string]bool{deadBackendURL: true, tlsBackend.url: true} // through the plaintext listener
	downTerm := strsCoq([]string{deadBackendURL})
	liveTxt := "" // the text of the table in force (what the sentinel's detour restores)
	setTable := func(txt string) route.Table {
		if err := d.post("/table", txt); err != nil {
			panic("driver rejected the table: " + err.Error())
		}
		liveTxt = txt
		t, err := route.NewTable(bytes.NewBufferString(txt))
		if err != nil {
			panic(err)
		}
		return t
	}
	genT := func() (route.Table, string) {
		for {
			_, txt := genTable(r, turls, 6, true)
			t, _ := route.NewTable(bytes.NewBufferString(txt))
			ok := true
			for _, rs := range t {
				for _, rt := range rs {
					n := 0
					for _, tg := range rt.Targets {
						if unreachablePlain[tg.URL.String()] {
							n++
						}
					}
					if n > 1 {
						ok = false // which of the two a failed call went to could not be told
					}
				}
			}
			if ok {
				return setTable(txt), txt
			}
		}
	}
	dialCaller := func(addr, name string, secure bool) *grpc.ClientConn {
		creds := insecure.NewCredentials()
		if secure {
			creds = credentials.NewTLS(&tls.Config{InsecureSkipVerify: true})
		}
		cc, err := grpc.NewClient("passthrough:///"+addr, grpc.WithTransportCredentials(creds),
			grpc.WithDefaultCallOptions(grpc.ForceCodec(rawCodec{name}), grpc.MaxCallRecvMsgSize(16<<20)))
		if err != nil {
			panic(err)
		}
		return cc
	}
	callers := []*grpc.ClientConn{dialCaller(d.Plain.Addr, "proto", false), dialCaller(d.Plain.Addr, "raw", false)}
	tlsCaller := dialCaller(d.TLS.Addr, "proto", true)
	defer func() {
		for _, c := range append(callers, tlsCaller) {
			c.Close()
		}
	}()

	base := make([][2]int64, len(backends))
	for i, b := range backends {
		base[i] = [2]int64{atomic.LoadInt64(&b.begins), atomic.LoadInt64(&b.ends)}
	}
	observe := func() string {
		var it []string
		for i, b := range backends {
			it = append(it, vh.App("mkcnt", vh.HxS(b.url), vh.N(int(atomic.LoadInt64(&b.begins)-base[i][0])), vh.N(int(atomic.LoadInt64(&b.ends)-base[i][1]))))
		}
		return vh.List(it)
	}

	doOne := func(r *rand.Rand, cc *grpc.ClientConn, tbl route.Table, txt string, unreachable map[string]bool, calls int, forceMethod string) (callResult, bool) {
		return doOneCall(run, r, cc, tbl, txt, unreachable, calls, forceMethod)
	}

	const period = 5 * time.Second
	ticks := int(time.Since(t0) / period) // real cleanup ticks so far (on an empty pool)
	startTicks := ticks
	wantTicks := ticks + run.Scale(1, 6)
	nCalls := run.Scale(420, 2400)
	perPhase := nCalls / (run.Scale(1, 6) + 1)
	var steps, obs []string
	var ssample []string
	curTbl, curTxt := genT()
	steps = append(steps, vh.App("HSetTable", tableCoq(curTbl)))
	obs = append(obs, observe())

	tickTerm := "HTick"
	// A history is an ORDER of actions and real cleanup ticks.  The actions stay 900 ms clear of the
	// moment the cleanup loop wakes up; on a stalled machine one of them can still run into that
	// moment, and then the order is not known: such a history is not judged (counted in the notes,
	// never reported), the calls in it are judged on their own as CCall cases all the same.
	overrun := ""
	guard := func(what string) {
		if overrun == "" && time.Until(t0.Add(time.Duration(ticks+1)*period)) < 250*time.Millisecond {
			overrun = what
		}
	}
	// WHEN the cleanup loop wakes up is not a function of the clock: the loop is `work; time.Sleep(5 s)`, so
	// every pass starts a little later than 5 s after the previous one and the lateness adds up (a loaded
	// machine: hundreds of ms over a dozen passes).  The harness therefore SEES every pass: a backend of
	// its own that no generated table names (the sentinel) gets one pooled connection between two passes --
	// a detour outside the recorded history: table + sentinel route, one call, table back; the real state
	// is then the recorded one plus a pool entry that no observation can see -- and the next pass, whatever
	// the table, drops that entry and closes the connection shutdown_ms later: its end at the sentinel is
	// the pass.  The clock is only used to stay clear of the pass beforehand and is set again by every pass seen.
	sentinel := startBackend(97, false)
	const shutdownWait = 150 * time.Millisecond // shutdown_ms of startDriver
	armed := false
	armSentinel := func() {
		armed = false
		if err := d.post("/table", liveTxt+fmt.Sprintf("route add verifsentinel /verif.Sentinel %s opts \"proto=grpc\"\n", sentinel.url)); err != nil {
			return
		}
		doCallT(callers[0], kUnary, "/verif.Sentinel/Pass", metadata.MD{}, [][]byte{{}}, 1, 3*time.Second)
		if err := d.post("/table", liveTxt); err != nil {
			panic("driver rejected the table: " + err.Error())
		}
		armed = atomic.LoadInt64(&sentinel.begins) > atomic.LoadInt64(&sentinel.ends)
	}
	sentinelPasses := 0
	awaitTick := func() {
		next := t0.Add(time.Duration(ticks+1) * period)
		time.Sleep(time.Until(next.Add(500 * time.Millisecond)))
		ticks++
		if armed {
			dl := time.Now().Add(8 * time.Second)
			for time.Now().Before(dl) && atomic.LoadInt64(&sentinel.begins) != atomic.LoadInt64(&sentinel.ends) {
				time.Sleep(5 * time.Millisecond)
			}
			if atomic.LoadInt64(&sentinel.begins) != atomic.LoadInt64(&sentinel.ends) {
				if overrun == "" {
					overrun = "no cleanup pass seen at the sentinel within 8 s"
				}
			} else {
				// the pass that has just been seen started no later than shutdown_ms before the sentinel
				// saw its connection end (the backend's own time stamp, not the moment the harness looked);
				// the next one starts no earlier than 5 s after that
				sentinelPasses++
				ended := time.Unix(0, atomic.LoadInt64(&sentinel.lastEnd))
				t0 = ended.Add(-shutdownWait).Add(-time.Duration(ticks) * period)
			}
		}
		// closes follow the tick after at most GRPCGShutdownTimeout: wait until every backend
		// outside the table has seen all its connections end (or 2 s)
		in := map[string]bool{}
		for _, u := range tableURLs(curTbl) {
			in[u] = true
		}
		deadline := time.Now().Add(8 * time.Second) // leaves the loop as soon as the ends are in; long only on a stalled machine
		for time.Now().Before(deadline) {
			ok := true
			for _, b := range backends {
				if !in[b.url] && atomic.LoadInt64(&b.begins) != atomic.LoadInt64(&b.ends) {
					ok = false
				}
			}
			if ok {
				break
			}
			time.Sleep(10 * time.Millisecond)
		}
		if !time.Now().Before(deadline) && overrun == "" {
			overrun = "connection ends after a real tick not in within 8 s"
		}
		time.Sleep(30 * time.Millisecond)
		steps = append(steps, tickTerm)
		obs = append(obs, observe())
		ssample = append(ssample, "tick")
		armSentinel()
	}

	// the first pass is awaited before anything else: from then on the clock is set by passes seen
	armSentinel()
	awaitTick()
	startTicks, wantTicks = startTicks+1, wantTicks+1

	calls := 0
	for calls < nCalls {
		// stay clear of the moment the real cleanup loop wakes up
		if until := time.Until(t0.Add(time.Duration(ticks+1) * period)); until < 900*time.Millisecond {
			awaitTick()
			continue
		}
		if calls > 0 && calls%perPhase == 0 && ticks < wantTicks && ticks-startTicks < calls/perPhase {
			awaitTick()
			continue
		}
		if r.Intn(8) == 0 {
			curTbl, curTxt = genT()
			steps = append(steps, vh.App("HSetTable", tableCoq(curTbl)))
			obs = append(obs, observe())
			ssample = append(ssample, "table")
			guard("table change")
			continue
		}
		calls++
		res, ok := doOne(r, callers[r.Intn(len(callers))], curTbl, curTxt, unreachablePlain, calls, "")
		guard("call")
		if !ok {
			continue
		}
		// chosen "?": nobody reached + Unavailable; the check resolves it to the unreachable target
		// of the route the model selects
		hchosen := res.chosenT
		if res.chosen == "?" {
			hchosen = "HUnreachable"
			res.class = "call-backend-unreachable"
		} else if res.chosen == "" {
			hchosen = "HNobody"
		} else {
			hchosen = vh.App("HBackend", vh.HxS(res.chosen))
		}
		steps = append(steps, vh.App("HCall", res.mdT, res.upT, hchosen))
		obs = append(obs, observe())
		ssample = append(ssample, fmt.Sprintf("call->%s", res.chosen))
		run.Add(res.class, vh.App("CCall", tableCoq(curTbl), vh.Bool(noglob), vh.Bool(false), downTerm, res.ciTerm, hchosen, res.bvT, cviewCoq(res.cv)), res.sample)
	}
	// one more real tick on an empty table: everything is dropped
	if until := time.Until(t0.Add(time.Duration(ticks+1) * period)); until < 900*time.Millisecond {
		awaitTick()
	}
	curTbl = setTable("")
	steps = append(steps, vh.App("HSetTable", "[]"))
	obs = append(obs, observe())
	guard("table change")
	awaitTick()
	run.Notes["session_calls"] = calls
	run.Notes["session_real_ticks"] = ticks - startTicks
	run.Notes["session_cleanup_passes_seen_at_the_sentinel"] = sentinelPasses
	if overrun != "" {
		run.Notes["session_history_not_judged_machine_stalled"] = overrun
	} else {
		run.Add("session", vh.App("CHistory", vh.Bool(noglob), vh.Bool(false), downTerm, vh.List(steps), vh.List(obs)),
			map[string]interface{}{"steps": len(steps), "ticks": ticks - startTicks, "first": ssample[:min(len(ssample), 40)]})
	}

	// ---- backends that lose their connections while they stay in the table ----
	// The pooled *grpc.ClientConn is a channel, not a connection: when the backend is restarted
	// on the same address (graceful stop: GOAWAY) or the connections it accepted are reset, the
	// channel goes Idle, stays pooled, and the next call for that backend has to connect again --
	// long after the call that created the channel has ended.  One more history on the same
	// proxy (its pool is empty after the last tick), with its own random source; the calls are
	// CCall cases as well.  Model: Model/GrpcTransport.v (XLose).
	{
		xr := rand.New(rand.NewSource(run.Seed*7919 + 16))
		for i, b := range backends {
			b.quiet(2 * time.Second)
			base[i] = [2]int64{atomic.LoadInt64(&b.begins), atomic.LoadInt64(&b.ends)}
		}
		steps, obs, ssample = nil, nil, nil
		overrun = ""
		tickTerm = "(XH HTick)"
		genX := func() (route.Table, string) {
			_, txt := genTable(xr, burls, 6, true)
			return setTable(txt), txt
		}
		curTbl, curTxt = genX()
		steps = append(steps, vh.App("XH", vh.App("HSetTable", tableCoq(curTbl))))
		obs = append(obs, observe())
		lostSince := map[string]bool{} // backends that lost their connections and were not reached since
		lastServed := -1
		connected := func() []int {
			var out []int
			for i, b := range backends {
				if atomic.LoadInt64(&b.begins) > atomic.LoadInt64(&b.ends) {
					out = append(out, i)
				}
			}
			return out
		}
		lose := func(i int, graceful bool) {
			b := backends[i]
			kind := "reset"
			if graceful {
				kind = "restart"
				b.restart()
			} else {
				b.resetConns()
			}
			if !b.quiet(2 * time.Second) {
				run.Violation(run.NextID(), "harness: a backend that closed its connections did not see them end within 2 s", b.url)
			}
			// the proxy's end of a reset connection notices on its own time (after a graceful stop it
			// has closed the connection itself: that is what the backend waited for)
			if graceful {
				time.Sleep(30 * time.Millisecond)
			} else {
				time.Sleep(150 * time.Millisecond)
			}
			lostSince[b.url] = true
			steps = append(steps, vh.App("XHLose", vh.HxS(b.url)))
			obs = append(obs, observe())
			ssample = append(ssample, kind+" "+b.url)
			guard("lost connections")
		}
		nX := run.Scale(110, 700)
		xcalls, afterLoss, losses := 0, 0, 0
		for xcalls < nX {
			if until := time.Until(t0.Add(time.Duration(ticks+1) * period)); until < 900*time.Millisecond {
				awaitTick()
				continue
			}
			switch x := xr.Intn(20); {
			case x < 3 && xcalls > 0:
				// mostly a backend that has a connection, mostly the one that served last
				cs := connected()
				i := xr.Intn(len(backends))
				if len(cs) > 0 && xr.Intn(5) > 0 {
					i = cs[xr.Intn(len(cs))]
					if lastServed >= 0 && xr.Intn(2) == 0 {
						i = lastServed
					}
				}
				lose(i, xr.Intn(2) == 0)
				losses++
				continue
			case x == 3:
				curTbl, curTxt = genX()
				steps = append(steps, vh.App("XH", vh.App("HSetTable", tableCoq(curTbl))))
				obs = append(obs, observe())
				ssample = append(ssample, "table")
				guard("table change")
				continue
			}
			xcalls++
			res, ok := doOne(xr, callers[xr.Intn(len(callers))], curTbl, curTxt, map[string]bool{}, xcalls, "")
			guard("call")
			if !ok {
				continue
			}
			hchosen := "HNobody"
			class := "reconnect-history-" + res.class
			if res.chosen != "" {
				hchosen = vh.App("HBackend", vh.HxS(res.chosen))
				if lostSince[res.chosen] {
					class = "reconnect-after-loss-" + res.class
					afterLoss++
					delete(lostSince, res.chosen)
				}
				for i, b := range backends {
					if b.url == res.chosen {
						lastServed = i
					}
				}
			} else if len(lostSince) > 0 && res.cv.code == uint32(codes.Unavailable) {
				class = "reconnect-after-loss-" + res.class
			}
			steps = append(steps, vh.App("XH", vh.App("HCall", res.mdT, res.upT, hchosen)))
			obs = append(obs, observe())
			ssample = append(ssample, fmt.Sprintf("call->%s", res.chosen))
			run.Add(class, vh.App("CCall", tableCoq(curTbl), vh.Bool(noglob), vh.Bool(false), downTerm, res.ciTerm, hchosen, res.bvT, cviewCoq(res.cv)), res.sample)
		}
		// the end: one connected backend loses its connection and leaves the table together with
		// the others, except one; the next real tick drops their channels (one without a transport)
		endTxt := ""
		if until := time.Until(t0.Add(time.Duration(ticks+1) * period)); until < 1500*time.Millisecond {
			awaitTick()
		}
		if cs := connected(); len(cs) > 0 {
			k := xr.Intn(len(cs))
			lose(cs[k], xr.Intn(2) == 0)
			losses++
			if len(cs) > 1 {
				// a third one stays: its channel and its connection survive the tick
				endTxt = fmt.Sprintf("route add keep / %s opts \"proto=grpc\"\n", backends[cs[(k+1)%len(cs)]].url)
			}
		}
		curTbl = setTable(endTxt)
		steps = append(steps, vh.App("XH", vh.App("HSetTable", tableCoq(curTbl))))
		obs = append(obs, observe())
		guard("table change")
		awaitTick()
		tickTerm = "HTick"
		run.Notes["reconnect_calls"] = xcalls
		run.Notes["reconnect_losses"] = losses
		run.Notes["reconnect_calls_reaching_a_backend_after_its_loss"] = afterLoss
		if overrun != "" {
			run.Notes["reconnect_history_not_judged_machine_stalled"] = overrun
		} else {
			run.Add("session-backends-lose-connections", vh.App("CHistoryX", vh.Bool(noglob), vh.Bool(false), downTerm, vh.List(steps), vh.List(obs)),
				map[string]interface{}{"steps": len(steps), "losses": losses, "calls_after_loss": afterLoss, "first": ssample[:min(len(ssample), 60)]})
		}
	}

	// the TLS listener: its tls.Config is what the director's pool gets, so grpcs targets are
	// dialled with TLS there; plain and TLS backends behind it
	for i := 0; i < run.Scale(40, 300); i++ {
		var sb strings.Builder
		fmt.Fprintf(&sb, "route add tlssvc /pkg.Svc %s opts \"proto=grpc tlsskipverify=true\"\n", tlsBackend.url)
		fmt.Fprintf(&sb, "route add plain /other.Api %s opts \"proto=grpc\"\n", burls[r.Intn(len(burls))])
		if r.Intn(3) == 0 {
			fmt.Fprintf(&sb, "route add tlssvc2 betatest/ %s opts \"proto=grpc tlsskipverify=true\"\n", tlsBackend.url)
		}
		txt := sb.String()
		tbl := setTable(txt)
		res, ok := doOne(r, tlsCaller, tbl, txt, map[string]bool{}, i, "")
		if !ok {
			continue
		}
		hchosen := "HNobody"
		if res.chosen != "" {
			hchosen = vh.App("HBackend", vh.HxS(res.chosen))
		}
		cl := "tls-listener-" + res.class
		run.Add(cl, vh.App("CCall", tableCoq(tbl), vh.Bool(noglob), vh.Bool(true), downTerm, res.ciTerm, hchosen, res.bvT, cviewCoq(res.cv)), res.sample)
	}
	setTable("")
}

// ---------------------------------------------------------------------------
// CLimit: the real newGrpcProxy (package main cannot be imported: the driver
// /repo/verif_c16_test.go runs it under `go test -tags verif` in the repository under test)

type limCall struct {
	Req  int `json:"req"`
	Resp int `json:"resp"`
}
type limJob struct {
	Rx    int       `json:"rx"`
	Tx    int       `json:"tx"`
	Calls []limCall `json:"calls"`
}
type limResult struct {
	Code       uint32 `json:"code"`
	Msg        string `json:"msg"`
	BackendGot bool   `json:"backend_got"`
	BackendLen int    `json:"backend_len"`
	CallerGot  bool   `json:"caller_got"`
	CallerLen  int    `json:"caller_len"`
}

func limitCases(run *vh.Run, r *rand.Rand) {
	const small = 24
	pairs := [][2]int{{300000, 100000}, {100000, 300000}, {8 << 20, 1 << 20}, {1 << 20, 8 << 20}, {65536, 65536}, {4 << 20, 4 << 20}}
	if run.Thorough() {
		for i := 0; i < 6; i++ {
			pairs = append(pairs, [2]int{1000 + r.Intn(3<<20), 1000 + r.Intn(3<<20)})
		}
	}
	var jobs []limJob
	for _, p := range pairs {
		lo, hi := min(p[0], p[1]), max(p[0], p[1])
		sizes := []int{0, small, lo - 1, lo, lo + 1, hi - 1, hi, hi + 1}
		if hi > lo+2 {
			sizes = append(sizes, lo+2+r.Intn(hi-lo-2), (lo+hi)/2)
		}
		j := limJob{Rx: p[0], Tx: p[1]}
		for _, s := range sizes {
			if s == 1 { // no protobuf message has one byte
				continue
			}
			j.Calls = append(j.Calls, limCall{Req: s, Resp: small}, limCall{Req: small, Resp: s})
		}
		j.Calls = append(j.Calls, limCall{Req: lo + 1, Resp: lo + 1}, limCall{Req: hi, Resp: lo})
		jobs = append(jobs, j)
	}
	repo := os.Getenv("VERIF_REPO")
	if repo == "" {
		repo = "/repo"
	}
	dir, err := os.MkdirTemp("", "verif-c16-")
	if err != nil {
		panic(err)
	}
	defer os.RemoveAll(dir)
	inF, outF := filepath.Join(dir, "in.json"), filepath.Join(dir, "out.json")
	b, _ := json.Marshal(jobs)
	if err := os.WriteFile(inF, b, 0o644); err != nil {
		panic(err)
	}
	cmd := exec.Command("go", "test", "-tags", "verif", "-count=1", "-run", "TestVerifC16$", ".")
	cmd.Dir = repo
	cmd.Env = append(os.Environ(), "VERIF_C16_IN="+inF, "VERIF_C16_OUT="+outF)
	var logb bytes.Buffer
	cmd.Stdout, cmd.Stderr = &logb, &logb
	done := make(chan error, 1)
	if err := cmd.Start(); err != nil {
		run.Violation(run.NextID(), "cannot start go test for the newGrpcProxy driver: "+err.Error(), nil)
		return
	}
	go func() { done <- cmd.Wait() }()
	select {
	case err = <-done:
	case <-time.After(8 * time.Minute):
		cmd.Process.Kill()
		err = fmt.Errorf("timeout")
	}
	var outs [][]limResult
	if err == nil {
		var data []byte
		if data, err = os.ReadFile(outF); err == nil {
			err = json.Unmarshal(data, &outs)
		}
	}
	if err != nil || len(outs) != len(jobs) {
		tail := logb.String()
		if len(tail) > 1500 {
			tail = tail[len(tail)-1500:]
		}
		run.Violation(run.NextID(), fmt.Sprintf("newGrpcProxy driver (go test -tags verif -run TestVerifC16 in %s) failed: %v", repo, err), tail)
		return
	}
	for ji, j := range jobs {
		if len(outs[ji]) != len(j.Calls) {
			run.Violation(run.NextID(), "newGrpcProxy driver returned an incomplete job", j)
			continue
		}
		for ci, c := range j.Calls {
			o := outs[ji][ci]
			class := "limit-equal"
			switch {
			case j.Rx > j.Tx:
				class = "limit-rx-above-tx"
			case j.Rx < j.Tx:
				class = "limit-tx-above-rx"
			}
			if o.BackendLen == -2 {
				run.Violation(run.NextID(), "backend received more than one message for a unary call", map[string]interface{}{"job": j, "call": c})
				continue
			}
			run.Add(class, vh.App("CLimit", vh.N(j.Rx), vh.N(j.Tx), vh.N(c.Req), vh.N(c.Resp), vh.Bool(o.BackendGot), vh.Bool(o.CallerGot), vh.N(int(o.Code))),
				map[string]interface{}{"grpcmaxrxmsgsize": j.Rx, "grpcmaxtxmsgsize": j.Tx, "request_bytes": c.Req, "response_bytes": c.Resp,
					"code": o.Code, "msg": o.Msg, "backend_received": o.BackendLen, "caller_received": o.CallerLen})
		}
	}
}
