// CListeners: SEVERAL gRPC listeners in one process, started the way fabio starts them.
//
// The driver /repo/verif_c16_listeners_test.go (go test -tags verif -run TestVerifC16Listeners in
// the repository under test) runs the real config.Load on a command line with
// `-proxy.addr "A1;proto=grpc,A2;proto=grpcs;cs=verif,..."` and the real main.go:startServers,
// once per group of listeners: every order of plain and TLS listeners of length 1 to 3 (14
// groups, 34 listeners; file cert source written by the driver).  startServers builds a proxy
// of its own -- interceptor, director, backend connection pool -- for every listener, from the
// tls.Config of that listener; Model/GrpcListeners.v says so, and the theorems of C16 hold per
// listener whatever the other listeners are.  The harness calls plain backends, a TLS backend
// and a dead address through EACH listener: every call is a CCall case (transparency, routing,
// who was reached: a grpcs:// backend must be reached through every listener that has a cert
// source), and the whole is one CListeners history with table changes and the real cleanup
// ticks of all the pools: connections begun / ended at each backend after every step (one
// connection per listener and backend, reused by that listener, ended by the tick that follows a
// table without the backend).  Random source of its own: seed*15485863+16.
package main

import (
	"bytes"
	"crypto/tls"
	"encoding/json"
	"fmt"
	"math/rand"
	"os"
	"os/exec"
	"path/filepath"
	"strings"
	"sync/atomic"
	"time"

	"github.com/fabiolb/fabio/route"

	"google.golang.org/grpc"
	"google.golang.org/grpc/credentials"
	"google.golang.org/grpc/credentials/insecure"

	"verifharness/internal/vh"
)

type lListener struct {
	Addr  string `json:"addr"`
	Proto string `json:"proto"`
	TLS   bool   `json:"tls"`
}
type lGroup struct {
	Listeners []lListener `json:"listeners"`
	ProxyAddr string      `json:"proxy_addr"`
	T0        int64       `json:"t0_unix_nano"`
	T1        int64       `json:"t1_unix_nano"`
}
type ldriver struct {
	Groups []lGroup `json:"groups"`
	Ctrl   string   `json:"ctrl"`
	want   [][]bool
	d      *driver // process handling (post / stop) shared with the serve driver
}

// every order of plain (false) and TLS (true) listeners of length 1..maxLen
func listenerOrders(maxLen int) [][]bool {
	var out [][]bool
	for n := 1; n <= maxLen; n++ {
		for bits := 0; bits < 1<<n; bits++ {
			g := make([]bool, n)
			for i := 0; i < n; i++ {
				g[i] = bits>>(n-1-i)&1 == 1
			}
			out = append(out, g)
		}
	}
	return out
}

// startListenersDriver launches `go test -tags verif -run TestVerifC16Listeners` in $VERIF_REPO.
func startListenersDriver(run *vh.Run, noglob bool, shutdownMs int) *ldriver {
	lr := rand.New(rand.NewSource(run.Seed*15485863 + 15))
	groups := listenerOrders(3)
	lr.Shuffle(len(groups), func(i, j int) { groups[i], groups[j] = groups[j], groups[i] })
	ld := &ldriver{want: groups}
	d := &driver{ready: make(chan struct{}), logb: &bytes.Buffer{}}
	ld.d = d
	repo := os.Getenv("VERIF_REPO")
	if repo == "" {
		repo = "/repo"
	}
	dir, err := os.MkdirTemp("", "verif-c16-listeners-")
	if err != nil {
		panic(err)
	}
	d.dir = dir
	statusF := filepath.Join(dir, "status.json")
	gj, _ := json.Marshal(groups)
	d.cmd = exec.Command("go", "test", "-tags", "verif", "-count=1", "-timeout", "20m", "-run", "TestVerifC16Listeners$", ".")
	d.cmd.Dir = repo
	d.cmd.Env = append(os.Environ(), "VERIF_C16_LISTENERS="+statusF,
		fmt.Sprintf(`VERIF_C16_LISTENERS_CFG={"groups":%s,"noglob":%v,"shutdown_ms":%d}`, gj, noglob, shutdownMs))
	d.cmd.Stdout, d.cmd.Stderr = d.logb, d.logb
	if err := d.cmd.Start(); err != nil {
		d.err = err
		close(d.ready)
		return ld
	}
	exited := make(chan error, 1)
	go func() { exited <- d.cmd.Wait() }()
	go func() {
		defer close(d.ready)
		deadline := time.Now().Add(8 * time.Minute)
		for time.Now().Before(deadline) {
			if b, err := os.ReadFile(statusF); err == nil {
				if err := json.Unmarshal(b, ld); err == nil && ld.Ctrl != "" {
					d.Ctrl = ld.Ctrl
					return
				}
			}
			select {
			case err := <-exited:
				d.err = fmt.Errorf("driver exited before it was ready: %v", err)
				return
			case <-time.After(50 * time.Millisecond):
			}
		}
		d.err = fmt.Errorf("driver not ready after 8 minutes")
	}()
	return ld
}

func listenersCases(run *vh.Run, backends []*backend, tlsBackend *backend, ld *ldriver) {
	noglob := false
	d := ld.d
	<-d.ready
	if d.err != nil {
		tail := d.logb.String()
		if len(tail) > 1500 {
			tail = tail[len(tail)-1500:]
		}
		run.Violation(run.NextID(), fmt.Sprintf("startServers driver (go test -tags verif -run TestVerifC16Listeners) failed: %v", d.err), tail)
		return
	}
	defer d.stop()
	lr := rand.New(rand.NewSource(run.Seed*15485863 + 16))

	// the listeners of all groups, numbered in the order the model gets them
	type lst struct {
		group, pos int
		tls        bool
		addr       string
		cc         *grpc.ClientConn
	}
	var ls []*lst
	var groupsT, groupsS []string
	if len(ld.Groups) != len(ld.want) {
		run.Violation(run.NextID(), "startServers driver reports another number of listener groups than it was given", fmt.Sprint(len(ld.Groups), len(ld.want)))
		return
	}
	for gi, g := range ld.Groups {
		var bs []string
		if len(g.Listeners) != len(ld.want[gi]) {
			run.Violation(run.NextID(), "config.Load parsed another number of listeners than proxy.addr has entries", g.ProxyAddr)
			return
		}
		for pi, l := range g.Listeners {
			if l.TLS != ld.want[gi][pi] || (l.Proto == "grpcs") != l.TLS {
				run.Violation(run.NextID(), "config.Load: listener proto / cert source differ from the proxy.addr entry", g.ProxyAddr)
				return
			}
			creds := insecure.NewCredentials()
			if l.TLS {
				creds = credentials.NewTLS(&tls.Config{InsecureSkipVerify: true})
			}
			cc, err := grpc.NewClient("passthrough:///"+l.Addr, grpc.WithTransportCredentials(creds),
				grpc.WithDefaultCallOptions(grpc.ForceCodec(rawCodec{"proto"}), grpc.MaxCallRecvMsgSize(16<<20)))
			if err != nil {
				panic(err)
			}
			ls = append(ls, &lst{group: gi, pos: pi, tls: l.TLS, addr: l.Addr, cc: cc})
			bs = append(bs, vh.Bool(l.TLS))
		}
		groupsT = append(groupsT, vh.List(bs))
		groupsS = append(groupsS, strings.ReplaceAll(strings.ReplaceAll(g.ProxyAddr, "127.0.0.1:", ":"), ";cs=verif", ""))
	}
	defer func() {
		for _, l := range ls {
			l.cc.Close()
		}
	}()
	// the cleanup loops of all the pools were started between these two moments
	t0first := time.Unix(0, ld.Groups[0].T0)
	t1last := time.Unix(0, ld.Groups[len(ld.Groups)-1].T1)
	run.Notes["listeners_groups"] = len(ld.Groups)
	run.Notes["listeners_total"] = len(ls)
	run.Notes["listeners_started_within_ms"] = t1last.Sub(t0first).Milliseconds()

	all := append(append([]*backend{}, backends...), tlsBackend)
	base := make([][2]int64, len(all))
	for i, b := range all {
		b.quiet(2 * time.Second)
		base[i] = [2]int64{atomic.LoadInt64(&b.begins), atomic.LoadInt64(&b.ends)}
	}
	observe := func() string {
		var it []string
		for i, b := range all {
			it = append(it, vh.App("mkcnt", vh.HxS(b.url), vh.N(int(atomic.LoadInt64(&b.begins)-base[i][0])), vh.N(int(atomic.LoadInt64(&b.ends)-base[i][1]))))
		}
		return vh.List(it)
	}

	var burls []string
	for _, b := range backends {
		burls = append(burls, b.url)
	}
	// the TLS backend three times: about every third route leads to it
	turls := append(append([]string{}, burls...), deadBackendURL, tlsBackend.url, tlsBackend.url, tlsBackend.url)
	unreachablePlain := map[string]bool{deadBackendURL: true, tlsBackend.url: true} // through a listener without a cert source
	unreachableTLS := map[string]bool{deadBackendURL: true}                         // through a listener with one
	downTerm := strsCoq([]string{deadBackendURL})
	// the TLS backend's certificate is self-signed
	skipVerify := func(txt string) string {
		return strings.ReplaceAll(txt, tlsBackend.url+" opts \"proto=grpc\"", tlsBackend.url+" opts \"proto=grpc tlsskipverify=true\"")
	}
	setTable := func(txt string) route.Table {
		if err := d.post("/table", txt); err != nil {
			panic("driver rejected the table: " + err.Error())
		}
		t, err := route.NewTable(bytes.NewBufferString(txt))
		if err != nil {
			panic(err)
		}
		return t
	}
	genT := func() (route.Table, string) {
		for {
			_, txt := genTable(lr, turls, 5, true)
			txt = skipVerify(txt)
			t, _ := route.NewTable(bytes.NewBufferString(txt))
			ok := true
			for _, rs := range t {
				for _, rt := range rs {
					n := 0
					for _, tg := range rt.Targets {
						if unreachablePlain[tg.URL.String()] {
							n++
						}
					}
					if n > 1 {
						ok = false // which of the two a failed call went to could not be told
					}
				}
			}
			if ok {
				return setTable(txt), txt
			}
		}
	}

	const period = 5 * time.Second
	ticks := int(time.Since(t0first) / period)
	// not inside the window in which the loops wake up
	if w := t1last.Add(time.Duration(ticks)*period + 500*time.Millisecond); time.Now().Before(w) {
		time.Sleep(time.Until(w))
	}
	var steps, obs, ssample []string
	var curTbl route.Table
	var curTxt string
	realTicks := 0
	awaitTick := func() {
		next := t1last.Add(time.Duration(ticks+1) * period)
		time.Sleep(time.Until(next.Add(500 * time.Millisecond)))
		ticks++
		realTicks++
		in := map[string]bool{}
		for _, u := range tableURLs(curTbl) {
			in[u] = true
		}
		deadline := time.Now().Add(8 * time.Second)
		for time.Now().Before(deadline) {
			ok := true
			for _, b := range all {
				if !in[b.url] && atomic.LoadInt64(&b.begins) != atomic.LoadInt64(&b.ends) {
					ok = false
				}
			}
			if ok {
				break
			}
			time.Sleep(10 * time.Millisecond)
		}
		time.Sleep(30 * time.Millisecond)
		steps = append(steps, "LHTickAll")
		obs = append(obs, observe())
		ssample = append(ssample, "tick")
	}
	// stay clear of the moment the real cleanup loops wake up
	clear := func() {
		if until := time.Until(t0first.Add(time.Duration(ticks+1) * period)); until < 900*time.Millisecond {
			awaitTick()
		}
	}
	newTable := func(gen func() (route.Table, string)) {
		if len(steps) > 0 {
			clear()
		}
		curTbl, curTxt = gen()
		steps = append(steps, vh.App("LHSetTable", tableCoq(curTbl)))
		obs = append(obs, observe())
		ssample = append(ssample, "table")
	}
	ncalls, tlsViaTLS, tlsViaPlain := 0, 0, 0
	call := func(li int, forceMethod string) {
		clear()
		l := ls[li]
		unreachable := unreachablePlain
		if l.tls {
			unreachable = unreachableTLS
		}
		ncalls++
		res, ok := doOneCall(run, lr, l.cc, curTbl, curTxt, unreachable, ncalls, forceMethod)
		if !ok {
			return
		}
		res.sample["listener"] = fmt.Sprintf("#%d of proxy.addr %q (tls=%v)", l.pos+1, groupsS[l.group], l.tls)
		hchosen := ""
		class := "listeners-" + res.class
		if res.chosen == "?" {
			hchosen = "HUnreachable"
			class = "listeners-call-backend-unreachable"
		} else if res.chosen == "" {
			hchosen = "HNobody"
		} else {
			hchosen = vh.App("HBackend", vh.HxS(res.chosen))
			if res.chosen == tlsBackend.url {
				if l.tls {
					tlsViaTLS++
					class += "-tls-backend"
				} else {
					tlsViaPlain++
				}
			}
		}
		steps = append(steps, vh.App("LHCall", vh.Nat(li), res.mdT, res.upT, hchosen))
		obs = append(obs, observe())
		ssample = append(ssample, fmt.Sprintf("call[%d]->%s", li, res.chosen))
		run.Add(class, vh.App("CCall", tableCoq(curTbl), vh.Bool(noglob), vh.Bool(l.tls), downTerm, res.ciTerm, hchosen, res.bvT, cviewCoq(res.cv)), res.sample)
	}

	// directed: through every listener, in proxy.addr order, a call for the TLS backend and a
	// call for a plain one; then once more in another order (every listener reuses its own connections)
	newTable(func() (route.Table, string) {
		txt := skipVerify(fmt.Sprintf("route add tlssvc /pkg.Svc %s opts \"proto=grpc\"\nroute add plain /other.Api %s opts \"proto=grpc\"\n", tlsBackend.url, burls[lr.Intn(len(burls))]))
		return setTable(txt), txt
	})
	for li := range ls {
		call(li, "/pkg.Svc/Get")
		call(li, "/other.Api/X")
	}
	for _, li := range lr.Perm(len(ls)) {
		if lr.Intn(2) == 0 {
			call(li, "/pkg.Svc/Put")
		} else {
			call(li, "/other.Api/Stream")
		}
	}
	// random: tables over the five plain backends, the TLS backend and the dead address; calls through random listeners
	nR := run.Scale(90, 1100)
	newTable(genT)
	for i := 0; i < nR; i++ {
		if lr.Intn(12) == 0 {
			newTable(genT)
		}
		call(lr.Intn(len(ls)), "")
	}
	// the end: one backend stays in the table; the next tick of every pool drops the connections
	// to all the others, whichever listener holds them
	keep := all[lr.Intn(len(all))]
	newTable(func() (route.Table, string) {
		txt := skipVerify(fmt.Sprintf("route add keep / %s opts \"proto=grpc\"\n", keep.url))
		return setTable(txt), txt
	})
	awaitTick()
	for li := range ls {
		if lr.Intn(3) == 0 {
			call(li, "")
		}
	}
	run.Notes["listeners_calls"] = ncalls
	run.Notes["listeners_real_ticks"] = realTicks
	run.Notes["listeners_tls_backend_reached_through_tls_listener"] = tlsViaTLS
	run.Notes["listeners_tls_backend_reached_through_plain_listener"] = tlsViaPlain
	run.Add("listeners-history", vh.App("CListeners", vh.Bool(noglob), downTerm, vh.List(groupsT), vh.List(steps), vh.List(obs)),
		map[string]interface{}{"proxy_addr_of_each_startServers_call": groupsS, "steps": len(steps), "ticks": realTicks,
			"tls_backend_through_tls_listener": tlsViaTLS, "first": ssample[:min(len(ssample), 60)]})
	setTable("")
}
