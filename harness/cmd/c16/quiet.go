// Quiet calls (CQuiet): calls during which nobody sends anything for a long while -- a watch
// stream between two events, a slow unary call -- and pauses between calls, on ONE backend each.
// Model: coq/Model/GrpcKeepalive.v.  What decides whether such a call survives is the pair
// (keepalive parameters of the connection the proxy dialled, keepalive enforcement policy of
// the backend): a stock gRPC server answers the third keepalive ping that it did not expect
// with GOAWAY too_many_pings and closes the connection under the call.  grpc-go does not ping
// more often than every 10 s, so nothing of this shows in a call that is silent for less than
// 30 s: the histories below take 33 s (quick) / 45 s (thorough) of real time and run in the
// background, next to the rest of the harness, through a second instance of the real
// newGrpcProxy listener (own process, own routing table: the session's table changes and
// cleanup ticks must not touch the quiet calls).
//
// Observed per item of a history: what the backend received, what the caller received,
// keepalive PING frames the backend has read so far (a tap on the accepted socket: HTTP/2 PING
// frames with the all-zero payload of grpc-go's keepalive loop; BDP pings carry another
// payload), connections begun / ended at the backend so far.
//
// "direct" histories have no proxy in them: a client of the harness with keepalive parameters
// of its own talks to the same kind of backend.  They test the model of grpc-go's ping / strike
// machine itself (Model/GrpcKeepalive.v for ka = Some ...), which the theorems quantify over.
package main

import (
	"context"
	"fmt"
	"io"
	"math/rand"
	"net"
	"strings"
	"sync"
	"sync/atomic"
	"time"

	"google.golang.org/grpc"
	"google.golang.org/grpc/codes"
	"google.golang.org/grpc/credentials/insecure"
	"google.golang.org/grpc/keepalive"
	"google.golang.org/grpc/metadata"
	"google.golang.org/grpc/stats"
	"google.golang.org/grpc/status"

	"verifharness/internal/vh"
)

const (
	qHdr = iota
	qMsg
	qQuiet
)

type qphase struct {
	kind int
	d    int // seconds
	msg  []byte
}

type qcallSpec struct {
	method   string
	md       metadata.MD
	reqs     [][]byte
	hdr, trl metadata.MD
	phases   []qphase
	code     uint32
	msg      string
}

type qitem struct {
	call *qcallSpec // nil: a pause of gap seconds
	gap  int
}

type kaParams struct {
	time, timeout int
	permit        bool
}

type qjob struct {
	class     string
	direct    bool
	ka        *kaParams // direct only; nil: no keepalive option
	stock     bool      // the backend has no KeepaliveEnforcementPolicy option
	polMin    int
	polPermit bool
	items     []qitem
	target    string // how the route's target is written (%s = host:port); "" = grpc://%s

	b       *qbackend
	obs     []string
	samples []string
	viol    []string
}

// ---- the backend: a grpc-go server with a tap on its sockets ----

type qbackend struct {
	addr, url string
	srv       *grpc.Server
	begins    int64
	ends      int64
	kaPings   int64
	bdpPings  int64
	cur       atomic.Pointer[qcallSpec]
	mu        sync.Mutex
	recs      []*bview
}

type tapListener struct {
	net.Listener
	b *qbackend
}

func (l tapListener) Accept() (net.Conn, error) {
	c, err := l.Listener.Accept()
	if err != nil {
		return nil, err
	}
	return &tapConn{Conn: c, b: l.b, skip: 24}, nil
}

// tapConn parses the HTTP/2 frames the server reads from a client: after the 24-byte preface
// 9-byte frame headers (length 3, type 1, flags 1, stream 4) and payloads; counts PING (type 6)
// frames without the ACK flag, by payload.
type tapConn struct {
	net.Conn
	b      *qbackend
	skip   int    // bytes of preface / payload still to skip
	hdr    []byte // partial frame header
	ping   []byte // partial PING payload (nil: not inside one)
	inPing bool
}

func (t *tapConn) Read(p []byte) (int, error) {
	n, err := t.Conn.Read(p)
	t.feed(p[:n])
	return n, err
}

func (t *tapConn) feed(b []byte) {
	for len(b) > 0 {
		if t.inPing {
			k := min(8-len(t.ping), len(b))
			t.ping = append(t.ping, b[:k]...)
			b = b[k:]
			if len(t.ping) == 8 {
				zero := true
				for _, x := range t.ping {
					zero = zero && x == 0
				}
				if zero {
					atomic.AddInt64(&t.b.kaPings, 1)
				} else {
					atomic.AddInt64(&t.b.bdpPings, 1)
				}
				t.inPing, t.ping = false, nil
			}
			continue
		}
		if t.skip > 0 {
			k := min(t.skip, len(b))
			t.skip -= k
			b = b[k:]
			continue
		}
		k := min(9-len(t.hdr), len(b))
		t.hdr = append(t.hdr, b[:k]...)
		b = b[k:]
		if len(t.hdr) == 9 {
			length := int(t.hdr[0])<<16 | int(t.hdr[1])<<8 | int(t.hdr[2])
			typ, flags := t.hdr[3], t.hdr[4]
			t.hdr = t.hdr[:0]
			if typ == 6 && flags&1 == 0 && length == 8 {
				t.inPing, t.ping = true, make([]byte, 0, 8)
			} else {
				t.skip = length
			}
		}
	}
}

func (b *qbackend) TagConn(ctx context.Context, _ *stats.ConnTagInfo) context.Context { return ctx }
func (b *qbackend) TagRPC(ctx context.Context, _ *stats.RPCTagInfo) context.Context   { return ctx }
func (b *qbackend) HandleRPC(context.Context, stats.RPCStats)                         {}
func (b *qbackend) HandleConn(_ context.Context, s stats.ConnStats) {
	switch s.(type) {
	case *stats.ConnBegin:
		atomic.AddInt64(&b.begins, 1)
	case *stats.ConnEnd:
		atomic.AddInt64(&b.ends, 1)
	}
}

// the handler: read every request, then play the phases of the current call
func (b *qbackend) handle(_ any, ss grpc.ServerStream) error {
	sc := b.cur.Load()
	method, _ := grpc.MethodFromServerStream(ss)
	md, _ := metadata.FromIncomingContext(ss.Context())
	rec := &bview{url: b.url, method: method, md: md.Copy(), done: make(chan struct{})}
	b.mu.Lock()
	b.recs = append(b.recs, rec)
	b.mu.Unlock()
	defer close(rec.done)
	if sc == nil {
		return status.Error(codes.Internal, "harness: no quiet script")
	}
	for {
		var m []byte
		err := ss.RecvMsg(&m)
		if err == io.EOF {
			break
		}
		if err != nil {
			return err
		}
		rec.msgs = append(rec.msgs, m)
	}
	ss.SetHeader(sc.hdr)
	for _, p := range sc.phases {
		switch p.kind {
		case qHdr:
			if err := ss.SendHeader(nil); err != nil { // what SetHeader has set
				return err
			}
		case qMsg:
			m := p.msg
			if err := ss.SendMsg(&m); err != nil {
				return err
			}
			// the client answers data with a BDP ping: let it arrive before anything else is written
			// (whether it finds the message or also the next write -- the trailers -- is a race in
			// grpc-go otherwise, and it decides which keepalive ping is the first to count as a strike)
			time.Sleep(300 * time.Millisecond)
		case qQuiet:
			select {
			case <-time.After(time.Duration(p.d) * time.Second):
			case <-ss.Context().Done():
				return ss.Context().Err()
			}
		}
	}
	ss.SetTrailer(sc.trl)
	if sc.code == 0 {
		return nil
	}
	return status.Error(codes.Code(sc.code), sc.msg)
}

func startQBackend(j *qjob) *qbackend {
	ln, err := net.Listen("tcp", "127.0.0.1:0")
	if err != nil {
		panic(err)
	}
	b := &qbackend{addr: ln.Addr().String()}
	b.url = "grpc://" + b.addr
	opts := []grpc.ServerOption{grpc.ForceServerCodec(rawCodec{"proto"}), grpc.UnknownServiceHandler(b.handle), grpc.StatsHandler(b)}
	if !j.stock {
		opts = append(opts, grpc.KeepaliveEnforcementPolicy(keepalive.EnforcementPolicy{
			MinTime: time.Duration(j.polMin) * time.Second, PermitWithoutStream: j.polPermit}))
	}
	b.srv = grpc.NewServer(opts...)
	go b.srv.Serve(tapListener{ln, b})
	return b
}

// ---- generation ----

// kaSim follows the client's keepalive timer through a history, only to keep the end of every
// pause at least 2 s before and 3 s after a moment at which the timer fires (the model counts
// whole seconds; a backend that answers too_many_pings closes the connection a second later).
type kaSim struct {
	on      bool
	T       int
	permit  bool
	since   int
	dormant bool
	streams int
}

func newKaSim(j *qjob) *kaSim {
	s := &kaSim{}
	if j.direct && j.ka != nil {
		s.on, s.T, s.permit = true, max(j.ka.time, 10), j.ka.permit
	}
	if !j.direct {
		// the proxy's connections: no pings expected; keep the pauses clear of the 10 s grid all the
		// same, so that a proxy which does ping every 10 s is seen with a definite number of pings
		s.on, s.T = true, 10
	}
	return s
}
func (s *kaSim) read() { s.since = 0 }
func (s *kaSim) open() {
	s.streams++
	if s.dormant {
		s.dormant, s.since = false, 0
	}
}
func (s *kaSim) close() { s.streams--; s.since = 0 }

// wait returns the pause to take instead of d
func (s *kaSim) wait(d int) int {
	if !s.on || s.dormant {
		return d
	}
	if s.streams > 0 || s.permit {
		for {
			r := (s.since + d) % s.T
			if r >= 3 && r <= s.T-2 {
				break
			}
			d++
		}
		s.since = (s.since + d) % s.T
		return d
	}
	for s.since+d >= s.T-2 && s.since+d <= s.T+2 {
		d++
	}
	if s.since+d >= s.T {
		s.dormant = true
	} else {
		s.since += d
	}
	return d
}

func qGenCall(r *rand.Rand, method string, shape []qphase) *qcallSpec {
	q := &qcallSpec{method: method, md: genMD(r, mdKeys, 3), hdr: genMD(r, mdKeys[:9], 2), trl: genMD(r, mdKeys[:9], 2)}
	q.reqs = genMsgs(r, 1+r.Intn(2), false)
	if r.Intn(3) == 0 {
		q.code = uint32(1 + r.Intn(16))
		q.msg = statusMsgs[r.Intn(len(statusMsgs))]
	}
	for _, p := range shape {
		if p.kind == qMsg {
			p.msg = genMsg(r, false)
		}
		q.phases = append(q.phases, p)
	}
	return q
}

// finish applies the timer simulation to the pauses of a job and gives every call its method
func (j *qjob) finish(idx int) {
	sim := newKaSim(j)
	for _, it := range j.items {
		if it.call == nil {
			continue
		}
		it.call.method = fmt.Sprintf("/quiet.J%d/Watch", idx)
	}
	for i := range j.items {
		it := &j.items[i]
		if it.call == nil {
			it.gap = sim.wait(it.gap)
			continue
		}
		sim.open()
		for k := range it.call.phases {
			p := &it.call.phases[k]
			switch p.kind {
			case qQuiet:
				p.d = sim.wait(p.d)
			default:
				sim.read()
			}
		}
		sim.close()
	}
}

func phH() qphase      { return qphase{kind: qHdr} }
func phM() qphase      { return qphase{kind: qMsg} }
func phQ(d int) qphase { return qphase{kind: qQuiet, d: d} }

// quietJobs: the histories of one run.  long = a silence in which a client that pings every
// 10 s is struck out by a stock server (3 pings: 30 s).
func quietJobs(run *vh.Run, r *rand.Rand) []*qjob {
	long := run.Scale(33, 45+r.Intn(2))
	var jobs []*qjob
	add := func(j *qjob) { jobs = append(jobs, j) }
	c := func(shape ...qphase) *qcallSpec { return qGenCall(r, "", shape) }
	H, M, Q := phH, phM, phQ
	call := func(q *qcallSpec) qitem { return qitem{call: q} }
	gap := func(d int) qitem { return qitem{gap: d} }
	ka10 := func() *kaParams { return &kaParams{10, 5, false} }

	// ---- through the proxy ----
	// an event stream: headers, an event, a long silence, another event
	add(&qjob{class: "quiet-proxy-stream", stock: true, items: []qitem{call(c(H(), M(), Q(long), M()))}})
	// a slow call: nothing at all before the answer
	add(&qjob{class: "quiet-proxy-slow-call", stock: true, items: []qitem{call(c(Q(12+r.Intn(4)+10*r.Intn(2)), M()))}})
	// calls and pauses on one pooled connection
	add(&qjob{class: "quiet-proxy-history", stock: true, items: []qitem{call(c(H(), M())), gap(12 + r.Intn(3)), call(c(M(), Q(12+r.Intn(3)), M()))}})
	// a backend that allows pings every 5 s, with or without calls
	add(&qjob{class: "quiet-proxy-lenient-backend", polMin: 5, polPermit: true, items: []qitem{call(c(M(), Q(long-2-r.Intn(8)), M()))}})
	if run.Thorough() {
		add(&qjob{class: "quiet-proxy-stream", stock: true, items: []qitem{call(c(M(), Q(12+r.Intn(4)), M(), Q(22+r.Intn(4)), M(), M()))}})
		add(&qjob{class: "quiet-proxy-stream", polMin: 3600, items: []qitem{call(c(H(), Q(long), M()))}})
		add(&qjob{class: "quiet-proxy-slow-call", stock: true, items: []qitem{call(c(Q(long), M()))}})
		add(&qjob{class: "quiet-proxy-history", stock: true, items: []qitem{call(c(M())), gap(long), call(c(H(), M(), Q(12+r.Intn(4)), M())), gap(3), call(c(M()))}})
	}

	// ---- no proxy: the model of grpc-go's keepalive / enforcement machine itself ----
	// struck out: data, then three pings in the silence
	add(&qjob{class: "quiet-direct-struck-out", direct: true, ka: ka10(), stock: true, items: []qitem{call(c(H(), M(), Q(long), M()))}})
	// not yet struck out: nothing was sent before the silence, the first ping counts for nothing
	add(&qjob{class: "quiet-direct-three-pings", direct: true, ka: ka10(), stock: true, items: []qitem{call(c(Q(33), M()))}})
	// headers only: the first ping takes the reset
	add(&qjob{class: "quiet-direct-three-pings", direct: true, ka: ka10(), stock: true, items: []qitem{call(c(H(), Q(33), M()))}})
	// a lenient backend is never annoyed
	add(&qjob{class: "quiet-direct-lenient-backend", direct: true, ka: ka10(), polMin: 5, polPermit: true, items: []qitem{call(c(H(), M(), Q(33), M()))}})
	// Time below 10 s is raised to 10 s
	add(&qjob{class: "quiet-direct-time-floor", direct: true, ka: &kaParams{3, 1, false}, stock: true, items: []qitem{call(c(M(), Q(13+r.Intn(3)), M()))}})
	add(&qjob{class: "quiet-direct-time-20", direct: true, ka: &kaParams{20, 5, false}, stock: true, items: []qitem{call(c(M(), Q(23+r.Intn(5)), M()))}})
	add(&qjob{class: "quiet-direct-no-keepalive", direct: true, stock: true, items: []qitem{call(c(M(), Q(12+r.Intn(10)), M()))}})
	// dormant between calls, one ping when the next call begins
	add(&qjob{class: "quiet-direct-dormant", direct: true, ka: ka10(), stock: true, items: []qitem{call(c(H(), M())), gap(12 + r.Intn(3)), call(c(H(), M(), Q(12+r.Intn(3)), M()))}})
	// pings without a call in flight
	add(&qjob{class: "quiet-direct-permit-without-stream", direct: true, ka: &kaParams{10, 5, true}, stock: true, items: []qitem{call(c(M())), gap(long), call(c(M()))}})
	if run.Thorough() {
		add(&qjob{class: "quiet-direct-struck-out", direct: true, ka: ka10(), stock: true, items: []qitem{call(c(Q(long), M()))}})
		add(&qjob{class: "quiet-direct-struck-out", direct: true, ka: ka10(), polMin: 15, polPermit: true, items: []qitem{call(c(M(), Q(long), M()))}})
		add(&qjob{class: "quiet-direct-three-pings", direct: true, ka: &kaParams{15, 5, false}, stock: true, items: []qitem{call(c(H(), M(), Q(long), M()))}})
		add(&qjob{class: "quiet-direct-lenient-backend", direct: true, ka: &kaParams{10, 5, true}, polMin: 10, polPermit: true, items: []qitem{call(c(M())), gap(long), call(c(M()))}})
		add(&qjob{class: "quiet-direct-dormant", direct: true, ka: ka10(), polMin: 5, items: []qitem{call(c(M())), gap(23), call(c(M(), Q(23), M())), gap(13), call(c(M()))}})
		add(&qjob{class: "quiet-direct-permit-without-stream", direct: true, ka: &kaParams{10, 5, true}, polMin: 5, items: []qitem{call(c(M())), gap(long), call(c(M()))}})
	}
	// ---- through the proxy, the backend registered without proto=grpc: the consul registry writes
	// http://host:port/ for it, `route add` takes any scheme; the call is silent across several
	// cleanup passes of the pool (own random source: the histories above do not change) ----
	r2 := rand.New(rand.NewSource(run.Seed*49979687 + 16))
	c2 := func(shape ...qphase) *qcallSpec { return qGenCall(r2, "", shape) }
	add(&qjob{class: "quiet-proxy-stream-http-target", stock: true, target: "http://%s/", items: []qitem{call(c2(H(), M(), Q(12+r2.Intn(4)), M()))}})
	if run.Thorough() {
		add(&qjob{class: "quiet-proxy-history-tcp-target", stock: true, target: "tcp://%s", items: []qitem{call(c2(M())), gap(12 + r2.Intn(3)), call(c2(H(), M(), Q(12+r2.Intn(4)), M()))}})
		add(&qjob{class: "quiet-proxy-stream-http-target", stock: true, target: "http://%s", items: []qitem{call(c2(M(), Q(long-5-r2.Intn(8)), M()))}})
	}
	for i, j := range jobs {
		j.finish(i)
	}
	return jobs
}

// ---- running ----

func (j *qjob) polTerm() string {
	if j.stock {
		return "stock_policy"
	}
	return vh.App("mkpol", vh.N(j.polMin), vh.Bool(j.polPermit))
}

func (j *qjob) viaTerm() string {
	if !j.direct {
		return "QProxy"
	}
	if j.ka == nil {
		return "(QDirect None)"
	}
	return vh.App("QDirect", vh.Some(vh.App("mkka", vh.N(j.ka.time), vh.N(j.ka.timeout), vh.Bool(j.ka.permit))))
}

func (j *qjob) itemsTerm() string {
	var its []string
	for _, it := range j.items {
		if it.call == nil {
			its = append(its, vh.App("QGap", vh.N(it.gap)))
			continue
		}
		q := it.call
		var ph []string
		for _, p := range q.phases {
			switch p.kind {
			case qHdr:
				ph = append(ph, "PHdr")
			case qMsg:
				ph = append(ph, vh.App("PMsg", vh.Hx(fold(p.msg))))
			case qQuiet:
				ph = append(ph, vh.App("PQuiet", vh.N(p.d)))
			}
		}
		its = append(its, vh.App("QCall", vh.App("mkqcall", mdCoq(q.md, nil), vh.HxS(q.method), msgsCoq(q.reqs),
			mdCoq(q.hdr, nil), vh.List(ph), mdCoq(q.trl, nil), vh.N(int(q.code)), vh.HxS(q.msg))))
	}
	return vh.List(its)
}

func (j *qjob) describe() []string {
	var out []string
	for _, it := range j.items {
		if it.call == nil {
			out = append(out, fmt.Sprintf("pause %ds", it.gap))
			continue
		}
		var ph []string
		for _, p := range it.call.phases {
			switch p.kind {
			case qHdr:
				ph = append(ph, "headers")
			case qMsg:
				ph = append(ph, fmt.Sprintf("message(%dB)", len(p.msg)))
			case qQuiet:
				ph = append(ph, fmt.Sprintf("quiet %ds", p.d))
			}
		}
		out = append(out, fmt.Sprintf("call %s: %s; status %d", it.call.method, strings.Join(ph, ", "), it.call.code))
	}
	return out
}

// run plays the history against the job's backend; cc is the caller's connection (to the
// proxy, or -- direct -- to the backend itself)
func (j *qjob) run(cc *grpc.ClientConn) {
	b := j.b
	observe := func(bvT, cvT string) {
		// what the backend's end of the connection does on its own time (the close after a GOAWAY) has happened by now
		time.Sleep(250 * time.Millisecond)
		j.obs = append(j.obs, vh.App("mkqobs", bvT, cvT, vh.N(int(atomic.LoadInt64(&b.kaPings))),
			vh.N(int(atomic.LoadInt64(&b.begins))), vh.N(int(atomic.LoadInt64(&b.ends)))))
	}
	for _, it := range j.items {
		if it.call == nil {
			time.Sleep(time.Duration(it.gap) * time.Second)
			observe(vh.None, "no_view")
			j.samples = append(j.samples, fmt.Sprintf("pause %ds: keepalive pings so far %d, connections begun/ended %d/%d", it.gap,
				atomic.LoadInt64(&b.kaPings), atomic.LoadInt64(&b.begins), atomic.LoadInt64(&b.ends)))
			continue
		}
		q := it.call
		total := 0
		for _, p := range q.phases {
			total += p.d
		}
		b.cur.Store(q)
		b.mu.Lock()
		b.recs = nil
		b.mu.Unlock()
		t0 := time.Now()
		cv, herr := doCallT(cc, kBidi, q.method, q.md, q.reqs, 0, time.Duration(total+25)*time.Second)
		took := time.Since(t0)
		if herr != "" {
			j.viol = append(j.viol, herr)
		}
		b.mu.Lock()
		recs := append([]*bview(nil), b.recs...)
		b.mu.Unlock()
		bvT := vh.None
		if len(recs) > 1 {
			j.viol = append(j.viol, fmt.Sprintf("one quiet call reached %d backend handlers", len(recs)))
		}
		if len(recs) >= 1 {
			rec := recs[0]
			select {
			case <-rec.done:
			case <-time.After(3 * time.Second):
				j.viol = append(j.viol, "backend handler of a quiet call still running 3 s after the caller saw the end of the call")
			}
			if !j.direct {
				bvT = vh.Some(vh.App("mkbview", vh.HxS(rec.method), mdCoq(rec.md, transportKeysBackend), msgsCoq(rec.msgs)))
			}
		}
		observe(bvT, cviewCoq(cv))
		j.samples = append(j.samples, fmt.Sprintf("call took %.1fs: caller saw %d message(s), status %d %q; keepalive pings so far %d, connections begun/ended %d/%d",
			took.Seconds(), len(cv.msgs), cv.code, cv.msg, atomic.LoadInt64(&b.kaPings), atomic.LoadInt64(&b.begins), atomic.LoadInt64(&b.ends)))
	}
}

type quietRun struct {
	jobs []*qjob
	d    *driver
	done chan struct{}
	err  string
}

// startQuiet launches the quiet histories in the background: the direct ones at once, those
// through the proxy as soon as their own instance of the real gRPC listener is up.
func startQuiet(run *vh.Run) *quietRun {
	r := rand.New(rand.NewSource(run.Seed*104729 + 16))
	qr := &quietRun{jobs: quietJobs(run, r), done: make(chan struct{})}
	qr.d = startDriver(false, 150)
	var wg sync.WaitGroup
	for _, j := range qr.jobs {
		j.b = startQBackend(j)
	}
	for _, j := range qr.jobs {
		if !j.direct {
			continue
		}
		wg.Add(1)
		go func(j *qjob) {
			defer wg.Done()
			opts := []grpc.DialOption{grpc.WithTransportCredentials(insecure.NewCredentials()),
				grpc.WithDefaultCallOptions(grpc.ForceCodec(rawCodec{"proto"}))}
			if j.ka != nil {
				opts = append(opts, grpc.WithKeepaliveParams(keepalive.ClientParameters{Time: time.Duration(j.ka.time) * time.Second,
					Timeout: time.Duration(j.ka.timeout) * time.Second, PermitWithoutStream: j.ka.permit}))
			}
			cc, err := grpc.NewClient("passthrough:///"+j.b.addr, opts...)
			if err != nil {
				panic(err)
			}
			defer cc.Close()
			j.run(cc)
		}(j)
	}
	go func() {
		defer close(qr.done)
		<-qr.d.ready
		if qr.d.err != nil {
			tail := qr.d.logb.String()
			if len(tail) > 1500 {
				tail = tail[len(tail)-1500:]
			}
			qr.err = fmt.Sprintf("newGrpcProxy serve driver for the quiet calls failed: %v\n%s", qr.d.err, tail)
			wg.Wait()
			return
		}
		var sb strings.Builder
		for i, j := range qr.jobs {
			if !j.direct {
				if j.target != "" {
					fmt.Fprintf(&sb, "route add quiet%d /quiet.J%d/ %s\n", i, i, fmt.Sprintf(j.target, j.b.addr))
					continue
				}
				fmt.Fprintf(&sb, "route add quiet%d /quiet.J%d/ %s opts \"proto=grpc\"\n", i, i, j.b.url)
			}
		}
		if err := qr.d.post("/table", sb.String()); err != nil {
			qr.err = "quiet calls: driver rejected the table: " + err.Error()
			wg.Wait()
			return
		}
		for _, j := range qr.jobs {
			if j.direct {
				continue
			}
			wg.Add(1)
			go func(j *qjob) {
				defer wg.Done()
				cc, err := grpc.NewClient("passthrough:///"+qr.d.Plain.Addr, grpc.WithTransportCredentials(insecure.NewCredentials()),
					grpc.WithDefaultCallOptions(grpc.ForceCodec(rawCodec{"proto"})))
				if err != nil {
					panic(err)
				}
				defer cc.Close()
				j.run(cc)
			}(j)
		}
		wg.Wait()
	}()
	return qr
}

// collect waits for the histories and files them as cases
func (qr *quietRun) collect(run *vh.Run) {
	<-qr.done
	defer qr.d.stop()
	for _, j := range qr.jobs {
		j.b.srv.Stop()
	}
	if qr.err != "" {
		run.Violation(run.NextID(), qr.err, nil)
		return
	}
	for _, j := range qr.jobs {
		id := run.NextID()
		sample := map[string]interface{}{"via": map[bool]string{true: "a client of the harness (no proxy)", false: "the proxy (real newGrpcProxy listener)"}[j.direct],
			"history": j.describe(), "observed": j.samples}
		if j.direct && j.ka != nil {
			sample["client_keepalive"] = fmt.Sprintf("Time %ds Timeout %ds PermitWithoutStream %v", j.ka.time, j.ka.timeout, j.ka.permit)
		}
		if j.stock {
			sample["backend_policy"] = "stock (MinTime 5m, PermitWithoutStream false)"
		} else {
			sample["backend_policy"] = fmt.Sprintf("MinTime %ds PermitWithoutStream %v", j.polMin, j.polPermit)
		}
		for _, v := range j.viol {
			run.Violation(id, v, sample)
		}
		if len(j.obs) != len(j.items) {
			run.Violation(id, "harness: a quiet history was not played to its end", sample)
			continue
		}
		run.Add(j.class, vh.App("CQuiet", j.viaTerm(), j.polTerm(), j.itemsTerm(), vh.List(j.obs)), sample)
	}
}
