// Correspondence harness for C03 (most specific matching route): builds real
// routing tables with route.NewTable from generated `route add` lines, sends
// generated requests through the real Table.Lookup with each of the three
// matchers and glob matching enabled/disabled, and writes (table, request,
// selected route) for the Coq model and the brute-force specification to judge.
// Also ties the model's glob semantics to gobwas/glob and its ReverseHostPort
// to route.ReverseHostPort directly.
package main

import (
	"bytes"
	"crypto/tls"
	"encoding/json"
	"fmt"
	"math/rand"
	"net/http"
	"net/http/httptest"
	"net/url"
	"sort"
	"strconv"
	"strings"

	"github.com/fabiolb/fabio/admin/api"
	"github.com/fabiolb/fabio/route"
	"github.com/gobwas/glob"

	"verifharness/internal/vh"
)

const preamble = `From Coq Require Import List NArith Bool.
From Fabio Require Import Lib.Outcome Lib.Bytes Lib.Pack Model.Glob Model.Lookup Model.LookupCmd Check.C03.
Import ListNotations.
Local Open Scope N_scope.
`

type def struct {
	Host string // as written in the route add line (may contain upper case)
	Path string // begins with '/'
}

type request struct {
	Host string
	TLS  bool
	URI  string
}

var matcherNames = []string{"prefix", "iprefix", "glob"}

// one small glob cache shared by all lookups, so that the eviction path of
// route.GlobCache is exercised as well
var globCache = route.NewGlobCache(7)

func pick0(r *route.Route) *route.Target { return r.Targets[0] }

func mustAtoi(s string) int {
	n, err := strconv.Atoi(s)
	if err != nil {
		panic(err)
	}
	return n
}

// ---------- domain classification (mirrors Model.Glob.glob_domain / Model.Lookup.key_domain) ----------
func printable(s string) bool {
	for i := 0; i < len(s); i++ {
		if s[i] < 33 || s[i] > 126 {
			return false
		}
	}
	return true
}

func globDomain(s string) bool { return printable(s) && !strings.ContainsAny(s, "[{\\") }
func keyDomain(s string) bool {
	return globDomain(s) && !strings.ContainsAny(s, "[]") && !strings.HasPrefix(s, ":")
}
func hostDomain(s string) bool { return printable(s) && !strings.ContainsAny(s, "[]") }

// ---------- running the implementation ----------
func buildTable(defs []def) (route.Table, string, error) {
	var sb strings.Builder
	for i, d := range defs {
		fmt.Fprintf(&sb, "route add s%d %s%s http://h%d.internal:80/\n", i, d.Host, d.Path, i)
	}
	t, err := route.NewTable(bytes.NewBufferString(sb.String()))
	return t, sb.String(), err
}

// lookupImpl returns the id of the selected route (-1 = nil target) .
func lookupImpl(t route.Table, rq request, m int, globOff bool) (id int, panicked bool, pval interface{}) {
	req := &http.Request{Method: "GET", Host: rq.Host, URL: &url.URL{Path: rq.URI}, Header: http.Header{}}
	if rq.TLS {
		req.TLS = &tls.ConnectionState{}
	}
	var tg *route.Target
	panicked, pval = vh.Recover(func() {
		tg = t.Lookup(req, "", pick0, route.Matcher[matcherNames[m]], globCache, globOff)
	})
	if panicked {
		return -2, true, pval
	}
	if tg == nil {
		return -1, false, nil
	}
	n, err := strconv.Atoi(strings.TrimPrefix(tg.Service, "s"))
	if err != nil {
		return -3, false, nil
	}
	return n, false, nil
}

func coqDefs(defs []def) string {
	items := make([]string, len(defs))
	for i, d := range defs {
		items[i] = "(" + vh.HxS(d.Host) + ", " + vh.HxS(d.Path) + ", " + vh.N(i) + ")"
	}
	return vh.List(items)
}

// ---------- generators ----------
var labels = []string{"a", "b", "1", "ab", "a-b", "x1"}
var suffixes = []string{"x", "y.x", "foo.com", "b.y.x", "com"}

// low-byte labels: bytes in '!'..'*' and other bytes below the letters
var lowLabels = []string{"a!", "!", "a$b", "(x)", "a'", "%41", "a*", "1", "a+b", "x,y", "-", "a;b", "a=b", "&"}

func randHost(r *rand.Rand) string {
	n := r.Intn(3)
	parts := make([]string, 0, n+1)
	for i := 0; i < n; i++ {
		parts = append(parts, labels[r.Intn(len(labels))])
	}
	parts = append(parts, suffixes[r.Intn(len(suffixes))])
	return strings.Join(parts, ".")
}

func randCase(r *rand.Rand, s string) string {
	b := []byte(s)
	for i := range b {
		if b[i] >= 'a' && b[i] <= 'z' && r.Intn(3) == 0 {
			b[i] -= 32
		}
	}
	return string(b)
}

var ports = []string{"", "", "", ":80", ":443", ":8080", ":80", ":443"}

// the port suffix of a key / request host: mostly the table's own, sometimes any
func portFor(r *rand.Rand, tport string) string {
	if r.Intn(10) < 7 {
		return tport
	}
	return ports[r.Intn(len(ports))]
}

// a host key derived from host h so that it (often) matches h
func keyFor(r *rand.Rand, h string, tport string) string {
	ls := strings.Split(h, ".")
	k := ""
	switch r.Intn(14) {
	case 0, 1, 2: // exact
		k = h
	case 3, 4: // *.suffix
		i := r.Intn(len(ls))
		k = "*." + strings.Join(ls[i:], ".")
		if i == 0 && r.Intn(2) == 0 && len(ls) > 1 {
			k = "*." + strings.Join(ls[1:], ".")
		}
	case 5: // *suffix: the star may match the empty string
		i := r.Intn(len(ls))
		k = "*" + strings.Join(ls[i:], ".")
	case 6: // a.*.x
		if len(ls) >= 3 {
			k = ls[0] + ".*." + strings.Join(ls[2+r.Intn(len(ls)-2):], ".")
		} else {
			k = ls[0] + ".*"
		}
	case 7: // catch-all forms
		k = []string{"*", "**", "*.*", "*" + h[len(h)-1:]}[r.Intn(4)]
	case 8: // ? for a one-character label, or somewhere
		if len(ls[0]) == 1 && len(ls) > 1 {
			k = "?." + strings.Join(ls[1:], ".")
		} else {
			b := []byte(h)
			b[r.Intn(len(b))] = '?'
			k = string(b)
		}
	case 9: // a middle cut:  a*x
		i, j := r.Intn(len(h)+1), r.Intn(len(h)+1)
		if i > j {
			i, j = j, i
		}
		k = h[:i] + "*" + h[j:]
	case 10: // host-less
		return ""
	case 11: // sibling / child / parent host
		switch r.Intn(3) {
		case 0:
			k = labels[r.Intn(len(labels))] + "." + h
		case 1:
			if len(ls) > 1 {
				k = strings.Join(ls[1:], ".")
			} else {
				k = h
			}
		default:
			k = randHost(r)
		}
	case 12: // two stars
		i := r.Intn(len(ls))
		k = "*." + strings.Join(ls[i:], ".") + "*"
		if r.Intn(2) == 0 {
			k = "*" + strings.Join(ls[i:], ".*")
		}
	default:
		k = randHost(r)
	}
	k += portFor(r, tport)
	if r.Intn(6) == 0 {
		k = randCase(r, k)
	}
	return k
}

var pathBases = []string{"/foo/bar", "/foo/baz", "/fo", "/a/b/c", "/Foo/Bar", "/", "/ab"}

func pathsFor(r *rand.Rand, base string, n int) []string {
	var out []string
	for i := 0; i < n; i++ {
		p := base
		switch r.Intn(12) {
		case 0, 1, 2, 3: // a byte prefix of the base
			p = base[:1+r.Intn(len(base))]
		case 4:
			p = "/"
		case 5: // case variation of a prefix
			p = randCase(r, base[:1+r.Intn(len(base))])
			if r.Intn(2) == 0 {
				p = strings.ToUpper(p[:min(2, len(p))]) + p[min(2, len(p)):]
			}
		case 6: // extension
			p = base + []string{"/", "x", "/x", "/*"}[r.Intn(4)]
		case 7: // glob forms
			if len(base) < 2 {
				p = "/*"
			} else {
				b := []byte(base)
				b[1+r.Intn(len(b)-1)] = "*?"[r.Intn(2)]
				p = string(b)
			}
		case 8:
			p = base[:1+r.Intn(len(base))] + "*"
		case 9:
			p = pathBases[r.Intn(len(pathBases))]
		case 10:
			p = "/*" + base[r.Intn(len(base)):]
		default:
			p = base
		}
		out = append(out, p)
	}
	return out
}

func genTable(r *rand.Rand) (defs []def, focus string, base string, tport string) {
	focus = randHost(r)
	tport = ports[r.Intn(len(ports))]
	base = pathBases[r.Intn(len(pathBases))]
	nk := 1 + r.Intn(6)
	for i := 0; i < nk; i++ {
		h := focus
		if r.Intn(5) == 0 {
			h = randHost(r)
		}
		k := keyFor(r, h, tport)
		for _, p := range pathsFor(r, base, 1+r.Intn(5)) {
			defs = append(defs, def{k, p})
		}
	}
	// out-of-domain pattern syntax, rarely (excluded and counted)
	if r.Intn(60) == 0 {
		defs = append(defs, def{[]string{"[ab].x", "{a,b}.x", "a\\*.x"}[r.Intn(3)], "/"})
	}
	// a key with an empty port, rarely (region 5)
	if r.Intn(50) == 0 {
		defs = append(defs, def{focus + ":", "/"})
	}
	r.Shuffle(len(defs), func(i, j int) { defs[i], defs[j] = defs[j], defs[i] })
	return
}

func genRequest(r *rand.Rand, focus, base, tport string) request {
	h := focus
	switch r.Intn(10) {
	case 0:
		h = labels[r.Intn(len(labels))] + "." + focus
	case 1:
		h = randHost(r)
	case 2:
		if i := strings.IndexByte(focus, '.'); i >= 0 {
			h = focus[i+1:]
		}
	}
	h += portFor(r, tport)
	if r.Intn(4) == 0 {
		h = randCase(r, h)
	}
	if r.Intn(80) == 0 {
		h = focus + ":"
	}
	if r.Intn(150) == 0 {
		h = ""
	}
	u := base
	switch r.Intn(8) {
	case 0, 1:
		u = base + []string{"/", "/x", "x", "/bar/baz", "?"}[r.Intn(5)]
	case 2:
		u = base[:1+r.Intn(len(base))]
	case 3:
		u = randCase(r, base) + []string{"", "/q"}[r.Intn(2)]
	case 4:
		u = pathBases[r.Intn(len(pathBases))] + []string{"", "/z"}[r.Intn(2)]
	case 5:
		u = strings.ToLower(base) + "/bar"
	}
	if r.Intn(12) == 0 { // glob metacharacters in the request path are plain bytes
		u = []string{base + "/*", "/*", base + "*", "/f?o", base[:1+r.Intn(len(base))] + "?", "/foo/*/baz", "*"}[r.Intn(7)]
	}
	tls := r.Intn(4) == 0
	if tport == ":443" {
		tls = r.Intn(4) != 0
	}
	return request{Host: h, TLS: tls, URI: u}
}

func main() {
	run := vh.Start("C03")
	r := run.Rng

	nLookups := 0
	addLookup := func(class string, defs []def, rq request, m int, globOff bool) {
		for _, d := range defs {
			// with glob matching disabled a host key is a literal name: brackets (IPv6 literals) are modelled there
			okKey := keyDomain(d.Host)
			if globOff {
				okKey = printable(d.Host) && !strings.HasPrefix(d.Host, ":")
			}
			if !okKey || !globDomain(d.Path) {
				run.Exclude("route host/path with class, alternation or escape syntax (outside the glob model)")
				return
			}
		}
		if !printable(rq.Host) || !printable(rq.URI) {
			run.Exclude("request host/path outside printable ASCII")
			return
		}
		t, text, err := buildTable(defs)
		if err != nil {
			run.Exclude("route.NewTable rejected the generated table")
			return
		}
		// every third table is published and READ before the lookup - the admin API's route listing
		// (what the UI's routes page calls), Table.String, Table.Dump: a reader leaves the table,
		// and with it the order in which routes are tried, as it is
		nLookups++
		if nLookups%3 == 0 {
			route.SetTable(t)
			(&api.RoutesHandler{}).ServeHTTP(httptest.NewRecorder(), httptest.NewRequest("GET", "/api/routes", nil))
			_ = t.String()
			_ = t.Dump()
		}
		id, panicked, pval := lookupImpl(t, rq, m, globOff)
		sample := map[string]interface{}{"table": strings.Split(strings.TrimSpace(text), "\n"), "host": rq.Host, "tls": rq.TLS,
			"path": rq.URI, "matcher": matcherNames[m], "glob_disabled": globOff, "selected": id}
		if panicked {
			run.Violation(run.NextID(), fmt.Sprintf("Table.Lookup panicked on an in-domain table: %v", pval), sample)
			return
		}
		if id == -3 {
			run.Violation(run.NextID(), "Table.Lookup returned a target that is not in the table", sample)
			return
		}
		impl := vh.None
		if id >= 0 {
			impl = vh.Some(vh.N(id))
			sample["selected_route"] = defs[id].Host + defs[id].Path
		}
		run.Add(class, vh.App("CLookup", coqDefs(defs), vh.HxS(rq.Host), vh.Bool(rq.TLS), vh.HxS(rq.URI), vh.N(m), vh.Bool(globOff), impl), sample)
	}

	// 1. random tables and requests, all matchers x glob on/off
	nTables := run.Scale(700, 16000)
	for i := 0; i < nTables; i++ {
		defs, focus, base, tport := genTable(r)
		tm := []int{0, 0, 1, 2, 2}[r.Intn(5)]
		if tm == 2 { // a table meant for the glob matcher: many paths end in a star
			for k := range defs {
				if r.Intn(2) == 0 && !strings.ContainsAny(defs[k].Path, "*?") {
					defs[k].Path += "*"
				}
			}
		}
		for k := 0; k < 5; k++ {
			rq := genRequest(r, focus, base, tport)
			m := tm
			if r.Intn(4) == 0 {
				m = []int{0, 0, 1, 2, 2}[r.Intn(5)]
			}
			globOff := r.Intn(4) == 0
			addLookup("random/"+matcherNames[m]+map[bool]string{false: "/glob-on", true: "/glob-off"}[globOff], defs, rq, m, globOff)
		}
	}

	// 1b. the same with host labels made of low bytes ('!'..'*' sort at or below the glob
	// metacharacters, digits and '-' below '?')
	{
		saved := labels
		labels = lowLabels
		for i := 0; i < run.Scale(120, 4000); i++ {
			defs, focus, base, tport := genTable(r)
			for k := 0; k < 4; k++ {
				rq := genRequest(r, focus, base, tport)
				addLookup("low-byte-hosts", defs, rq, []int{0, 0, 1, 2}[r.Intn(4)], r.Intn(6) == 0)
			}
		}
		labels = saved
	}

	// 1b'. IPv6 literals (own random stream): bracketed host keys with and without default and
	// other ports under glob-off (literal keys), request hosts [addr], [addr]:80, [addr]:443,
	// [addr]:8080, upper-case hex, the bare address, zone ids; under glob-on the same requests
	// against wildcard / exact / host-less keys without brackets
	{
		r6 := rand.New(rand.NewSource(run.Seed*7477 + 5))
		addrs := []string{"::1", "2001:db8::1", "2001:db8::2", "fe80::1%eth0", "::ffff:10.0.0.1", "2001:DB8::A"}
		reqForms := func(a string) []string {
			return []string{"[" + a + "]", "[" + a + "]:80", "[" + a + "]:443", "[" + a + "]:8080", "[" + strings.ToUpper(a) + "]:80",
				a, "[" + a + "]:", "[" + a, a + "]:80", "[" + a + "]:80:80", "[[" + a + "]]:80"}
		}
		paths := []string{"/", "/foo", "/foo/bar"}
		n6 := run.Scale(60, 1500)
		for i := 0; i < n6; i++ {
			a := addrs[r6.Intn(len(addrs))]
			b := addrs[r6.Intn(len(addrs))]
			var defs []def
			globOff := i%3 != 2
			if globOff {
				keys := []string{"[" + a + "]", "[" + a + "]:80", "[" + a + "]:443", "[" + b + "]:8080", "[" + strings.ToUpper(b) + "]", "", a, "x.com"}
				r6.Shuffle(len(keys), func(x, y int) { keys[x], keys[y] = keys[y], keys[x] })
				for _, k := range keys[:2+r6.Intn(5)] {
					for _, p := range paths[:1+r6.Intn(3)] {
						defs = append(defs, def{Host: k, Path: p})
					}
				}
			} else {
				keys := []string{"*", "*:80", "*:8080", "", "x.com", "*1*", "*:443"}
				r6.Shuffle(len(keys), func(x, y int) { keys[x], keys[y] = keys[y], keys[x] })
				for _, k := range keys[:2+r6.Intn(4)] {
					for _, p := range paths[:1+r6.Intn(3)] {
						defs = append(defs, def{Host: k, Path: p})
					}
				}
			}
			forms := reqForms(a)
			for k := 0; k < 4; k++ {
				h := forms[r6.Intn(len(forms))]
				if k == 0 { // the form the class is about: literal with the default port of the connection
					h = "[" + a + "]" + []string{":80", ":443"}[i%2]
				}
				rq := request{Host: h, TLS: (i+k)%2 == 1, URI: []string{"/", "/foo/bar", "/x"}[r6.Intn(3)]}
				addLookup("ipv6-literal-hosts/"+map[bool]string{false: "glob-on", true: "glob-off"}[globOff], defs, rq, []int{0, 0, 1}[r6.Intn(3)], globOff)
			}
		}
	}

	// 1c. the [n == 0 -> nil] branch of Table.lookup: routes emptied by hand
	for i := 0; i < run.Scale(60, 1500); i++ {
		defs, focus, base, tport := genTable(r)
		ok := true
		for _, d := range defs {
			ok = ok && keyDomain(d.Host) && globDomain(d.Path)
		}
		t, _, err := buildTable(defs)
		if !ok || err != nil {
			continue
		}
		var zeros []string
		for _, rs := range t {
			for _, rt := range rs {
				if r.Intn(3) == 0 {
					zeros = append(zeros, vh.N(mustAtoi(strings.TrimPrefix(rt.Targets[0].Service, "s"))))
					rt.Targets = nil
				}
			}
		}
		for k := 0; k < 3; k++ {
			rq := genRequest(r, focus, base, tport)
			if !hostDomain(rq.Host) || !printable(rq.URI) {
				continue
			}
			m := []int{0, 1, 2}[r.Intn(3)]
			off := r.Intn(5) == 0
			id, panicked, _ := lookupImpl(t, rq, m, off)
			if panicked {
				run.Violation(run.NextID(), "Table.Lookup panicked on a table with a target-less route", map[string]interface{}{"host": rq.Host})
				continue
			}
			impl := vh.None
			if id >= 0 {
				impl = vh.Some(vh.N(id))
			}
			run.Add("targetless-branch", vh.App("CLookupT", coqDefs(defs), vh.List(zeros), vh.HxS(rq.Host), vh.Bool(rq.TLS), vh.HxS(rq.URI), vh.N(m), vh.Bool(off), impl),
				map[string]interface{}{"emptied": zeros, "host": rq.Host, "path": rq.URI, "selected": id})
		}
	}

	// 1d. non-ASCII hosts through Table.Lookup (outside the ASCII model: fixed expectations,
	// judged on the Go side only)
	{
		type na struct {
			defs []def
			host string
			want int
		}
		cases := []na{
			{[]def{{"b\u00fccher.example", "/"}, {"*.example", "/"}, {"", "/"}}, "b\u00fccher.example", 0},
			{[]def{{"b\u00fccher.example", "/"}, {"*.example", "/"}, {"", "/"}}, "B\u00dcCHER.EXAMPLE", 0},
			{[]def{{"b\u00fccher.example", "/"}, {"*.example", "/"}, {"", "/"}}, "x.b\u00fccher.example", 1},
			{[]def{{"*.b\u00fccher.example", "/"}, {"*.example", "/"}, {"*", "/"}}, "x.B\u00fccher.example:80", 0},
			{[]def{{"*.\u65e5\u672c", "/"}, {"*\u672c", "/"}, {"*", "/"}}, "a.\u65e5\u672c", 0},
			{[]def{{"?.\u65e5\u672c", "/"}, {"a.\u65e5\u672c", "/"}}, "a.\u65e5\u672c", 1},
			{[]def{{"B\u00dcCHER.example", "/"}, {"", "/"}}, "b\u00fccher.example", 0},
			{[]def{{"b\u00fccher.example", "/"}, {"", "/"}}, "bucher.example", 1},
		}
		n := 0
		for _, c := range cases {
			for _, off := range []bool{false, true} {
				t, _, err := buildTable(c.defs)
				if err != nil {
					continue
				}
				id, panicked, _ := lookupImpl(t, request{c.host, false, "/x"}, 0, off)
				want := c.want
				if off && strings.ContainsAny(c.defs[want].Host, "*?") { // patterns are literal names with glob matching disabled
					want = len(c.defs) - 1
					if c.defs[want].Host != "" {
						want = -1
					}
				}
				n++
				if panicked || id != want {
					run.Violation(-1, fmt.Sprintf("non-ASCII host: Table.Lookup selected route %d, expected %d", id, want),
						map[string]interface{}{"table": fmt.Sprintf("%q", c.defs), "host": c.host, "glob_disabled": off})
				}
			}
		}
		run.Notes["non_ascii_lookup_cases_checked"] = n
	}

	// 1e. non-ASCII paths under the case-insensitive matcher (outside the ASCII model, judged on
	// the Go side only): "matches case-insensitively" is strings.ToLower on both sides, also for
	// letters whose two cases differ in UTF-8 length (U+0130, U+1E9E, U+212A): routes / and P on
	// one host, the request must be answered by P exactly when its lower-cased path starts with
	// lower-cased P, by / otherwise; under the prefix matcher only byte-wise prefixes count
	{
		pairs := [][2]string{
			{"/\u0130stanbul", "/istanbul/hotels"}, {"/istanbul", "/\u0130STANBUL/hotels"}, {"/STRA\u1E9EE", "/stra\u00dfe/12"},
			{"/stra\u00dfe", "/STRA\u1E9EE/12"}, {"/\u00c4pfel", "/\u00e4PFEL/x"}, {"/\u212Aelvin", "/kelvin/x"}, {"/kelvin", "/\u212AELVIN/x"},
			{"/caf\u00e9", "/CAF\u00c9/x"}, {"/\u0130stanbul", "/\u0131stanbul/x"}, {"/\u0130stanbul", "/\u0130stanbul/hotels"},
			{"/\u03a3\u03a3", "/\u03c3\u03c2/x"}, {"/\u01c5x", "/\u01c6X/y"}, {"/a\u0130", "/ai/x"}, {"/a\u0130b", "/aib"}, {"/a\u0130b", "/ai"},
		}
		n, hit, lenDiff := 0, 0, 0
		for _, pr := range pairs {
			for m := 0; m < 2; m++ {
				defs := []def{{"city.example", "/"}, {"city.example", pr[0]}}
				t, _, err := buildTable(defs)
				if err != nil {
					continue
				}
				want := 0
				if m == 1 && strings.HasPrefix(strings.ToLower(pr[1]), strings.ToLower(pr[0])) || m == 0 && strings.HasPrefix(pr[1], pr[0]) {
					want = 1
					if m == 1 {
						hit++
						if len(strings.ToLower(pr[0])) != len(pr[0]) || len(strings.ToLower(pr[1])) != len(pr[1]) {
							lenDiff++
						}
					}
				}
				id, panicked, _ := lookupImpl(t, request{"city.example", false, pr[1]}, m, false)
				n++
				if panicked || id != want {
					run.Violation(-1, fmt.Sprintf("non-ASCII path, matcher %s: Table.Lookup selected route %d, expected %d (the longest route path the request path starts with%s)",
						matcherNames[m], id, want, map[int]string{0: "", 1: ", compared in lower case"}[m]),
						map[string]interface{}{"routes": []string{"city.example/", "city.example" + pr[0]}, "request_path": pr[1], "panicked": panicked})
				}
			}
		}
		if hit < 8 || lenDiff < 4 {
			run.Violation(-1, "non-ASCII path class lost its subject: too few pairs match case-insensitively / change length when lower-cased", map[string]int{"match": hit, "length_changing": lenDiff})
		}
		run.Notes["non_ascii_path_cases_checked"] = n
	}

	// 2. directed: every ordering clause with two competing routes, both orders of definition
	type dcase struct {
		name string
		defs []def
		rq   request
		m    int
		off  bool
	}
	directed := []dcase{
		{"exact-vs-wildcard", []def{{"*.foo.com", "/"}, {"a.foo.com", "/"}}, request{"a.foo.com", false, "/x"}, 0, false},
		{"longer-suffix", []def{{"*.foo.com", "/"}, {"*.a.foo.com", "/"}}, request{"b.a.foo.com", false, "/x"}, 0, false},
		{"longer-suffix-3", []def{{"*.com", "/"}, {"*.a.foo.com", "/"}, {"*.foo.com", "/"}, {"*", "/"}}, request{"B.A.FOO.COM", false, "/x"}, 0, false},
		{"hostless-last", []def{{"", "/"}, {"*.foo.com", "/"}}, request{"a.foo.com", false, "/x"}, 0, false},
		{"hostless-fallback", []def{{"", "/"}, {"*.foo.com", "/foo"}}, request{"a.foo.com", false, "/x"}, 0, false},
		{"longest-path", []def{{"foo.com", "/"}, {"foo.com", "/foo"}, {"foo.com", "/foo/bar"}, {"foo.com", "/fo"}}, request{"foo.com", false, "/foo/bar/baz"}, 0, false},
		{"longest-path-iprefix-lower", []def{{"foo.com", "/"}, {"foo.com", "/foo"}, {"foo.com", "/foo/bar"}}, request{"foo.com", false, "/FOO/Bar/baz"}, 1, false},
		{"port-80-stripped", []def{{"foo.com", "/"}, {"foo.com:80", "/foo"}}, request{"foo.com:80", false, "/x"}, 0, false},
		{"port-443-tls-stripped", []def{{"foo.com", "/"}, {"*.com", "/"}}, request{"foo.com:443", true, "/x"}, 0, false},
		{"port-443-not-stripped-without-tls", []def{{"foo.com", "/"}, {"*", "/"}}, request{"foo.com:443", false, "/x"}, 0, false},
		{"port-80-not-stripped-with-tls", []def{{"foo.com", "/"}, {"*", "/"}}, request{"foo.com:80", true, "/x"}, 0, false},
		{"port-other", []def{{"foo.com:8080", "/"}, {"*:8080", "/"}, {"foo.com", "/"}}, request{"foo.com:8080", false, "/x"}, 0, false},
		{"glob-off-literal-star", []def{{"*.foo.com", "/"}, {"a.foo.com", "/"}, {"", "/"}}, request{"b.foo.com", false, "/x"}, 0, true},
		{"glob-off-two-keys", []def{{"foo.com:80", "/"}, {"foo.com", "/a"}}, request{"foo.com", false, "/x"}, 0, true},
		{"glob-path", []def{{"foo.com", "/foo/*"}, {"foo.com", "/*/bar"}, {"foo.com", "/"}}, request{"foo.com", false, "/foo/bar"}, 2, false},
		{"upper-case-route-host", []def{{"FOO.com", "/"}, {"*.COM", "/"}}, request{"foo.COM", false, "/x"}, 0, false},
		// upper-case Host with glob matching disabled (F-C03-1, repaired by 3f5e3c8) and the open defects, in their pure form
		{"upper-host-glob-off-fixed-3f5e3c8", []def{{"foo.com", "/"}}, request{"FOO.com", false, "/"}, 0, true},
		{"upper-host-glob-off-fixed-3f5e3c8", []def{{"foo.com", "/"}, {"", "/"}}, request{"Foo.com", false, "/"}, 0, true},
		{"iprefix-shorter-first-fixed-c1f03c0", []def{{"", "/fo"}, {"", "/Foo"}}, request{"foo.com", false, "/foo/bar"}, 1, false},
		{"qmark-before-exact-fixed-bc98e3c", []def{{"?.foo.com", "/"}, {"1.foo.com", "/"}}, request{"1.foo.com", false, "/"}, 0, false},
		{"empty-star-before-exact-fixed-bc98e3c", []def{{"*foo.com", "/"}, {"foo.com", "/"}}, request{"foo.com", false, "/"}, 0, false},
		{"F3-star-before-longer-suffix-low-byte", []def{{"*.x", "/"}, {"*!.x", "/"}}, request{"a!.x", false, "/"}, 0, false},
		{"F3-star-before-longer-suffix-low-byte", []def{{"*.y.x", "/"}, {"*(a).y.x", "/"}, {"*", "/"}}, request{"b(a).y.x", false, "/"}, 0, false},
		{"star-after-longer-suffix-plus", []def{{"*.x", "/"}, {"*+.x", "/"}}, request{"a+.x", false, "/"}, 0, false},
		{"F3-qmark-before-longer-suffix", []def{{"?.foo.com", "/"}, {"*1.foo.com", "/"}}, request{"1.foo.com", false, "/"}, 0, false},
		{"F3-qmark-before-longer-suffix", []def{{"?.y.x", "/"}, {"*1.y.x", "/"}, {"*", "/"}}, request{"1.y.x", false, "/"}, 0, false},
		{"qmark-after-longer-suffix-letter", []def{{"?.y.x", "/"}, {"*b.y.x", "/"}}, request{"b.y.x", false, "/"}, 0, false},
		{"empty-host-hostless-after-wildcard-fixed-1814501", []def{{"", "/"}, {"*", "/"}}, request{"", false, "/"}, 0, false},
		{"empty-host-hostless-after-wildcard-fixed-1814501", []def{{"", "/"}, {"**:443", "/"}, {"*", "/x"}}, request{":443", true, "/"}, 0, false},
		{"empty-host-glob-off", []def{{"", "/"}, {"*", "/"}}, request{"", false, "/"}, 0, true},
		{"iprefix-case-variants", []def{{"foo.com", "/foo"}, {"foo.com", "/FOO"}, {"foo.com", "/Foo/b"}, {"foo.com", "/fOO/B"}, {"foo.com", "/fo"}}, request{"foo.com", false, "/foo/bar"}, 1, false},
		{"prefix-case-variants", []def{{"foo.com", "/foo"}, {"foo.com", "/FOO"}, {"foo.com", "/Foo/b"}, {"foo.com", "/fOO/B"}, {"foo.com", "/fo"}}, request{"foo.com", false, "/FOO/bar"}, 0, false},
		{"exact-with-port-vs-pattern", []def{{"*a.y.x", "/"}, {"a.y.x:80", "/"}, {"?.y.x", "/"}}, request{"a.y.x", false, "/"}, 0, false},
		{"colon-key-kept-fixed-cf1c479", []def{{"foo.com:", "/"}, {"foo.com", "/"}, {"*", "/"}}, request{"foo.com:", false, "/"}, 0, false},
		{"colon-key-kept-fixed-cf1c479", []def{{"foo.com:", "/"}, {"*", "/"}}, request{"foo.com:", false, "/"}, 0, false},
		{"F6-gobwas-prefix-suffix-overlap", []def{{"b.*.com", "/"}}, request{"b.com", false, "/"}, 0, false},
		{"F6-gobwas-prefix-suffix-overlap", []def{{"foo.com", "/*/"}}, request{"foo.com", false, "/"}, 2, false},
		{"F6-gobwas-single-qmark-empty", []def{{"?", "/"}}, request{"", false, "/"}, 0, false},
	}
	for _, d := range directed {
		addLookup("directed/"+d.name, d.defs, d.rq, d.m, d.off)
		rev := make([]def, len(d.defs))
		for i := range d.defs {
			rev[len(d.defs)-1-i] = d.defs[i]
		}
		addLookup("directed/"+d.name, rev, d.rq, d.m, d.off)
	}

	// 2a. every pair of host keys from a fixed pattern set against every host of a fixed set:
	// systematic coverage of the pairwise host order (definition order alternates)
	{
		pats := []string{"a.y.x", "y.x", "*.y.x", "*.x", "*y.x", "*a.y.x", "a.*.x", "a.*", "*", "*.a.y.x",
			"?.y.x", "a.y.x:80", "*.y.x:80", "*.y.x:8080", "", "1.y.x", "*.Y.x:443", "a.y.x:443"}
		hosts := []request{{"a.y.x", false, "/"}, {"b.a.y.x", false, "/"}, {"y.x", false, "/"}, {"A.Y.X", false, "/"},
			{"a.y.x:80", false, "/"}, {"a.y.x:8080", false, "/"}, {"1.y.x", false, "/"}, {"a.y.x:443", true, "/"}, {"a.y.x:80", true, "/"}}
		n := 0
		for i := 0; i < len(pats); i++ {
			for j := i + 1; j < len(pats); j++ {
				for _, rq := range hosts {
					defs := []def{{pats[i], "/"}, {pats[j], "/"}}
					if n%2 == 1 {
						defs[0], defs[1] = defs[1], defs[0]
					}
					n++
					off := n%11 == 0
					addLookup("pairwise-host-order", defs, rq, 0, off)
				}
			}
		}
	}

	// 2b. alternation is outside the glob model; its ordering defect is observed on the real code alone
	{
		defs := []def{{"{a,b}.foo.com", "/"}, {"a.foo.com", "/"}}
		if t, _, err := buildTable(defs); err == nil {
			id, panicked, _ := lookupImpl(t, request{"a.foo.com", false, "/"}, 0, false)
			if !panicked && id == 0 {
				run.Violation(-1, "alternation host pattern {a,b}.foo.com is tried before the exact host a.foo.com",
					map[string]interface{}{"table": []string{"{a,b}.foo.com/", "a.foo.com/"}, "host": "a.foo.com", "selected": "{a,b}.foo.com/"})
			}
		}
	}

	// 2b'. alternation `{a,b}` and backslash escapes in host keys THROUGH Table.Lookup (own random
	// stream).  Both are glob syntax of gobwas/glob and outside the Coq glob model, so the class is
	// judged on the Go side, by brute force over the routes and with gobwas/glob's own verdict on
	// the normalised key / host (lower case, default port of the connection removed): a route is a
	// candidate when its key is empty or matches (glob matching disabled: equals) the host and the
	// request path starts with its path; the expected route is the candidate of the best rank
	// (host without glob syntax > pattern > host-less) with the longest path.  Every table has at
	// most one matching pattern key, so the expectation is unique.
	{
		rb := rand.New(rand.NewSource(run.Seed*7919 + 8))
		norm := func(h string, tls bool) string {
			if !tls && strings.HasSuffix(h, ":80") {
				h = h[:len(h)-3]
			} else if tls && strings.HasSuffix(h, ":443") {
				h = h[:len(h)-4]
			}
			return strings.ToLower(h)
		}
		isPattern := func(k string) bool { return strings.ContainsAny(k, "*?[{\\") }
		focuses := []string{"shop.example.com", "www.example.com", "a.foo.com", "eu-api.b.x"}
		others := []string{"blog", "zz", "x1", "m"}
		paths := []string{"/", "/foo", "/foo/bar"}
		uris := []string{"/", "/foo/x", "/foo/bar/baz", "/x", "/foo"}
		nb := run.Scale(260, 4000)
		checked, byPattern, overExact, noRoute, failed := 0, 0, 0, 0, 0
		for i := 0; i < nb; i++ {
			h := focuses[rb.Intn(len(focuses))]
			dot := strings.IndexByte(h, '.')
			l0, rest := h[:dot], h[dot+1:]
			o := others[rb.Intn(len(others))]
			var pat string
			switch rb.Intn(11) {
			case 0:
				pat = "{" + l0 + "," + o + "}." + rest
			case 1:
				pat = "{" + o + "," + l0 + "}." + rest
			case 2: // alternation in a later label
				d2 := strings.IndexByte(rest, '.')
				pat = l0 + ".{" + o + "," + rest[:d2] + "}" + rest[d2:]
			case 3: // escaped dots
				pat = strings.ReplaceAll(h, ".", "\\.")
			case 4: // an escaped letter
				k := rb.Intn(len(h))
				pat = h[:k] + "\\" + h[k:]
			case 5: // whole names as alternatives
				pat = "{" + o + "." + rest + "," + h + "}"
			case 6: // alternation and escape together
				pat = "{" + o + "," + l0 + "}\\." + rest
			case 7: // three alternatives, one of them the empty string
				pat = l0 + "{,-" + o + ",x}." + rest
			case 8: // an alternative with a wildcard: has '*' too
				pat = "{*." + rest + "," + o + "}"
			case 9: // an escaped metacharacter that must stay literal: matches only the literal name
				pat = "\\*." + rest
			default: // two alternations
				d2 := strings.IndexByte(rest, '.')
				pat = "{" + l0 + "," + o + "}.{" + rest[:d2] + "," + o + "}" + rest[d2:]
			}
			tls := rb.Intn(5) == 0
			if rb.Intn(5) == 0 {
				pat += map[bool]string{false: ":80", true: ":443"}[tls]
			}
			if rb.Intn(5) == 0 {
				pat = strings.ToUpper(pat[:len(pat)/2]) + pat[len(pat)/2:]
			}
			seen := map[string]bool{}
			var defs []def
			add := func(k string, ps ...string) {
				for _, p := range ps {
					if id := strings.ToLower(k) + " " + p; !seen[id] {
						seen[id] = true
						defs = append(defs, def{k, p})
					}
				}
			}
			add(pat, paths[rb.Intn(len(paths))])
			if rb.Intn(2) == 0 {
				add(pat, paths[rb.Intn(len(paths))])
			}
			if rb.Intn(3) == 0 { // the exact host, often without a route for every path
				add(h, paths[rb.Intn(len(paths))])
			}
			if rb.Intn(2) == 0 { // host-less catch-all
				add("", paths[rb.Intn(2)])
			}
			if rb.Intn(2) == 0 { // decoys that do not match the focus host
				add([]string{"{" + o + ",yy}." + rest, "yy\\." + rest, o + "." + rest, "{" + l0 + "}.other.org", "*.example.org"}[rb.Intn(5)], "/")
			}
			rb.Shuffle(len(defs), func(a, b int) { defs[a], defs[b] = defs[b], defs[a] })
			rh := h
			if rb.Intn(6) == 0 {
				rh = o + "." + rest
			}
			if rb.Intn(3) == 0 {
				rh = randCase(rb, rh)
			}
			if rb.Intn(4) == 0 {
				rh += map[bool]string{false: ":80", true: ":443"}[tls]
			}
			rq := request{rh, tls, uris[rb.Intn(len(uris))]}
			off := rb.Intn(8) == 0
			t, text, err := buildTable(defs)
			if err != nil {
				run.Exclude("route.NewTable rejected a table with alternation / escape host keys")
				continue
			}
			// the oracle
			nh := norm(rq.Host, rq.TLS)
			best, bestRank, matchingPatterns, broken := -1, -1, map[string]bool{}, false
			for id, d := range defs {
				rank := 0
				if d.Host != "" {
					key := strings.ToLower(d.Host) // addRoute lower-cases the key
					if _, present := t[key]; !present {
						broken = true
					}
					nk := norm(key, rq.TLS)
					if off {
						if nk != nh {
							continue
						}
						rank = 2
					} else {
						g, gerr := glob.Compile(nk)
						if gerr != nil {
							broken = true
							continue
						}
						if !g.Match(nh) {
							continue
						}
						rank = 2
						if isPattern(key) {
							rank = 1
							matchingPatterns[key] = true
						}
					}
				}
				if !strings.HasPrefix(rq.URI, d.Path) {
					continue
				}
				if rank > bestRank || rank == bestRank && len(d.Path) > len(defs[best].Path) {
					best, bestRank = id, rank
				}
			}
			if broken || len(matchingPatterns) > 1 {
				run.Exclude("alternation / escape host key not stored as written, or two matching pattern keys")
				continue
			}
			id, panicked, pval := lookupImpl(t, rq, 0, off)
			checked++
			switch {
			case best < 0:
				noRoute++
			case bestRank == 1:
				byPattern++
			case bestRank == 2 && len(matchingPatterns) == 1:
				overExact++
			}
			if panicked || id != best {
				sel, want := "nil", "nil"
				if id >= 0 && id < len(defs) {
					sel = defs[id].Host + defs[id].Path
				}
				if best >= 0 {
					want = defs[best].Host + defs[best].Path
				}
				if failed++; failed > 5 {
					continue
				}
				run.Violation(-1, fmt.Sprintf("alternation/escape host pattern: Table.Lookup selected %s, expected %s (the most specific candidate by gobwas/glob's own verdict on the host keys)", sel, want),
					map[string]interface{}{"table": strings.Split(strings.TrimSpace(text), "\n"), "host": rq.Host, "tls": rq.TLS, "path": rq.URI, "glob_disabled": off, "panicked": panicked, "panic": fmt.Sprint(pval)})
			}
		}
		if checked < nb/2 || byPattern < nb/5 || overExact < 3 || noRoute < 3 {
			run.Violation(-1, "alternation/escape host class lost its subject: too few cases answered by a pattern key / by the exact host next to a matching pattern / by nil",
				map[string]int{"checked": checked, "by_pattern": byPattern, "exact_over_pattern": overExact, "no_route": noRoute})
		}
		run.Notes["alternation_escape_lookup_cases_checked"] = checked
		run.Notes["alternation_escape_answered_by_pattern_key"] = byPattern
	}

	// 2c. Table.LookupHost (TCP/SNI routing): exact key, path "/", prefix matcher
	for i := 0; i < run.Scale(120, 3000); i++ {
		defs, focus, _, tport := genTable(r)
		ok := true
		for _, d := range defs {
			ok = ok && keyDomain(d.Host) && globDomain(d.Path)
		}
		if !ok {
			run.Exclude("route host/path with class, alternation or escape syntax (outside the glob model)")
			continue
		}
		t, text, err := buildTable(defs)
		if err != nil {
			run.Exclude("route.NewTable rejected the generated table")
			continue
		}
		h := focus + portFor(r, tport)
		switch r.Intn(4) {
		case 0:
			h = defs[r.Intn(len(defs))].Host
		case 1:
			h = randCase(r, defs[r.Intn(len(defs))].Host)
		case 2:
			h = randCase(r, h)
		}
		if !hostDomain(h) {
			continue
		}
		var tg *route.Target
		if p, v := vh.Recover(func() { tg = t.LookupHost(h, pick0) }); p {
			run.Violation(run.NextID(), fmt.Sprintf("Table.LookupHost panicked: %v", v), map[string]interface{}{"table": text, "host": h})
			continue
		}
		impl, sel := vh.None, -1
		if tg != nil {
			sel, _ = strconv.Atoi(strings.TrimPrefix(tg.Service, "s"))
			impl = vh.Some(vh.N(sel))
		}
		run.Add("lookup-host", vh.App("CLookupHost", coqDefs(defs), vh.HxS(h), impl),
			map[string]interface{}{"table": strings.Split(strings.TrimSpace(text), "\n"), "host": h, "selected": sel})
	}

	// 2e. tables built by command SEQUENCES: adds, then del / weight commands with mixed-case
	// hosts and tag selectors, possibly more adds; requests under the deleted paths
	{
		type cmd struct {
			kind          int // 0 add 1 del 2 weight
			svc, src, dst string
			wk, wd        int
			tags          []string
		}
		text := func(c cmd) string {
			tg := ""
			if len(c.tags) > 0 {
				tg = ` tags "` + strings.Join(c.tags, ",") + `"`
			}
			switch c.kind {
			case 0:
				return "route add " + c.svc + " " + c.src + " " + c.dst + tg
			case 1:
				l := "route del"
				for _, f := range []string{c.svc, c.src, c.dst} {
					if f != "" {
						l += " " + f
					}
				}
				return l + tg
			default:
				w := fmt.Sprintf("0.%0*d", c.wd, c.wk)
				if c.svc != "" {
					return "route weight " + c.svc + " " + c.src + " weight " + w + tg
				}
				return "route weight " + c.src + " weight " + w + tg
			}
		}
		coqCmd := func(c cmd) string {
			tags := make([]string, len(c.tags))
			for i := range c.tags {
				tags[i] = vh.HxS(c.tags[i])
			}
			return "(" + strings.Join([]string{vh.N(c.kind), vh.HxS(c.svc), vh.HxS(c.src), vh.HxS(c.dst),
				"(" + vh.N(c.wk) + ", " + vh.N(c.wd) + ")", vh.List(tags)}, ", ") + ")"
		}
		// custom: the same commands handed to route.NewTableCustom as a RouteDef list that went
		// through JSON, as the custom registry backend receives it (registry/custom/custom.go)
		addCmdCase := func(class string, cmds []cmd, rq request, m int, globOff bool, custom bool) {
			for _, c := range cmds {
				if c.src == "" {
					continue
				}
				h, p := c.src, "/"
				if i := strings.IndexByte(c.src, '/'); i >= 0 {
					h, p = c.src[:i], c.src[i:]
				}
				if !keyDomain(h) || !globDomain(p) {
					run.Exclude("route host/path with class, alternation or escape syntax (outside the glob model)")
					return
				}
			}
			lines := make([]string, len(cmds))
			items := make([]string, len(cmds))
			for i, c := range cmds {
				lines[i], items[i] = text(c), coqCmd(c)
			}
			sample := map[string]interface{}{"commands": lines, "host": rq.Host, "tls": rq.TLS, "path": rq.URI, "matcher": matcherNames[m], "glob_disabled": globOff}
			var t route.Table
			var err error
			ctor := "CCmdLookup"
			if custom {
				ctor = "CCustomLookup"
				sample["constructor"] = "route.NewTableCustom"
				var ptrs []*route.RouteDef
				if ptrs, err = route.Parse(bytes.NewBufferString(strings.Join(lines, "\n") + "\n")); err == nil {
					ds := make([]route.RouteDef, len(ptrs))
					for i, p := range ptrs {
						ds[i] = *p
					}
					var viaJSON []route.RouteDef
					js, jerr := json.Marshal(ds)
					if jerr == nil {
						jerr = json.Unmarshal(js, &viaJSON)
					}
					if jerr != nil || len(viaJSON) != len(ds) {
						run.Exclude("command list does not survive JSON")
						return
					}
					t, err = route.NewTableCustom(&viaJSON)
				}
			} else {
				t, err = route.NewTable(bytes.NewBufferString(strings.Join(lines, "\n") + "\n"))
			}
			impl := vh.Err(0)
			if err == nil {
				req := &http.Request{Method: "GET", Host: rq.Host, URL: &url.URL{Path: rq.URI}, Header: http.Header{}}
				if rq.TLS {
					req.TLS = &tls.ConnectionState{}
				}
				var tg *route.Target
				if p, v := vh.Recover(func() { tg = t.Lookup(req, "", pick0, route.Matcher[matcherNames[m]], globCache, globOff) }); p {
					run.Violation(run.NextID(), fmt.Sprintf("Table.Lookup panicked on a table built by commands: %v", v), sample)
					return
				}
				impl = vh.Ok(vh.None)
				if tg != nil {
					found := false
					for hk, rs := range t {
						for _, rt := range rs {
							for _, x := range rt.Targets {
								if x == tg {
									impl = vh.Ok(vh.Some(vh.Pair(vh.HxS(hk), vh.HxS(rt.Path))))
									sample["selected_route"] = hk + rt.Path
									found = true
								}
							}
						}
					}
					if !found {
						run.Violation(run.NextID(), "Table.Lookup returned a target that is not in the table", sample)
						return
					}
				}
			} else {
				sample["newtable_error"] = err.Error()
			}
			run.Add(class, vh.App(ctor, vh.List(items), vh.HxS(rq.Host), vh.Bool(rq.TLS), vh.HxS(rq.URI), vh.N(m), vh.Bool(globOff), impl), sample)
		}
		svcs := []string{"sa", "sb", "sc"}
		tagsets := [][]string{nil, nil, {"a"}, {"b"}, {"a", "b"}}
		genCmdCases := func(r *rand.Rand, n int, prefix string, custom bool) {
			for i := 0; i < n; i++ {
				focus := randHost(r)
				base := pathBases[r.Intn(len(pathBases))]
				tport := []string{"", "", "", ":80"}[r.Intn(4)]
				var cmds []cmd
				var srcs []string
				nk := 1 + r.Intn(3)
				for k := 0; k < nk; k++ {
					key := keyFor(r, focus, tport)
					if r.Intn(3) == 0 {
						key = focus
					}
					for _, p := range append(pathsFor(r, base, 1+r.Intn(3)), "/") {
						if r.Intn(4) == 0 {
							continue
						}
						src := key + p
						srcs = append(srcs, src)
						cmds = append(cmds, cmd{kind: 0, svc: svcs[r.Intn(len(svcs))], src: src, dst: fmt.Sprintf("http://u%d.internal:80/", len(cmds)), tags: tagsets[r.Intn(len(tagsets))]})
					}
				}
				if len(srcs) == 0 {
					continue
				}
				mixed := func(src string) string { // the host part in another letter case
					i := strings.IndexByte(src, '/')
					if i < 0 {
						i = len(src)
					}
					switch r.Intn(3) {
					case 0:
						return strings.ToUpper(src[:i]) + src[i:]
					case 1:
						return randCase(r, src[:i]) + src[i:]
					}
					return src
				}
				nd := 1 + r.Intn(3)
				for k := 0; k < nd; k++ {
					victim := cmds[r.Intn(len(cmds))]
					for victim.kind != 0 {
						victim = cmds[r.Intn(len(cmds))]
					}
					switch r.Intn(8) {
					case 0, 1, 2:
						cmds = append(cmds, cmd{kind: 1, svc: victim.svc, src: mixed(victim.src)})
					case 3:
						cmds = append(cmds, cmd{kind: 1, svc: victim.svc, src: mixed(victim.src), dst: victim.dst})
					case 4:
						cmds = append(cmds, cmd{kind: 1, svc: victim.svc})
					case 5:
						cmds = append(cmds, cmd{kind: 1, svc: []string{"", victim.svc}[r.Intn(2)], tags: [][]string{{"a"}, {"b"}, {"a", "b"}}[r.Intn(3)]})
					case 6:
						cmds = append(cmds, cmd{kind: 2, svc: victim.svc, src: mixed(victim.src), wk: 1 + r.Intn(9), wd: 1, tags: victim.tags})
					default:
						cmds = append(cmds, cmd{kind: 2, src: mixed(victim.src), wk: 25, wd: 2, tags: []string{"a"}})
					}
					if r.Intn(3) == 0 {
						cmds = append(cmds, cmd{kind: 0, svc: svcs[r.Intn(len(svcs))], src: mixed(srcs[r.Intn(len(srcs))]), dst: fmt.Sprintf("http://u%d.internal:80/", len(cmds))})
					}
				}
				for q := 0; q < 3; q++ {
					rq := genRequest(r, focus, base, tport)
					if q == 0 { // under the path of a route that a del named
						for _, c := range cmds {
							if c.kind == 1 && c.src != "" {
								if j := strings.IndexByte(c.src, '/'); j >= 0 {
									rq.URI = c.src[j:] + []string{"", "/x"}[r.Intn(2)]
									rq.Host = focus + tport
								}
							}
						}
					}
					m := []int{0, 0, 1, 2}[r.Intn(4)]
					addCmdCase(prefix+matcherNames[m], cmds, rq, m, r.Intn(5) == 0, custom)
				}
			}
		}
		genCmdCases(r, run.Scale(260, 8000), "commands/", false)
		// 2e'. the same kind of command sequences (own random stream) through route.NewTableCustom
		genCmdCases(rand.New(rand.NewSource(run.Seed*7523+11)), run.Scale(110, 3000), "commands-custom/", true)
		// directed: the last target of the longest route is deleted through a mixed-case host
		for _, withFallback := range []bool{false, true} {
			cmds := []cmd{{kind: 0, svc: "sa", src: "shop.example.com/api", dst: "http://u0.internal:80/"},
				{kind: 0, svc: "sb", src: "shop.example.com/", dst: "http://u1.internal:80/"}}
			if withFallback {
				cmds = append(cmds, cmd{kind: 0, svc: "sc", src: "/", dst: "http://u2.internal:80/"})
			}
			for _, del := range []cmd{{kind: 1, svc: "sa", src: "Shop.example.com/api"}, {kind: 1, svc: "sa", src: "SHOP.EXAMPLE.COM/api", dst: "http://u0.internal:80/"}, {kind: 1, svc: "sa", src: "shop.example.com/api"}} {
				for m := 0; m < 3; m++ {
					addCmdCase("commands/directed-del-mixed-case", append(append([]cmd(nil), cmds...), del), request{"shop.example.com", false, "/api/v1"}, m, m == 1, false)
				}
			}
		}
		// directed, through NewTableCustom: the last target of the longest route is deleted by
		// service / service+src / service+src+dst / tags, with and without a host-less or wildcard fallback
		for _, fallback := range []string{"", "/", "*.example.com/"} {
			cmds := []cmd{{kind: 0, svc: "site", src: "shop.example.com/", dst: "http://u0.internal:80/"},
				{kind: 0, svc: "api-v1", src: "shop.example.com/api", dst: "http://u1.internal:80/", tags: []string{"a"}}}
			if fallback != "" {
				cmds = append(cmds, cmd{kind: 0, svc: "sc", src: fallback, dst: "http://u2.internal:80/"})
			}
			for _, del := range []cmd{{kind: 1, svc: "api-v1"}, {kind: 1, svc: "api-v1", src: "Shop.example.com/api"},
				{kind: 1, svc: "api-v1", src: "shop.example.com/api", dst: "http://u1.internal:80/"}, {kind: 1, tags: []string{"a"}}} {
				for m, uri := range []string{"/api/users", "/api", "/apiary"} {
					addCmdCase("commands-custom/directed-del", append(append([]cmd(nil), cmds...), del), request{"shop.example.com", false, uri}, m, false, true)
				}
			}
		}
	}

	// 2f. many matching hosts: 13-40 host keys that ALL match the request host (nested
	// wildcards, stars matching the empty string, '?', prefixes, middle cuts, default-port
	// forms), the exact host present or not, with or without a route for the path
	for i := 0; i < run.Scale(70, 1500); i++ {
		h := []string{"1u-api.b.x", "eu-api.a.b.x", "a.b.y.x", "1.2.foo.com"}[r.Intn(4)]
		set := map[string]bool{"*": true, "**": true}
		for a := 0; a <= len(h); a++ {
			set["*"+h[a:]] = true
			set[h[:a]+"*"] = true
			for b := a; b <= len(h); b++ {
				if r.Intn(6) == 0 {
					set[h[:a]+"*"+h[b:]] = true
				}
				if r.Intn(25) == 0 {
					set["*"+h[a:b]+"*"] = true
				}
			}
			if a < len(h) && r.Intn(3) == 0 {
				set[h[:a]+"?"+h[a+1:]] = true
				set["*"+"?"+h[a+1:]] = true
			}
		}
		var pats []string
		for p := range set {
			g, err := glob.Compile(p)
			if err == nil && g.Match(h) && p != h {
				pats = append(pats, p)
			}
		}
		sort.Strings(pats)
		r.Shuffle(len(pats), func(a, b int) { pats[a], pats[b] = pats[b], pats[a] })
		n := 13 + r.Intn(28)
		if n > len(pats) {
			n = len(pats)
		}
		var defs []def
		for _, p := range pats[:n] {
			if r.Intn(5) == 0 {
				p += ":80"
			}
			defs = append(defs, def{p, "/"})
			if r.Intn(4) == 0 {
				defs = append(defs, def{p, "/foo"})
			}
		}
		switch r.Intn(4) {
		case 0: // no exact host
		case 1: // exact host with a route for every path
			defs = append(defs, def{h, "/"})
		default: // exact host without a route for the request path
			defs = append(defs, def{h, "/only/here"})
		}
		if r.Intn(3) == 0 {
			defs = append(defs, def{"", "/"})
		}
		r.Shuffle(len(defs), func(a, b int) { defs[a], defs[b] = defs[b], defs[a] })
		addLookup("many-matching-hosts", defs, request{[]string{h, strings.ToUpper(h), h + ":80"}[r.Intn(3)], false, []string{"/foo/bar", "/x", "/only/here/1"}[r.Intn(3)]}, 0, false)
	}

	// 2d. sortHostsReverseHostPort directly: ASCII lists (trailing colons, ports, duplicates,
	// patterns, the empty key) against the model; lists with non-ASCII and invalid UTF-8
	// hosts are outside the model: there the output must be a permutation of the input
	// (the hosts are table keys and must keep their bytes)
	{
		pool := []string{"", "a.x", "a.x:", "a.x:80", "*.x", "*a.x", "?.x", "b.a.x", "*", "x", "x:", "*.x:", "a.x::", "*:8080", "a.*.x", "1.x", "*1.x", "A.x", "a.x:443",
			"{a,b}.x", "{eu,us}-api.x", "eu-api.x", "*-api.x", "*.b.x", "*a.b.x", "a.b.x", "[ab].x", "[a-c].b.x", "*[ab].x:80", "a]x", "*.x:8080", "**.x", "?.b.x", "*x", "*.a.b.x", "c.a.b.x", "\\*.x", "a.x:8080", "1.b.x", "?.?.x"}
		for i := 0; i < run.Scale(320, 5000); i++ {
			n := r.Intn(6)
			if i%4 == 3 { // long lists: beyond the 12 elements up to which pdqsort is an insertion sort
				n = 13 + r.Intn(52)
			}
			hs := make([]string, n)
			for k := range hs {
				if r.Intn(3) == 0 {
					hs[k] = keyFor(r, randHost(r), ports[r.Intn(len(ports))])
					if r.Intn(4) == 0 {
						hs[k] += ":"
					}
				} else {
					hs[k] = pool[r.Intn(len(pool))]
				}
			}
			ok := true
			for _, h := range hs {
				ok = ok && printable(h) && !strings.HasPrefix(h, "[")
			}
			if !ok {
				continue
			}
			in := append([]string(nil), hs...)
			out := route.VerifSortHosts(append([]string(nil), hs...))
			items := func(l []string) string {
				x := make([]string, len(l))
				for k := range l {
					x[k] = vh.HxS(l[k])
				}
				return vh.List(x)
			}
			run.Add("sort-hosts", vh.App("CSortHosts", items(in), items(out)), map[string]interface{}{"hosts": in, "sorted": out})
		}
		odd := []string{"b\xfccher.x", "\xff.x", "*.\xff.x", "\xffx:", "b\u00fccher.example", "*.b\u00fccher.example", "\u65e5\u672c.x", "a\xc3.x:80", "\xed\xa0\x80.x", "x"}
		for i := 0; i < run.Scale(60, 1000); i++ {
			n := 2 + r.Intn(4)
			hs := make([]string, n)
			for k := range hs {
				hs[k] = odd[r.Intn(len(odd))]
			}
			out := route.VerifSortHosts(append([]string(nil), hs...))
			a, b := append([]string(nil), hs...), append([]string(nil), out...)
			sort.Strings(a)
			sort.Strings(b)
			if strings.Join(a, "\x00") != strings.Join(b, "\x00") {
				run.Violation(-1, "sortHostsReverseHostPort rewrote a non-ASCII / invalid UTF-8 host: the sorted hosts are not the hosts handed in",
					map[string]interface{}{"hosts": fmt.Sprintf("%q", hs), "sorted": fmt.Sprintf("%q", out)})
				break
			}
			run.Notes["non_ascii_host_lists_checked"] = i + 1
		}
	}

	// 3. the glob model against gobwas/glob (compiled without separators, as fabio does)
	alpha := "ab./*?ab.-"
	for i := 0; i < run.Scale(500, 20000); i++ {
		n := r.Intn(8)
		pb := make([]byte, n)
		for k := range pb {
			pb[k] = alpha[r.Intn(len(alpha))]
		}
		p := string(pb)
		var s string
		switch r.Intn(3) {
		case 0: // random subject
			sb := make([]byte, r.Intn(8))
			for k := range sb {
				sb[k] = "ab./"[r.Intn(4)]
			}
			s = string(sb)
		default: // instantiate the pattern
			var sb strings.Builder
			for k := 0; k < len(p); k++ {
				switch p[k] {
				case '*':
					for j := r.Intn(3); j > 0; j-- {
						sb.WriteByte("ab./"[r.Intn(4)])
					}
				case '?':
					if r.Intn(8) != 0 {
						sb.WriteByte("ab./"[r.Intn(4)])
					}
				default:
					if r.Intn(12) != 0 {
						sb.WriteByte(p[k])
					}
				}
			}
			s = sb.String()
		}
		g, err := glob.Compile(p)
		if err != nil {
			run.Exclude("glob.Compile rejected a generated pattern")
			continue
		}
		run.Add("glob-vs-gobwas", vh.App("CGlob", vh.HxS(p), vh.HxS(s), vh.Bool(g.Match(s))),
			map[string]interface{}{"pattern": p, "subject": s, "match": g.Match(s)})
	}

	// 4. ReverseHostPort
	rhp := []string{"", "a", "foo.com", "foo.com:80", "foo.com:", ":80", ":", "a:b:c", "a::b", "foo.com:8080", "*.foo.com:443", "a.b:c.d", "x:1:", "::"}
	for i := 0; i < run.Scale(60, 2000); i++ {
		rhp = append(rhp, keyFor(r, randHost(r), ports[r.Intn(len(ports))]))
	}
	rhp = append(rhp, "[::1]:80", "[::1]", "[::1]:", "[2001:db8::1]:443", "[::1", "::1]:80", "[::1]:80:80", "[[::1]]:80", "[]:80", "[a]b:80", "[::1]x", "[fe80::1%eth0]:8080", "a[b]:80", "[:80", "]:80", "[a]:b]")
	for _, s := range rhp {
		if !printable(s) {
			continue
		}
		run.Add("reverse-host-port", vh.App("CRhp", vh.HxS(s), vh.HxS(route.ReverseHostPort(s))),
			map[string]interface{}{"s": s, "reversed": route.ReverseHostPort(s)})
	}

	run.Finish(preamble, run.Scale(170, 1500))
}
