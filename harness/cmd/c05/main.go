// Correspondence harness for C05 (route command semantics and text round trip):
// generates scripts of route add / del / weight commands, runs the real
// route.NewTable on them, then t.String() and NewTable(t.String()), and writes
// the observables (exported Table / Route / Target fields) as cases for the Coq
// model to judge.  Library facts the model takes as parameters (url.Parse,
// glob.Compile, strconv.ParseFloat) are computed here with the real libraries
// for every string that occurs in a case.
package main

import (
	"bytes"
	"fmt"
	"math"
	"math/rand"
	"net/url"
	"sort"
	"strconv"
	"strings"

	"github.com/gobwas/glob"

	"github.com/fabiolb/fabio/route"

	"verifharness/internal/vh"
)

const preamble = `From Coq Require Import List NArith ZArith String.
From Fabio Require Import Lib.Outcome Lib.Bytes Lib.Pack Model.WtF64 Model.TableCmd Model.RouteText Check.C05.
Import ListNotations.
Local Open Scope N_scope.
`

var (
	services = []string{"svc-a", "svc-b", "svc-c", "api"}
	hostsLo  = []string{"foo.com", "bar.org", "a.b", "*.example.com", "", ":8080"}
	paths    = []string{"/", "/foo", "/foo/bar", "/Foo", "/api/", "", "/z*", "/fo", "/FOO/x", "/Z"}
	dsts     = []string{"http://10.0.0.1:8080/", "http://10.0.0.2:8080", "https://host-1:443/x", "tcp://10.0.0.3:5000",
		"HTTP://UPPER:80/", "http://h/%7Efoo", "http://[::1]:80/", "http://10.0.0.1:8080",
		// destinations with credentials (url.URL.User is a pointer: equal texts, distinct values),
		// a query, an empty port
		"http://user:pw@10.0.0.4:8080/", "http://user@10.0.0.4:8080/", "https://u:p@host-1:443/x?q=1", "http://10.0.0.5:/"}
	badHosts = []string{"[", "a[.com", "{a,b.com", "\\", "A[.com", "*.ok.com", "{x,y}.com", "ok.com"}
	tagPool = []string{"a", "b", "c", "blue", "green", "a b"}
	optPool = []string{"strip=/foo", "proto=https", "host=dst", "k", "a=b=c", "strip=/bar", "prepend=/p", "=v", "tlsskipverify=true"}
	weights = []string{"0.1", "0.25", "0.5", "1", "0.3333", "2", "0", "-1", "0.05", "0.00001", "0.7", "0.3", "0.2", "0.9", "0.00005", "0.12345", "3"}
	oddW    = []string{"1e-1", ".5", "+0.2", "5.", "0x1p-2", "1_0", "abc", "0.5x", "-0", "00.50", "1E0",
		"NaN", "nan", "Inf", "+Inf", "-inf", "infinity", "-Infinity", "1e999", "0x1p1024", "-1e400", "5e-324"}
	oddSvc  = []string{`s"x`, `a\b`, "k=v", "svc,1", `"q"`, "tags", "weight"}
	oddPath = []string{`/p"q`, `/a\b`, "/x=y", "/a,b", "/tags"}
	oddDst  = []string{"http://h/a=b", "http://h/q?x=1&y=2", `http://h/a"b`, "http://h/a,b"}
)

type added struct {
	svc, host, path, dst string
	tags                 []string
}

type gen struct {
	r     *rand.Rand
	known []added
	class string
}

func (g *gen) pick(l []string) string { return l[g.r.Intn(len(l))] }

// mixCase changes the letter case of a host with the given probability.
func (g *gen) mixCase(h string, p float64) string {
	if g.r.Float64() >= p {
		return h
	}
	switch g.r.Intn(3) {
	case 0:
		return strings.ToUpper(h)
	case 1:
		if len(h) > 0 {
			return strings.ToUpper(h[:1]) + h[1:]
		}
		return h
	default:
		b := []byte(h)
		for i := range b {
			if g.r.Intn(2) == 0 && b[i] >= 'a' && b[i] <= 'z' {
				b[i] -= 32
			}
		}
		return string(b)
	}
}

func (g *gen) sp() string {
	if g.class != "whitespace" {
		return " "
	}
	switch g.r.Intn(6) {
	case 0:
		return "  "
	case 1:
		return "\t"
	case 2:
		return " \t "
	case 3:
		return "\f"
	default:
		return " "
	}
}

func (g *gen) tags(n int) []string {
	pool := tagPool
	if g.class == "tags-escape" {
		pool = append(append([]string{}, tagPool...), `x\y`, `q\`, "", "t\tb", `\\`, "d\x01e")
	}
	var ts []string
	for i := 0; i < n; i++ {
		ts = append(ts, g.pick(pool))
	}
	return ts
}

func (g *gen) tagsClause(ts []string) string {
	s := strings.Join(ts, ",")
	if g.class == "whitespace" && g.r.Intn(3) == 0 {
		s = strings.Join(ts, " , ")
	}
	return "tags" + g.sp() + `"` + s + `"`
}

func (g *gen) src(host, path string) string {
	if strings.HasPrefix(host, ":") {
		return host
	}
	if host == "" && path == "" {
		return "/"
	}
	return host + path
}

func (g *gen) caseProb() float64 {
	switch g.class {
	case "case-hosts":
		return 0.6
	case "lower-only":
		return 0
	}
	return 0.15
}

func (g *gen) addCmd() string {
	var a added
	if len(g.known) > 0 && g.r.Intn(100) < g.dupPct() {
		a = g.known[g.r.Intn(len(g.known))] // candidate for de-duplication / accumulation
		if g.r.Intn(3) == 0 {
			a.dst = g.pick(dsts)
		}
	} else {
		a = added{svc: g.pick(services), host: g.pick(hostsLo), path: g.pick(paths), dst: g.pick(dsts)}
		if g.r.Intn(3) == 0 {
			a.tags = g.tags(1 + g.r.Intn(3))
		}
	}
	if g.class == "directed" && g.r.Intn(12) == 0 {
		a.path = g.pick([]string{"/[x", "/{a", "/ok"})
	}
	if g.class == "odd-tokens" {
		if g.r.Intn(3) == 0 {
			a.svc = g.pick(oddSvc)
		}
		if g.r.Intn(3) == 0 && !strings.HasPrefix(a.host, ":") {
			a.path = g.pick(oddPath)
		}
		if g.r.Intn(3) == 0 {
			a.dst = g.pick(oddDst)
		}
	}
	if g.class == "bad-hosts" && g.r.Intn(5) == 0 {
		a.host = g.pick(badHosts)
		if a.path == "" {
			a.path = "/"
		}
	}
	if g.class == "directed" && g.r.Intn(12) == 0 {
		a.dst = g.pick([]string{"http://[::1", ":foo", "#", "?", "http://a/%zz", "x", "http://h/a%20b", "http://h/a#frag"})
	}
	sp := g.sp
	s := "route" + sp() + "add" + sp() + a.svc + sp() + g.src(g.mixCase(a.host, g.caseProb()), a.path) + sp() + a.dst
	if g.r.Intn(100) < g.weightPct() {
		w := g.pick(weights)
		if (g.class == "directed" || g.class == "odd-tokens") && g.r.Intn(4) == 0 {
			w = g.pick(oddW)
		}
		s += sp() + "weight" + sp() + w
	}
	if len(a.tags) > 0 {
		s += sp() + g.tagsClause(a.tags)
	}
	if g.r.Intn(4) == 0 {
		n := 1 + g.r.Intn(3)
		var os []string
		for i := 0; i < n; i++ {
			os = append(os, g.pick(optPool))
		}
		s += sp() + "opts" + sp() + `"` + strings.Join(os, " ") + `"`
	}
	g.known = append(g.known, a)
	return s
}

func (g *gen) dupPct() int {
	if g.class == "dup-add" {
		return 70
	}
	return 35
}
func (g *gen) weightPct() int {
	if g.class == "weights" {
		return 60
	}
	return 20
}

// target picks something that was (probably) added before, or something random.
func (g *gen) target() added {
	if len(g.known) > 0 && g.r.Intn(10) < 8 {
		return g.known[g.r.Intn(len(g.known))]
	}
	return added{svc: g.pick(services), host: g.pick(hostsLo), path: g.pick(paths), dst: g.pick(dsts), tags: g.tags(1)}
}

func (g *gen) subTags(a added) []string {
	if len(a.tags) == 0 || g.r.Intn(5) == 0 {
		return g.tags(1)
	}
	n := 1 + g.r.Intn(len(a.tags))
	ts := append([]string{}, a.tags...)
	g.r.Shuffle(len(ts), func(i, j int) { ts[i], ts[j] = ts[j], ts[i] })
	ts = ts[:n]
	if g.r.Intn(6) == 0 {
		ts = append(ts, g.pick(tagPool)) // usually one tag too many: "all" vs "any"
	}
	return ts
}

func (g *gen) delCmd() string {
	a := g.target()
	sp := g.sp
	src := g.src(g.mixCase(a.host, g.caseProb()), a.path)
	s := "route" + sp() + "del" + sp()
	switch g.r.Intn(6) {
	case 0:
		return s + a.svc
	case 1:
		return s + a.svc + sp() + src
	case 2, 3:
		return s + a.svc + sp() + src + sp() + a.dst
	case 4:
		return s + a.svc + sp() + g.tagsClause(g.subTags(a))
	default:
		return s + g.tagsClause(g.subTags(a))
	}
}

func (g *gen) weightCmd() string {
	a := g.target()
	sp := g.sp
	src := g.src(g.mixCase(a.host, g.caseProb()), a.path)
	w := g.pick(weights)
	if g.class == "directed" && g.r.Intn(5) == 0 {
		w = g.pick(oddW)
	}
	s := "route" + sp() + "weight" + sp()
	switch g.r.Intn(3) {
	case 0:
		return s + a.svc + sp() + src + sp() + "weight" + sp() + w
	case 1:
		return s + a.svc + sp() + src + sp() + "weight" + sp() + w + sp() + g.tagsClause(g.subTags(a))
	default:
		return s + src + sp() + "weight" + sp() + w + sp() + g.tagsClause(g.subTags(a))
	}
}

var garbage = []string{"route", "route add", "route add a b", "route adding a b c", "rout add a b c", "route del", "route del a b c d",
	"route weight a b", "route weight a b weight", "route del tags", `route del tags "a`, `route add a b c tags "x" y`, `route add a b c opts "k=v" tags "t"`,
	`route del svc tags "a"x`, `route weight a weight weight 1 tags "x"`, "route  weight foo.com/ weight 0.5", "# comment", "// comment", "",
	"route add a b c weight", `route del tags tags "a"`, "route\vadd a b c", "ROUTE add a b c", `route add a b c  tags  ""`, `route add a b c tags " "`,
	`route add a b c opts ""`, `route add a b c opts " "`, "route add svc-a foo.com/ http://10.0.0.1:8080/ weight 0.5 weight 0.6"}

// count is the number of targets NewTable builds from lines, or -1 with the error text.
// The real code is used here only to steer the generator towards scripts whose del / weight
// commands select something; verdicts never depend on it.
func count(lines []string) (int, string) {
	t, err, panicked, _ := newTable(strings.Join(lines, "\n"))
	if panicked {
		return -1, "panic"
	}
	if err != nil {
		return -1, err.Error()
	}
	n := 0
	for _, rs := range t {
		for _, r := range rs {
			n += len(r.Targets)
		}
	}
	return n, ""
}

func (g *gen) script() string {
	n := 1 + g.r.Intn(25)
	var lines []string
	for i := 0; i < n; i++ {
		x := g.r.Intn(100)
		switch {
		case g.class == "malformed" && x < 8:
			lines = append(lines, g.pick(garbage))
		case len(g.known) == 0 || x < 55:
			lines = append(lines, g.addCmd())
		case x < 78:
			before, _ := count(lines)
			for try := 0; ; try++ {
				l := g.delCmd()
				after, _ := count(append(lines[:len(lines):len(lines)], l))
				if after != before || try == 3 || g.r.Intn(100) < 30 {
					lines = append(lines, l)
					break
				}
			}
		default:
			for try := 0; ; try++ {
				l := g.weightCmd()
				_, e := count(append(lines[:len(lines):len(lines)], l))
				if !strings.Contains(e, "no target match") || g.r.Intn(100) < 4 {
					lines = append(lines, l)
					break
				}
				if try == 5 {
					break
				}
			}
		}
		if g.class == "whitespace" && len(lines) > 0 {
			switch g.r.Intn(8) {
			case 0:
				lines[len(lines)-1] = "  " + lines[len(lines)-1] + " \t"
			case 1:
				lines[len(lines)-1] += "\r"
			case 2:
				lines = append(lines, "", "# c")
			}
		}
	}
	s := strings.Join(lines, "\n")
	if g.r.Intn(2) == 0 {
		s += "\n"
	}
	return s
}

// ---------- observables ----------

func wtTerm(f float64) (string, bool) {
	if f == 0 {
		return "WZ", true
	}
	b := math.Float64bits(f)
	exp := int64(b>>52) & 0x7ff
	if exp == 0 || exp == 0x7ff {
		return "", false // subnormal, Inf, NaN: outside Model/WtF64.v
	}
	m := b&(1<<52-1) | 1<<52
	c := "WP"
	if b>>63 == 1 {
		c = "WN"
	}
	return "(" + c + " " + vh.N64(m) + " " + vh.Z(exp-1075) + ")", true
}

func strList(l []string) string {
	items := make([]string, len(l))
	for i, s := range l {
		items[i] = vh.HxS(s)
	}
	return vh.List(items)
}

// tableObs renders the exported fields; ok=false when a weight is outside the modelled floats.
func tableObs(run *vh.Run, id int, t route.Table) (string, bool) {
	var hosts []string
	for h := range t {
		hosts = append(hosts, h)
	}
	sort.Strings(hosts)
	var hs []string
	for _, h := range hosts {
		var rs []string
		for _, r := range t[h] {
			if r.Host != h {
				run.Violation(id, "Route.Host differs from the table key it is stored under", map[string]string{"key": h, "host": r.Host})
			}
			var ts []string
			for _, tg := range r.Targets {
				w, ok := wtTerm(tg.FixedWeight)
				if !ok || math.IsNaN(tg.Weight) {
					return "", false
				}
				var keys []string
				for k := range tg.Opts {
					keys = append(keys, k)
				}
				sort.Strings(keys)
				var kvs []string
				for _, k := range keys {
					kvs = append(kvs, vh.Pair(vh.HxS(k), vh.HxS(tg.Opts[k])))
				}
				ts = append(ts, vh.App("T", vh.HxS(tg.Service), vh.HxS(tg.URL.String()), w, strList(tg.Tags), vh.List(kvs), vh.Bool(tg.Weight > 0)))
			}
			rs = append(rs, vh.Pair(vh.HxS(r.Path), vh.List(ts)))
		}
		hs = append(hs, vh.Pair(vh.HxS(h), vh.List(rs)))
	}
	return vh.List(hs), true
}

func errKind(err error) int {
	s := err.Error()
	switch {
	case strings.Contains(s, "'route' expected"):
		return 1
	case strings.Contains(s, "'route add' invalid"):
		return 2
	case strings.Contains(s, "'route del' invalid"):
		return 3
	case strings.Contains(s, "'route weight' invalid"):
		return 4
	case strings.Contains(s, "weight value invalid"):
		return 5
	case s == "route: prefix must not be empty":
		return 6
	case s == "route: target must not be empty":
		return 7
	case strings.HasPrefix(s, "route: invalid target."):
		return 8
	case s == "route: no target match":
		return 9
	case strings.HasPrefix(s, "route: invalid host."):
		return 11
	}
	return 10
}

func hostpath(prefix string) (string, string) {
	if strings.HasPrefix(prefix, ":") {
		return prefix, ""
	}
	p := strings.SplitN(prefix, "/", 2)
	if len(p) == 1 {
		return p[0], "/"
	}
	return p[0], "/" + p[1]
}

// facts collects what the real libraries say about the strings of some texts.
type facts struct {
	urls  map[string]string // dst -> Coq option term
	globs map[string]bool   // path -> rejected
	wl    map[string]string // literal -> Coq outcome term
	ok    bool
}

func newFacts() *facts {
	return &facts{urls: map[string]string{}, globs: map[string]bool{}, wl: map[string]string{}, ok: true}
}

func (f *facts) url(d string) {
	if _, seen := f.urls[d]; seen {
		return
	}
	u, err := url.Parse(d)
	if err != nil {
		f.urls[d] = vh.None
		return
	}
	f.urls[d] = vh.Some(vh.HxS(u.String()))
	f.url(u.String())
}

func (f *facts) scan(text string) {
	for _, line := range strings.Split(text, "\n") {
		fs := strings.Fields(line)
		if len(fs) >= 5 && fs[0] == "route" && (fs[1] == "add" || fs[1] == "del") {
			f.url(fs[4])
		}
		if len(fs) >= 4 && fs[0] == "route" && fs[1] == "add" {
			h, p := hostpath(fs[3])
			if _, err := glob.Compile(p); err != nil {
				f.globs[p] = true
			}
			// since /repo c9fb527 a host seen for the first time must compile too (lower-cased)
			h = strings.ToLower(h)
			if _, err := glob.Compile(h); err != nil {
				f.globs[h] = true
			}
		}
		for i := 2; i+1 < len(fs); i++ {
			if fs[i] == "weight" {
				lit := fs[i+1]
				v, err := strconv.ParseFloat(lit, 64)
				if err != nil || math.IsNaN(v) || math.IsInf(v, 0) {
					// the fact the model takes is parseWeight's: strconv.ParseFloat followed by the
					// rejection of NaN and +-Inf (since /repo 0b2a40e)
					f.wl[lit] = vh.Err(5)
				} else if w, ok := wtTerm(v); ok {
					f.wl[lit] = vh.Ok(w)
				} else {
					f.ok = false
				}
			}
		}
	}
}

func (f *facts) urlTerm() string {
	var ks []string
	for k := range f.urls {
		ks = append(ks, k)
	}
	sort.Strings(ks)
	var items []string
	for _, k := range ks {
		items = append(items, vh.Pair(vh.HxS(k), f.urls[k]))
	}
	return vh.List(items)
}
func (f *facts) globTerm() string {
	var ks []string
	for k := range f.globs {
		ks = append(ks, k)
	}
	sort.Strings(ks)
	return strList(ks)
}
func (f *facts) wlTerm() string {
	var ks []string
	for k := range f.wl {
		ks = append(ks, k)
	}
	sort.Strings(ks)
	var items []string
	for _, k := range ks {
		items = append(items, vh.Pair(vh.HxS(k), f.wl[k]))
	}
	return vh.List(items)
}

func ascii(s string) bool {
	for i := 0; i < len(s); i++ {
		if s[i] >= 0x80 {
			return false
		}
	}
	return true
}

func newTable(text string) (t route.Table, err error, panicked bool, pv interface{}) {
	panicked, pv = vh.Recover(func() { t, err = route.NewTable(bytes.NewBufferString(text)) })
	return
}

func outcomeTerm(run *vh.Run, id int, t route.Table, err error, panicked bool) (string, bool) {
	switch {
	case panicked:
		return vh.Panic, true
	case err != nil:
		return vh.Err(errKind(err)), true
	}
	o, ok := tableObs(run, id, t)
	if !ok {
		return "", false
	}
	return vh.Ok(o), true
}

func doScript(run *vh.Run, class, text string) {
	if !ascii(text) {
		run.Exclude("non-ASCII text")
		return
	}
	f := newFacts()
	f.scan(text)
	if !f.ok {
		run.Exclude("weight literal outside the modelled binary64 domain (Inf/NaN/subnormal)")
		return
	}
	t, err, panicked, pv := newTable(text)
	id := run.NextID()
	if panicked {
		run.Violation(id, fmt.Sprintf("NewTable panicked on a route command script: %v", pv), text)
	}
	impl, ok := outcomeTerm(run, id, t, err, panicked)
	if !ok {
		run.Exclude("table weight outside the modelled binary64 domain")
		return
	}
	if t != nil {
		for _, rs := range t {
			for _, r := range rs {
				for _, tg := range r.Targets {
					f.url(tg.URL.String())
				}
			}
		}
	}
	sample := map[string]interface{}{"text": text}
	if err != nil {
		sample["error"] = err.Error()
	}
	run.Add(class, vh.App("CScript", f.urlTerm(), f.globTerm(), f.wlTerm(), vh.HxS(text), impl), sample)
	if err != nil || panicked {
		return
	}

	// round trip
	text2 := t.String()
	if !ascii(text2) {
		run.Exclude("non-ASCII rendering")
		return
	}
	f2 := newFacts()
	f2.scan(text2)
	for _, rs := range t {
		for _, r := range rs {
			for _, tg := range r.Targets {
				f2.url(tg.URL.String())
			}
		}
	}
	rt, err2, panicked2, pv2 := newTable(text2)
	id2 := run.NextID()
	if panicked2 {
		run.Violation(id2, fmt.Sprintf("NewTable panicked on the output of Table.String(): %v", pv2), text2)
	}
	if rt != nil {
		for _, rs := range rt {
			for _, r := range rs {
				for _, tg := range r.Targets {
					f2.url(tg.URL.String())
				}
			}
		}
	}
	tblTerm, _ := tableObs(run, id2, t)
	irt, ok := outcomeTerm(run, id2, rt, err2, panicked2)
	if !ok {
		run.Exclude("re-parsed weight outside the modelled binary64 domain")
		return
	}
	s2 := map[string]interface{}{"script": text, "rendered": text2}
	if err2 != nil {
		s2["error"] = err2.Error()
	}
	run.Add(class+"/roundtrip", vh.App("CRound", f2.urlTerm(), f2.globTerm(), tblTerm, vh.HxS(text2), irt), s2)
}

// directed scripts: one per guard / branch of the anchored code
var directed = []string{
	// destinations are compared as texts: credentials, query, letter case of the scheme
	"route add svc-a foo.com/ http://user:pw@10.0.0.4:8080/\nroute add svc-a foo.com/ http://user:pw@10.0.0.4:8080/",
	"route add svc-a foo.com/ http://user:pw@10.0.0.4:8080/\nroute add svc-a foo.com/ http://10.0.0.1:8080/\nroute del svc-a foo.com/ http://user:pw@10.0.0.4:8080/",
	"route add svc-a foo.com/ http://user:pw@10.0.0.4:8080/\nroute add svc-a foo.com/ http://user@10.0.0.4:8080/\nroute add svc-a foo.com/ http://10.0.0.4:8080/\nroute del svc-a foo.com/ http://user@10.0.0.4:8080/",
	"route add svc-a foo.com/ http://user:pw@10.0.0.4:8080/ weight 0.2\nroute add svc-b foo.com/ http://10.0.0.1:8080/\nroute add svc-a foo.com/ HTTP://user:pw@10.0.0.4:8080/ weight 0.2",
	"route add svc-a foo.com/ https://u:p@host-1:443/x?q=1\nroute add svc-a foo.com/ https://u:p@host-1:443/x?q=2\nroute del svc-a foo.com/ https://u:p@host-1:443/x?q=1",
	// de-duplication: same service, URL text, weight, tags; options are not part of the key
	"route add svc-a foo.com/ http://10.0.0.1:8080/\nroute add svc-a foo.com/ http://10.0.0.1:8080/",
	"route add svc-a foo.com/ http://10.0.0.1:8080/\nroute add svc-a FOO.com/ http://10.0.0.1:8080/",
	"route add svc-a foo.com/ http://10.0.0.1:8080/ tags \"a\"\nroute add svc-a foo.com/ http://10.0.0.1:8080/ tags \"a,b\"",
	"route add svc-a foo.com/ http://10.0.0.1:8080/ tags \"a,b\"\nroute add svc-a foo.com/ http://10.0.0.1:8080/ tags \"b,a\"",
	"route add svc-a foo.com/ http://10.0.0.1:8080/ opts \"k=v\"\nroute add svc-a foo.com/ http://10.0.0.1:8080/ opts \"k=w\"",
	"route add svc-a foo.com/ http://10.0.0.1:8080/ weight 0.5\nroute add svc-a foo.com/ http://10.0.0.1:8080/ weight 0.50",
	"route add svc-a foo.com/ http://10.0.0.1:8080/ weight -1\nroute add svc-a foo.com/ http://10.0.0.1:8080/",
	"route add svc-a foo.com/ HTTP://10.0.0.1:8080/\nroute add svc-a foo.com/ http://10.0.0.1:8080/",
	"route add svc-a foo.com http://10.0.0.1:8080/\nroute add svc-a foo.com/ http://10.0.0.1:8080/",
	// the finding: del / weight do not fold the host
	"route add svc-a foo.com/ http://10.0.0.1:8080/\nroute del svc-a Foo.com/",
	"route add svc-a Foo.com/ http://10.0.0.1:8080/\nroute del svc-a Foo.com/ http://10.0.0.1:8080/",
	"route add svc-a Foo.com/ http://10.0.0.1:8080/\nroute weight svc-a Foo.com/ weight 0.5",
	"route add svc-a foo.com/ http://10.0.0.1:8080/ tags \"a\"\nroute weight FOO.COM/ weight 0.5 tags \"a\"",
	"route add svc-a Foo.com/ http://10.0.0.1:8080/\nroute del svc-a",
	"route add svc-a Foo.com/ http://10.0.0.1:8080/ tags \"a\"\nroute del tags \"a\"",
	// del forms and the sweeps
	"route add svc-a foo.com/ http://10.0.0.1:8080/\nroute add svc-b foo.com/ http://10.0.0.2:8080/\nroute del svc-a",
	"route add svc-a foo.com/ http://10.0.0.1:8080/\nroute add svc-a foo.com/x http://10.0.0.2:8080/\nroute del svc-a foo.com/x",
	"route add svc-a foo.com/ http://10.0.0.1:8080/\nroute add svc-a foo.com/ http://10.0.0.2:8080/\nroute del svc-a foo.com/ http://10.0.0.2:8080/",
	"route add svc-a foo.com/ http://10.0.0.1:8080\nroute del svc-a foo.com/ HTTP://10.0.0.1:8080",
	"route add svc-a foo.com/ http://10.0.0.1:8080/ tags \"a,b\"\nroute add svc-b foo.com/ http://10.0.0.2:8080/ tags \"a\"\nroute del tags \"a,b\"",
	"route add svc-a foo.com/ http://10.0.0.1:8080/ tags \"a,b\"\nroute add svc-b foo.com/ http://10.0.0.2:8080/ tags \"a,b\"\nroute del svc-b tags \"b\"",
	"route add svc-a foo.com/ http://10.0.0.1:8080/\nroute del svc-a bar.org/",
	"route add svc-a foo.com/ http://10.0.0.1:8080/\nroute del svc-a foo.com/ http://[::1",
	"route add svc-a :8080 tcp://10.0.0.3:5000\nroute del svc-a :8080",
	"route add svc-a /foo http://10.0.0.1:8080/\nroute add svc-a bar.org/ http://10.0.0.1:8080/\nroute del svc-a /foo",
	// weight forms
	"route add svc-a foo.com/ http://10.0.0.1:8080/\nroute add svc-a foo.com/ http://10.0.0.2:8080/\nroute add svc-b foo.com/ http://10.0.0.3:8080/\nroute weight svc-a foo.com/ weight 0.3",
	"route add svc-a foo.com/ http://10.0.0.1:8080/ tags \"a\"\nroute add svc-b foo.com/ http://10.0.0.2:8080/ tags \"a,b\"\nroute weight foo.com/ weight 0.1 tags \"a\"",
	"route add svc-a foo.com/ http://10.0.0.1:8080/ tags \"a\"\nroute weight svc-b foo.com/ weight 0.1",
	"route add svc-a foo.com/ http://10.0.0.1:8080/ tags \"a\"\nroute weight svc-a foo.com/x weight 0.1",
	"route add svc-a foo.com/ http://10.0.0.1:8080/\nroute add svc-a foo.com/ http://10.0.0.2:8080/\nroute add svc-a foo.com/ http://10.0.0.3:8080/\nroute weight svc-a foo.com/ weight 0.3\nroute add svc-a foo.com/ http://10.0.0.1:8080/ weight 0.1",
	"route add svc-a foo.com/ http://10.0.0.1:8080/\nroute weight svc-a foo.com/ weight -1\nroute add svc-a foo.com/ http://10.0.0.1:8080/",
	"route add svc-a foo.com/ http://10.0.0.1:8080/\nroute weight svc-a foo.com/ weight 0",
	// rendering: zero effective weight, escapes, options
	"route add svc-a foo.com/ http://10.0.0.1:8080/ weight 1\nroute add svc-b foo.com/ http://10.0.0.2:8080/",
	"route add svc-a foo.com/ http://10.0.0.1:8080/ weight 0.5\nroute add svc-b foo.com/ http://10.0.0.2:8080/ weight 0.5\nroute add svc-c foo.com/ http://10.0.0.3:8080/",
	"route add svc-a foo.com/ http://10.0.0.1:8080/ weight 0.7\nroute add svc-b foo.com/ http://10.0.0.2:8080/ weight 0.2\nroute add svc-c foo.com/ http://10.0.0.3:8080/ weight 0.1\nroute add api foo.com/ http://10.0.0.4:8080/",
	"route add svc-a foo.com/ http://10.0.0.1:8080/ tags \"x\\y\"",
	"route add svc-a foo.com/ http://10.0.0.1:8080/ tags \" \"",
	"route add svc-a foo.com/ http://10.0.0.1:8080/ tags \"a, ,b\"",
	"route add svc-a foo.com/ http://10.0.0.1:8080/ opts \"b=2 a=1 b=3 c\"",
	"route add svc-a foo.com/ http://10.0.0.1:8080/ weight 0.00004\nroute add svc-a foo.com/ http://10.0.0.2:8080/ weight 0.00005\nroute add svc-a foo.com/ http://10.0.0.3:8080/ weight 0.00015",
	"route add svc-a foo.com/ http://10.0.0.1:8080/ weight 0.5\nroute add svc-a foo.com/ http://10.0.0.1:8080/ weight 0.50001",
	"route add svc-a foo.com/ #",
	"route add svc-a foo.com/ http://h/a#frag\nroute add svc-a bar.org/ ?",
	// hosts: order of String(), empty host, port, globs
	"route add svc-a b.com/ http://10.0.0.1:8080/\nroute add svc-a a.com/ http://10.0.0.1:8080/\nroute add svc-a /x http://10.0.0.1:8080/\nroute add svc-a :80 tcp://10.0.0.3:5000\nroute add svc-a c.com/z http://10.0.0.1:8080/\nroute add svc-a c.com/a http://10.0.0.1:8080/",
	// route order of a host (Routes.Less since c1f03c0): lower-cased path first, bytes break ties
	"route add svc-a foo.com/fo http://10.0.0.1:8080/\nroute add svc-a foo.com/Foo http://10.0.0.1:8080/\nroute add svc-a foo.com/foo http://10.0.0.1:8080/\nroute add svc-a foo.com/FOO http://10.0.0.1:8080/\nroute add svc-a foo.com/ http://10.0.0.1:8080/",
	"route add svc-a foo.com/a/B http://10.0.0.1:8080/\nroute add svc-a foo.com/A/b http://10.0.0.1:8080/\nroute add svc-a foo.com/Z http://10.0.0.1:8080/\nroute add svc-a foo.com/a http://10.0.0.1:8080/\nroute add svc-a foo.com/a/b/c http://10.0.0.1:8080/",
	"route add svc-a foo.com/Ab http://10.0.0.1:8080/\nroute add svc-a foo.com/aa http://10.0.0.1:8080/\nroute add svc-a foo.com/AB http://10.0.0.1:8080/\nroute add svc-a foo.com/ab http://10.0.0.1:8080/\nroute add svc-a foo.com/aB http://10.0.0.1:8080/",
	// a weight is a finite number (since 0b2a40e): NaN / Inf literals are syntax errors; before, NaN made add non-idempotent
	"route add svc-a foo.com/ http://10.0.0.1:8080/ weight NaN\nroute add svc-a foo.com/ http://10.0.0.1:8080/ weight NaN",
	"route add svc-a foo.com/ http://10.0.0.1:8080/ weight nan",
	"route add svc-a foo.com/ http://10.0.0.1:8080/ weight +Inf",
	"route add svc-a foo.com/ http://10.0.0.1:8080/ weight -infinity",
	"route add svc-a foo.com/ http://10.0.0.1:8080/\nroute weight svc-a foo.com/ weight inf",
	"route add svc-a foo.com/ http://10.0.0.1:8080/ weight 1e999",
	"route add svc-a foo.com/ http://10.0.0.1:8080/ weight 0x1p1024",
	"route add svc-a foo.com/[x http://10.0.0.1:8080/",
	// host patterns that do not compile are rejected when the host is first added (c9fb527)
	"route add svc-a [/ http://10.0.0.1:8080/",
	"route add svc-a a[.com/ http://10.0.0.1:8080/",
	"route add svc-a {a,b.com/ http://10.0.0.1:8080/",
	"route add svc-a \\/ http://10.0.0.1:8080/",
	"route add svc-a A[.com/x http://10.0.0.1:8080/",
	"route add svc-a foo.com/ http://10.0.0.1:8080/\nroute add svc-b a[.com/ http://10.0.0.2:8080/",
	"route add svc-a {a,b}.com/ http://10.0.0.1:8080/\nroute add svc-a *.Foo.com/ http://10.0.0.1:8080/",
	"route add svc-a [/[x http://10.0.0.1:8080/",
	"route add svc-a foo.com/ http://10.0.0.1:8080/\nroute del svc-a [/\nroute del svc-a a[.com/ http://10.0.0.1:8080/",
	"route add svc-a [ http://10.0.0.1:8080/",
	"route add svc-a foo.com/ http://10.0.0.1:8080/\nroute add svc-a foo.com/{a http://10.0.0.1:8080/",
}

// ---------- RouteDef level: route.NewTableCustom (what the admin API and custom backends feed) ----------

var defWeights = []float64{0, 0, 0.25, 0.5, 1, -1, 2, 0.3333}

func genDefs(r *rand.Rand) []route.RouteDef {
	g := &gen{r: r, class: "defs"}
	n := 1 + r.Intn(14)
	var ds []route.RouteDef
	var known []route.RouteDef
	pickS := func(l []string, emptyPct int) string {
		if r.Intn(100) < emptyPct {
			return ""
		}
		return l[r.Intn(len(l))]
	}
	tags := func() []string {
		switch r.Intn(6) {
		case 0, 1, 2:
			return nil
		case 3:
			return []string{g.pick([]string{"a,b", `q"t`, " pad ", ""})}
		default:
			return g.tags(1 + r.Intn(2))
		}
	}
	opts := func() map[string]string {
		if r.Intn(3) != 0 {
			return nil
		}
		m := map[string]string{}
		for i := 0; i < 1+r.Intn(2); i++ {
			kv := strings.SplitN(g.pick(optPool), "=", 2)
			v := ""
			if len(kv) == 2 {
				v = kv[1]
			}
			m[kv[0]] = v
		}
		return m
	}
	for i := 0; i < n; i++ {
		var d route.RouteDef
		x := r.Intn(100)
		if len(known) > 0 && r.Intn(10) < 6 {
			d = known[r.Intn(len(known))]
			d.Src = g.mixCase(d.Src, 0.3)
		} else {
			d = route.RouteDef{Service: pickS(services, 4), Src: pickS([]string{"foo.com/", "Foo.com/x", "bar.org", ":8080", "/p", "a.b/"}, 8),
				Dst: pickS(dsts, 8), Tags: tags()}
		}
		switch {
		case x < 55:
			d.Cmd = route.RouteAddCmd
			d.Weight = defWeights[r.Intn(len(defWeights))]
			d.Opts = opts()
			known = append(known, d)
		case x < 80:
			d.Cmd = route.RouteDelCmd
			d.Weight, d.Opts = 0, nil
			switch r.Intn(5) {
			case 0:
				d.Src, d.Dst, d.Tags = "", "", nil
			case 1:
				d.Dst, d.Tags = "", nil
			case 2:
				d.Tags = nil
			case 3:
				d.Src, d.Tags = "", nil // src empty, dst given: the branch text cannot reach
			}
		default:
			d.Cmd = route.RouteWeightCmd
			d.Dst, d.Opts = "", nil
			d.Weight = defWeights[r.Intn(len(defWeights))]
			if r.Intn(4) == 0 {
				d.Service = ""
			}
		}
		ds = append(ds, d)
	}
	return ds
}

var directedDefs = [][]route.RouteDef{
	{{Cmd: route.RouteAddCmd, Service: "s", Src: "", Dst: "http://h/"}},
	{{Cmd: route.RouteAddCmd, Service: "s", Src: "foo.com/", Dst: ""}},
	{{Cmd: route.RouteAddCmd, Service: "s", Src: "foo.com/", Dst: "http://h/"}, {Cmd: route.RouteWeightCmd, Service: "s", Src: "", Weight: 0.5}},
	{{Cmd: route.RouteAddCmd, Service: "s", Src: "/", Dst: "http://h/"}, {Cmd: route.RouteDelCmd, Service: "s", Src: "", Dst: "http://h/"}},
	{{Cmd: route.RouteAddCmd, Service: "s", Src: "Foo.com/", Dst: "http://h/", Tags: []string{"a,b", `q"t`}}, {Cmd: route.RouteDelCmd, Tags: []string{"a,b"}}},
	{{Cmd: route.RouteAddCmd, Service: "", Src: "foo.com/", Dst: "http://h/"}, {Cmd: route.RouteAddCmd, Service: "", Src: "FOO.com/", Dst: "http://h/"}, {Cmd: route.RouteDelCmd, Service: ""}},
	{{Cmd: route.RouteAddCmd, Service: "s", Src: "foo.com/", Dst: "http://h/", Weight: -1}, {Cmd: route.RouteAddCmd, Service: "s", Src: "foo.com/", Dst: "http://h/", Weight: 0}},
}

func defTerm(d route.RouteDef) (string, bool) {
	cmd := map[route.Cmd]string{route.RouteAddCmd: "CmdAdd", route.RouteDelCmd: "CmdDel", route.RouteWeightCmd: "CmdWeight"}[d.Cmd]
	w, ok := wtTerm(d.Weight)
	if cmd == "" || !ok {
		return "", false
	}
	var keys []string
	for k := range d.Opts {
		keys = append(keys, k)
	}
	sort.Strings(keys)
	var kvs []string
	for _, k := range keys {
		kvs = append(kvs, vh.Pair(vh.HxS(k), vh.HxS(d.Opts[k])))
	}
	return vh.App("mk", cmd, vh.HxS(d.Service), vh.HxS(d.Src), vh.HxS(d.Dst), w, strList(d.Tags), vh.List(kvs)), true
}

func doDefs(run *vh.Run, class string, ds []route.RouteDef) {
	f := newFacts()
	var terms []string
	var sample []string
	for _, d := range ds {
		if d.Tags != nil && len(d.Tags) == 0 {
			// reflect.DeepEqual(nil, []string{}) is false: an empty non-nil tag slice is not the model's []
			run.Exclude("RouteDef with an empty non-nil Tags slice")
			return
		}
		if !ascii(d.Service + d.Src + d.Dst + strings.Join(d.Tags, "")) {
			run.Exclude("non-ASCII text")
			return
		}
		t, ok := defTerm(d)
		if !ok {
			run.Exclude("RouteDef outside the modelled domain (command or weight)")
			return
		}
		terms = append(terms, t)
		sample = append(sample, fmt.Sprintf("%s svc=%q src=%q dst=%q w=%v tags=%q opts=%v", d.Cmd, d.Service, d.Src, d.Dst, d.Weight, d.Tags, d.Opts))
		if d.Dst != "" {
			f.url(d.Dst)
		}
		if d.Cmd == route.RouteAddCmd {
			h, p := hostpath(d.Src)
			if _, err := glob.Compile(p); err != nil {
				f.globs[p] = true
			}
			h = strings.ToLower(h)
			if _, err := glob.Compile(h); err != nil {
				f.globs[h] = true
			}
		}
	}
	var t route.Table
	var err error
	cp := append([]route.RouteDef(nil), ds...)
	panicked, pv := vh.Recover(func() { t, err = route.NewTableCustom(&cp) })
	id := run.NextID()
	if panicked {
		run.Violation(id, fmt.Sprintf("NewTableCustom panicked on a list of route definitions: %v", pv), sample)
	}
	impl, ok := outcomeTerm(run, id, t, err, panicked)
	if !ok {
		run.Exclude("table weight outside the modelled binary64 domain")
		return
	}
	s := map[string]interface{}{"defs": sample}
	if err != nil {
		s["error"] = err.Error()
	}
	run.Add(class, vh.App("CDefs", f.urlTerm(), f.globTerm(), vh.List(terms), impl), s)
}

func main() {
	run := vh.Start("C05")
	classes := []string{"mixed", "case-hosts", "lower-only", "dup-add", "weights", "tags-escape", "whitespace", "malformed", "directed", "bad-hosts", "odd-tokens"}
	for _, s := range directed {
		doScript(run, "directed-fixed", s)
	}
	for _, ds := range directedDefs {
		doDefs(run, "defs-fixed", ds)
	}
	for i := 0; i < run.Scale(260, 4000); i++ {
		doDefs(run, "defs", genDefs(run.Rng))
	}
	n := run.Scale(1300, 20000)
	for i := 0; i < n; i++ {
		g := &gen{r: run.Rng, class: classes[i%len(classes)]}
		doScript(run, g.class, g.script())
	}
	run.Finish(preamble, run.Scale(170, 400))
}
