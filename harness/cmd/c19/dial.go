// Class dial-unreachable of the C19 harness: the configured dial timeout IN TIME.  An upstream whose
// connect neither succeeds nor is refused (SYNs dropped) is put behind the real HTTPProxy for each kind of
// target; the client must get its 504 after proxy.dialtimeout (model dial_at: the transport calls the
// configured dialer once), and a reachable upstream behind the same proxy and the same transports is served
// normally before and after.  Random choices from a source of its own.
package main

import (
	"bytes"
	"crypto/tls"
	"io"
	"math/rand"
	"net"
	"net/http"
	"net/http/httptest"
	"strconv"
	"strings"
	"sync"
	"sync/atomic"
	"syscall"
	"time"

	"github.com/fabiolb/fabio/proxy"
	"github.com/fabiolb/fabio/route"
	"github.com/fabiolb/fabio/transport"

	"verifharness/internal/vh"
)

// blackhole returns the address of a loopback port on which connection attempts time out: a listening
// socket with backlog 0 whose accept queue is filled with connections nobody accepts (Linux then drops
// the SYNs of further connects).  ok = false when such a socket cannot be built here.
func blackhole() (addr string, done func(), ok bool) {
	fd, err := syscall.Socket(syscall.AF_INET, syscall.SOCK_STREAM, 0)
	if err != nil {
		return "", func() {}, false
	}
	closeFd := func() { syscall.Close(fd) }
	if err := syscall.Bind(fd, &syscall.SockaddrInet4{Addr: [4]byte{127, 0, 0, 1}}); err != nil {
		closeFd()
		return "", func() {}, false
	}
	if err := syscall.Listen(fd, 0); err != nil {
		closeFd()
		return "", func() {}, false
	}
	sa, err := syscall.Getsockname(fd)
	if err != nil {
		closeFd()
		return "", func() {}, false
	}
	addr = net.JoinHostPort("127.0.0.1", strconv.Itoa(sa.(*syscall.SockaddrInet4).Port))
	var conns []net.Conn
	done = func() {
		for _, c := range conns {
			c.Close()
		}
		closeFd()
	}
	full := false
	for i := 0; i < 16; i++ {
		c, err := net.DialTimeout("tcp", addr, 300*time.Millisecond)
		if err != nil {
			if ne, isNet := err.(net.Error); isNet && ne.Timeout() {
				full = true
			}
			break
		}
		conns = append(conns, c)
	}
	if full {
		// once more, longer (beyond the first SYN retransmission at 1 s): the port must stay silent
		if c, err := net.DialTimeout("tcp", addr, 1200*time.Millisecond); err == nil {
			c.Close()
			full = false
		} else if ne, isNet := err.(net.Error); !isNet || !ne.Timeout() {
			full = false
		}
	}
	if !full {
		done()
		return "", func() {}, false
	}
	return addr, done, true
}

func dialUnreachableClass(run *vh.Run, mu *sync.Mutex) {
	const class = "dial-unreachable"
	kindName := []string{"default", "skip-verify", "per-route host override"}
	kindOpts := []string{"", ` opts "tlsskipverify=true"`, ` opts "host=upstream.example tlsskipverify=true"`}
	dead, done, ok := blackhole()
	run.Notes["unreachable_upstream_available"] = ok
	if !ok {
		run.Exclude("class dial-unreachable: no loopback socket whose connects time out can be built on this system")
		return
	}
	defer done()
	r := rand.New(rand.NewSource(run.Seed*7919 + 29))
	type job struct {
		limit int64 // ms
		kind  int
		ust   int
		// observed: live upstream before, unreachable upstream, live upstream after
		st      [3]int
		elapsed [3]int64
		rem     bool
	}
	var jobs []*job
	// limits long enough for "within that time" (limit/2 + 400 ms beyond) to be less than a second connect
	for i, lim := range []int64{1000, 1200, 1500} {
		for kind := 0; kind < 3; kind++ {
			jobs = append(jobs, &job{limit: lim, kind: kind, ust: []int{200, 201, 404, 500}[(i+kind)%4]})
		}
	}
	// a negative dial timeout is a deadline in the past: 504 at once, reachable or not
	for kind := 0; kind < 3; kind++ {
		if run.Thorough() || kind == int(run.Seed%3+3)%3 {
			jobs = append(jobs, &job{limit: -1, kind: kind, ust: 200})
		}
	}
	for i := 0; i < run.Scale(3, 12); i++ {
		jobs = append(jobs, &job{limit: int64(900 + r.Intn(800)), kind: r.Intn(3), ust: []int{200, 201, 404, 500}[r.Intn(4)]})
	}
	var remeasured int64
	var wg sync.WaitGroup
	for _, j := range jobs {
		wg.Add(1)
		go func(j *job) {
			defer wg.Done()
			h := http.HandlerFunc(func(w http.ResponseWriter, rq *http.Request) {
				w.WriteHeader(j.ust)
				io.WriteString(w, "OK")
			})
			var up *httptest.Server
			scheme := "http"
			if j.kind == 0 {
				up = httptest.NewServer(h)
			} else {
				up = httptest.NewTLSServer(h)
				scheme = "https"
			}
			defer up.Close()
			cfg := limits{dial: int64(time.Duration(j.limit) * time.Millisecond), rht: int64(20 * time.Second)}.cfg()
			mu.Lock()
			transport.SetConfig(cfg)
			plain := transport.NewTransport(nil)
			insecure := transport.NewTransport(&tls.Config{InsecureSkipVerify: true})
			tbl, err := route.NewTable(bytes.NewBufferString(
				"route add live /live " + up.URL + "/" + kindOpts[j.kind] + "\n" +
					"route add dead /dead " + scheme + "://" + dead + "/" + kindOpts[j.kind]))
			mu.Unlock()
			if err != nil {
				panic(err)
			}
			defer plain.CloseIdleConnections()
			defer insecure.CloseIdleConnections()
			// main.go newHTTPProxy: Config: cfg.Proxy, the struct transport.SetConfig was given
			p := &proxy.HTTPProxy{Config: cfg.Proxy, Transport: plain, InsecureTransport: insecure, Lookup: func(rq *http.Request) *route.Target {
				return tbl.Lookup(rq, "", route.Picker["rr"], route.Matcher["prefix"], nil, true)
			}}
			front := httptest.NewServer(p)
			defer front.Close()
			client := &http.Client{Transport: &http.Transport{DisableKeepAlives: true}, Timeout: 30 * time.Second}
			get := func(path string) (int, int64) {
				t0 := time.Now()
				resp, err := client.Get(front.URL + path)
				if err != nil {
					return -1, time.Since(t0).Milliseconds()
				}
				io.Copy(io.Discard, resp.Body)
				resp.Body.Close()
				return resp.StatusCode, time.Since(t0).Milliseconds()
			}
			lim := j.limit
			if lim < 0 {
				lim = 0
			}
			measure := func(k int, path string, stall int64) {
				j.st[k], j.elapsed[k] = get(path)
				// no request takes longer than the limit (unreachable) or than a loopback exchange (reachable): an
				// observation beyond that by [stall] is taken as a stall of the machine and measured once more; a
				// defect that holds the client shows again.  The faster observation is reported.
				if j.elapsed[k] > stall {
					st, el := get(path)
					atomic.AddInt64(&remeasured, 1)
					j.rem = true
					if el < j.elapsed[k] {
						j.st[k], j.elapsed[k] = st, el
					}
				}
			}
			measure(0, "/live", 1000)
			measure(1, "/dead", lim+400)
			measure(2, "/live", 1000)
		}(j)
	}
	wg.Wait()
	run.Notes["dial_unreachable_remeasured"] = atomic.LoadInt64(&remeasured)
	for _, j := range jobs {
		name := []string{"reachable upstream, before", "unreachable upstream", "reachable upstream, after the timeout"}
		for k := 0; k < 3; k++ {
			reach := "(Connects 0)"
			if k == 1 {
				reach = "Unreachable"
			}
			run.Add(class, vh.App("CDialT", vh.N(j.kind), vh.Z(j.limit), reach, vh.Z(int64(j.ust)), vh.Z(int64(j.st[k])), vh.Z(j.elapsed[k])),
				map[string]interface{}{"transport": kindName[j.kind], "dial_timeout_ms": j.limit, "upstream": name[k], "upstream_status": j.ust,
					"client_status": j.st[k], "elapsed_ms": j.elapsed[k], "remeasured": j.rem, "route": strings.TrimSpace(kindOpts[j.kind])})
		}
	}
}
