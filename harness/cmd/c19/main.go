// Correspondence harness for C19 (configured upstream time limits are enforced):
// runs the real transport.SetConfig / transport.NewTransport on generated histories,
// the per-route transport of route.NewTable, the real httpProxyErrorHandler, the
// real HTTPProxy in front of a slow loopback upstream for each kind of target
// (default, skip-verify, per-route host override) and fabio's real main() in a
// separate process (driver /repo/verif_c19_test.go).
package main

import (
	"bytes"
	"context"
	"crypto/tls"
	"encoding/json"
	"errors"
	"fmt"
	"io"
	"math/rand"
	"net"
	"net/http"
	"net/http/httptest"
	"net/url"
	"os"
	"os/exec"
	"path/filepath"
	"reflect"
	"strings"
	"sync"
	"sync/atomic"
	"time"
	"unsafe"

	"github.com/fabiolb/fabio/config"
	"github.com/fabiolb/fabio/proxy"
	"github.com/fabiolb/fabio/route"
	"github.com/fabiolb/fabio/transport"

	"verifharness/internal/vh"
)

const preamble = `From Coq Require Import List ZArith NArith String.
From Fabio Require Import Lib.Outcome Lib.Bytes Lib.Pack Model.Transport Check.C19.
Import ListNotations.
Local Open Scope Z_scope.
`

type limits struct{ rht, idle, maxconn, dial, keepalive int64 }

func (l limits) coq() string {
	return fmt.Sprintf("{| l_rht := %s; l_idle := %s; l_maxconn := %s; l_dial := %s; l_keepalive := %s |}",
		vh.Z(l.rht), vh.Z(l.idle), vh.Z(l.maxconn), vh.Z(l.dial), vh.Z(l.keepalive))
}
func (l limits) cfg() *config.Config {
	c := &config.Config{}
	c.Proxy.ResponseHeaderTimeout = time.Duration(l.rht)
	c.Proxy.IdleConnTimeout = time.Duration(l.idle)
	c.Proxy.MaxConn = int(l.maxconn)
	c.Proxy.DialTimeout = time.Duration(l.dial)
	c.Proxy.KeepAliveTimeout = time.Duration(l.keepalive)
	return c
}

func randDur(r *rand.Rand) int64 {
	switch r.Intn(8) {
	case 0:
		return 0
	case 1:
		return int64(time.Duration(1+r.Intn(900)) * time.Millisecond)
	case 2:
		return int64(time.Duration(1+r.Intn(600)) * time.Second)
	case 3:
		return int64(1 + r.Intn(1000)) // nanoseconds
	case 4:
		// negative: config.Load accepts them (flag.DurationVar); "every value of the five options"
		return -[]int64{1, int64(time.Millisecond), int64(time.Second), 1 + r.Int63n(int64(48*time.Hour))}[r.Intn(4)]
	default:
		return r.Int63n(int64(48 * time.Hour))
	}
}
func randMaxConn(r *rand.Rand) int64 {
	switch r.Intn(6) {
	case 0:
		return 0
	case 1:
		return -int64(1 + r.Intn(20000)) // proxy.maxconn is an int flag: negative values are accepted
	case 2:
		return int64(1 + r.Intn(3))
	default:
		return int64(r.Intn(20000))
	}
}
func randLimits(r *rand.Rand) limits {
	return limits{randDur(r), randDur(r), randMaxConn(r), randDur(r), randDur(r)}
}

// The net.Dialer of a transport is bound in a method value ((&net.Dialer{...}).Dial or .DialContext).
// A func value points to a closure object whose first word is the code pointer and whose second word,
// for a method value, is the bound receiver.  boundDialer reads the receiver of the func variable at fp
// provided its code pointer is that of the same method value taken from a dialer of our own (probe);
// any other function (a closure, a wrapper) is reported as not readable, never guessed.
type closure struct {
	fn   uintptr
	recv *net.Dialer
}

func boundDialer(fp, probe unsafe.Pointer, probeRecv *net.Dialer) (*net.Dialer, bool) {
	pc := *(**closure)(probe)
	c := *(**closure)(fp)
	if pc == nil || c == nil || pc.recv != probeRecv || c.fn != pc.fn {
		return nil, false
	}
	return c.recv, true
}

// transportDialer: the dialer net/http connects with for this transport (DialContext is preferred over
// Dial); has = false when the transport has neither (net/http then uses a zero dialer: no configured
// limit applies); readable = false when there is one but its fields cannot be read.
func transportDialer(tr *http.Transport) (d *net.Dialer, has, readable bool) {
	own := &net.Dialer{Timeout: 123456789, KeepAlive: 987654321}
	if f := tr.DialContext; f != nil {
		pf := own.DialContext
		d, readable = boundDialer(unsafe.Pointer(&f), unsafe.Pointer(&pf), own)
		return d, true, readable
	}
	if f := tr.Dial; f != nil {
		pf := own.Dial
		d, readable = boundDialer(unsafe.Pointer(&f), unsafe.Pointer(&pf), own)
		return d, true, readable
	}
	return nil, false, true
}
func dialerTrickWorks() bool {
	d := &net.Dialer{Timeout: 5, KeepAlive: 7}
	got, has, ok := transportDialer(&http.Transport{Dial: d.Dial})
	got2, has2, ok2 := transportDialer(&http.Transport{DialContext: d.DialContext, Dial: (&net.Dialer{}).Dial})
	_, has3, ok3 := transportDialer(&http.Transport{Dial: func(n, a string) (net.Conn, error) { return d.Dial(n, a) }})
	_, has4, ok4 := transportDialer(&http.Transport{})
	return got == d && has && ok && got2 == d && has2 && ok2 && has3 && !ok3 && !has4 && ok4
}

type trFields struct {
	rht, idle, maxidle, dial, keepalive int64
	other                               int64 // how many of the named other limit / dial-bypass fields are set
	unknown                             int64 // how many further exported fields are not at their zero value
	hasTLS                              bool
	serverName                          string
	skip                                bool
	otherNames                          []string
}

// the other fields of http.Transport that limit upstream connections or take the connect away from the
// configured dialer: part of the property ("the configured limits are the ones the proxy uses")
var limitFields = map[string]bool{"MaxConnsPerHost": true, "MaxIdleConns": true, "DialTLS": true, "DialTLSContext": true, "DisableKeepAlives": true}

// fieldsOf reads what the model speaks about from a real transport; ok = false when the transport has a
// dialer whose fields cannot be read (the case is then excluded and counted, nothing is made up).
func fieldsOf(tr *http.Transport) (f trFields, ok bool) {
	f = trFields{rht: int64(tr.ResponseHeaderTimeout), idle: int64(tr.IdleConnTimeout), maxidle: int64(tr.MaxIdleConnsPerHost)}
	d, has, readable := transportDialer(tr)
	switch {
	case !has:
		f.dial, f.keepalive = 0, 0 // no dialer of its own: neither configured value is in force
	case !readable || !layoutOK:
		return f, false
	default:
		f.dial, f.keepalive = int64(d.Timeout), int64(d.KeepAlive)
	}
	if tr.TLSClientConfig != nil {
		f.hasTLS, f.serverName, f.skip = true, tr.TLSClientConfig.ServerName, tr.TLSClientConfig.InsecureSkipVerify
	}
	// every other exported field of http.Transport, found by reflection so that fields added by a newer Go
	// are covered too: the named ones above count as limits (spec), any further field that is not at its
	// zero value counts as unknown (correspondence only).  DisableCompression is neither: it only decides
	// whether the transport adds an Accept-Encoding of its own, which is C07's subject; /repo 5e1efca sets it.
	read := map[string]bool{"ResponseHeaderTimeout": true, "IdleConnTimeout": true, "MaxIdleConnsPerHost": true, "Dial": true, "DialContext": true,
		"TLSClientConfig": true, "DisableCompression": true}
	v := reflect.ValueOf(tr).Elem()
	for i := 0; i < v.NumField(); i++ {
		ft := v.Type().Field(i)
		if !ft.IsExported() || read[ft.Name] || v.Field(i).IsZero() {
			continue
		}
		if limitFields[ft.Name] {
			f.other++
		} else {
			f.unknown++
		}
		f.otherNames = append(f.otherNames, ft.Name)
	}
	return f, true
}

var layoutOK bool

const unreadable = "the transport's dialer is not a method value of a *net.Dialer: DialTimeout/KeepAlive cannot be read, case not compared"

func (f trFields) coq() string {
	tlsc := vh.None
	if f.hasTLS {
		tlsc = vh.Some(fmt.Sprintf("{| tls_server_name := %s; tls_skip_verify := %s |}", vh.HxS(f.serverName), vh.Bool(f.skip)))
	}
	return fmt.Sprintf("{| t_rht := %s; t_idle := %s; t_maxidle := %s; t_dial := %s; t_keepalive := %s; t_tls := %s; t_other := %s; t_unknown := %s |}",
		vh.Z(f.rht), vh.Z(f.idle), vh.Z(f.maxidle), vh.Z(f.dial), vh.Z(f.keepalive), tlsc, vh.Z(f.other), vh.Z(f.unknown))
}

type timeoutErr struct{ to bool }

func (e timeoutErr) Error() string   { return "net err" }
func (e timeoutErr) Timeout() bool   { return e.to }
func (e timeoutErr) Temporary() bool { return false }

func main() {
	run := vh.Start("C19")
	r := run.Rng
	dialOK := dialerTrickWorks()
	run.Notes["dialer_fields_observable"] = dialOK
	layoutOK = dialOK // when false every transport with a dialer is excluded and counted (fieldsOf), nothing is made up

	cur := limits{} // the package starts from &config.Config{}

	// 1. histories of SetConfig / NewTransport
	nHist := run.Scale(300, 6000)
	for i := 0; i < nHist; i++ {
		s0 := cur
		n := 1 + r.Intn(10)
		var ops, impl []string
		var sample []string
		readable := true
		for k := 0; k < n; k++ {
			if r.Intn(5) < 2 {
				l := randLimits(r)
				if r.Intn(8) == 0 {
					l = limits{}
				}
				transport.SetConfig(l.cfg())
				cur = l
				ops = append(ops, vh.App("SetConfig", l.coq()))
				sample = append(sample, fmt.Sprintf("SetConfig(rht=%v dial=%v maxconn=%d)", time.Duration(l.rht), time.Duration(l.dial), l.maxconn))
			} else {
				var tc *tls.Config
				tcoq := vh.None
				switch r.Intn(3) {
				case 1:
					tc = &tls.Config{InsecureSkipVerify: true}
					tcoq = vh.Some(fmt.Sprintf("{| tls_server_name := %s; tls_skip_verify := true |}", vh.HxS("")))
				case 2:
					name := fmt.Sprintf("h%d.example", r.Intn(50))
					skip := r.Intn(2) == 0
					tc = &tls.Config{ServerName: name, InsecureSkipVerify: skip}
					tcoq = vh.Some(fmt.Sprintf("{| tls_server_name := %s; tls_skip_verify := %s |}", vh.HxS(name), vh.Bool(skip)))
				}
				tr := transport.NewTransport(tc)
				f, ok := fieldsOf(tr)
				readable = readable && ok
				ops = append(ops, vh.App("NewTransport", tcoq))
				impl = append(impl, f.coq())
				sample = append(sample, fmt.Sprintf("NewTransport -> rht=%v idle=%v maxidle=%d dial=%v ka=%v other=%v", time.Duration(f.rht), time.Duration(f.idle), f.maxidle, time.Duration(f.dial), time.Duration(f.keepalive), f.otherNames))
			}
		}
		if !readable {
			run.Exclude(unreadable)
			continue
		}
		run.Add("history", vh.App("CHist", s0.coq(), vh.List(ops), vh.List(impl)), map[string]interface{}{"ops": sample})
	}

	// 1b. SetConfig keeps the caller's pointer: a write to the struct after SetConfig reaches the next transport
	for i := 0; i < run.Scale(6, 60); i++ {
		c1, c2 := randLimits(r), randLimits(r)
		c := c1.cfg()
		transport.SetConfig(c)
		*c = *c2.cfg()
		f, ok := fieldsOf(transport.NewTransport(nil))
		cur = c2
		transport.SetConfig(cur.cfg()) // a struct nobody else holds
		if !ok {
			run.Exclude(unreadable)
			continue
		}
		run.Add("caller-writes-after-setconfig", vh.App("CAlias", c1.coq(), c2.coq(), f.coq()),
			map[string]interface{}{"set_rht": time.Duration(c1.rht).String(), "written_rht": time.Duration(c2.rht).String(), "transport_rht": time.Duration(f.rht).String()})
	}

	// 2. per-route transports: host override on https destinations (scheme of the destination as written,
	// upper case included: net/url lower-cases it; option proto as written: only "https" counts)
	nRoute := run.Scale(240, 4000)
	for i := 0; i < nRoute; i++ {
		if r.Intn(4) == 0 {
			cur = randLimits(r)
			transport.SetConfig(cur.cfg())
		}
		host := []string{"", "dst", "foo.com", "a.b.example", "DST", "dst.example"}[r.Intn(6)]
		scheme := []string{"http", "https", "http", "https", "HTTPS", "Http"}[r.Intn(6)]
		dstHTTPS := strings.EqualFold(scheme, "https")
		proto := []string{"", "", "", "https", "https", "HTTPS", "tcp", "http", "https2"}[r.Intn(9)]
		skip := r.Intn(2) == 0
		var opts []string
		if host != "" {
			opts = append(opts, "host="+host)
		}
		if proto != "" {
			opts = append(opts, "proto="+proto)
		}
		if skip {
			opts = append(opts, "tlsskipverify=true")
		}
		if len(opts) == 0 && r.Intn(2) == 0 {
			opts = append(opts, "strip=/x") // an option set without host
		}
		text := fmt.Sprintf("route add svc /p%d %s://10.0.0.1:8443/", i, scheme)
		if len(opts) > 0 {
			text += ` opts "` + strings.Join(opts, " ") + `"`
		}
		tbl, err := route.NewTable(bytes.NewBufferString(text))
		if err != nil {
			run.Exclude("route text rejected: " + err.Error())
			continue
		}
		req := httptest.NewRequest("GET", fmt.Sprintf("http://x/p%d", i), nil)
		t := tbl.Lookup(req, "", route.Picker["rr"], route.Matcher["prefix"], nil, true)
		if t == nil {
			run.Exclude("route not found after add")
			continue
		}
		impl := vh.None
		if t.Transport != nil {
			f, ok := fieldsOf(t.Transport)
			if !ok {
				run.Exclude(unreadable)
				continue
			}
			impl = vh.Some(f.coq())
		}
		run.Add("route-transport", vh.App("CRoute", cur.coq(), vh.HxS(host), vh.Bool(dstHTTPS), vh.HxS(proto), vh.Bool(skip), impl),
			map[string]interface{}{"text": text, "has_transport": t.Transport != nil})
	}

	// 3. error -> status
	type ek struct {
		coq string
		err error
	}
	uerrT := &url.Error{Op: "Get", URL: "http://x", Err: timeoutErr{true}}
	uerrN := &url.Error{Op: "Get", URL: "http://x", Err: errors.New("refused")}
	kinds := []ek{
		{"ENetTimeout", timeoutErr{true}}, {"ENetTimeout", uerrT}, {"ENetTimeout", os.ErrDeadlineExceeded},
		{"ENetTimeout", &net.OpError{Op: "dial", Err: timeoutErr{true}}},
		{"ENetOther", timeoutErr{false}}, {"ENetOther", uerrN}, {"ENetOther", &net.OpError{Op: "dial", Err: errors.New("connection refused")}},
		{"ENetOther", &net.DNSError{Err: "no such host"}},
		{"EEOF", io.EOF}, {"ECanceled", context.Canceled},
		{"EOther", errors.New("boom")}, {"EOther", fmt.Errorf("wrapped: %w", io.EOF)}, {"EOther", io.ErrUnexpectedEOF},
		{"EOther", fmt.Errorf("wrapped: %w", context.Canceled)},
		// a timeout that is wrapped: not a net.Error itself
		{"EWrapsTimeout", fmt.Errorf("%w", timeoutErr{true})}, {"EWrapsTimeout", fmt.Errorf("round trip: %w", uerrT)},
		{"EWrapsTimeout", fmt.Errorf("%w", os.ErrDeadlineExceeded)},
		{"EOther", fmt.Errorf("%w", timeoutErr{false})},
	}
	for _, k := range kinds {
		// classify with the predicates the model's kinds are defined by, not by our own label
		kind := "EOther"
		if ne, ok := k.err.(net.Error); ok {
			if ne.Timeout() {
				kind = "ENetTimeout"
			} else {
				kind = "ENetOther"
			}
		} else if k.err == io.EOF {
			kind = "EEOF"
		} else if k.err == context.Canceled {
			kind = "ECanceled"
		} else {
			var ne net.Error
			if errors.As(k.err, &ne) && ne.Timeout() {
				kind = "EWrapsTimeout"
			}
		}
		_ = k.coq
		rec := httptest.NewRecorder()
		proxy.VerifHTTPProxyErrorHandler(rec, httptest.NewRequest("GET", "/", nil), k.err)
		run.Add("error-status", vh.App("CErr", kind, vh.Z(int64(rec.Code))), map[string]interface{}{"err": fmt.Sprintf("%T %v", k.err, k.err), "status": rec.Code})
	}

	// 4. the limit in action: slow upstream behind the real HTTPProxy, for each kind of target (kind 0: plain
	// http, default transport; 1: TLS upstream + tlsskipverify=true, the skip-verify transport; 2: TLS upstream
	// + host override, the transport route.addTarget builds).  All three transports and the table are built
	// under one SetConfig, as in main().
	type sc struct{ limit, delay int64 }
	// 1500/4000 and 1200/100 have a limit long enough for "within that time" to tell one attempt from two;
	// a negative response-header timeout is no limit (net/http starts the timer only for d > 0)
	scen := []sc{{150, 0}, {150, 40}, {150, 400}, {150, 700}, {300, 100}, {300, 900}, {0, 250}, {80, 500}, {1500, 4000}, {1200, 100}, {-200, 300}, {-1, 0}}
	if run.Thorough() {
		for i := 0; i < 24; i++ {
			scen = append(scen, sc{int64(50 + r.Intn(400)), int64(r.Intn(1200))})
		}
	}
	kindName := []string{"default", "skip-verify", "per-route host override"}
	kindOpts := []string{"", ` opts "tlsskipverify=true"`, ` opts "host=upstream.example tlsskipverify=true"`}
	type res struct {
		s       sc
		kind    int
		ust     int
		status  int
		elapsed int64
		hits    int64
	}
	var results []*res
	var remeasured int64
	var wg sync.WaitGroup
	var mu sync.Mutex // SetConfig/NewTransport groups must not interleave: the state is a package variable
	for i, s := range scen {
		// drop scenarios whose delay is within 60 ms of the limit: the race is then decided by the scheduler
		if s.limit > 0 && abs(s.delay-s.limit) < 60 {
			run.Exclude("delay within 60ms of the limit: outcome decided by the scheduler")
			continue
		}
		for kind := 0; kind < 3; kind++ {
			if !run.Thorough() && kind != i%3 && i >= 6 && s.limit != 1500 {
				continue // quick tier: all three kinds for the first six scenarios and the long timeout, one kind for the rest
			}
			x := &res{s: s, kind: kind, ust: []int{200, 201, 404, 500}[r.Intn(4)]}
			results = append(results, x)
			wg.Add(1)
			go func(x *res) {
				defer wg.Done()
				h := http.HandlerFunc(func(w http.ResponseWriter, rq *http.Request) {
					atomic.AddInt64(&x.hits, 1)
					time.Sleep(time.Duration(x.s.delay) * time.Millisecond)
					w.WriteHeader(x.ust)
				})
				var up *httptest.Server
				if x.kind == 0 {
					up = httptest.NewServer(h)
				} else {
					up = httptest.NewTLSServer(h)
				}
				defer up.Close()
				mu.Lock()
				transport.SetConfig(limits{rht: int64(time.Duration(x.s.limit) * time.Millisecond)}.cfg())
				plain := transport.NewTransport(nil)
				insecure := transport.NewTransport(&tls.Config{InsecureSkipVerify: true})
				tbl, err := route.NewTable(bytes.NewBufferString("route add mock / " + up.URL + kindOpts[x.kind]))
				mu.Unlock()
				if err != nil {
					panic(err)
				}
				p := &proxy.HTTPProxy{Transport: plain, InsecureTransport: insecure, Lookup: func(rq *http.Request) *route.Target {
					return tbl.Lookup(rq, "", route.Picker["rr"], route.Matcher["prefix"], nil, true)
				}}
				measure := func() {
					atomic.StoreInt64(&x.hits, 0)
					rec := httptest.NewRecorder()
					t0 := time.Now()
					p.ServeHTTP(rec, httptest.NewRequest("GET", "http://front/", nil))
					x.elapsed = time.Since(t0).Milliseconds()
					x.status = rec.Code
					time.Sleep(30 * time.Millisecond) // a request sent at the very end is still counted
				}
				measure()
				// No request, served or given up, takes longer than the upstream's own delay: an observation a second
				// beyond it is a stall of the machine (the quick tier shares it with other checks) and is measured
				// once more; a defect that holds the client shows again.  The faster observation is reported.
				if x.elapsed > x.s.delay+1000 {
					first := *x
					time.Sleep(time.Duration(x.s.delay) * time.Millisecond)
					measure()
					atomic.AddInt64(&remeasured, 1)
					if first.elapsed < x.elapsed {
						x.elapsed, x.status, x.hits = first.elapsed, first.status, first.hits
					}
				}
				plain.CloseIdleConnections()
				insecure.CloseIdleConnections()
			}(x)
		}
	}
	wg.Wait()
	cur = limits{} // leave a defined state: whatever was set last is irrelevant below
	transport.SetConfig(cur.cfg())
	run.Notes["slow_upstream_remeasured"] = atomic.LoadInt64(&remeasured)
	for _, x := range results {
		run.Add("slow-upstream", vh.App("CServe", vh.N(x.kind), vh.Z(x.s.limit), vh.Z(x.s.delay), vh.Z(int64(x.ust)), vh.Z(int64(x.status)), vh.Z(x.elapsed), vh.Z(atomic.LoadInt64(&x.hits))),
			map[string]interface{}{"transport": kindName[x.kind], "limit_ms": x.s.limit, "delay_ms": x.s.delay, "upstream_status": x.ust, "client_status": x.status, "elapsed_ms": x.elapsed, "upstream_hits": x.hits})
	}
	// 4b. whole exchanges (slow upload, slow body) behind a real listener: body.go; random choices from a source of its own
	bodyClass(run, &mu)
	transport.SetConfig(cur.cfg())
	realMain(run, r)
	// 5. the dial timeout in action for each kind of target: the default transport, the skip-verify one
	// (main.go InsecureTransport) and a per-route host-override transport.  1 ns cannot be met even on
	// loopback; 5 s always is; 0 is no limit; a negative value is a deadline in the past (net.Dialer).
	for _, lim := range []int64{1, int64(5 * time.Second), 0, -1, -int64(5 * time.Second)} {
		mu.Lock()
		transport.SetConfig(limits{dial: lim}.cfg())
		plain := transport.NewTransport(nil)
		insecure := transport.NewTransport(&tls.Config{InsecureSkipVerify: true})
		for kind := 0; kind < 3; kind++ {
			ust := []int{200, 201, 404}[r.Intn(3)]
			h := http.HandlerFunc(func(w http.ResponseWriter, rq *http.Request) { w.WriteHeader(ust) })
			var up *httptest.Server
			if kind == 0 {
				up = httptest.NewServer(h)
			} else {
				up = httptest.NewTLSServer(h)
			}
			tbl, err := route.NewTable(bytes.NewBufferString("route add mock / " + up.URL + kindOpts[kind]))
			if err != nil {
				panic(err)
			}
			p := &proxy.HTTPProxy{Transport: plain, InsecureTransport: insecure, Lookup: func(rq *http.Request) *route.Target {
				return tbl.Lookup(rq, "", route.Picker["rr"], route.Matcher["prefix"], nil, true)
			}}
			rec := httptest.NewRecorder()
			p.ServeHTTP(rec, httptest.NewRequest("GET", "http://front/", nil))
			up.Close()
			run.Add("dial-timeout", vh.App("CDial", vh.N(kind), vh.Z(lim), vh.Z(1000), vh.Z(int64(ust)), vh.Z(int64(rec.Code))),
				map[string]interface{}{"transport": kindName[kind], "dial_timeout_ns": lim, "upstream_status": ust, "client_status": rec.Code})
		}
		mu.Unlock()
	}
	// 6. the dial timeout in time: an unreachable upstream (dial.go; random choices from a source of its own)
	dialUnreachableClass(run, &mu)
	transport.SetConfig(limits{}.cfg())
	run.Finish(preamble, run.Scale(40, 400))
}

// realMain runs fabio's real main() (driver /repo/verif_c19_test.go, one `go test` process per
// configuration since main() parses flags once) with the static backend and three routes: a plain-http
// upstream (default transport), and one slow TLS upstream served by the skip-verify transport and by a
// per-route host-override transport, which route.addTarget builds while the FIRST routing table is
// built, i.e. before the listeners start.
// Observed: the private transport of every target of the installed table (one CMain case: the model is
// main_start from the initial package state) and status, time and upstream hits of real requests
// through the real listener (CServe cases, one per route and delay).
func realMain(run *vh.Run, r *rand.Rand) {
	repo := os.Getenv("VERIF_REPO")
	if repo == "" {
		repo = "/repo"
	}
	dir, err := os.MkdirTemp("", "c19main")
	if err != nil {
		panic(err)
	}
	defer os.RemoveAll(dir)
	bin := filepath.Join(dir, "fabio.test")
	cmd := exec.Command("go", "test", "-tags", "verif", "-c", "-o", bin, ".")
	cmd.Dir = repo
	if out, err := cmd.CombinedOutput(); err != nil {
		run.Violation(run.NextID(), "cannot build the real-main driver (go test -tags verif -c in "+repo+"): "+err.Error(), string(out))
		return
	}
	type in struct {
		RHT, Idle, Dial, KeepAlive int64
		MaxConn                    int
		Delays                     []int64
	}
	n := run.Scale(2, 8)
	for i := 0; i < n; i++ {
		rht := int64(200+100*r.Intn(4)) * int64(time.Millisecond)
		if i == 1 {
			rht = int64(1500 * time.Millisecond)
		}
		l := limits{rht: rht, idle: int64(1+r.Intn(90)) * int64(time.Second), maxconn: int64(1 + r.Intn(500)),
			dial: int64(2+r.Intn(5)) * int64(time.Second), keepalive: int64(1+r.Intn(60)) * int64(time.Second)}
		if i%2 == 1 {
			l.keepalive, l.idle = -l.keepalive, -l.idle // negative values pass config.Load and reach the transport as they are
		}
		rhtMs := rht / int64(time.Millisecond)
		job := in{l.rht, l.idle, l.dial, l.keepalive, int(l.maxconn), []int64{0, rhtMs / 3, rhtMs*2 + 700}}
		b, _ := json.Marshal(job)
		inF, outF := filepath.Join(dir, fmt.Sprintf("in%d.json", i)), filepath.Join(dir, fmt.Sprintf("out%d.json", i))
		os.WriteFile(inF, b, 0o644)
		c := exec.Command(bin, "-test.run", "TestVerifC19$", "-test.count=1", "-test.timeout=3m")
		c.Dir = repo
		c.Env = append(os.Environ(), "VERIF_C19_IN="+inF, "VERIF_C19_OUT="+outF)
		outb, err := c.CombinedOutput()
		var res struct {
			Targets []struct {
				Path                      string
				Host, Proto, Scheme       string
				TLSSkipVerify             bool
				HasTransport              bool
				RHT, Idle                 int64
				MaxIdle                   int
				ServerName                string
				Skip                      bool
				HasDialer, DialerReadable bool
				Dial, KeepAlive           int64
				Other                     []string
			}
			Reqs []struct {
				Path    string
				DelayMs int64
				Status  int
				Elapsed int64
				Hits    int64
				// the driver repeats a request whose first observation was more than 1 s beyond the upstream's delay
				Remeasured bool
			}
		}
		ob, rerr := os.ReadFile(outF)
		if err != nil || rerr != nil || json.Unmarshal(ob, &res) != nil {
			tail := string(outb)
			if len(tail) > 1500 {
				tail = tail[len(tail)-1500:]
			}
			run.Violation(run.NextID(), fmt.Sprintf("fabio's real main() did not come up or the driver failed with limits %+v", job), tail)
			continue
		}
		var tgs, impl []string
		var sample []map[string]interface{}
		readable := true
		kindOf := map[string]int{}
		for _, tg := range res.Targets {
			tgs = append(tgs, fmt.Sprintf("{| tg_host := %s; tg_dst_https := %s; tg_proto := %s; tg_skip := %s |}",
				vh.HxS(tg.Host), vh.Bool(strings.EqualFold(tg.Scheme, "https")), vh.HxS(tg.Proto), vh.Bool(tg.TLSSkipVerify)))
			kindOf[tg.Path] = 0
			if tg.TLSSkipVerify {
				kindOf[tg.Path] = 1
			}
			if !tg.HasTransport {
				impl = append(impl, vh.None)
			} else {
				kindOf[tg.Path] = 2
				if tg.HasDialer && !tg.DialerReadable {
					readable = false
				}
				// the driver reports the named limit fields only; further fields are compared in the in-process classes
				f := trFields{rht: tg.RHT, idle: tg.Idle, maxidle: int64(tg.MaxIdle), dial: tg.Dial, keepalive: tg.KeepAlive, hasTLS: true, serverName: tg.ServerName, skip: tg.Skip,
					other: int64(len(tg.Other))}
				impl = append(impl, vh.Some(f.coq()))
			}
			sample = append(sample, map[string]interface{}{"route": tg.Path, "has_transport": tg.HasTransport, "rht": time.Duration(tg.RHT).String(), "idle": time.Duration(tg.Idle).String(),
				"maxidle": tg.MaxIdle, "dial": time.Duration(tg.Dial).String(), "keepalive": time.Duration(tg.KeepAlive).String(), "other": tg.Other})
		}
		if !readable {
			run.Exclude(unreadable)
		} else {
			run.Add("real-main-table", vh.App("CMain", l.coq(), vh.List(tgs), vh.List(impl)), map[string]interface{}{"limits": job, "targets": sample})
		}
		for _, q := range res.Reqs {
			if abs(q.DelayMs-rhtMs) < 60 {
				continue
			}
			run.Add("real-main-slow-upstream", vh.App("CServe", vh.N(kindOf[q.Path]), vh.Z(rhtMs), vh.Z(q.DelayMs), vh.Z(200), vh.Z(int64(q.Status)), vh.Z(q.Elapsed), vh.Z(q.Hits)),
				map[string]interface{}{"route": q.Path, "limit_ms": rhtMs, "delay_ms": q.DelayMs, "client_status": q.Status, "elapsed_ms": q.Elapsed, "upstream_hits": q.Hits, "remeasured": q.Remeasured})
		}
	}
	realMainBody(run, bin, repo, dir)
}

func abs(x int64) int64 {
	if x < 0 {
		return -x
	}
	return x
}
