// Correspondence harness for C19 (configured upstream time limits are enforced):
// runs the real transport.SetConfig / transport.NewTransport on generated histories,
// the per-route transport of route.NewTable, the real httpProxyErrorHandler and the
// real HTTPProxy in front of a slow loopback upstream.
package main

import (
	"bytes"
	"context"
	"crypto/tls"
	"encoding/json"
	"errors"
	"fmt"
	"io"
	"math/rand"
	"net"
	"net/http"
	"net/http/httptest"
	"net/url"
	"os"
	"os/exec"
	"path/filepath"
	"reflect"
	"strings"
	"sync"
	"sync/atomic"
	"time"
	"unsafe"

	"github.com/fabiolb/fabio/config"
	"github.com/fabiolb/fabio/proxy"
	"github.com/fabiolb/fabio/route"
	"github.com/fabiolb/fabio/transport"

	"verifharness/internal/vh"
)

const preamble = `From Coq Require Import List ZArith NArith String.
From Fabio Require Import Lib.Outcome Lib.Bytes Lib.Pack Model.Transport Check.C19.
Import ListNotations.
Local Open Scope Z_scope.
`

type limits struct{ rht, idle, maxconn, dial, keepalive int64 }

func (l limits) coq() string {
	return fmt.Sprintf("{| l_rht := %s; l_idle := %s; l_maxconn := %s; l_dial := %s; l_keepalive := %s |}",
		vh.Z(l.rht), vh.Z(l.idle), vh.Z(l.maxconn), vh.Z(l.dial), vh.Z(l.keepalive))
}
func (l limits) cfg() *config.Config {
	c := &config.Config{}
	c.Proxy.ResponseHeaderTimeout = time.Duration(l.rht)
	c.Proxy.IdleConnTimeout = time.Duration(l.idle)
	c.Proxy.MaxConn = int(l.maxconn)
	c.Proxy.DialTimeout = time.Duration(l.dial)
	c.Proxy.KeepAliveTimeout = time.Duration(l.keepalive)
	return c
}

func randDur(r *rand.Rand) int64 {
	switch r.Intn(6) {
	case 0:
		return 0
	case 1:
		return int64(time.Duration(1+r.Intn(900)) * time.Millisecond)
	case 2:
		return int64(time.Duration(1+r.Intn(600)) * time.Second)
	case 3:
		return int64(1 + r.Intn(1000)) // nanoseconds
	default:
		return r.Int63n(int64(48 * time.Hour))
	}
}
func randLimits(r *rand.Rand) limits {
	return limits{randDur(r), randDur(r), int64(r.Intn(20000)), randDur(r), randDur(r)}
}

// dialerOf recovers the *net.Dialer bound in the method value tr.Dial
// ((&net.Dialer{...}).Dial): a func value points to a closure object whose
// first word is the code pointer and whose second word is the bound receiver.
// The layout is checked on a dialer of our own before it is relied on.
func dialerOf(f func(network, addr string) (net.Conn, error)) *net.Dialer {
	type closure struct {
		fn   uintptr
		recv *net.Dialer
	}
	return (*(**closure)(unsafe.Pointer(&f))).recv
}
func dialerTrickWorks() bool {
	d := &net.Dialer{Timeout: 123456789, KeepAlive: 987654321}
	got := dialerOf(d.Dial)
	return got == d
}

type trFields struct {
	rht, idle, maxidle, dial, keepalive int64
	other                               int64 // how many other limit fields of http.Transport are set
	hasTLS                              bool
	serverName                          string
	skip                                bool
	otherNames                          []string
}

func fieldsOf(tr *http.Transport, dialOK bool, want limits) trFields {
	f := trFields{rht: int64(tr.ResponseHeaderTimeout), idle: int64(tr.IdleConnTimeout), maxidle: int64(tr.MaxIdleConnsPerHost)}
	if dialOK && tr.Dial != nil {
		d := dialerOf(tr.Dial)
		f.dial, f.keepalive = int64(d.Timeout), int64(d.KeepAlive)
	} else {
		// not observable: report what the model expects so that the comparison is on the other fields only
		f.dial, f.keepalive = want.dial, want.keepalive
	}
	if tr.TLSClientConfig != nil {
		f.hasTLS, f.serverName, f.skip = true, tr.TLSClientConfig.ServerName, tr.TLSClientConfig.InsecureSkipVerify
	}
	// every other exported field of http.Transport that limits or changes connection handling:
	// NewTransport leaves them at their zero value (found by reflection, so fields added by a
	// newer Go are covered too)
	// (DisableCompression is neither a limit nor connection handling: it only decides whether the
	// transport adds an Accept-Encoding of its own, which is C07's subject; /repo 5e1efca sets it)
	known := map[string]bool{"ResponseHeaderTimeout": true, "IdleConnTimeout": true, "MaxIdleConnsPerHost": true, "Dial": true, "TLSClientConfig": true,
		"DisableCompression": true}
	v := reflect.ValueOf(tr).Elem()
	for i := 0; i < v.NumField(); i++ {
		ft := v.Type().Field(i)
		if !ft.IsExported() || known[ft.Name] {
			continue
		}
		if !v.Field(i).IsZero() {
			f.other++
			f.otherNames = append(f.otherNames, ft.Name)
		}
	}
	return f
}
func (f trFields) coq() string {
	tlsc := vh.None
	if f.hasTLS {
		tlsc = vh.Some(fmt.Sprintf("{| tls_server_name := %s; tls_skip_verify := %s |}", vh.HxS(f.serverName), vh.Bool(f.skip)))
	}
	return fmt.Sprintf("{| t_rht := %s; t_idle := %s; t_maxidle := %s; t_dial := %s; t_keepalive := %s; t_tls := %s; t_other := %s |}",
		vh.Z(f.rht), vh.Z(f.idle), vh.Z(f.maxidle), vh.Z(f.dial), vh.Z(f.keepalive), tlsc, vh.Z(f.other))
}

type timeoutErr struct{ to bool }

func (e timeoutErr) Error() string   { return "net err" }
func (e timeoutErr) Timeout() bool   { return e.to }
func (e timeoutErr) Temporary() bool { return false }

func main() {
	run := vh.Start("C19")
	r := run.Rng
	dialOK := dialerTrickWorks()
	run.Notes["dialer_fields_observable"] = dialOK
	if !dialOK {
		run.Exclude("net.Dialer bound in Transport.Dial not recoverable with this toolchain: DialTimeout/KeepAlive not compared")
	}

	cur := limits{} // the package starts from &config.Config{}

	// 1. histories of SetConfig / NewTransport
	nHist := run.Scale(300, 6000)
	for i := 0; i < nHist; i++ {
		s0 := cur
		n := 1 + r.Intn(10)
		var ops, impl []string
		var sample []string
		for k := 0; k < n; k++ {
			if r.Intn(5) < 2 {
				l := randLimits(r)
				if r.Intn(8) == 0 {
					l = limits{}
				}
				transport.SetConfig(l.cfg())
				cur = l
				ops = append(ops, vh.App("SetConfig", l.coq()))
				sample = append(sample, fmt.Sprintf("SetConfig(rht=%v)", time.Duration(l.rht)))
			} else {
				var tc *tls.Config
				tcoq := vh.None
				switch r.Intn(3) {
				case 1:
					tc = &tls.Config{InsecureSkipVerify: true}
					tcoq = vh.Some(fmt.Sprintf("{| tls_server_name := %s; tls_skip_verify := true |}", vh.HxS("")))
				case 2:
					name := fmt.Sprintf("h%d.example", r.Intn(50))
					skip := r.Intn(2) == 0
					tc = &tls.Config{ServerName: name, InsecureSkipVerify: skip}
					tcoq = vh.Some(fmt.Sprintf("{| tls_server_name := %s; tls_skip_verify := %s |}", vh.HxS(name), vh.Bool(skip)))
				}
				tr := transport.NewTransport(tc)
				f := fieldsOf(tr, dialOK, cur)
				ops = append(ops, vh.App("NewTransport", tcoq))
				impl = append(impl, f.coq())
				sample = append(sample, fmt.Sprintf("NewTransport -> rht=%v idle=%v maxidle=%d dial=%v ka=%v other=%v", time.Duration(f.rht), time.Duration(f.idle), f.maxidle, time.Duration(f.dial), time.Duration(f.keepalive), f.otherNames))
			}
		}
		run.Add("history", vh.App("CHist", s0.coq(), vh.List(ops), vh.List(impl)), map[string]interface{}{"ops": sample})
	}

	// 2. per-route transports: host override on https destinations
	nRoute := run.Scale(200, 4000)
	for i := 0; i < nRoute; i++ {
		if r.Intn(4) == 0 {
			cur = randLimits(r)
			transport.SetConfig(cur.cfg())
		}
		host := []string{"", "dst", "foo.com", "a.b.example", "DST", "dst.example"}[r.Intn(6)]
		dstHTTPS := r.Intn(2) == 0
		protoHTTPS := r.Intn(3) == 0
		skip := r.Intn(2) == 0
		scheme := "http"
		if dstHTTPS {
			scheme = "https"
		}
		var opts []string
		if host != "" {
			opts = append(opts, "host="+host)
		}
		if protoHTTPS {
			opts = append(opts, "proto=https")
		}
		if skip {
			opts = append(opts, "tlsskipverify=true")
		}
		if len(opts) == 0 && r.Intn(2) == 0 {
			opts = append(opts, "strip=/x") // an option set without host
		}
		text := fmt.Sprintf("route add svc /p%d %s://10.0.0.1:8443/", i, scheme)
		if len(opts) > 0 {
			text += ` opts "` + strings.Join(opts, " ") + `"`
		}
		tbl, err := route.NewTable(bytes.NewBufferString(text))
		if err != nil {
			run.Exclude("route text rejected: " + err.Error())
			continue
		}
		req := httptest.NewRequest("GET", fmt.Sprintf("http://x/p%d", i), nil)
		t := tbl.Lookup(req, "", route.Picker["rr"], route.Matcher["prefix"], nil, true)
		if t == nil {
			run.Exclude("route not found after add")
			continue
		}
		impl := vh.None
		if t.Transport != nil {
			impl = vh.Some(fieldsOf(t.Transport, dialOK, cur).coq())
		}
		run.Add("route-transport", vh.App("CRoute", cur.coq(), vh.HxS(host), vh.Bool(dstHTTPS), vh.Bool(protoHTTPS), vh.Bool(skip), impl),
			map[string]interface{}{"text": text, "has_transport": t.Transport != nil})
	}

	// 3. error -> status
	type ek struct {
		coq string
		err error
	}
	uerrT := &url.Error{Op: "Get", URL: "http://x", Err: timeoutErr{true}}
	uerrN := &url.Error{Op: "Get", URL: "http://x", Err: errors.New("refused")}
	kinds := []ek{
		{"ENetTimeout", timeoutErr{true}}, {"ENetTimeout", uerrT}, {"ENetTimeout", os.ErrDeadlineExceeded},
		{"ENetTimeout", &net.OpError{Op: "dial", Err: timeoutErr{true}}},
		{"ENetOther", timeoutErr{false}}, {"ENetOther", uerrN}, {"ENetOther", &net.OpError{Op: "dial", Err: errors.New("connection refused")}},
		{"ENetOther", &net.DNSError{Err: "no such host"}},
		{"EEOF", io.EOF}, {"ECanceled", context.Canceled},
		{"EOther", errors.New("boom")}, {"EOther", fmt.Errorf("wrapped: %w", io.EOF)}, {"EOther", io.ErrUnexpectedEOF},
		{"EOther", fmt.Errorf("wrapped: %w", context.Canceled)},
	}
	for _, k := range kinds {
		// classify with the predicates the model's kinds are defined by, not by our own label
		kind := "EOther"
		if ne, ok := k.err.(net.Error); ok {
			if ne.Timeout() {
				kind = "ENetTimeout"
			} else {
				kind = "ENetOther"
			}
		} else if k.err == io.EOF {
			kind = "EEOF"
		} else if k.err == context.Canceled {
			kind = "ECanceled"
		}
		_ = k.coq
		rec := httptest.NewRecorder()
		proxy.VerifHTTPProxyErrorHandler(rec, httptest.NewRequest("GET", "/", nil), k.err)
		run.Add("error-status", vh.App("CErr", kind, vh.Z(int64(rec.Code))), map[string]interface{}{"err": fmt.Sprintf("%T %v", k.err, k.err), "status": rec.Code})
	}

	// 4. the limit in action: slow upstream behind the real HTTPProxy
	type sc struct{ limit, delay int64 }
	// the last two have a limit long enough for "within that time" to tell one attempt from two
	scen := []sc{{150, 0}, {150, 40}, {150, 400}, {150, 700}, {300, 100}, {300, 900}, {0, 250}, {80, 500}, {1500, 4000}, {1200, 100}}
	if run.Thorough() {
		for i := 0; i < 24; i++ {
			scen = append(scen, sc{int64(50 + r.Intn(400)), int64(r.Intn(1200))})
		}
	}
	// drop scenarios whose delay is within 60 ms of the limit: the race is then decided by the scheduler
	type res struct {
		s       sc
		ust     int
		status  int
		elapsed int64
		hits    int64
	}
	results := make([]res, len(scen))
	var wg sync.WaitGroup
	var mu sync.Mutex // SetConfig/NewTransport pairs must not interleave: the state is a package variable
	for i, s := range scen {
		if s.limit > 0 && abs(s.delay-s.limit) < 60 {
			run.Exclude("delay within 60ms of the limit: outcome decided by the scheduler")
			results[i].status = -1
			continue
		}
		ust := []int{200, 201, 404, 500}[r.Intn(4)]
		l := limits{rht: int64(time.Duration(s.limit) * time.Millisecond)}
		mu.Lock()
		transport.SetConfig(l.cfg())
		tr := transport.NewTransport(nil)
		mu.Unlock()
		wg.Add(1)
		go func(i int, s sc, ust int, tr *http.Transport) {
			defer wg.Done()
			var hits int64
			up := httptest.NewServer(http.HandlerFunc(func(w http.ResponseWriter, rq *http.Request) {
				atomic.AddInt64(&hits, 1)
				time.Sleep(time.Duration(s.delay) * time.Millisecond)
				w.WriteHeader(ust)
			}))
			defer up.Close()
			p := &proxy.HTTPProxy{Transport: tr, Lookup: func(rq *http.Request) *route.Target {
				tbl, _ := route.NewTable(bytes.NewBufferString("route add mock / " + up.URL))
				return tbl.Lookup(rq, "", route.Picker["rr"], route.Matcher["prefix"], nil, true)
			}}
			rec := httptest.NewRecorder()
			t0 := time.Now()
			p.ServeHTTP(rec, httptest.NewRequest("GET", "http://front/", nil))
			el := time.Since(t0).Milliseconds()
			time.Sleep(30 * time.Millisecond) // a request sent at the very end is still counted
			results[i] = res{s, ust, rec.Code, el, atomic.LoadInt64(&hits)}
			tr.CloseIdleConnections()
		}(i, s, ust, tr)
	}
	wg.Wait()
	cur = limits{} // leave a defined state: whatever was set last is irrelevant below
	transport.SetConfig(cur.cfg())
	for _, x := range results {
		if x.status == -1 {
			continue
		}
		run.Add("slow-upstream", vh.App("CServe", vh.Z(x.s.limit), vh.Z(x.s.delay), vh.Z(int64(x.ust)), vh.Z(int64(x.status)), vh.Z(x.elapsed), vh.Z(3000), vh.Z(x.hits)),
			map[string]interface{}{"limit_ms": x.s.limit, "delay_ms": x.s.delay, "upstream_status": x.ust, "client_status": x.status, "elapsed_ms": x.elapsed, "upstream_hits": x.hits})
	}
	realMain(run, r)
	// 5. the dial timeout in action for each kind of transport NewTransport builds: the default one, the
	// skip-verify one (main.go InsecureTransport) and a per-route host-override transport.  1 ns cannot
	// be met even on loopback; 5 s always is.
	for _, lim := range []int64{1, int64(5 * time.Second)} {
		mu.Lock()
		transport.SetConfig(limits{dial: lim}.cfg())
		plain := transport.NewTransport(nil)
		insecure := transport.NewTransport(&tls.Config{InsecureSkipVerify: true})
		for kind := 0; kind < 3; kind++ {
			ust := []int{200, 201, 404}[r.Intn(3)]
			h := http.HandlerFunc(func(w http.ResponseWriter, rq *http.Request) { w.WriteHeader(ust) })
			var up *httptest.Server
			opts := ""
			switch kind {
			case 0:
				up = httptest.NewServer(h)
			case 1:
				up = httptest.NewTLSServer(h)
				opts = ` opts "tlsskipverify=true"`
			case 2:
				up = httptest.NewTLSServer(h)
				opts = ` opts "host=upstream.example tlsskipverify=true"` // gets its own transport from route.go
			}
			tbl, err := route.NewTable(bytes.NewBufferString("route add mock / " + up.URL + opts))
			if err != nil {
				panic(err)
			}
			p := &proxy.HTTPProxy{Transport: plain, InsecureTransport: insecure, Lookup: func(rq *http.Request) *route.Target {
				return tbl.Lookup(rq, "", route.Picker["rr"], route.Matcher["prefix"], nil, true)
			}}
			rec := httptest.NewRecorder()
			p.ServeHTTP(rec, httptest.NewRequest("GET", "http://front/", nil))
			up.Close()
			run.Add("dial-timeout", vh.App("CDial", vh.N(kind), vh.Z(lim), vh.Z(1000), vh.Z(int64(ust)), vh.Z(int64(rec.Code))),
				map[string]interface{}{"transport": []string{"default", "skip-verify", "per-route host override"}[kind], "dial_timeout_ns": lim, "upstream_status": ust, "client_status": rec.Code})
		}
		mu.Unlock()
	}
	transport.SetConfig(limits{}.cfg())
	run.Finish(preamble, run.Scale(40, 400))
}

// realMain runs fabio's real main() (driver /repo/verif_c19_test.go, one `go test` process per
// configuration since main() parses flags once) with the static backend and two routes to one slow TLS
// upstream: served by the skip-verify transport and by a per-route host-override transport, which
// route.addTarget builds while the FIRST routing table is built, i.e. before the listeners start.
// Observed: the limit fields of the per-route transport in the installed table (a CRoute case) and
// status, time and upstream hits of real requests through the real listener (CServe cases).
func realMain(run *vh.Run, r *rand.Rand) {
	repo := os.Getenv("VERIF_REPO")
	if repo == "" {
		repo = "/repo"
	}
	dir, err := os.MkdirTemp("", "c19main")
	if err != nil {
		panic(err)
	}
	defer os.RemoveAll(dir)
	bin := filepath.Join(dir, "fabio.test")
	cmd := exec.Command("go", "test", "-tags", "verif", "-c", "-o", bin, ".")
	cmd.Dir = repo
	if out, err := cmd.CombinedOutput(); err != nil {
		run.Violation(run.NextID(), "cannot build the real-main driver (go test -tags verif -c in "+repo+"): "+err.Error(), string(out))
		return
	}
	type in struct {
		RHT, Idle, Dial, KeepAlive int64
		MaxConn                    int
		Delays                     []int64
	}
	n := run.Scale(2, 8)
	for i := 0; i < n; i++ {
		rht := int64(200+100*r.Intn(4)) * int64(time.Millisecond)
		if i == 1 {
			rht = int64(1500 * time.Millisecond)
		}
		l := limits{rht: rht, idle: int64(1+r.Intn(90)) * int64(time.Second), maxconn: int64(1 + r.Intn(500)),
			dial: int64(2+r.Intn(5)) * int64(time.Second), keepalive: int64(1+r.Intn(60)) * int64(time.Second)}
		rhtMs := rht / int64(time.Millisecond)
		job := in{l.rht, l.idle, l.dial, l.keepalive, int(l.maxconn), []int64{0, rhtMs / 3, rhtMs*2 + 700}}
		b, _ := json.Marshal(job)
		inF, outF := filepath.Join(dir, fmt.Sprintf("in%d.json", i)), filepath.Join(dir, fmt.Sprintf("out%d.json", i))
		os.WriteFile(inF, b, 0o644)
		c := exec.Command(bin, "-test.run", "TestVerifC19$", "-test.count=1", "-test.timeout=3m")
		c.Dir = repo
		c.Env = append(os.Environ(), "VERIF_C19_IN="+inF, "VERIF_C19_OUT="+outF)
		outb, err := c.CombinedOutput()
		var res struct {
			Targets []struct {
				Path         string
				HasTransport bool
				RHT, Idle    int64
				MaxIdle      int
				ServerName   string
				Skip         bool
			}
			Reqs []struct {
				Path    string
				DelayMs int64
				Status  int
				Elapsed int64
				Hits    int64
			}
		}
		ob, rerr := os.ReadFile(outF)
		if err != nil || rerr != nil || json.Unmarshal(ob, &res) != nil {
			tail := string(outb)
			if len(tail) > 1500 {
				tail = tail[len(tail)-1500:]
			}
			run.Violation(run.NextID(), fmt.Sprintf("fabio's real main() did not come up or the driver failed with limits %+v", job), tail)
			continue
		}
		for _, tg := range res.Targets {
			impl := vh.None
			host := ""
			if tg.HasTransport {
				host = tg.ServerName
				// dial timeout and keep-alive sit in a closure: not observable from another process, taken as configured
				f := trFields{rht: tg.RHT, idle: tg.Idle, maxidle: int64(tg.MaxIdle), dial: l.dial, keepalive: l.keepalive, hasTLS: true, serverName: tg.ServerName, skip: tg.Skip}
				impl = vh.Some(f.coq())
			}
			if tg.Path == "/override" {
				host = "upstream.example"
			}
			run.Add("real-main-route-transport", vh.App("CRoute", l.coq(), vh.HxS(host), vh.Bool(true), vh.Bool(false), vh.Bool(true), impl),
				map[string]interface{}{"route": tg.Path, "limits": job, "has_transport": tg.HasTransport, "rht": time.Duration(tg.RHT).String(), "idle": time.Duration(tg.Idle).String(), "maxidle": tg.MaxIdle})
		}
		for _, q := range res.Reqs {
			if abs(q.DelayMs-rhtMs) < 60 {
				continue
			}
			run.Add("real-main-slow-upstream", vh.App("CServe", vh.Z(rhtMs), vh.Z(q.DelayMs), vh.Z(200), vh.Z(int64(q.Status)), vh.Z(q.Elapsed), vh.Z(3000), vh.Z(q.Hits)),
				map[string]interface{}{"route": q.Path, "limit_ms": rhtMs, "delay_ms": q.DelayMs, "client_status": q.Status, "elapsed_ms": q.Elapsed, "upstream_hits": q.Hits})
		}
	}
}

func abs(x int64) int64 {
	if x < 0 {
		return -x
	}
	return x
}
