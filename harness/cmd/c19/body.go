// Whole exchanges for C19: the response-header timeout limits the wait for the header only.
// The client uploads its request body slowly, the upstream answers its header after a delay and
// then delivers its body in chunks with gaps; the real HTTPProxy stands behind a real listener
// (a cut-off body shows as a read error at the client, which a ResponseRecorder cannot show) and is
// given the configuration the transports were built from, as main() does (main.go newHTTPProxy:
// Config: cfg.Proxy).
package main

import (
	"bytes"
	"crypto/tls"
	"encoding/json"
	"fmt"
	"io"
	"math/rand"
	"net/http"
	"net/http/httptest"
	"os"
	"os/exec"
	"path/filepath"
	"sort"
	"strings"
	"sync"
	"sync/atomic"
	"time"

	"github.com/fabiolb/fabio/proxy"
	"github.com/fabiolb/fabio/route"
	"github.com/fabiolb/fabio/transport"

	"verifharness/internal/vh"
)

type bodyChunk struct {
	gap  int64 // ms after the previous event (header or chunk)
	data []byte
}

type bodyScen struct {
	limit, upload, delay int64 // ms
	chunks               []bodyChunk
	cl                   bool // the upstream declares a Content-Length
}

type bodyObs struct {
	status        int
	head, elapsed int64
	hits          int64
	body          []byte
	complete      bool
	reqWhole      bool
	clientErr     string
}

func (s bodyScen) total() int64 {
	t := s.upload + s.delay
	for _, c := range s.chunks {
		t += c.gap
	}
	return t
}

func (s bodyScen) exchangeCoq(ust int) string {
	var cs []string
	for _, c := range s.chunks {
		cs = append(cs, vh.Pair(vh.Z(c.gap), vh.Hx(c.data)))
	}
	return fmt.Sprintf("{| x_upload := %s; x_delay := %s; x_status := %s; x_chunks := %s |}", vh.Z(s.upload), vh.Z(s.delay), vh.Z(int64(ust)), vh.List(cs))
}

func chunkData(i, size int) []byte {
	b := []byte(fmt.Sprintf("part%d:", i))
	for len(b) < size {
		b = append(b, byte('a'+(len(b)+i)%26))
	}
	return append(b[:size-1], '\n')
}

const uploadPieces = 5
const uploadPieceLen = 64

// one exchange through the proxy listening at front; hits / got are the upstream's counters
func runExchange(front string, s bodyScen, hits, got *int64) bodyObs {
	atomic.StoreInt64(hits, 0)
	atomic.StoreInt64(got, -1)
	client := &http.Client{Timeout: 30 * time.Second, Transport: &http.Transport{DisableKeepAlives: true}}
	defer client.CloseIdleConnections()
	var req *http.Request
	var sent int64
	var upDone chan struct{}
	t0 := time.Now()
	if s.upload > 0 {
		pr, pw := io.Pipe()
		req, _ = http.NewRequest("POST", front+"/", pr)
		upDone = make(chan struct{})
		go func() {
			defer close(upDone)
			for i := 1; i <= uploadPieces; i++ {
				time.Sleep(time.Until(t0.Add(time.Duration(s.upload*int64(i)/uploadPieces) * time.Millisecond)))
				n, err := pw.Write(bytes.Repeat([]byte{byte('0' + i)}, uploadPieceLen))
				atomic.AddInt64(&sent, int64(n))
				if err != nil {
					return
				}
			}
			pw.Close()
		}()
	} else {
		req, _ = http.NewRequest("GET", front+"/", nil)
	}
	o := bodyObs{status: -1}
	resp, err := client.Do(req)
	o.head = time.Since(t0).Milliseconds()
	if err != nil {
		o.clientErr = err.Error()
	} else {
		o.status = resp.StatusCode
		b, rerr := io.ReadAll(resp.Body)
		resp.Body.Close()
		o.body, o.complete = b, rerr == nil
		if rerr != nil {
			o.clientErr = rerr.Error()
		}
	}
	o.elapsed = time.Since(t0).Milliseconds()
	if upDone != nil {
		select {
		case <-upDone:
		case <-time.After(time.Duration(s.upload)*time.Millisecond + 2*time.Second):
		}
	}
	time.Sleep(30 * time.Millisecond) // a request sent at the very end is still counted
	o.hits = atomic.LoadInt64(hits)
	if s.upload > 0 {
		o.reqWhole = atomic.LoadInt64(got) == uploadPieces*uploadPieceLen && atomic.LoadInt64(&sent) == uploadPieces*uploadPieceLen
	} else {
		o.reqWhole = atomic.LoadInt64(got) == 0
	}
	return o
}

func bodyScenarios(run *vh.Run) []bodyScen {
	ch := func(pairs ...int) []bodyChunk {
		var cs []bodyChunk
		for i := 0; i+1 < len(pairs); i += 2 {
			cs = append(cs, bodyChunk{int64(pairs[i]), chunkData(i/2+1, pairs[i+1])})
		}
		return cs
	}
	scen := []bodyScen{
		// header in time, the rest of the body three limits later: chunked, and with a Content-Length
		{limit: 300, delay: 20, chunks: ch(0, 6, 900, 6)},
		{limit: 300, delay: 20, chunks: ch(0, 6, 900, 6), cl: true},
		// a slow upload to an upstream that answers at once
		{limit: 300, upload: 800, delay: 20, chunks: ch(0, 8)},
		// every gap shorter than the limit, the body as a whole longer
		{limit: 300, delay: 100, chunks: ch(150, 7, 150, 7, 150, 7, 150, 7)},
		// header at once, nothing of the body until well after the limit, then more than one buffer of it
		{limit: 200, delay: 0, chunks: ch(700, 9000)},
		// slow upload and a silent upstream: 504 at upload + limit
		{limit: 300, upload: 600, delay: 1500, chunks: ch(0, 8)},
		// silent upstream with a body that would have come
		{limit: 300, delay: 900, chunks: ch(0, 8, 400, 8)},
		// no limit: zero and negative
		{limit: 0, delay: 100, chunks: ch(0, 7, 400, 7)},
		{limit: -200, delay: 100, chunks: ch(300, 7)},
		// a long limit and a body that outlasts it
		{limit: 1200, delay: 300, chunks: ch(0, 8, 1500, 8), cl: true},
		// no body at all
		{limit: 150, delay: 0},
		// slow upload and slow download in one exchange
		{limit: 250, upload: 400, delay: 100, chunks: ch(0, 7, 600, 7)},
	}
	// random ones from a source of their own: the inputs of the other classes do not depend on this class
	r := rand.New(rand.NewSource(run.Seed*7919 + 19))
	for i := 0; i < run.Scale(3, 24); i++ {
		s := bodyScen{limit: int64(150 + 50*r.Intn(6)), cl: r.Intn(3) == 0}
		if r.Intn(3) == 0 {
			s.delay = s.limit + int64(150+r.Intn(500))
		} else {
			s.delay = int64(r.Intn(int(s.limit) - 90))
		}
		if r.Intn(3) == 0 {
			s.upload = int64(100 + r.Intn(600))
		}
		var pairs []int
		for k := r.Intn(5); k > 0; k-- {
			pairs = append(pairs, []int{0, 50, 200, 450, 700}[r.Intn(5)], []int{1, 5, 64, 5000}[r.Intn(4)])
		}
		s.chunks = ch(pairs...)
		scen = append(scen, s)
	}
	return scen
}

func bodyClass(run *vh.Run, mu *sync.Mutex) {
	kindName := []string{"default", "skip-verify", "per-route host override"}
	kindOpts := []string{"", ` opts "tlsskipverify=true"`, ` opts "host=upstream.example tlsskipverify=true"`}
	type job struct {
		s    bodyScen
		kind int
		ust  int
		o    bodyObs
		rem  bool
	}
	var jobs []*job
	for i, s := range bodyScenarios(run) {
		for kind := 0; kind < 3; kind++ {
			if !run.Thorough() && kind != i%3 && i >= 3 {
				continue // quick tier: all three kinds for slow body (both framings) and slow upload, one kind for the rest
			}
			jobs = append(jobs, &job{s: s, kind: kind, ust: []int{200, 201, 404, 500}[(i+kind)%4]})
		}
	}
	var remeasured int64
	var wg sync.WaitGroup
	for _, j := range jobs {
		wg.Add(1)
		go func(j *job) {
			defer wg.Done()
			var hits, got int64
			s := j.s
			var total int
			for _, c := range s.chunks {
				total += len(c.data)
			}
			h := http.HandlerFunc(func(w http.ResponseWriter, rq *http.Request) {
				atomic.AddInt64(&hits, 1)
				b, _ := io.ReadAll(rq.Body)
				atomic.StoreInt64(&got, int64(len(b)))
				time.Sleep(time.Duration(s.delay) * time.Millisecond)
				if s.cl {
					w.Header().Set("Content-Length", fmt.Sprint(total))
				}
				w.WriteHeader(j.ust)
				w.(http.Flusher).Flush()
				for _, c := range s.chunks {
					select {
					case <-time.After(time.Duration(c.gap) * time.Millisecond):
					case <-rq.Context().Done():
						return
					}
					if _, err := w.Write(c.data); err != nil {
						return
					}
					w.(http.Flusher).Flush()
				}
			})
			var up *httptest.Server
			if j.kind == 0 {
				up = httptest.NewServer(h)
			} else {
				up = httptest.NewTLSServer(h)
			}
			defer up.Close()
			cfg := limits{rht: int64(time.Duration(s.limit) * time.Millisecond)}.cfg()
			mu.Lock()
			transport.SetConfig(cfg)
			plain := transport.NewTransport(nil)
			insecure := transport.NewTransport(&tls.Config{InsecureSkipVerify: true})
			tbl, err := route.NewTable(bytes.NewBufferString("route add mock / " + up.URL + kindOpts[j.kind]))
			mu.Unlock()
			if err != nil {
				panic(err)
			}
			defer plain.CloseIdleConnections()
			defer insecure.CloseIdleConnections()
			// main.go newHTTPProxy: Config: cfg.Proxy, the struct transport.SetConfig was given
			p := &proxy.HTTPProxy{Config: cfg.Proxy, Transport: plain, InsecureTransport: insecure, Lookup: func(rq *http.Request) *route.Target {
				return tbl.Lookup(rq, "", route.Picker["rr"], route.Matcher["prefix"], nil, true)
			}}
			front := httptest.NewServer(p)
			defer front.Close()
			j.o = runExchange(front.URL, s, &hits, &got)
			// no exchange, served or given up, takes longer than the upstream's own pace: an observation a second
			// beyond it is a stall of the machine and is measured once more; the faster observation is reported
			if j.o.elapsed > s.total()+1000 {
				time.Sleep(time.Duration(s.total()) * time.Millisecond)
				again := runExchange(front.URL, s, &hits, &got)
				atomic.AddInt64(&remeasured, 1)
				j.rem = true
				if again.elapsed < j.o.elapsed {
					j.o = again
				}
			}
		}(j)
	}
	wg.Wait()
	run.Notes["whole_exchange_remeasured"] = atomic.LoadInt64(&remeasured)
	for _, j := range jobs {
		s, o := j.s, j.o
		if s.limit > 0 && abs(s.delay-s.limit) < 60 {
			run.Exclude("delay within 60ms of the limit: outcome decided by the scheduler")
			continue
		}
		var shape []string
		for _, c := range s.chunks {
			shape = append(shape, fmt.Sprintf("+%dms:%dB", c.gap, len(c.data)))
		}
		run.Add("whole-exchange", vh.App("CBody", vh.N(j.kind), vh.Z(s.limit), vh.Bool(s.cl), s.exchangeCoq(j.ust),
			vh.Z(int64(o.status)), vh.Z(o.head), vh.Z(o.elapsed), vh.Z(o.hits), vh.Hx(o.body), vh.Bool(o.complete), vh.Bool(o.reqWhole)),
			map[string]interface{}{"transport": kindName[j.kind], "limit_ms": s.limit, "upload_ms": s.upload, "header_delay_ms": s.delay,
				"body": strings.Join(shape, " "), "content_length": s.cl, "upstream_status": j.ust, "client_status": o.status, "header_ms": o.head,
				"elapsed_ms": o.elapsed, "body_bytes": len(o.body), "complete": o.complete, "request_whole": o.reqWhole, "upstream_hits": o.hits,
				"client_error": o.clientErr, "remeasured": j.rem})
	}
}

// realMainBody: whole exchanges through fabio's real main() (driver /repo/verif_c19_body_test.go, test
// binary bin built by realMain): one process per response-header timeout, the three routes of the real-main
// class, every scenario on every route at the same time.
func realMainBody(run *vh.Run, bin, repo, dir string) {
	type chunkJ struct {
		Gap  int64
		Data []byte
	}
	type scenJ struct {
		Upload, Delay int64
		Status        int
		CL            bool
		Chunks        []chunkJ
	}
	type inJ struct {
		RHT   int64
		Scens []scenJ
	}
	r := rand.New(rand.NewSource(run.Seed*7919 + 23))
	for i := 0; i < run.Scale(1, 4); i++ {
		limit := int64(250 + 50*r.Intn(4))
		two := []bodyChunk{{0, chunkData(1, 6)}, {3 * limit, chunkData(2, 6)}}
		scens := []bodyScen{
			{limit: limit, delay: 20, chunks: two},
			{limit: limit, delay: 20, chunks: two, cl: true},
			{limit: limit, upload: limit * 5 / 2, delay: 20, chunks: []bodyChunk{{0, chunkData(1, 8)}}},
			{limit: limit, upload: limit, delay: 4 * limit, chunks: []bodyChunk{{0, chunkData(1, 8)}}},
			{limit: limit, delay: limit / 3, chunks: []bodyChunk{{limit / 2, chunkData(1, 7)}, {limit / 2, chunkData(2, 5000)}, {limit / 2, chunkData(3, 7)}}},
		}
		ust := []int{200, 201, 404, 500, 200}
		job := inJ{RHT: limit * int64(time.Millisecond)}
		for k, s := range scens {
			sj := scenJ{Upload: s.upload, Delay: s.delay, Status: ust[k], CL: s.cl}
			for _, c := range s.chunks {
				sj.Chunks = append(sj.Chunks, chunkJ{c.gap, c.data})
			}
			job.Scens = append(job.Scens, sj)
		}
		b, _ := json.Marshal(job)
		inF, outF := filepath.Join(dir, fmt.Sprintf("bin%d.json", i)), filepath.Join(dir, fmt.Sprintf("bout%d.json", i))
		os.WriteFile(inF, b, 0o644)
		c := exec.Command(bin, "-test.run", "TestVerifC19Body$", "-test.count=1", "-test.timeout=3m")
		c.Dir = repo
		c.Env = append(os.Environ(), "VERIF_C19_BODY_IN="+inF, "VERIF_C19_BODY_OUT="+outF)
		outb, err := c.CombinedOutput()
		var res []struct {
			Path          string
			Scen          int
			Status        int
			Head, Elapsed int64
			Hits          int64
			Body          []byte
			Complete      bool
			ReqWhole      bool
			Err           string
			Remeasured    bool
		}
		ob, rerr := os.ReadFile(outF)
		if err != nil || rerr != nil || json.Unmarshal(ob, &res) != nil || len(res) != 3*len(scens) {
			tail := string(outb)
			if len(tail) > 1500 {
				tail = tail[len(tail)-1500:]
			}
			run.Violation(run.NextID(), fmt.Sprintf("fabio's real main() did not come up or the whole-exchange driver failed with response-header timeout %dms", limit), tail)
			continue
		}
		sort.Slice(res, func(a, b int) bool {
			if res[a].Path != res[b].Path {
				return res[a].Path < res[b].Path
			}
			return res[a].Scen < res[b].Scen
		})
		kindOf := map[string]int{"/plain": 0, "/skipverify": 1, "/override": 2}
		for _, o := range res {
			if o.Scen < 0 || o.Scen >= len(scens) {
				continue
			}
			s := scens[o.Scen]
			var shape []string
			for _, c := range s.chunks {
				shape = append(shape, fmt.Sprintf("+%dms:%dB", c.gap, len(c.data)))
			}
			run.Add("real-main-whole-exchange", vh.App("CBody", vh.N(kindOf[o.Path]), vh.Z(s.limit), vh.Bool(s.cl), s.exchangeCoq(ust[o.Scen]),
				vh.Z(int64(o.Status)), vh.Z(o.Head), vh.Z(o.Elapsed), vh.Z(o.Hits), vh.Hx(o.Body), vh.Bool(o.Complete), vh.Bool(o.ReqWhole)),
				map[string]interface{}{"route": o.Path, "limit_ms": s.limit, "upload_ms": s.upload, "header_delay_ms": s.delay,
					"body": strings.Join(shape, " "), "content_length": s.cl, "upstream_status": ust[o.Scen], "client_status": o.Status, "header_ms": o.Head,
					"elapsed_ms": o.Elapsed, "body_bytes": len(o.Body), "complete": o.Complete, "request_whole": o.ReqWhole, "upstream_hits": o.Hits,
					"client_error": o.Err, "remeasured": o.Remeasured})
		}
	}
}
