// Classes of the C11 harness that reach beyond package cert's store and loop:
//   - listener-configs: fabio's real makeTLSConfig (main.go) called per listener of generated
//     command lines as main() does, through the add-only driver /repo/verif_c11_test.go;
//   - directory-symlink-switch, directory-same-stat, directory-publication-styles: real
//     certificate directories behind the real PathSource whose states are brought about the
//     way deployments do it: *.pem entries that are symbolic links into a release directory
//     that is exchanged atomically, regular files replaced by files of the same size with the
//     modification time preserved, ordinary rewrites.  Every state is described to the model by
//     what Lstat and a read of each entry yield.
package main

import (
	"crypto/tls"
	"encoding/hex"
	"encoding/json"
	"errors"
	"fmt"
	mrand "math/rand"
	"os"
	"os/exec"
	"path/filepath"
	"sort"
	"strings"
	"time"

	"github.com/fabiolb/fabio/cert"

	"verifharness/internal/vh"
)

// a case or a violation found by a goroutine; handed to vh.Run by the main goroutine
type pcase struct {
	class  string
	term   func() string // rendered by the main goroutine (the identity tables are not locked)
	sample interface{}
}
type pviol struct {
	what  string
	input interface{}
}

// a certificate with a name of its own beside the given one: a renewal for the same name is
// told from the certificate it replaces by the names of its leaf
func mkCertU(cn string) *gcert {
	return mkCert(cn, []string{cn, fmt.Sprintf("n%06d.uniq.example", serial+1)})
}

// ... whose PEM encoding has the given length (the length of an ECDSA signature and of the
// serial number vary by a byte or two)
func mkCertULen(cn string, want int) *gcert {
	for i := 0; i < 2000; i++ {
		if g := mkCertU(cn); len(g.pemC) == want {
			return g
		}
	}
	panic("no certificate of the wanted length for " + cn)
}

// ================= listeners =================

type lspec struct {
	cs     string // "" = a listener without certificate source
	strict bool
	opts   string // further listener options, e.g. ";tlsmin=tls12"
	say    bool   // write strictmatch=false out
}

func (l lspec) arg(port int) string {
	s := fmt.Sprintf(":%d", port)
	if l.cs != "" {
		s += ";cs=" + l.cs
	}
	if l.strict {
		s += ";strictmatch=true"
	} else if l.say {
		s += ";strictmatch=false"
	}
	return s + l.opts
}

type ljob struct {
	ui      *lspec
	proxies []lspec
}

// runListeners builds the driver once and runs one process per command line
func runListeners(seed int64, nRandom int) (cases []pcase, viols []pviol) {
	rk := mrand.New(mrand.NewSource(seed*7919 + 4))
	repo := os.Getenv("VERIF_REPO")
	if repo == "" {
		repo = "/repo"
	}
	dir, err := os.MkdirTemp("", "c11listeners")
	if err != nil {
		panic(err)
	}
	defer os.RemoveAll(dir)
	bin := filepath.Join(dir, "fabio.test")
	cmd := exec.Command("go", "test", "-tags", "verif", "-c", "-o", bin, ".")
	cmd.Dir = repo
	if out, err := cmd.CombinedOutput(); err != nil {
		tail := string(out)
		if len(tail) > 1500 {
			tail = tail[len(tail)-1500:]
		}
		return nil, []pviol{{"cannot build the listener driver (go test -tags verif -c in " + repo + "): " + err.Error(), tail}}
	}
	// two certificate sources; the order by file name is not the order of creation, the first
	// certificate of `site` is a wildcard, and k0.example is a name of both sources
	type source struct {
		name  string
		files map[string]*pfile
		set   []*gcert // by certificate file name
	}
	mkSource := func(name string, files map[string]*pfile) *source {
		s := &source{name: name, files: files}
		var fs []string
		for f, pf := range files {
			if pf.cert != nil && !strings.HasSuffix(f, "-key.pem") {
				fs = append(fs, f)
			}
			if err := os.MkdirAll(filepath.Join(dir, name), 0o755); err != nil {
				panic(err)
			}
			if err := os.WriteFile(filepath.Join(dir, name, f), pf.data, 0o600); err != nil {
				panic(err)
			}
		}
		sort.Strings(fs)
		for _, f := range fs {
			s.set = append(s.set, files[f].cert)
		}
		return s
	}
	srcs := []*source{
		mkSource("site", map[string]*pfile{
			"m-cert.pem": certFile(mkCert("k0.example", nil)), "m-key.pem": keyFile(1),
			"a.pem":      combinedFile(mkCert("", []string{"*.kw.example"}), 1),
			"z-cert.pem": certFile(mkCert("k2.example", []string{"k2.example", "alt.k2.example"})), "z-key.pem": keyFile(1)}),
		mkSource("other", map[string]*pfile{
			"o-cert.pem": certFile(mkCert("o0.example", nil)), "o-key.pem": keyFile(1),
			"p.pem": combinedFile(mkCert("k0.example", nil), 1)}),
	}
	byName := map[string]*source{}
	var csArg []string
	for _, s := range srcs {
		byName[s.name] = s
		csArg = append(csArg, fmt.Sprintf("cs=%s;type=path;cert=%s;refresh=1s", s.name, filepath.Join(dir, s.name)))
	}
	probes := []string{"k2.example", "x.kw.example", "unknown.example", "", "K0.Example.", "o0.example", "a.b.kw.example"}

	L := func(cs string, strict bool) lspec { return lspec{cs: cs, strict: strict} }
	T := func(l lspec, opts string) lspec { l.opts = opts; return l }
	ui := func(l lspec) *lspec { return &l }
	jobs := []ljob{
		{nil, []lspec{L("site", false), L("site", true)}},
		{nil, []lspec{L("site", true), L("site", false)}},
		{ui(L("site", true)), []lspec{L("site", false)}},
		{ui(L("site", false)), []lspec{L("", false), L("site", true), L("other", false), L("site", false)}},
		{nil, []lspec{L("other", true), L("site", true), L("other", false)}},
		{nil, []lspec{T(L("site", false), ";tlsmin=tls12"), T(L("site", true), ";tlsmin=tls12"), L("site", true), T(L("site", false), ";tlsmin=tls11;tlsmax=tls12")}},
	}
	for i := 0; i < nRandom; i++ {
		var j ljob
		rl := func() lspec {
			l := lspec{cs: []string{"site", "site", "site", "other", ""}[rk.Intn(5)]}
			if l.cs != "" {
				l.strict = rk.Intn(2) == 0
				l.say = rk.Intn(3) == 0
				if rk.Intn(5) == 0 {
					l.opts = []string{";tlsmin=tls12", ";tlsmax=tls12", ";tlsciphers=0xc02b"}[rk.Intn(3)]
				}
			}
			return l
		}
		if rk.Intn(2) == 0 {
			l := rl()
			j.ui = &l
		}
		for k, n := 0, 1+rk.Intn(4); k < n; k++ {
			j.proxies = append(j.proxies, rl())
		}
		jobs = append(jobs, j)
	}
	for ji, j := range jobs {
		var pa []string
		for k, l := range j.proxies {
			pa = append(pa, l.arg(18000+k))
		}
		args := []string{"-proxy.cs", strings.Join(csArg, ","), "-proxy.addr", strings.Join(pa, ",")}
		all := []lspec{{}} // the default ui listener has no certificate source
		if j.ui != nil {
			args = append(args, "-ui.addr", j.ui.arg(17998))
			all[0] = *j.ui
		}
		all = append(all, j.proxies...)
		wait := make([]bool, len(all))
		for i, l := range all {
			wait[i] = l.cs != ""
		}
		inF, outF := filepath.Join(dir, fmt.Sprintf("in%d.json", ji)), filepath.Join(dir, fmt.Sprintf("out%d.json", ji))
		b, _ := json.Marshal(map[string]interface{}{"Args": args, "Probes": probes, "Wait": wait})
		os.WriteFile(inF, b, 0o644)
		c := exec.Command(bin, "-test.run", "TestVerifC11$", "-test.count=1", "-test.timeout=1m")
		c.Dir = repo
		c.Env = append(os.Environ(), "VERIF_C11_IN="+inF, "VERIF_C11_OUT="+outF)
		outb, err := c.CombinedOutput()
		var res struct {
			LoadErr   string
			Listeners []struct {
				Addr, Proto, CS string
				Strict, HasTLS  bool
				Err             string
				Answers         []struct{ Kind, DER, HS, Err string }
			}
		}
		ob, rerr := os.ReadFile(outF)
		if err != nil || rerr != nil || json.Unmarshal(ob, &res) != nil || res.LoadErr != "" || len(res.Listeners) != len(all) {
			tail := string(outb)
			if len(tail) > 1200 {
				tail = tail[len(tail)-1200:]
			}
			viols = append(viols, pviol{"the listener driver failed, config.Load rejected a valid command line or the number of listeners is not the one configured", map[string]interface{}{"args": args, "load_error": res.LoadErr, "output": tail}})
			continue
		}
		bad := false
		impl := make([][]string, len(probes)) // per probe, per listener
		human := make([][]string, len(probes))
		for li, l := range res.Listeners {
			if l.Err != "" || (l.HasTLS && len(l.Answers) != len(probes)) {
				viols = append(viols, pviol{"makeTLSConfig failed for a listener of a valid configuration", map[string]interface{}{"args": args, "listener": li, "error": l.Err}})
				bad = true
				break
			}
			for pi := range probes {
				if !l.HasTLS {
					impl[pi] = append(impl[pi], "None")
					human[pi] = append(human[pi], "no-tls")
					continue
				}
				a := l.Answers[pi]
				p, h, want := "", "", "-"
				switch a.Kind {
				case "nocerts":
					p, h = "PErrNoCerts", "no-certs-stored"
				case "none":
					p, h = "PNone", "none"
				case "cert":
					idx := 1000
					if s := byName[all[li].cs]; s != nil {
						for i, g := range s.set {
							if hex.EncodeToString(g.tls.Certificate[0]) == a.DER {
								idx = i
							}
						}
					}
					p, h, want = vh.App("PCert", vh.Nat(idx)), fmt.Sprintf("#%d", idx), a.DER
				default:
					viols = append(viols, pviol{"GetCertificate of a listener's tls.Config failed: " + a.Err, map[string]interface{}{"args": args, "listener": li, "server_name": probes[pi]}})
					bad = true
				}
				if a.HS != "" && a.HS != want {
					viols = append(viols, pviol{"a real TLS handshake on a listener was presented another certificate than GetCertificate of its tls.Config returned", map[string]interface{}{"args": args, "listener": li, "server_name": probes[pi]}})
				}
				impl[pi] = append(impl[pi], vh.Some(p))
				human[pi] = append(human[pi], h)
			}
		}
		if bad {
			continue
		}
		var said []string
		for _, l := range all {
			said = append(said, fmt.Sprintf("cs=%s strict=%v%s", l.cs, l.strict, l.opts))
		}
		for pi, sn := range probes {
			pi, sn, all := pi, sn, all
			cases = append(cases, pcase{"listener-configs", func() string {
				var ls, ss []string
				for _, l := range all {
					ls = append(ls, fmt.Sprintf("{| l_cs := %s; l_strict := %s |}", vh.HxS(l.cs), vh.Bool(l.strict)))
				}
				for _, s := range srcs {
					b := blocks(s.files)
					ss = append(ss, vh.Pair(vh.HxS(s.name), vh.List([]string{step{kind: "map", b: b}.coq()})))
				}
				return vh.App("CListeners", vh.List(ls), vh.List(ss), vh.HxS(sn), vh.List(impl[pi]))
			}, map[string]interface{}{"listeners_ui_first": said, "server_name": sn, "answers": human[pi]}})
		}
	}
	return cases, viols
}

// ================= certificate directories as deployments leave them =================

type dentryDesc struct {
	path        string
	kind        string
	size, mtime int
	pf          *pfile // nil: a read of the path fails
}

type deploy struct {
	class    string
	root     string // temp dir: certs/ (the certificate path), releases/, current
	certDir  string
	known    map[string]*pfile // content -> what the harness knows about it
	mtimes   map[int64]int
	steps    []depStep
	states   [][]dentryDesc
	names    []string
	probes   []string
	seen     [2]map[string][]string // strict, non-strict: per probe name the answers
	sawHuman [2]map[string][]string
	viols    []pviol
	// pathlink.go: the configured path leads through symbolic links
	source  *cert.PathSource      // the source to run behind (nil: CertPath = certDir)
	early   bool                  // the first step is applied before the sources are created
	worldFn func(d *deploy) world // what the file tree looks like now (nil: describe certDir)
	worlds  []world
}

type depStep struct {
	name  string
	apply func(d *deploy)
}

var stamp0 = time.Unix(1700000000, 0)

func (d *deploy) reg(pf *pfile) *pfile { d.known[string(pf.data)] = pf; return pf }
func (d *deploy) must(err error) {
	if err != nil {
		panic(err)
	}
}

// a release directory beside the certificate path
func (d *deploy) writeRelease(name string, files map[string]*pfile) {
	d.must(os.MkdirAll(filepath.Join(d.root, "releases", name), 0o755))
	for f, pf := range files {
		d.reg(pf)
		d.must(os.WriteFile(filepath.Join(d.root, "releases", name, f), pf.data, 0o600))
	}
}

// `current` -> releases/<name>, exchanged in one rename
func (d *deploy) switchCurrent(name string) {
	tmp := filepath.Join(d.root, "current.tmp")
	os.Remove(tmp)
	d.must(os.Symlink(filepath.Join("releases", name), tmp))
	d.must(os.Rename(tmp, filepath.Join(d.root, "current")))
}

// certs/<file> -> ../current/<file>
func (d *deploy) link(file string) {
	d.must(os.Symlink(filepath.Join("..", "current", file), filepath.Join(d.certDir, file)))
}

// certs/<file> replaced in one rename; with keep the new file carries the given time
func (d *deploy) put(file string, pf *pfile, keep bool) {
	d.reg(pf)
	tmp := filepath.Join(d.root, "incoming")
	d.must(os.WriteFile(tmp, pf.data, 0o600))
	if keep {
		d.must(os.Chtimes(tmp, stamp0, stamp0))
	}
	d.must(os.Rename(tmp, filepath.Join(d.certDir, file)))
}

// certs/<file> overwritten where it is, then given the old time again
func (d *deploy) overwrite(file string, pf *pfile) {
	d.reg(pf)
	d.must(os.WriteFile(filepath.Join(d.certDir, file), pf.data, 0o600))
	d.must(os.Chtimes(filepath.Join(d.certDir, file), stamp0, stamp0))
}

// what Lstat and a read of every entry below the certificate path yield now
func (d *deploy) describe() []dentryDesc { return d.describeDir(d.certDir) }

// what Lstat and a read of one path yield now
func (d *deploy) describeEntry(path, rel string) dentryDesc {
	info, err := os.Lstat(path)
	d.must(err)
	mt, ok := d.mtimes[info.ModTime().UnixNano()]
	if !ok {
		mt = len(d.mtimes) + 1
		d.mtimes[info.ModTime().UnixNano()] = mt
	}
	e := dentryDesc{path: filepath.ToSlash(rel), kind: "KRegular", size: int(info.Size()), mtime: mt}
	switch {
	case info.IsDir():
		e.kind = "KDir"
	case info.Mode()&os.ModeSymlink != 0:
		e.kind = "KSymlink"
	}
	if !info.IsDir() {
		if data, err := os.ReadFile(path); err == nil {
			pf := d.known[string(data)]
			if pf == nil {
				panic("the harness does not know the content of " + path)
			}
			e.pf = pf
		}
	}
	return e
}

func (d *deploy) describeDir(dir string) []dentryDesc {
	var out []dentryDesc
	d.must(filepath.WalkDir(dir, func(path string, _ os.DirEntry, err error) error {
		if err != nil {
			return err
		}
		if path == dir {
			return nil
		}
		rel, _ := filepath.Rel(dir, path)
		out = append(out, d.describeEntry(path, rel))
		return nil
	}))
	sort.Slice(out, func(i, j int) bool { return out[i].path < out[j].path })
	return out
}

func coqDirState(st []dentryDesc) string {
	items := make([]string, len(st))
	for i, e := range st {
		rd := "None"
		if e.pf != nil {
			rd = vh.Some(e.pf.coq())
		}
		items[i] = vh.Pair(vh.HxS(e.path), fmt.Sprintf("{| d_kind := %s; d_size := %s; d_mtime := %s; d_read := %s |}", e.kind, vh.N(e.size), vh.N(e.mtime), rd))
	}
	return vh.List(items)
}

// run takes the directory through its steps behind two real path sources (strict and not)
func (d *deploy) run() {
	defer os.RemoveAll(d.root)
	var cfgs [2]*tls.Config
	if d.early {
		// the file tree is there, links included, when the sources are created
		d.steps[0].apply(d)
	}
	for i := range cfgs {
		ps := cert.PathSource{CertPath: d.certDir, ClientCAPath: filepath.Join(d.root, "no-clientca"), Refresh: time.Second}
		if d.source != nil {
			ps = *d.source
		}
		cfg, err := cert.TLSConfig(ps, i == 0, 0, 0, nil)
		d.must(err)
		cfgs[i] = cfg
		d.seen[i], d.sawHuman[i] = map[string][]string{}, map[string][]string{}
	}
	for k, st := range d.steps {
		if !(d.early && k == 0) {
			st.apply(d)
		}
		if d.worldFn != nil {
			d.worlds = append(d.worlds, d.worldFn(d))
		} else {
			d.states = append(d.states, d.describe())
		}
		d.names = append(d.names, st.name)
		time.Sleep(2300 * time.Millisecond)
		for i, cfg := range cfgs {
			for _, sn := range d.probes {
				c, err := cfg.GetCertificate(&tls.ClientHelloInfo{ServerName: sn})
				s, h := "SNone", "none"
				switch {
				case errors.Is(err, cert.ErrNoCertsStored):
					s, h = "SErrNoCerts", "no-certs-stored"
				case err != nil:
					d.viols = append(d.viols, pviol{"GetCertificate failed on a path source: " + err.Error(), sn})
				case c != nil:
					ns := namesOf(*c)
					s, h = vh.App("SCert", coqNames(ns)), strings.Join(ns, ",")
				}
				d.seen[i][sn] = append(d.seen[i][sn], s)
				d.sawHuman[i][sn] = append(d.sawHuman[i][sn], h)
			}
		}
	}
}

func (d *deploy) cases() (out []pcase) {
	if d.worldFn != nil {
		return d.pathCases()
	}
	for i := range d.seen {
		for _, sn := range d.probes {
			i, sn := i, sn
			var sizes []string
			for _, st := range d.states {
				var s []string
				for _, e := range st {
					s = append(s, fmt.Sprintf("%s:%s/%d/t%d", e.path, strings.TrimPrefix(e.kind, "K"), e.size, e.mtime))
				}
				sizes = append(sizes, strings.Join(s, " "))
			}
			out = append(out, pcase{d.class, func() string {
				items := make([]string, len(d.states))
				for k, st := range d.states {
					items[k] = coqDirState(st)
				}
				return vh.App("CDir", vh.List(items), vh.HxS(sn), vh.Bool(i == 0), vh.List(d.seen[i][sn]))
			}, map[string]interface{}{"states": d.names, "lstat": sizes, "server_name": sn, "strict": i == 0, "presented": d.sawHuman[i][sn]}})
		}
	}
	return out
}

func newDeploy(class string) *deploy {
	root, err := os.MkdirTemp("", "c11-deploy-")
	if err != nil {
		panic(err)
	}
	d := &deploy{class: class, root: root, certDir: filepath.Join(root, "certs"), known: map[string]*pfile{}, mtimes: map[int64]int{},
		probes: []string{"shop.example", "API.example.", "other.example"}}
	d.must(os.Mkdir(d.certDir, 0o755))
	return d
}

// blank bytes of a given length: a file that is there, of the right size, and holds nothing
func blankFile(n int) *pfile {
	return textFile(strings.Repeat(" ", n-1) + "\n")
}

// the files of a release: shop as a pair, api as a combined file
func release(shop, api *gcert) map[string]*pfile {
	return map[string]*pfile{"shop-cert.pem": certFile(shop), "shop-key.pem": keyFile(1), "api.pem": combinedFile(api, 1)}
}

// planDeploys creates the directories and every certificate their histories need (in the
// calling goroutine: certificate creation and the identity tables are not locked)
func planDeploys(seed int64) []*deploy {
	rl := mrand.New(mrand.NewSource(seed*7919 + 3))
	var out []*deploy

	// 1. release switch: the entries of the certificate path are symbolic links into
	// ../current, which is exchanged; Lstat of the entries never changes
	symlinked := func(class string, kinds []string) *deploy {
		d := newDeploy(class)
		nrel := 0
		var good []string // releases that are complete, oldest first
		newRelease := func(broken string) string {
			nrel++
			name := fmt.Sprintf("v%d", nrel)
			files := release(mkCertU("shop.example"), mkCertU("api.example"))
			if broken != "" {
				delete(files, broken)
			} else {
				good = append(good, name)
			}
			d.writeRelease(name, files)
			return name
		}
		first := newRelease("")
		d.steps = append(d.steps, depStep{"links-into-current=" + first, func(d *deploy) {
			d.switchCurrent(first)
			// the key last: until then the pair is incomplete and the directory unusable
			d.link("api.pem")
			d.link("shop-cert.pem")
			d.link("shop-key.pem")
		}})
		cur := first
		for _, k := range kinds {
			var name, what string
			switch k {
			case "switch":
				name = newRelease("")
				what = "current-switched-to-" + name
			case "broken-key":
				name = newRelease("shop-key.pem")
				what = "current-switched-to-" + name + "-without-shop-key"
			case "broken-combined":
				name = newRelease("api.pem")
				what = "current-switched-to-" + name + "-without-api"
			default: // back to an earlier complete release
				name = good[0]
				if name == cur && len(good) > 1 {
					name = good[1]
				}
				what = "current-switched-back-to-" + name
			}
			cur = name
			name2 := name
			d.steps = append(d.steps, depStep{what, func(d *deploy) { d.switchCurrent(name2) }})
		}
		return d
	}
	out = append(out, symlinked("directory-symlink-switch", []string{"switch", "broken-key", "switch", "back"}))

	// 2. regular files; a renewal arrives with the size and the modification time of the file
	// it replaces (cp -p, rsync -t, tar, an image with normalised times)
	regular := func(class string, kinds []string, bystanders bool) *deploy {
		d := newDeploy(class)
		shop, api := mkCertU("shop.example"), mkCertU("api.example")
		shopLen, apiLen := len(shop.pemC), len(api.pemC)
		// entries for every guard of loadPath's callback, there from the first state on: a
		// sub-directory and a hidden directory (both descended), a hidden file, names that are
		// not *.pem, a *.pem file above MaxSize (left out with a warning), a link to a directory
		var extra map[string]*pfile
		if bystanders {
			extra = map[string]*pfile{
				"sub/extra.pem": combinedFile(mkCertU("extra.example"), 1), ".old/old.pem": combinedFile(mkCertU("old.example"), 1),
				".hidden.pem": combinedFile(mkCertU("hidden.example"), 1), "README": textFile("certificates"),
				"notes.pem.bak": combinedFile(mkCertU("bak.example"), 1), "sub/.keep.pem": textFile(""),
				"big.pem": blankFile(1<<20 + 1)}
			d.probes = append(d.probes, "extra.example", "old.example", "hidden.example")
		}
		d.steps = append(d.steps, depStep{"deployed", func(d *deploy) {
			for f, pf := range extra {
				d.reg(pf)
				d.must(os.MkdirAll(filepath.Dir(filepath.Join(d.certDir, f)), 0o755))
				d.must(os.WriteFile(filepath.Join(d.certDir, f), pf.data, 0o600))
			}
			if bystanders {
				d.must(os.Symlink("sub", filepath.Join(d.certDir, "linkdir")))
			}
			d.put("api.pem", combinedFile(api, 1), true)
			d.put("shop-cert.pem", certFile(shop), true)
			d.put("shop-key.pem", keyFile(1), true)
		}})
		for _, k := range kinds {
			switch k {
			case "renew-cert":
				g := mkCertULen("shop.example", shopLen)
				d.steps = append(d.steps, depStep{"shop-cert-renewed-same-size-same-time", func(d *deploy) { d.put("shop-cert.pem", certFile(g), true) }})
			case "renew-combined-in-place":
				g := mkCertULen("api.example", apiLen)
				d.steps = append(d.steps, depStep{"api-renewed-in-place-same-size-same-time", func(d *deploy) { d.overwrite("api.pem", combinedFile(g, 1)) }})
			case "blank-cert":
				d.steps = append(d.steps, depStep{"shop-cert-blank-same-size-same-time", func(d *deploy) { d.put("shop-cert.pem", blankFile(shopLen), true) }})
			case "other-leaf":
				g2 := mkCertULen("shoq.example", shopLen)
				d.steps = append(d.steps, depStep{"shop-cert-other-name-same-size-same-time", func(d *deploy) { d.put("shop-cert.pem", certFile(g2), true) }})
			case "rewrite":
				g := mkCertU("shop.example")
				d.steps = append(d.steps, depStep{"shop-cert-rewritten", func(d *deploy) { d.put("shop-cert.pem", certFile(g), false) }})
			default: // same size, new time
				g := mkCertULen("shop.example", shopLen)
				d.steps = append(d.steps, depStep{"shop-cert-renewed-same-size-new-time", func(d *deploy) { d.put("shop-cert.pem", certFile(g), false) }})
			}
		}
		return d
	}
	out = append(out, regular("directory-same-stat", []string{"renew-cert", "renew-combined-in-place", "blank-cert", "other-leaf"}, true))

	// 3. random histories of both layouts
	pickN := func(pool []string, n int) []string {
		var ks []string
		for i := 0; i < n; i++ {
			ks = append(ks, pool[rl.Intn(len(pool))])
		}
		return ks
	}
	out = append(out, symlinked("directory-publication-styles", pickN([]string{"switch", "switch", "broken-key", "broken-combined", "back"}, 4)))
	out = append(out, regular("directory-publication-styles", pickN([]string{"renew-cert", "renew-cert", "renew-combined-in-place", "blank-cert", "other-leaf", "rewrite", "same-size-new-time"}, 4), false))
	return out
}
