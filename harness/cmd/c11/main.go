// Correspondence harness for C11 (certificate selection and reload): runs the real
// getCertificate (through the store index builder), the real TLSConfig/GetCertificate
// while sets are replaced, and the real watch loop on scripted loaders.
package main

import (
	"bytes"
	"crypto/ecdsa"
	"crypto/elliptic"
	"crypto/rand"
	"crypto/tls"
	"crypto/x509"
	"crypto/x509/pkix"
	"encoding/pem"
	"errors"
	"fmt"
	"math/big"
	mrand "math/rand"
	"sort"
	"strings"
	"sync"
	"time"

	"github.com/fabiolb/fabio/cert"

	"verifharness/internal/vh"
)

const preamble = `From Coq Require Import String List NArith.
From Fabio Require Import Lib.Outcome Lib.Bytes Lib.Pack Model.CertStore Check.C11.
Import ListNotations.
Local Open Scope N_scope.
`

var key *ecdsa.PrivateKey
var keyPEM []byte
var serial int64

type gcert struct {
	cn    string
	sans  []string
	tls   tls.Certificate
	pemC  []byte
	names []string // as BuildNameToCertificate indexes them
}

func mkCert(cn string, sans []string) *gcert {
	serial++
	tmpl := &x509.Certificate{SerialNumber: big.NewInt(serial), Subject: pkix.Name{CommonName: cn},
		NotBefore: time.Now().Add(-time.Hour), NotAfter: time.Now().Add(24 * time.Hour), DNSNames: sans}
	der, err := x509.CreateCertificate(rand.Reader, tmpl, tmpl, &key.PublicKey, key)
	if err != nil {
		panic(err)
	}
	g := &gcert{cn: cn, sans: sans, tls: tls.Certificate{Certificate: [][]byte{der}, PrivateKey: key}}
	g.pemC = pem.EncodeToMemory(&pem.Block{Type: "CERTIFICATE", Bytes: der})
	// read the names back through x509 exactly as the store does
	x, err := x509.ParseCertificate(der)
	if err != nil {
		panic(err)
	}
	if len(x.Subject.CommonName) > 0 {
		g.names = append(g.names, x.Subject.CommonName)
	}
	g.names = append(g.names, x.DNSNames...)
	return g
}

func coqCert(g *gcert) string {
	items := make([]string, len(g.names))
	for i, n := range g.names {
		items[i] = vh.HxS(n)
	}
	return vh.List(items)
}
func coqSet(set []*gcert) string {
	items := make([]string, len(set))
	for i, g := range set {
		items[i] = coqCert(g)
	}
	return vh.List(items)
}
func tlsSet(set []*gcert) []tls.Certificate {
	out := make([]tls.Certificate, len(set))
	for i, g := range set {
		out[i] = g.tls
	}
	return out
}

var labels = []string{"a", "b", "www", "api", "x"}
var doms = []string{"com", "b.com", "c.org", "x.y.z"}

func randName(r *mrand.Rand, upper bool) string {
	var parts []string
	for i, n := 0, r.Intn(3); i < n; i++ {
		parts = append(parts, labels[r.Intn(len(labels))])
	}
	parts = append(parts, doms[r.Intn(len(doms))])
	// wildcards in the leading labels
	for i, n := 0, r.Intn(3); i < n && i < len(parts)-1; i++ {
		if r.Intn(2) == 0 {
			parts[i] = "*"
		} else {
			break
		}
	}
	s := strings.Join(parts, ".")
	if upper {
		b := []byte(s)
		k := r.Intn(len(b))
		if b[k] >= 'a' && b[k] <= 'z' {
			b[k] -= 32
		}
		s = string(b)
	}
	return s
}

func randSet(r *mrand.Rand, n int, upper bool) []*gcert {
	set := make([]*gcert, n)
	for i := range set {
		cn := ""
		if r.Intn(4) != 0 {
			cn = randName(r, upper && r.Intn(3) == 0)
		}
		var sans []string
		for k, m := 0, r.Intn(4); k < m; k++ {
			sans = append(sans, randName(r, upper && r.Intn(3) == 0))
		}
		if cn == "" && len(sans) == 0 && r.Intn(3) != 0 {
			sans = []string{randName(r, false)}
		}
		set[i] = mkCert(cn, sans)
	}
	return set
}

// a request name derived from the set (so that matches are frequent) or random
func randRequest(r *mrand.Rand, set []*gcert) string {
	var name string
	var pool []string
	for _, g := range set {
		pool = append(pool, g.names...)
	}
	switch {
	case len(pool) > 0 && r.Intn(4) != 0:
		name = pool[r.Intn(len(pool))]
		// instantiate wildcards with labels, sometimes with more labels than stars
		parts := strings.Split(name, ".")
		for i, p := range parts {
			if p == "*" {
				parts[i] = labels[r.Intn(len(labels))]
			}
		}
		name = strings.Join(parts, ".")
		if r.Intn(4) == 0 {
			name = labels[r.Intn(len(labels))] + "." + name
		}
		if r.Intn(5) == 0 && strings.Contains(name, ".") {
			name = name[strings.Index(name, ".")+1:]
		}
	case r.Intn(6) == 0:
		name = ""
	default:
		name = randName(r, false)
		name = strings.ReplaceAll(name, "*", labels[r.Intn(len(labels))])
	}
	if r.Intn(3) == 0 { // random letter case
		b := []byte(name)
		for i := range b {
			if b[i] >= 'a' && b[i] <= 'z' && r.Intn(3) == 0 {
				b[i] -= 32
			}
		}
		name = string(b)
	}
	if r.Intn(5) == 0 {
		name += strings.Repeat(".", 1+r.Intn(2))
	}
	return name
}

func pickCoq(i int, err error) string {
	switch {
	case errors.Is(err, cert.ErrNoCertsStored):
		return "PErrNoCerts"
	case i < 0:
		return "PNone"
	default:
		return vh.App("PCert", vh.Nat(i))
	}
}

type src struct{ ch chan []tls.Certificate }

func (s *src) LoadClientCAs() (*x509.CertPool, error) { return nil, nil }
func (s *src) Certificates() chan []tls.Certificate   { return s.ch }

func main() {
	run := vh.Start("C11")
	r := run.Rng
	var err error
	key, err = ecdsa.GenerateKey(elliptic.P256(), rand.Reader)
	if err != nil {
		panic(err)
	}
	kb, _ := x509.MarshalECPrivateKey(key)
	keyPEM = pem.EncodeToMemory(&pem.Block{Type: "EC PRIVATE KEY", Bytes: kb})

	// 1. getCertificate on generated sets
	nSets := run.Scale(120, 3000)
	for s := 0; s < nSets; s++ {
		n := []int{0, 1, 2, 3, 4, 6}[r.Intn(6)]
		if s%10 != 0 && n == 0 {
			n = 2
		}
		upper := s%12 == 5
		set := randSet(r, n, upper)
		class := "pick"
		if upper {
			class = "pick-upper-cert-name"
		}
		for q := 0; q < 8; q++ {
			sn := randRequest(r, set)
			strict := r.Intn(2) == 0
			nilIndex := !strict && r.Intn(25) == 0 // a nil index is reachable only before any SetCertificates; strict lookups on it are not a state the store can be in
			i, err := cert.VerifGetCertificate(tlsSet(set), sn, strict, nilIndex)
			if i == -2 {
				run.Violation(run.NextID(), "getCertificate returned a certificate that is not in the store", sn)
			}
			var names [][]string
			for _, g := range set {
				names = append(names, g.names)
			}
			run.Add(class, vh.App("CPick", coqSet(set), vh.Bool(nilIndex), vh.HxS(sn), vh.Bool(strict), pickCoq(i, err)),
				map[string]interface{}{"certs": names, "server_name": sn, "strict": strict, "nil_index": nilIndex, "picked": i})
		}
	}

	// 2. handshakes (GetCertificate of the real TLSConfig) while two sets alternate
	for rep := 0; rep < run.Scale(3, 40); rep++ {
		strict := rep%2 == 0
		a, b := randSet(r, 2+r.Intn(3), false), randSet(r, 2+r.Intn(3), false)
		s := &src{ch: make(chan []tls.Certificate)}
		cfg, err := cert.TLSConfig(s, strict, 0, 0, nil)
		if err != nil {
			panic(err)
		}
		s.ch <- tlsSet(a)
		s.ch <- tlsSet(b) // the first set is installed once the second send is accepted
		stop := make(chan struct{})
		var wg sync.WaitGroup
		go func() {
			for k := 0; ; k++ {
				select {
				case <-stop:
					return
				case s.ch <- tlsSet([][]*gcert{a, b}[k%2]):
				}
			}
		}()
		var mu sync.Mutex
		var seen []obs
		reqs := make([]string, 6)
		for i := range reqs {
			reqs[i] = randRequest(r, append(append([]*gcert{}, a...), b...))
		}
		for g := 0; g < 8; g++ {
			wg.Add(1)
			go func(g int) {
				defer wg.Done()
				for k := 0; k < 300; k++ {
					sn := reqs[(g+k)%len(reqs)]
					c, err := cfg.GetCertificate(&tls.ClientHelloInfo{ServerName: sn})
					o := obs{sn: sn, idx: -1, err: err}
					if c != nil {
						o.idx = -2
						for i, x := range a {
							if bytes.Equal(x.tls.Certificate[0], c.Certificate[0]) {
								o.idx = i
							}
						}
						for i, x := range b {
							if bytes.Equal(x.tls.Certificate[0], c.Certificate[0]) {
								o.idx, o.fromB = i, true
							}
						}
					}
					mu.Lock()
					seen = append(seen, o)
					mu.Unlock()
				}
			}(g)
		}
		wg.Wait()
		close(stop)
		// distinct observations only
		dist := map[string]obs{}
		for _, o := range seen {
			dist[fmt.Sprintf("%s|%v|%d|%v", o.sn, o.fromB, o.idx, o.err)] = o
		}
		run.Notes["extra_evaluations"] = len(seen) + intNote(run.Notes["extra_evaluations"])
		for _, k := range sortedKeys(dist) {
			o := dist[k]
			if o.idx == -2 {
				run.Violation(run.NextID(), "handshake was given a certificate that is in neither of the two published sets", o.sn)
				continue
			}
			run.Add("handshake-during-replacement", vh.App("CHandshake", coqSet(a), coqSet(b), vh.HxS(o.sn), vh.Bool(strict), vh.Bool(o.fromB), pickCoq(o.idx, o.err)),
				map[string]interface{}{"server_name": o.sn, "strict": strict, "from_set_b": o.fromB, "picked": o.idx})
		}
	}

	// 3. the reload loop on scripted loaders
	type step struct {
		kind string // err | good | bad
		id   int
	}
	nScripts := run.Scale(18, 64)
	goodSets := make([]*gcert, 4)
	for i := range goodSets {
		goodSets[i] = mkCert(fmt.Sprintf("set%d.example", i), nil)
	}
	blocksOf := func(st step) map[string][]byte {
		switch st.kind {
		case "good":
			return map[string][]byte{fmt.Sprintf("s%d-cert.pem", st.id): goodSets[st.id].pemC, fmt.Sprintf("s%d-key.pem", st.id): keyPEM}
		case "good2": // sets id and id+1 together: the next load may be a strict subset of this one
			return map[string][]byte{fmt.Sprintf("s%d-cert.pem", st.id): goodSets[st.id].pemC, fmt.Sprintf("s%d-key.pem", st.id): keyPEM,
				fmt.Sprintf("s%d-cert.pem", st.id+1): goodSets[st.id+1].pemC, fmt.Sprintf("s%d-key.pem", st.id+1): keyPEM}
		default: // bad: a good pair plus unusable material -> loadCertificates fails as a whole
			m := map[string][]byte{"s0-cert.pem": goodSets[0].pemC, "s0-key.pem": keyPEM}
			switch st.id % 4 {
			case 0: // certificate that does not parse
				m["zz0-cert.pem"] = []byte("-----BEGIN CERTIFICATE-----\nAAAA\n-----END CERTIFICATE-----\n")
				m["zz0-key.pem"] = keyPEM
			case 1: // key without its certificate (the cert half of a split pair is gone, e.g. mid-rotation)
				m["zz1-key.pem"] = keyPEM
			case 2: // certificate without its key
				m["zz2-cert.pem"] = goodSets[1].pemC
			case 3: // combined .pem file that holds a certificate but no key
				m["zz3.pem"] = goodSets[2].pemC
			}
			return m
		}
	}
	type wres struct {
		once    bool
		script  []step
		trace   []string
		refresh time.Duration
	}
	results := make([]wres, nScripts)
	var wg sync.WaitGroup
	for si := 0; si < nScripts; si++ {
		once := si%5 == 4
		n := 2 + r.Intn(3)
		script := make([]step, n)
		for i := range script {
			switch k := r.Intn(11); {
			case k < 2:
				script[i] = step{"err", 0}
			case k == 10:
				script[i] = step{"good2", r.Intn(2)}
			case k < 6:
				script[i] = step{"good", r.Intn(3)}
			default:
				script[i] = step{"bad", r.Intn(4)}
			}
			if i > 0 && r.Intn(3) == 0 {
				script[i] = script[i-1] // same blocks again
			}
		}
		directed := [][]step{
			{{"good", 0}, {"bad", 0}, {"good", 0}},
			{{"good", 1}, {"err", 0}, {"good", 1}, {"good", 2}},
			{{"bad", 0}, {"good", 0}, {"good", 0}},
			{{"good", 1}, {"bad", 1}, {"bad", 1}, {"good", 1}},
			{{"bad", 1}, {"bad", 0}, {"good", 2}},
			{{"good2", 0}, {"good", 0}, {"good", 1}},
			{{"good2", 1}, {"good", 2}, {"good2", 1}, {"good", 1}},
			{{"good", 1}, {"bad", 1}, {"good", 1}},
			{{"good2", 0}, {"bad", 2}, {"bad", 3}, {"good", 0}},
		}
		// one-shot sources (refresh = 0): the loop retries an unusable first load every
		// second and returns only after the first publication
		directedOnce := [][]step{
			{{"bad", 0}, {"good", 0}, {"good", 1}},
			{{"err", 0}, {"good", 1}},
			{{"bad", 2}, {"err", 0}, {"good", 2}, {"good", 0}},
			{{"good", 0}, {"good", 1}},
		}
		if si < len(directed) {
			once, script = false, directed[si]
		} else if si-len(directed) < len(directedOnce) {
			once, script = true, directedOnce[si-len(directed)]
		}
		results[si] = wres{once: once, script: script}
		wg.Add(1)
		go func(si int) {
			defer wg.Done()
			res := &results[si]
			type ev struct {
				t    time.Time
				kind string
				set  int
			}
			var mu sync.Mutex
			var evs []ev
			calls := 0
			exhausted := make(chan struct{})
			block := make(chan struct{})
			loadFn := func(string) (map[string][]byte, error) {
				// the receiver stamps a publication after the unbuffered send has completed;
				// give it time to do so before this load is stamped, so that the order of the
				// stamps is the order of the events
				time.Sleep(40 * time.Millisecond)
				mu.Lock()
				k := calls
				calls++
				evs = append(evs, ev{time.Now(), "load", k})
				mu.Unlock()
				if k >= len(res.script) {
					if k == len(res.script) {
						close(exhausted)
					}
					<-block // script exhausted: park the loop for good
				}
				st := res.script[k]
				if st.kind == "err" {
					return nil, errors.New("scripted load error")
				}
				return blocksOf(st), nil
			}
			ch := make(chan []tls.Certificate)
			done := make(chan struct{})
			// the loop must not refresh more often than once a second whatever it is asked for
			refresh := []time.Duration{time.Second, time.Millisecond, 200 * time.Millisecond, 999 * time.Millisecond}[si%4]
			if res.once {
				refresh = 0
			}
			res.refresh = refresh
			go func() { cert.VerifWatch(ch, refresh, "scripted", loadFn); close(done) }()
			go func() {
				for certs := range ch {
					x, _ := x509.ParseCertificate(certs[0].Certificate[0])
					id := -1
					fmt.Sscanf(x.Subject.CommonName, "set%d.example", &id)
					id += 10 * (len(certs) - 1) // a two-certificate set is a different publication
					mu.Lock()
					evs = append(evs, ev{time.Now(), "publish", id})
					mu.Unlock()
				}
			}()
			select {
			case <-exhausted:
			case <-done:
			case <-time.After(time.Duration(len(res.script)+3) * 1500 * time.Millisecond):
			}
			time.Sleep(50 * time.Millisecond)
			mu.Lock()
			defer mu.Unlock()
			// build the trace: load k, then publications observed before load k+1, then a
			// sleep if the next load came >= 0.8 s later (the loop's only sleeps are >= 1 s)
			var loads []ev
			for _, e := range evs {
				if e.kind == "load" {
					loads = append(loads, e)
				}
			}
			for k, l := range loads {
				if k >= len(res.script) {
					break
				}
				res.trace = append(res.trace, "ELoad")
				var next time.Time
				if k+1 < len(loads) {
					next = loads[k+1].t
				}
				for _, e := range evs {
					if e.kind == "publish" && e.t.After(l.t) && (next.IsZero() || e.t.Before(next)) {
						res.trace = append(res.trace, fmt.Sprintf("(EPublish %d)", e.set))
					}
				}
				if !next.IsZero() && next.Sub(l.t) >= 800*time.Millisecond {
					res.trace = append(res.trace, "ESleep")
				} else if next.IsZero() {
					// the loop did not come back for another load within the wait: it is
					// sleeping (or returned, in once mode, which the model predicts as no event)
					select {
					case <-done:
					default:
						res.trace = append(res.trace, "ESleep")
					}
				}
			}
		}(si)
	}
	wg.Wait()
	for _, res := range results {
		items := make([]string, len(res.script))
		var human []string
		for i, st := range res.script {
			switch st.kind {
			case "err":
				items[i] = "LoadErr"
			case "good":
				items[i] = fmt.Sprintf("(Blocks %d (Some %d))", 10+st.id, st.id)
			case "good2":
				items[i] = fmt.Sprintf("(Blocks %d (Some %d))", 30+st.id, 10+st.id)
			default:
				items[i] = fmt.Sprintf("(Blocks %d None)", 20+st.id%4)
			}
			human = append(human, fmt.Sprintf("%s%d", st.kind, st.id))
		}
		run.Add("watch", vh.App("CWatch", vh.Bool(res.once), vh.List(items), vh.List(res.trace)),
			map[string]interface{}{"once": res.once, "refresh": res.refresh.String(), "script": human, "trace": res.trace})
	}
	run.Finish(preamble, run.Scale(80, 400))
}

func intNote(v interface{}) int {
	if i, ok := v.(int); ok {
		return i
	}
	return 0
}

type obs struct {
	sn    string
	fromB bool
	idx   int
	err   error
}

func sortedKeys(m map[string]obs) []string {
	ks := make([]string, 0, len(m))
	for k := range m {
		ks = append(ks, k)
	}
	sort.Strings(ks)
	return ks
}
