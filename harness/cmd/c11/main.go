// Correspondence harness for C11 (certificate selection and reload): runs the real
// getCertificate (through the store index builder), the real TLSConfig/GetCertificate
// while sets are replaced, and the real watch loop on scripted loaders.
package main

import (
	"bytes"
	"crypto/ecdsa"
	"crypto/elliptic"
	"crypto/rand"
	"crypto/tls"
	"crypto/x509"
	"crypto/x509/pkix"
	"encoding/json"
	"encoding/pem"
	"errors"
	"fmt"
	"math/big"
	mrand "math/rand"
	"net"
	"net/http"
	"net/http/httptest"
	"os"
	"path/filepath"
	"sort"
	"strconv"
	"strings"
	"sync"
	"sync/atomic"
	"time"

	"github.com/fabiolb/fabio/cert"

	"verifharness/internal/vh"
)

const preamble = `From Coq Require Import String List NArith.
From Fabio Require Import Lib.Outcome Lib.Bytes Lib.Pack Model.CertStore Proofs.CertStore Model.CertDeploy Proofs.CertDeploy Check.C11.
Import ListNotations.
Local Open Scope N_scope.
`

// two private keys: certificates are made with key 1 unless a mismatch is wanted
var keys = map[int]*ecdsa.PrivateKey{}
var keyPEMs = map[int][]byte{}
var serial int64

type gcert struct {
	kid   int
	cn    string
	sans  []string
	tls   tls.Certificate
	pemC  []byte
	names []string // as BuildNameToCertificate indexes them
}

func mkCert(cn string, sans []string) *gcert { return mkCertK(cn, sans, 1) }

func mkCertK(cn string, sans []string, kid int) *gcert {
	key := keys[kid]
	serial++
	tmpl := &x509.Certificate{SerialNumber: big.NewInt(serial), Subject: pkix.Name{CommonName: cn},
		NotBefore: time.Now().Add(-time.Hour), NotAfter: time.Now().Add(24 * time.Hour), DNSNames: sans}
	der, err := x509.CreateCertificate(rand.Reader, tmpl, tmpl, &key.PublicKey, key)
	if err != nil {
		panic(err)
	}
	g := &gcert{kid: kid, cn: cn, sans: sans, tls: tls.Certificate{Certificate: [][]byte{der}, PrivateKey: key}}
	g.pemC = pem.EncodeToMemory(&pem.Block{Type: "CERTIFICATE", Bytes: der})
	// read the names back through x509 exactly as the store does
	x, err := x509.ParseCertificate(der)
	if err != nil {
		panic(err)
	}
	if len(x.Subject.CommonName) > 0 {
		g.names = append(g.names, x.Subject.CommonName)
	}
	g.names = append(g.names, x.DNSNames...)
	return g
}

func coqCert(g *gcert) string {
	items := make([]string, len(g.names))
	for i, n := range g.names {
		items[i] = vh.HxS(n)
	}
	return vh.List(items)
}
func coqSet(set []*gcert) string {
	items := make([]string, len(set))
	for i, g := range set {
		items[i] = coqCert(g)
	}
	return vh.List(items)
}
func tlsSet(set []*gcert) []tls.Certificate {
	out := make([]tls.Certificate, len(set))
	for i, g := range set {
		out[i] = g.tls
	}
	return out
}

var labels = []string{"a", "b", "www", "api", "x"}
var doms = []string{"com", "b.com", "c.org", "x.y.z"}

func randName(r *mrand.Rand, upper bool) string {
	var parts []string
	for i, n := 0, r.Intn(3); i < n; i++ {
		parts = append(parts, labels[r.Intn(len(labels))])
	}
	parts = append(parts, doms[r.Intn(len(doms))])
	// wildcards in the leading labels
	for i, n := 0, r.Intn(3); i < n && i < len(parts)-1; i++ {
		if r.Intn(2) == 0 {
			parts[i] = "*"
		} else {
			break
		}
	}
	s := strings.Join(parts, ".")
	if upper {
		b := []byte(s)
		k := r.Intn(len(b))
		if b[k] >= 'a' && b[k] <= 'z' {
			b[k] -= 32
		}
		s = string(b)
	}
	return s
}

func randSet(r *mrand.Rand, n int, upper bool) []*gcert {
	set := make([]*gcert, n)
	for i := range set {
		cn := ""
		if r.Intn(4) != 0 {
			cn = randName(r, upper && r.Intn(3) == 0)
		}
		var sans []string
		for k, m := 0, r.Intn(4); k < m; k++ {
			sans = append(sans, randName(r, upper && r.Intn(3) == 0))
		}
		if cn == "" && len(sans) == 0 && r.Intn(3) != 0 {
			sans = []string{randName(r, false)}
		}
		set[i] = mkCert(cn, sans)
	}
	return set
}

// a request name derived from the set (so that matches are frequent) or random
func randRequest(r *mrand.Rand, set []*gcert) string {
	var name string
	var pool []string
	for _, g := range set {
		pool = append(pool, g.names...)
	}
	switch {
	case len(pool) > 0 && r.Intn(4) != 0:
		name = pool[r.Intn(len(pool))]
		// instantiate wildcards with labels, sometimes with more labels than stars
		parts := strings.Split(name, ".")
		for i, p := range parts {
			if p == "*" {
				parts[i] = labels[r.Intn(len(labels))]
			}
		}
		name = strings.Join(parts, ".")
		if r.Intn(4) == 0 {
			name = labels[r.Intn(len(labels))] + "." + name
		}
		if r.Intn(5) == 0 && strings.Contains(name, ".") {
			name = name[strings.Index(name, ".")+1:]
		}
	case r.Intn(6) == 0:
		name = ""
	default:
		name = randName(r, false)
		name = strings.ReplaceAll(name, "*", labels[r.Intn(len(labels))])
	}
	if r.Intn(3) == 0 { // random letter case
		b := []byte(name)
		for i := range b {
			if b[i] >= 'a' && b[i] <= 'z' && r.Intn(3) == 0 {
				b[i] -= 32
			}
		}
		name = string(b)
	}
	if r.Intn(5) == 0 {
		name += strings.Repeat(".", 1+r.Intn(2))
	}
	return name
}

func pickCoq(i int, err error) string {
	switch {
	case errors.Is(err, cert.ErrNoCertsStored):
		return "PErrNoCerts"
	case i < 0:
		return "PNone"
	default:
		return vh.App("PCert", vh.Nat(i))
	}
}

// pickIn encodes what GetCertificate returned as a model pick: the index of the returned
// certificate in [set], the set the harness knows the store was given last (1000 when the
// certificate is not in that set: a stale or foreign certificate)
func pickIn(c *tls.Certificate, err error, set []*gcert) (string, int) {
	switch {
	case errors.Is(err, cert.ErrNoCertsStored):
		return "PErrNoCerts", -3
	case c == nil:
		return "PNone", -1
	}
	for i, g := range set {
		if bytes.Equal(g.tls.Certificate[0], c.Certificate[0]) {
			return vh.App("PCert", vh.Nat(i)), i
		}
	}
	return vh.App("PCert", vh.Nat(1000)), 1000
}

func namesOf(c tls.Certificate) []string {
	x, err := x509.ParseCertificate(c.Certificate[0])
	if err != nil {
		return []string{"?unparsable"}
	}
	var out []string
	if len(x.Subject.CommonName) > 0 {
		out = append(out, x.Subject.CommonName)
	}
	return append(out, x.DNSNames...)
}
func coqNames(names []string) string {
	items := make([]string, len(names))
	for i, n := range names {
		items[i] = vh.HxS(n)
	}
	return vh.List(items)
}

// ---- files of a certificate source, with what tls.X509KeyPair makes of them ----
type pfile struct {
	data []byte
	cert *gcert // the leaf X509KeyPair would parse from this file, nil if none
	key  int    // id of the private key in this file, 0 if none
}

var fileIDs = map[string]int{}

func (f *pfile) coq() string {
	id, ok := fileIDs[string(f.data)]
	if !ok {
		id = len(fileIDs) + 1
		fileIDs[string(f.data)] = id
	}
	c, k := "None", "None"
	if f.cert != nil {
		c = vh.Some(vh.Pair(vh.N(f.cert.kid), coqCert(f.cert)))
	}
	if f.key != 0 {
		k = vh.Some(vh.N(f.key))
	}
	return vh.App("pf", vh.N(id), c, k)
}
func certFile(g *gcert) *pfile { return &pfile{data: g.pemC, cert: g} }
func keyFile(k int) *pfile     { return &pfile{data: keyPEMs[k], key: k} }
func combinedFile(g *gcert, k int) *pfile {
	return &pfile{data: append(append([]byte{}, g.pemC...), keyPEMs[k]...), cert: g, key: k}
}
func textFile(s string) *pfile { return &pfile{data: []byte(s)} }

// what a block that is there but holds nothing looks like
var emptyBlocks = []string{"", "\n", " \t\r\n "}

var badCertPEM = "-----BEGIN CERTIFICATE-----\nAAAA\n-----END CERTIFICATE-----\n"

type blocks map[string]*pfile

// the certificate file each certificate of the map sits in: a *-cert.pem file or a combined
// *.pem file that holds it (whether its key is there too is for loadCertificates to find out)
func ownersOf(b blocks) map[*gcert]string {
	owner := map[*gcert]string{}
	for f, pf := range b {
		if pf.cert != nil && strings.HasSuffix(f, ".pem") && !strings.HasSuffix(f, "-key.pem") {
			owner[pf.cert] = f
		}
	}
	return owner
}

func (b blocks) raw() map[string][]byte {
	if b == nil {
		return nil
	}
	m := map[string][]byte{}
	for n, f := range b {
		m[n] = f.data
	}
	return m
}
func (b blocks) coqIn(order []string) string {
	items := make([]string, len(order))
	for i, n := range order {
		items[i] = vh.Pair(vh.HxS(n), b[n].coq())
	}
	return vh.List(items)
}
func (b blocks) sorted() []string {
	ns := make([]string, 0, len(b))
	for n := range b {
		ns = append(ns, n)
	}
	sort.Strings(ns)
	return ns
}

// a load of a history
type step struct {
	kind string // err | nil | map
	name string // for humans
	b    blocks
}

func (st step) coq() string {
	switch st.kind {
	case "err":
		return "LoadErr"
	case "nil":
		return "(Loaded None)"
	}
	return vh.App("Loaded", vh.Some(st.b.coqIn(st.b.sorted())))
}

type src struct{ ch chan []tls.Certificate }

func (s *src) LoadClientCAs() (*x509.CertPool, error) { return nil, nil }
func (s *src) Certificates() chan []tls.Certificate   { return s.ch }

// a real TLS handshake over an in-memory pipe; returns the DER of the certificate the
// server presented (nil when the handshake failed)
func realHandshake(cfg *tls.Config, sn string) []byte {
	cc, sc := net.Pipe()
	defer cc.Close()
	defer sc.Close()
	go func() {
		srv := tls.Server(sc, cfg)
		srv.SetDeadline(time.Now().Add(5 * time.Second))
		srv.Handshake()
	}()
	cli := tls.Client(cc, &tls.Config{ServerName: sn, InsecureSkipVerify: true})
	cli.SetDeadline(time.Now().Add(5 * time.Second))
	if err := cli.Handshake(); err != nil {
		return nil
	}
	pcs := cli.ConnectionState().PeerCertificates
	if len(pcs) == 0 {
		return nil
	}
	return pcs[0].Raw
}

// the same, returning everything of the certificate value that goes onto the wire: the
// whole chain and the OCSP staple
func realHandshakeFull(cfg *tls.Config, sn string) (chain [][]byte, staple []byte, ok bool) {
	cc, sc := net.Pipe()
	defer cc.Close()
	defer sc.Close()
	go func() {
		srv := tls.Server(sc, cfg)
		srv.SetDeadline(time.Now().Add(5 * time.Second))
		srv.Handshake()
	}()
	cli := tls.Client(cc, &tls.Config{ServerName: sn, InsecureSkipVerify: true})
	cli.SetDeadline(time.Now().Add(5 * time.Second))
	if err := cli.Handshake(); err != nil {
		return nil, nil, false
	}
	st := cli.ConnectionState()
	for _, pc := range st.PeerCertificates {
		chain = append(chain, pc.Raw)
	}
	return chain, st.OCSPResponse, true
}

// identities of certificate material for the model: of a leaf's DER, and of the rest of a
// tls.Certificate value that a client sees (Certificate[1:], OCSPStaple, SCTs)
var leafIDs = map[string]int{}
var restIDs = map[string]int{}

func leafID(c *tls.Certificate) int {
	k := string(c.Certificate[0])
	if _, ok := leafIDs[k]; !ok {
		leafIDs[k] = len(leafIDs) + 1
	}
	return leafIDs[k]
}
func restID(c *tls.Certificate) int {
	k := fmt.Sprintf("%x|%x|%x", c.Certificate[1:], c.OCSPStaple, c.SignedCertificateTimestamps)
	if _, ok := restIDs[k]; !ok {
		restIDs[k] = len(restIDs) + 1
	}
	return restIDs[k]
}
func coqFcert(c *tls.Certificate) string {
	return vh.App("Build_fcert", coqNames(namesOf(*c)), vh.N(leafID(c)), vh.N(restID(c)))
}

// a certificate of a set with the material that is not its leaf
type mcert struct {
	g      *gcert
	chain  []int // indices into the intermediates
	staple int   // index into the staples
}

// names a real client puts into SNI unchanged
func plainSNI(sn string) bool {
	return sn != "" && sn == strings.ToLower(sn) && !strings.HasSuffix(sn, ".") && !strings.Contains(sn, "*") && net.ParseIP(sn) == nil
}

func main() {
	run := vh.Start("C11")
	r := run.Rng
	for kid := 1; kid <= 2; kid++ {
		k, err := ecdsa.GenerateKey(elliptic.P256(), rand.Reader)
		if err != nil {
			panic(err)
		}
		kb, _ := x509.MarshalECPrivateKey(k)
		keys[kid] = k
		keyPEMs[kid] = pem.EncodeToMemory(&pem.Block{Type: "EC PRIVATE KEY", Bytes: kb})
	}

	// 1. getCertificate on generated sets
	nSets := run.Scale(120, 3000)
	for s := 0; s < nSets; s++ {
		n := []int{0, 1, 2, 3, 4, 6}[r.Intn(6)]
		if s%10 != 0 && n == 0 {
			n = 2
		}
		upper := s%12 == 5
		set := randSet(r, n, upper)
		class := "pick"
		if upper {
			class = "pick-upper-cert-name"
		}
		for q := 0; q < 8; q++ {
			sn := randRequest(r, set)
			strict := r.Intn(2) == 0
			nilIndex := !strict && r.Intn(25) == 0 // a nil index is reachable only before any SetCertificates; strict lookups on it are not a state the store can be in
			addPick(run, class, set, sn, strict, nilIndex)
		}
	}
	// 1b. non-ASCII names that strings.ToLower leaves alone apart from their ASCII letters
	// (lower-case or caseless runes): the byte-wise folding of the model applies.  Only the
	// CommonName can carry them (x509 SANs are IA5 strings).
	uni := []string{"bücher", "例え", "straße", "ñandú"}
	for s := 0; s < run.Scale(12, 100); s++ {
		var set []*gcert
		for i, n := 0, 2+r.Intn(3); i < n; i++ {
			l := uni[r.Intn(len(uni))]
			cn := l + "." + doms[r.Intn(len(doms))]
			switch r.Intn(4) {
			case 0:
				cn = "*." + cn
			case 1:
				cn = "WWW." + cn
			}
			set = append(set, mkCert(cn, nil))
		}
		for q := 0; q < 4; q++ {
			sn := randRequest(r, set)
			if r.Intn(2) == 0 {
				sn = strings.Replace(sn, "www", "wWw", 1)
				sn = strings.Replace(sn, "com", "COM", 1)
			}
			addPick(run, "pick-non-ascii", set, sn, r.Intn(2) == 0, false)
		}
	}

	// 2. handshakes (GetCertificate of the real TLSConfig) while two sets alternate
	for rep := 0; rep < run.Scale(3, 40); rep++ {
		strict := rep%2 == 0
		a, b := randSet(r, 2+r.Intn(3), false), randSet(r, 2+r.Intn(3), false)
		s := &src{ch: make(chan []tls.Certificate)}
		cfg, err := cert.TLSConfig(s, strict, 0, 0, nil)
		if err != nil {
			panic(err)
		}
		s.ch <- tlsSet(a)
		s.ch <- tlsSet(b) // the first set is installed once the second send is accepted
		stop := make(chan struct{})
		var wg sync.WaitGroup
		var sent int64 // replacements accepted so far
		go func() {
			for k := 0; ; k++ {
				select {
				case <-stop:
					return
				case s.ch <- tlsSet([][]*gcert{a, b}[k%2]):
					atomic.AddInt64(&sent, 1)
				}
			}
		}()
		// on a busy machine 2400 handshakes can be over before the updater goroutine has run at
		// all: the handshakes go on (slowly) until 200 replacements have been accepted
		deadline := time.Now().Add(20 * time.Second)
		var mu sync.Mutex
		var seen []obs
		reqs := make([]string, 6)
		for i := range reqs {
			reqs[i] = randRequest(r, append(append([]*gcert{}, a...), b...))
		}
		for g := 0; g < 8; g++ {
			wg.Add(1)
			go func(g int) {
				defer wg.Done()
				for k := 0; k < 300 || (atomic.LoadInt64(&sent) < 200 && time.Now().Before(deadline)); k++ {
					if k >= 300 {
						time.Sleep(500 * time.Microsecond)
					}
					sn := reqs[(g+k)%len(reqs)]
					c, err := cfg.GetCertificate(&tls.ClientHelloInfo{ServerName: sn})
					o := obs{sn: sn, idx: -1, err: err}
					if c != nil {
						o.idx = -2
						for i, x := range a {
							if bytes.Equal(x.tls.Certificate[0], c.Certificate[0]) {
								o.idx = i
							}
						}
						for i, x := range b {
							if bytes.Equal(x.tls.Certificate[0], c.Certificate[0]) {
								o.idx, o.fromB = i, true
							}
						}
					}
					mu.Lock()
					seen = append(seen, o)
					mu.Unlock()
				}
			}(g)
		}
		wg.Wait()
		close(stop)
		// distinct observations only
		dist := map[string]obs{}
		sawA, sawB := false, false
		for _, o := range seen {
			dist[fmt.Sprintf("%s|%v|%d|%v", o.sn, o.fromB, o.idx, o.err)] = o
			if o.idx >= 0 {
				if o.fromB {
					sawB = true
				} else {
					sawA = true
				}
			}
		}
		run.Notes["extra_evaluations"] = len(seen) + intNote(run.Notes["extra_evaluations"])
		if !strict && !(sawA && sawB) {
			// non-strict handshakes always get a certificate; at least 2400 of them spread over
			// hundreds of replacements must have been answered from both sets
			run.Violation(run.NextID(), "handshakes during replacement were never answered from one of the two alternating sets", map[string]interface{}{"saw_a": sawA, "saw_b": sawB})
		}
		for _, k := range sortedKeys(dist) {
			o := dist[k]
			if o.idx == -2 {
				run.Violation(run.NextID(), "handshake was given a certificate that is in neither of the two published sets", o.sn)
				continue
			}
			run.Add("handshake-during-replacement", vh.App("CHandshake", coqSet(a), coqSet(b), vh.HxS(o.sn), vh.Bool(strict), vh.Bool(o.fromB), pickCoq(o.idx, o.err)),
				map[string]interface{}{"server_name": o.sn, "strict": strict, "from_set_b": o.fromB, "picked": o.idx})
		}
	}

	// 2b. freshness: sets sent one after the other through the real TLSConfig; every set is
	// sent twice, so that once the second send is accepted the set IS installed (the updater
	// goroutine is back at its receive) and the handshake that follows is deterministic
	for rep := 0; rep < run.Scale(24, 200); rep++ {
		strict := rep%2 == 0
		k := 2 + r.Intn(4)
		sets := make([][]*gcert, k)
		var all []*gcert
		for i := range sets {
			n := 1 + r.Intn(4)
			if r.Intn(12) == 0 {
				n = 0 // other sources than the watch loop may well send an empty set
			}
			sets[i] = randSet(r, n, false)
			all = append(all, sets[i]...)
		}
		if rep%3 == 0 { // same names in another order: only the position tells the sets apart
			sets[1] = append([]*gcert{}, sets[0]...)
			for i, j := 0, len(sets[1])-1; i < j; i, j = i+1, j-1 {
				sets[1][i], sets[1][j] = sets[1][j], sets[1][i]
			}
		}
		sn := randRequest(r, all)
		s := &src{ch: make(chan []tls.Certificate)}
		cfg, err := cert.TLSConfig(s, strict, 0, 0, nil)
		if err != nil {
			panic(err)
		}
		var picks []string
		var human []int
		for _, set := range sets {
			s.ch <- tlsSet(set)
			s.ch <- tlsSet(set)
			c, err := cfg.GetCertificate(&tls.ClientHelloInfo{ServerName: sn})
			p, idx := pickIn(c, err, set)
			picks = append(picks, p)
			human = append(human, idx)
			if plainSNI(sn) {
				der := realHandshake(cfg, sn)
				var want []byte
				if c != nil {
					want = c.Certificate[0]
				}
				if !bytes.Equal(der, want) {
					run.Violation(run.NextID(), "a real TLS handshake was presented another certificate than GetCertificate returned", sn)
				}
				run.Notes["real_handshakes"] = 1 + intNote(run.Notes["real_handshakes"])
			}
		}
		items := make([]string, len(sets))
		for i, set := range sets {
			items[i] = coqSet(set)
		}
		run.Add("fresh-sequential", vh.App("CFresh", vh.List(items), vh.HxS(sn), vh.Bool(strict), vh.List(picks)),
			map[string]interface{}{"sets": len(sets), "server_name": sn, "strict": strict, "picked": human})
	}

	// 2e. the whole certificate value: sets sent one after the other through the real
	// TLSConfig (as in 2b) where a set may share its leaves with the one it replaces and
	// differ only in the rest of the values - another intermediate chain, another OCSP
	// staple -, be the same set again, a permutation, a renewal of one leaf, or a fresh set.
	// Observed: the value GetCertificate returns (leaf, chain, staple) and what a real client
	// is sent.  Random choices from a source of their own.
	rm := mrand.New(mrand.NewSource(run.Seed*7919 + 1))
	var inters [][]byte
	for i := 0; i < 4; i++ {
		inters = append(inters, mkCertK(fmt.Sprintf("Intermediate CA %d", i), nil, 2).tls.Certificate[0])
	}
	staples := [][]byte{nil, []byte("ocsp-staple-1"), []byte("ocsp-staple-2")}
	mtls := func(set []mcert) []tls.Certificate {
		out := make([]tls.Certificate, len(set))
		for i, m := range set {
			c := tls.Certificate{Certificate: [][]byte{m.g.tls.Certificate[0]}, PrivateKey: m.g.tls.PrivateKey, OCSPStaple: staples[m.staple]}
			for _, k := range m.chain {
				c.Certificate = append(c.Certificate, inters[k])
			}
			out[i] = c
		}
		return out
	}
	otherChain := func(old []int) []int {
		for {
			var c []int
			for i, n := 0, rm.Intn(3); i < n; i++ {
				c = append(c, rm.Intn(len(inters)))
			}
			if fmt.Sprint(c) != fmt.Sprint(old) {
				return c
			}
		}
	}
	freshM := func() []mcert {
		var set []mcert
		for _, g := range randSet(rm, 1+rm.Intn(4), false) {
			set = append(set, mcert{g: g, chain: otherChain([]int{-1}), staple: rm.Intn(len(staples))})
		}
		return set
	}
	// the successor of a set, by kind
	nextM := func(prev []mcert, kind int) ([]mcert, string) {
		set := append([]mcert{}, prev...)
		k := rm.Intn(len(set))
		switch kind {
		case 0:
			set[k].chain = otherChain(set[k].chain)
			return set, "same-leaves-one-chain-changed"
		case 1:
			for i := range set {
				set[i].chain = otherChain(set[i].chain)
			}
			return set, "same-leaves-all-chains-changed"
		case 2:
			set[k].staple = (set[k].staple + 1 + rm.Intn(len(staples)-1)) % len(staples)
			return set, "same-leaves-staple-changed"
		case 3:
			return set, "same-set-again"
		case 4:
			for i, j := 0, len(set)-1; i < j; i, j = i+1, j-1 {
				set[i], set[j] = set[j], set[i]
			}
			return set, "reversed"
		case 5:
			set[k].g = mkCert(set[k].g.cn, set[k].g.sans)
			return set, "one-leaf-renewed"
		case 6:
			if len(set[k].chain) > 0 {
				set[k].chain = nil
			} else {
				set[k].chain = []int{rm.Intn(len(inters))}
			}
			return set, "same-leaves-chain-dropped-or-added"
		}
		return freshM(), "fresh-set"
	}
	directedM := [][]int{{0}, {1, 3}, {2, 0}, {6, 5}, {3, 0, 7}, {4, 1}}
	for rep := 0; rep < run.Scale(40, 300); rep++ {
		strict := rep%2 == 0
		sets := [][]mcert{freshM()}
		human := []string{"fresh-set"}
		var kinds []int
		if rep < len(directedM) {
			kinds = directedM[rep]
		} else {
			for i, n := 0, 1+rm.Intn(4); i < n; i++ {
				kinds = append(kinds, rm.Intn(8))
			}
		}
		for _, kind := range kinds {
			nx, what := nextM(sets[len(sets)-1], kind)
			sets, human = append(sets, nx), append(human, what)
		}
		var all []*gcert
		for _, set := range sets {
			for _, m := range set {
				all = append(all, m.g)
			}
		}
		sn := randRequest(rm, all)
		s := &src{ch: make(chan []tls.Certificate)}
		cfg, err := cert.TLSConfig(s, strict, 0, 0, nil)
		if err != nil {
			panic(err)
		}
		var coqSets, impl, seen []string
		for _, set := range sets {
			certs := mtls(set)
			s.ch <- certs
			s.ch <- certs
			items := make([]string, len(certs))
			for i := range certs {
				items[i] = coqFcert(&certs[i])
			}
			coqSets = append(coqSets, vh.List(items))
			c, err := cfg.GetCertificate(&tls.ClientHelloInfo{ServerName: sn})
			switch {
			case errors.Is(err, cert.ErrNoCertsStored):
				impl, seen = append(impl, "RErrNoCerts"), append(seen, "no-certs-stored")
			case c == nil:
				impl, seen = append(impl, "RNone"), append(seen, "none")
			default:
				idx := 1000
				for i := range certs {
					if bytes.Equal(certs[i].Certificate[0], c.Certificate[0]) {
						idx = i
					}
				}
				impl = append(impl, vh.App("RCert", vh.Nat(idx), coqFcert(c)))
				seen = append(seen, fmt.Sprintf("#%d leaf=%d rest=%d (sent: rest=%d)", idx, leafID(c), restID(c), func() int {
					if idx < len(certs) {
						return restID(&certs[idx])
					}
					return -1
				}()))
			}
			if plainSNI(sn) {
				chain, staple, ok := realHandshakeFull(cfg, sn)
				switch {
				case c == nil && ok:
					run.Violation(run.NextID(), "a real TLS handshake succeeded although GetCertificate returned no certificate", sn)
				case c != nil && (!ok || fmt.Sprintf("%x|%x", chain, staple) != fmt.Sprintf("%x|%x", c.Certificate, c.OCSPStaple)):
					run.Violation(run.NextID(), "a real TLS handshake was presented other certificate material (chain, staple) than GetCertificate returned", sn)
				}
				run.Notes["real_handshakes"] = 1 + intNote(run.Notes["real_handshakes"])
			}
		}
		run.Add("republish-material", vh.App("CMaterial", vh.List(coqSets), vh.HxS(sn), vh.Bool(strict), vh.List(impl)),
			map[string]interface{}{"publications": human, "server_name": sn, "strict": strict, "presented": seen})
	}

	// 2c. schedules of the steps that are atomic in the code, replayed on the real Store:
	// SetCertificates (build, then store), VerifStoreLoad (the load of GetCertificate),
	// VerifPickOn (its getCertificate on the loaded value)
	for rep := 0; rep < run.Scale(60, 600); rep++ {
		nsets := 2 + r.Intn(2)
		sets := make([][]*gcert, nsets)
		var all []*gcert
		for i := range sets {
			sets[i] = randSet(r, 1+r.Intn(4), false)
			all = append(all, sets[i]...)
		}
		if rep%2 == 0 { // replacement no larger than what it replaces, same names, other order
			sets[1] = append([]*gcert{}, sets[0]...)
			for i, j := 0, len(sets[1])-1; i < j; i, j = i+1, j-1 {
				sets[1][i], sets[1][j] = sets[1][j], sets[1][i]
			}
			if len(sets[1]) > 2 && r.Intn(2) == 0 {
				sets[1] = sets[1][:len(sets[1])-1]
			}
		}
		store := cert.NewStore()
		type snap struct {
			v   cert.VerifSnapshot
			set []*gcert
		}
		snaps := map[int]*snap{}
		var cur []*gcert
		var sched, picks, human []string
		nPub := 0
		n := 6 + r.Intn(8)
		act := func(kind int, t int, sn string, strict bool) {
			switch kind {
			case 0: // publish
				set := sets[nPub%nsets]
				nPub++
				store.SetCertificates(tlsSet(set))
				cur = set
				sched = append(sched, vh.App("FBuild", coqSet(set)), "FStore")
				human = append(human, fmt.Sprintf("publish#%d", (nPub-1)%nsets))
			case 1: // load
				snaps[t] = &snap{v: cert.VerifStoreLoad(store), set: cur}
				sched = append(sched, vh.App("FLoad", vh.Nat(t)))
				human = append(human, fmt.Sprintf("load%d", t))
			case 2: // pick
				sp := snaps[t]
				if sp == nil {
					return
				}
				c, err := cert.VerifPickOn(sp.v, sn, strict)
				p, _ := pickIn(c, err, sp.set)
				picks = append(picks, p)
				sched = append(sched, vh.App("FPick", vh.Nat(t), vh.HxS(sn), vh.Bool(strict)))
				human = append(human, fmt.Sprintf("pick%d(%s,%v)=%s", t, sn, strict, p))
			}
		}
		if rep < 4 { // directed: load, replace, then compute on the value loaded before
			sn := randRequest(r, sets[0])
			act(1, 2, "", false) // a load before anything is published
			act(0, 0, "", false)
			act(1, 0, "", false)
			act(0, 0, "", false)
			act(2, 0, sn, rep%2 == 0)
			act(1, 1, "", false)
			act(2, 1, sn, rep%2 == 0)
			act(2, 0, sn, rep%2 == 1)
			act(2, 2, sn, rep%2 == 1)
		}
		for i := 0; i < n; i++ {
			switch k := r.Intn(10); {
			case k < 2:
				act(0, 0, "", false)
			case k < 5:
				act(1, r.Intn(3), "", false)
			default:
				act(2, r.Intn(3), randRequest(r, all), r.Intn(2) == 0)
			}
		}
		run.Add("schedule-replay", vh.App("CSched", vh.List(sched), vh.List(picks)), map[string]interface{}{"schedule": human})
	}

	// 2d. loadCertificates on generated maps (Go ranges over them in random order)
	prefixes := []string{"a", "b", "m", "z", "A", "a-b", "-", "", "dir/x", "a.b"}
	for rep := 0; rep < run.Scale(150, 1500); rep++ {
		b := blocks{}
		owner := map[*gcert]string{} // certificate -> the certificate file it sits in
		for i, n := 0, r.Intn(6); i < n; i++ {
			pre := prefixes[r.Intn(len(prefixes))]
			g := mkCertK(fmt.Sprintf("f%d.example", i), nil, 1+r.Intn(8)/7)
			switch k := r.Intn(16); {
			case k < 6: // a complete pair
				b[pre+"-cert.pem"], b[pre+"-key.pem"] = certFile(g), keyFile(g.kid)
				owner[g] = pre + "-cert.pem"
			case k == 6: // the key of another certificate
				b[pre+"-cert.pem"], b[pre+"-key.pem"] = certFile(g), keyFile(3-g.kid)
			case k == 7: // key without certificate
				b[pre+"-key.pem"] = keyFile(1)
			case k == 8: // certificate without key
				b[pre+"-cert.pem"] = certFile(g)
			case k < 11: // combined file
				b[pre+".pem"] = combinedFile(g, g.kid)
				owner[g] = pre + ".pem"
			case k == 11: // combined file without a key
				b[pre+".pem"] = certFile(g)
			case k == 12: // certificate that does not parse
				b[pre+"-cert.pem"], b[pre+"-key.pem"] = textFile(badCertPEM), keyFile(1)
			case k == 13: // not PEM at all
				b[pre+".pem"] = textFile("hello")
			case k == 14: // names that are not certificate files
				b[[]string{"README", pre + ".PEM", pre + "-cert.pem.bak", pre + ".pem.txt", "pem"}[r.Intn(5)]] = combinedFile(g, g.kid)
			default: // both halves in the wrong files
				b[pre+"-cert.pem"], b[pre+"-key.pem"] = keyFile(1), certFile(g)
			}
		}
		// a later entry may have overwritten one half of an earlier pair, or completed a pair that
		// an earlier entry left without its other half: which file a certificate sits in is read
		// off the finished map (every generated certificate sits in at most one certificate file)
		owner = ownersOf(b)
		certs, err := cert.VerifLoadCertificates(b.raw())
		var items, human []string
		for _, c := range certs {
			file := "?"
			var gg *gcert
			for g, f := range owner {
				if bytes.Equal(g.tls.Certificate[0], c.Certificate[0]) {
					file, gg = f, g
				}
			}
			if gg == nil {
				items = append(items, vh.Pair(vh.HxS("?"), coqNames(namesOf(c))))
			} else {
				items = append(items, vh.Pair(vh.HxS(file), coqCert(gg)))
			}
			human = append(human, file)
		}
		order := b.sorted()
		r.Shuffle(len(order), func(i, j int) { order[i], order[j] = order[j], order[i] })
		run.Add("load-certificates", vh.App("CLoad", b.coqIn(order), vh.List(items), vh.Bool(err != nil)),
			map[string]interface{}{"files": b.sorted(), "loaded_in_order": human, "error": err != nil})
	}

	// 2f. loadCertificates on maps in which a block is there but holds nothing: an empty or
	// whitespace-only certificate, key or combined file (a file that is being rewritten, a
	// touched file, a KV key without a value) beside pairs that are fine.  Random choices from a
	// source of their own.
	rj := mrand.New(mrand.NewSource(run.Seed*7919 + 2))
	for rep := 0; rep < run.Scale(70, 500); rep++ {
		b := blocks{}
		owner := map[*gcert]string{}
		pres := append([]string{}, prefixes...)
		rj.Shuffle(len(pres), func(i, j int) { pres[i], pres[j] = pres[j], pres[i] })
		ngood := 1 + rj.Intn(3)
		if rep%10 == 9 {
			ngood = 0
		}
		for i := 0; i < ngood; i++ {
			g := mkCert(fmt.Sprintf("g%d.example", i), nil)
			if rj.Intn(3) == 0 {
				b[pres[i]+".pem"] = combinedFile(g, 1)
				owner[g] = pres[i] + ".pem"
			} else {
				b[pres[i]+"-cert.pem"], b[pres[i]+"-key.pem"] = certFile(g), keyFile(1)
				owner[g] = pres[i] + "-cert.pem"
			}
		}
		var what []string
		for i, n := 0, 1+rj.Intn(2); i < n; i++ {
			pre := pres[ngood+i]
			g := mkCert(fmt.Sprintf("e%d.example", i), nil)
			empty := func() *pfile { return textFile(emptyBlocks[rj.Intn(len(emptyBlocks))]) }
			switch k := rj.Intn(7); {
			case k == 0 && ngood > 0: // the key of one of the good pairs has been truncated
				hit := false
				for g, f := range owner {
					if f == pres[0]+"-cert.pem" {
						b[pres[0]+"-key.pem"] = empty()
						delete(owner, g)
						what = append(what, "good-pair-key-emptied")
						hit = true
					}
				}
				if hit {
					break
				}
				fallthrough
			case k == 1:
				b[pre+"-cert.pem"], b[pre+"-key.pem"] = certFile(g), empty()
				what = append(what, "empty-key")
			case k == 2:
				b[pre+"-cert.pem"], b[pre+"-key.pem"] = empty(), keyFile(1)
				what = append(what, "empty-cert")
			case k == 3:
				b[pre+"-cert.pem"], b[pre+"-key.pem"] = empty(), empty()
				what = append(what, "both-empty")
			case k == 4:
				b[pre+".pem"] = empty()
				what = append(what, "empty-combined")
			case k == 5:
				b[pre+"-key.pem"] = empty()
				what = append(what, "lone-empty-key")
			default:
				b[pre+"-cert.pem"] = empty()
				what = append(what, "lone-empty-cert")
			}
		}
		owner = ownersOf(b)
		certs, err := cert.VerifLoadCertificates(b.raw())
		var items, human []string
		for _, c := range certs {
			file := "?"
			var gg *gcert
			for g, f := range owner {
				if bytes.Equal(g.tls.Certificate[0], c.Certificate[0]) {
					file, gg = f, g
				}
			}
			if gg == nil {
				items = append(items, vh.Pair(vh.HxS("?"), coqNames(namesOf(c))))
			} else {
				items = append(items, vh.Pair(vh.HxS(file), coqCert(gg)))
			}
			human = append(human, file)
		}
		order := b.sorted()
		rj.Shuffle(len(order), func(i, j int) { order[i], order[j] = order[j], order[i] })
		run.Add("load-empty-block", vh.App("CLoad", b.coqIn(order), vh.List(items), vh.Bool(err != nil)),
			map[string]interface{}{"files": b.sorted(), "damaged": what, "loaded_in_order": human, "error": err != nil})
	}

	// 3. histories of loads: the real watch loop on a scripted loader, feeding the real
	// TLSConfig (its channel, its updater goroutine, its Store); a handshake after every
	// iteration of the loop
	goodSets := make([]*gcert, 4)
	for i := range goodSets {
		goodSets[i] = mkCert(fmt.Sprintf("set%d.example", i), nil)
	}
	pair := func(b blocks, i int) {
		b[fmt.Sprintf("s%d-cert.pem", i)], b[fmt.Sprintf("s%d-key.pem", i)] = certFile(goodSets[i]), keyFile(1)
	}
	mk := func(kind string, id int) step {
		b := blocks{}
		switch kind {
		case "err":
			return step{kind: "err", name: "err"}
		case "nil": // what loadPath / loadURL return for an empty path
			return step{kind: "nil", name: "nilmap"}
		case "empty": // the directory is empty at the moment
		case "readme": // no certificate files among the entries
			b["README"] = textFile("certificates go here")
			if id%2 == 1 {
				b["s0-cert.pem.bak"] = certFile(goodSets[0])
			}
		case "good":
			pair(b, id)
		case "good2": // sets id and id+1 together: the next load may be a strict subset of this one
			pair(b, id)
			pair(b, id+1)
		case "combined":
			b["zc.pem"] = combinedFile(goodSets[3], 1)
			if id%2 == 1 { // sorts before the pair: it becomes the default certificate
				pair(b, 2)
				b["a.pem"] = b["zc.pem"]
				delete(b, "zc.pem")
			}
		default: // bad: a good pair plus unusable material -> loadCertificates fails as a whole
			pair(b, 0)
			switch id % 4 {
			case 0: // certificate that does not parse
				b["zz0-cert.pem"], b["zz0-key.pem"] = textFile(badCertPEM), keyFile(1)
			case 1: // key without its certificate (the cert half of a split pair is gone, e.g. mid-rotation)
				b["zz1-key.pem"] = keyFile(1)
			case 2: // certificate without its key
				b["zz2-cert.pem"] = certFile(goodSets[1])
			case 3: // combined .pem file that holds a certificate but no key
				b["zz3.pem"] = certFile(goodSets[2])
			}
		}
		return step{kind: "map", name: fmt.Sprintf("%s%d", kind, id), b: b}
	}
	type wres struct {
		class   string
		once    bool
		strict  bool
		script  []step
		trace   []string
		picks   map[string][]string
		refresh time.Duration
	}
	probeNames := []string{"set0.example", "SET1.example.", "set2.example", "set3.example", "nothing.example"}
	nScripts := run.Scale(26, 80)
	// histories in which a snapshot holds a pair one block of which is there but empty (the
	// window between truncation and write of a renewal tool): pair a intact (a < 0: absent),
	// pair b with its key, its certificate or both emptied
	mkT := func(what string, a, b, v int) step {
		bl := blocks{}
		if a >= 0 {
			pair(bl, a)
		}
		pair(bl, b)
		e := textFile(emptyBlocks[v%len(emptyBlocks)])
		switch what {
		case "key":
			bl[fmt.Sprintf("s%d-key.pem", b)] = e
		case "cert":
			bl[fmt.Sprintf("s%d-cert.pem", b)] = e
		case "both":
			bl[fmt.Sprintf("s%d-key.pem", b)], bl[fmt.Sprintf("s%d-cert.pem", b)] = e, e
		case "combined": // pair b is fine, an empty combined file beside it
			bl["zc.pem"] = e
		}
		return step{kind: "map", name: fmt.Sprintf("empty-%s(%d;%d)v%d", what, a, b, v%len(emptyBlocks)), b: bl}
	}
	type escript struct {
		once   bool
		script []step
	}
	emptyScripts := []escript{
		{false, []step{mk("good2", 0), mkT("key", 0, 1, 0), mkT("key", 0, 1, 0), mk("good2", 0)}},
		{false, []step{mk("good2", 0), mkT("cert", 1, 0, 1), mk("good", 1)}},
		{false, []step{mk("good", 0), mkT("combined", -1, 0, 0), mk("good", 0)}},
		{true, []step{mkT("key", 0, 1, 2), mk("good2", 0), mk("good", 2)}},
		{false, []step{mk("good2", 0), mkT("both", 0, 1, 2), mkT("key", 1, 0, 1), mk("good2", 0)}},
		{false, []step{mk("good2", 1), mkT("key", 1, 2, 1), mkT("cert", 1, 2, 0), mk("good", 2)}},
		{false, []step{mkT("cert", 0, 1, 0), mk("good2", 0), mkT("key", 0, 1, 2), mk("good", 0)}},
		{true, []step{mkT("both", 2, 3, 1), mkT("combined", -1, 3, 1), mk("good", 1)}},
	}
	results := make([]wres, nScripts+len(emptyScripts))
	var wg sync.WaitGroup
	for si := 0; si < nScripts+len(emptyScripts); si++ {
		once := si%5 == 4
		n := 0
		if si < nScripts {
			n = 2 + r.Intn(3)
		}
		script := make([]step, n)
		for i := range script {
			switch k := r.Intn(14); {
			case k < 2:
				script[i] = mk("err", 0)
			case k == 10:
				script[i] = mk("good2", r.Intn(2))
			case k == 11:
				script[i] = mk([]string{"empty", "readme", "nil"}[r.Intn(3)], r.Intn(2))
			case k == 12:
				script[i] = mk("combined", r.Intn(2))
			case k < 6 || k == 13:
				script[i] = mk("good", r.Intn(3))
			default:
				script[i] = mk("bad", r.Intn(4))
			}
			if i > 0 && r.Intn(3) == 0 {
				script[i] = script[i-1] // same blocks again
			}
		}
		S := func(items ...step) []step { return items }
		directed := [][]step{
			S(mk("good", 0), mk("bad", 0), mk("good", 0)),
			S(mk("good", 1), mk("err", 0), mk("good", 1), mk("good", 2)),
			S(mk("bad", 0), mk("good", 0), mk("good", 0)),
			S(mk("good", 1), mk("bad", 1), mk("bad", 1), mk("good", 1)),
			S(mk("bad", 1), mk("bad", 0), mk("good", 2)),
			S(mk("good2", 0), mk("good", 0), mk("good", 1)),
			S(mk("good2", 1), mk("good", 2), mk("good2", 1), mk("good", 1)),
			S(mk("good", 1), mk("bad", 1), mk("good", 1)),
			S(mk("good2", 0), mk("bad", 2), mk("bad", 3), mk("good", 0)),
			// a source that has nothing at the moment, after a good set
			S(mk("good", 1), mk("empty", 0), mk("good", 1)),
			S(mk("good2", 0), mk("readme", 0), mk("empty", 0), mk("good", 2)),
			S(mk("good", 2), mk("readme", 1), mk("good", 2), mk("nil", 0)),
			S(mk("empty", 0), mk("good", 0), mk("empty", 0), mk("empty", 0)),
			S(mk("nil", 0), mk("empty", 0), mk("combined", 1), mk("combined", 0)),
		}
		// one-shot sources (refresh = 0): the loop retries an unusable first load every
		// second and returns only after the first publication
		directedOnce := [][]step{
			S(mk("bad", 0), mk("good", 0), mk("good", 1)),
			S(mk("err", 0), mk("good", 1)),
			S(mk("bad", 2), mk("err", 0), mk("good", 2), mk("good", 0)),
			S(mk("good", 0), mk("good", 1)),
			S(mk("empty", 0), mk("readme", 0), mk("good", 1), mk("good", 2)),
		}
		if si < len(directed) {
			once, script = false, directed[si]
		} else if si-len(directed) < len(directedOnce) {
			once, script = true, directedOnce[si-len(directed)]
		}
		class := "watch-to-store"
		if si >= nScripts {
			class, once, script = "watch-empty-block", emptyScripts[si-nScripts].once, emptyScripts[si-nScripts].script
		}
		results[si] = wres{class: class, once: once, strict: si%2 == 0, script: script, picks: map[string][]string{}}
		wg.Add(1)
		go func(si int) {
			defer wg.Done()
			res := &results[si]
			type ev struct {
				t    time.Time
				kind string
				k    int
				set  string
			}
			var mu sync.Mutex
			var evs []ev
			calls := 0
			exhausted := make(chan struct{})
			block := make(chan struct{})
			ch := make(chan []tls.Certificate) // watch loop -> forwarder
			s := &src{ch: make(chan []tls.Certificate)}
			cfg, err := cert.TLSConfig(s, res.strict, 0, 0, nil)
			if err != nil {
				panic(err)
			}
			// The forwarder stands where the channel of a real source is: it hands every
			// publication to TLSConfig's updater twice (once the second send is accepted the
			// first is installed) and answers a ping only when it is idle, which is how the
			// loader below knows that everything published so far is in the store.
			ping := make(chan struct{})
			quit := make(chan struct{})
			var lastSet []*gcert // the set the store was given last, as certificates of goodSets
			go func() {
				for {
					select {
					case certs := <-ch:
						var names []string
						var set []*gcert
						for _, c := range certs {
							names = append(names, coqNames(namesOf(c)))
							for _, g := range goodSets {
								if bytes.Equal(g.tls.Certificate[0], c.Certificate[0]) {
									set = append(set, g)
								}
							}
						}
						mu.Lock()
						evs = append(evs, ev{t: time.Now(), kind: "publish", set: vh.List(names)})
						lastSet = set
						mu.Unlock()
						s.ch <- certs
						s.ch <- certs
					case ping <- struct{}{}:
					case <-quit:
						return
					}
				}
			}()
			probe := func() {
				<-ping
				mu.Lock()
				set := lastSet
				mu.Unlock()
				for _, sn := range probeNames {
					c, err := cfg.GetCertificate(&tls.ClientHelloInfo{ServerName: sn})
					p, _ := pickIn(c, err, set)
					res.picks[sn] = append(res.picks[sn], p)
				}
			}
			loadFn := func(string) (map[string][]byte, error) {
				// the forwarder stamps a publication when it receives it; give it time to do so
				// before this load is stamped, so that the order of the stamps is the order of
				// the events
				time.Sleep(40 * time.Millisecond)
				mu.Lock()
				k := calls
				calls++
				mu.Unlock()
				if k > 0 && k <= len(res.script) {
					probe() // the handshakes after iteration k-1
				}
				mu.Lock()
				evs = append(evs, ev{t: time.Now(), kind: "load", k: k})
				mu.Unlock()
				if k >= len(res.script) {
					if k == len(res.script) {
						close(exhausted)
					}
					<-block // script exhausted: park the loop for good
				}
				st := res.script[k]
				if st.kind == "err" {
					return nil, errors.New("scripted load error")
				}
				return st.b.raw(), nil
			}
			done := make(chan struct{})
			// the loop must not refresh more often than once a second whatever it is asked for
			refresh := []time.Duration{time.Second, time.Millisecond, 200 * time.Millisecond, 999 * time.Millisecond}[si%4]
			if res.once {
				refresh = 0
			}
			res.refresh = refresh
			go func() { cert.VerifWatch(ch, refresh, "scripted", loadFn); close(done) }()
			returned := false
			select {
			case <-exhausted:
			case <-done:
				returned = true
			case <-time.After(time.Duration(len(res.script)+3) * 1500 * time.Millisecond):
			}
			time.Sleep(50 * time.Millisecond)
			if returned {
				probe() // the loop returned after its last iteration: the handshakes after it
			}
			close(quit)
			mu.Lock()
			defer mu.Unlock()
			// build the trace: load k, then publications observed before load k+1, then a
			// sleep if the next load came >= 0.8 s later (the loop's only sleeps are >= 1 s)
			var loads []ev
			for _, e := range evs {
				if e.kind == "load" {
					loads = append(loads, e)
				}
			}
			for k, l := range loads {
				if k >= len(res.script) {
					break
				}
				res.trace = append(res.trace, "ELoad")
				var next time.Time
				if k+1 < len(loads) {
					next = loads[k+1].t
				}
				for _, e := range evs {
					if e.kind == "publish" && e.t.After(l.t) && (next.IsZero() || e.t.Before(next)) {
						res.trace = append(res.trace, vh.App("EPublish", e.set))
					}
				}
				if !next.IsZero() && next.Sub(l.t) >= 800*time.Millisecond {
					res.trace = append(res.trace, "ESleep")
				} else if next.IsZero() {
					// the loop did not come back for another load within the wait: it is
					// sleeping (or returned, in once mode, which the model predicts as no event)
					select {
					case <-done:
					default:
						res.trace = append(res.trace, "ESleep")
					}
				}
			}
		}(si)
	}

	// 3b. the same through a real directory: PathSource -> loadPath -> watch -> TLSConfig.
	// The directory goes through a sequence of states; after each has had two refresh
	// intervals to settle, handshakes.  Strict and non-strict listener on the same directory.
	type dres struct {
		strict bool
		states []step
		picks  map[string][]string
	}
	dirCerts := make([]*gcert, 6)
	for i := range dirCerts {
		dirCerts[i] = mkCert(fmt.Sprintf("dir%d.example", i), nil)
	}
	dirNames := []string{"dir0.example", "dir1.example", "dir2.example", "DIR3.example", "dir5.example", "other.example"}
	// file names chosen so that the order by file name is not the order of creation
	type dirState struct {
		name  string
		files map[string]*pfile
	}
	dirStates := []dirState{
		{"A", map[string]*pfile{"z-cert.pem": certFile(dirCerts[0]), "z-key.pem": keyFile(1), "m.pem": combinedFile(dirCerts[1], 1)}},
		{"empty", map[string]*pfile{}},
		{"B", map[string]*pfile{"b-cert.pem": certFile(dirCerts[2]), "b-key.pem": keyFile(1), "a.pem": combinedFile(dirCerts[3], 1)}},
		{"readme-only", map[string]*pfile{"README": textFile("nothing here at the moment"), ".hidden.pem": combinedFile(dirCerts[4], 1), "x.pem.bak": combinedFile(dirCerts[4], 1)}},
		{"C-with-orphan-key", map[string]*pfile{"c-cert.pem": certFile(dirCerts[5]), "c-key.pem": keyFile(1), "d-key.pem": keyFile(1)}},
	}
	dirResults := []*dres{{strict: true, picks: map[string][]string{}}, {strict: false, picks: map[string][]string{}}}
	// 3c. a second directory, at the same time: a pair one file of which is there but empty -
	// what a renewal tool leaves between truncating a file and writing it - then the renewal
	truncCerts := []*gcert{mkCert("t0.example", nil), mkCert("t1.example", nil), mkCert("t1.example", []string{"t1.example"})}
	truncNames := []string{"t0.example", "T1.example.", "other.example"}
	truncStates := []dirState{
		{"A", map[string]*pfile{"a-cert.pem": certFile(truncCerts[0]), "a-key.pem": keyFile(1), "w-cert.pem": certFile(truncCerts[1]), "w-key.pem": keyFile(1)}},
		{"w-key-truncated", map[string]*pfile{"a-cert.pem": certFile(truncCerts[0]), "a-key.pem": keyFile(1), "w-cert.pem": certFile(truncCerts[1]), "w-key.pem": textFile("")}},
		{"w-cert-whitespace", map[string]*pfile{"a-cert.pem": certFile(truncCerts[0]), "a-key.pem": keyFile(1), "w-cert.pem": textFile("\n"), "w-key.pem": keyFile(1)}},
		{"w-renewed", map[string]*pfile{"a-cert.pem": certFile(truncCerts[0]), "a-key.pem": keyFile(1), "w-cert.pem": certFile(truncCerts[2]), "w-key.pem": keyFile(1)}},
		{"empty-combined-beside", map[string]*pfile{"a-cert.pem": certFile(truncCerts[0]), "a-key.pem": keyFile(1), "w-cert.pem": certFile(truncCerts[2]), "w-key.pem": keyFile(1), "m.pem": textFile("")}},
	}
	truncResults := []*dres{{strict: true, picks: map[string][]string{}}, {strict: false, picks: map[string][]string{}}}
	runDir := func(dirStates []dirState, dirCerts []*gcert, dirNames []string, dirResults []*dres) {
		defer wg.Done()
		dir, err := os.MkdirTemp("", "c11-certs-")
		if err != nil {
			panic(err)
		}
		defer os.RemoveAll(dir)
		certDir := filepath.Join(dir, "cert")
		os.Mkdir(certDir, 0o755)
		var cfgs []*tls.Config
		for _, d := range dirResults {
			cfg, err := cert.TLSConfig(cert.PathSource{CertPath: certDir, ClientCAPath: filepath.Join(dir, "no-clientca"), Refresh: time.Second}, d.strict, 0, 0, nil)
			if err != nil {
				panic(err)
			}
			cfgs = append(cfgs, cfg)
		}
		// position of a certificate in the state it belongs to, by certificate file name
		pos := map[*gcert]int{}
		for _, st := range dirStates {
			var fs []string
			for f, pf := range st.files {
				if pf.cert != nil && filepath.Ext(f) == ".pem" && !strings.HasPrefix(f, ".") && !strings.HasSuffix(f, "-key.pem") {
					fs = append(fs, f)
				}
			}
			sort.Strings(fs)
			for i, f := range fs {
				pos[st.files[f].cert] = i
			}
		}
		for _, st := range dirStates {
			// while the files are exchanged a key without certificate keeps every intermediate
			// content of the directory unusable; removing it last makes the new state appear at once
			poison := filepath.Join(certDir, "0-poison-key.pem")
			os.WriteFile(poison, keyPEMs[2], 0o600)
			old, _ := os.ReadDir(certDir)
			for _, e := range old {
				if e.Name() != "0-poison-key.pem" {
					os.Remove(filepath.Join(certDir, e.Name()))
				}
			}
			b := blocks{}
			for f, pf := range st.files {
				if err := os.WriteFile(filepath.Join(certDir, f), pf.data, 0o600); err != nil {
					panic(err)
				}
				// what loadPath keeps: *.pem files that are not hidden (keys are full paths
				// there; the file name decides the pairing and, within one directory, the order)
				if filepath.Ext(f) == ".pem" && !strings.HasPrefix(f, ".") {
					b[f] = pf
				}
			}
			os.Remove(poison)
			time.Sleep(2300 * time.Millisecond)
			for i, d := range dirResults {
				d.states = append(d.states, step{kind: "map", name: st.name, b: b})
				for _, sn := range dirNames {
					c, err := cfgs[i].GetCertificate(&tls.ClientHelloInfo{ServerName: sn})
					p := "PNone"
					switch {
					case errors.Is(err, cert.ErrNoCertsStored):
						p = "PErrNoCerts"
					case c != nil:
						p = vh.App("PCert", vh.Nat(1000))
						for _, g := range dirCerts {
							if bytes.Equal(g.tls.Certificate[0], c.Certificate[0]) {
								p = vh.App("PCert", vh.Nat(pos[g]))
							}
						}
					}
					d.picks[sn] = append(d.picks[sn], p)
				}
			}
		}
	}
	// 3d. the consul KV source (cert/consul_source.go): ConsulSource -> blocking KV queries ->
	// loadCertificates -> TLSConfig, against a fake KV endpoint of this process.  The key prefix
	// goes through a sequence of states (a set, the prefix deleted, another set, keys none of
	// which is a *.pem key, a set with a key that has no certificate, the first set again); after
	// each state has settled, handshakes.  Same model and same demand as for the directories:
	// a source that has nothing usable at the moment leaves the working set alone.
	kvCerts := make([]*gcert, 6)
	for i := range kvCerts {
		kvCerts[i] = mkCert(fmt.Sprintf("kv%d.example", i), nil)
	}
	kvNames := []string{"kv0.example", "kv1.example", "kv2.example", "KV3.example", "kv5.example", "other.example"}
	kvStates := []dirState{
		{"A", map[string]*pfile{"z-cert.pem": certFile(kvCerts[0]), "z-key.pem": keyFile(1), "m.pem": combinedFile(kvCerts[1], 1)}},
		{"prefix-deleted", map[string]*pfile{}},
		{"B", map[string]*pfile{"b-cert.pem": certFile(kvCerts[2]), "b-key.pem": keyFile(1), "a.pem": combinedFile(kvCerts[3], 1)}},
		{"no-pem-key", map[string]*pfile{"README": textFile("nothing here at the moment"), "x.pem.bak": combinedFile(kvCerts[4], 1)}},
		{"C-with-orphan-key", map[string]*pfile{"c-cert.pem": certFile(kvCerts[5]), "c-key.pem": keyFile(1), "d-key.pem": keyFile(1)}},
		{"prefix-deleted-again", map[string]*pfile{}},
		{"A-again", map[string]*pfile{"z-cert.pem": certFile(kvCerts[0]), "z-key.pem": keyFile(1), "m.pem": combinedFile(kvCerts[1], 1)}},
	}
	kvResults := []*dres{{strict: true, picks: map[string][]string{}}, {strict: false, picks: map[string][]string{}}}
	runKV := func() {
		defer wg.Done()
		var mu sync.Mutex
		index := 10
		cur := map[string][]byte{}
		srv := httptest.NewServer(http.HandlerFunc(func(w http.ResponseWriter, r *http.Request) {
			if !strings.HasPrefix(r.URL.Path, "/v1/kv/certs") {
				http.NotFound(w, r)
				return
			}
			want := r.URL.Query().Get("index")
			for i := 0; i < 25; i++ { // a blocking query: answer when the index has moved, or after 500 ms
				mu.Lock()
				moved := want == "" || want == "0" || strconv.Itoa(index) != want
				mu.Unlock()
				if moved {
					break
				}
				time.Sleep(20 * time.Millisecond)
			}
			mu.Lock()
			defer mu.Unlock()
			w.Header().Set("X-Consul-Index", strconv.Itoa(index))
			if len(cur) == 0 {
				w.WriteHeader(http.StatusNotFound)
				return
			}
			type kvp struct {
				Key         string
				Value       []byte
				ModifyIndex int
			}
			var out []kvp
			for k, v := range cur {
				out = append(out, kvp{"certs/" + k, v, index})
			}
			w.Header().Set("Content-Type", "application/json")
			json.NewEncoder(w).Encode(out)
		}))
		defer srv.Close()
		var cfgs []*tls.Config
		for _, d := range kvResults {
			cfg, err := cert.TLSConfig(cert.ConsulSource{CertURL: srv.URL + "/v1/kv/certs"}, d.strict, 0, 0, nil)
			if err != nil {
				panic(err)
			}
			cfgs = append(cfgs, cfg)
		}
		pos := map[*gcert]int{}
		for _, st := range kvStates {
			var fs []string
			for f, pf := range st.files {
				if pf.cert != nil && filepath.Ext(f) == ".pem" && !strings.HasSuffix(f, "-key.pem") {
					fs = append(fs, f)
				}
			}
			sort.Strings(fs)
			for i, f := range fs {
				pos[st.files[f].cert] = i
			}
		}
		for _, st := range kvStates {
			b := blocks{}
			next := map[string][]byte{}
			for f, pf := range st.files {
				next[f] = pf.data
				b[f] = pf
			}
			mu.Lock()
			cur = next
			index++
			mu.Unlock()
			time.Sleep(1500 * time.Millisecond)
			for i, d := range kvResults {
				d.states = append(d.states, step{kind: "map", name: st.name, b: b})
				for _, sn := range kvNames {
					c, err := cfgs[i].GetCertificate(&tls.ClientHelloInfo{ServerName: sn})
					p := "PNone"
					switch {
					case errors.Is(err, cert.ErrNoCertsStored):
						p = "PErrNoCerts"
					case c != nil:
						p = vh.App("PCert", vh.Nat(1000))
						for _, g := range kvCerts {
							if bytes.Equal(g.tls.Certificate[0], c.Certificate[0]) {
								p = vh.App("PCert", vh.Nat(pos[g]))
							}
						}
					}
					d.picks[sn] = append(d.picks[sn], p)
				}
			}
		}
	}
	// 3e. certificate directories whose states are published the way deployments do it
	// (deploy.go): symbolic links into a release directory that is exchanged, files replaced
	// by files of the same size and modification time.  Planned here, run beside the others.
	deploys := planDeploys(run.Seed)
	// 3e'. directories in which the file of a certificate in use is left with zero length
	// (zerolen.go); planned after the others so that their certificates stay what they were
	deploys = append(deploys, planZeroLength(run.Seed)...)
	// 3e''. path sources whose configured path leads through symbolic links that are
	// re-pointed to publish (pathlink.go); planned last, for the same reason
	deploys = append(deploys, planPathLinks(run.Seed, run.Scale(2, 5))...)
	// 3f. the listeners of generated command lines through the real makeTLSConfig (deploy.go)
	var lCases []pcase
	var lViols []pviol
	wg.Add(4 + len(deploys))
	go runDir(dirStates, dirCerts, dirNames, dirResults)
	go runDir(truncStates, truncCerts, truncNames, truncResults)
	go runKV()
	for _, d := range deploys {
		go func(d *deploy) { defer wg.Done(); d.run() }(d)
	}
	go func() { defer wg.Done(); lCases, lViols = runListeners(run.Seed, run.Scale(6, 40)) }()
	wg.Wait()
	for _, res := range results {
		items := make([]string, len(res.script))
		var human []string
		for i, st := range res.script {
			items[i] = st.coq()
			human = append(human, st.name)
		}
		for _, sn := range probeNames {
			run.Add(res.class, vh.App("CWatch", vh.Bool(res.once), vh.List(items), vh.HxS(sn), vh.Bool(res.strict), vh.Some(vh.List(res.trace)), vh.List(res.picks[sn])),
				map[string]interface{}{"once": res.once, "refresh": res.refresh.String(), "script": human, "trace": res.trace, "server_name": sn, "strict": res.strict, "picks": res.picks[sn]})
		}
	}
	for _, d := range dirResults {
		items := make([]string, len(d.states))
		var human []string
		for i, st := range d.states {
			items[i] = st.coq()
			human = append(human, st.name)
		}
		for _, sn := range dirNames {
			run.Add("directory-to-store", vh.App("CWatch", "false", vh.List(items), vh.HxS(sn), vh.Bool(d.strict), "None", vh.List(d.picks[sn])),
				map[string]interface{}{"states": human, "server_name": sn, "strict": d.strict, "picks": d.picks[sn]})
		}
	}
	for _, d := range truncResults {
		items := make([]string, len(d.states))
		var human []string
		for i, st := range d.states {
			items[i] = st.coq()
			human = append(human, st.name)
		}
		for _, sn := range truncNames {
			run.Add("directory-truncated-file", vh.App("CWatch", "false", vh.List(items), vh.HxS(sn), vh.Bool(d.strict), "None", vh.List(d.picks[sn])),
				map[string]interface{}{"states": human, "server_name": sn, "strict": d.strict, "picks": d.picks[sn]})
		}
	}
	for _, d := range kvResults {
		items := make([]string, len(d.states))
		var human []string
		for i, st := range d.states {
			items[i] = st.coq()
			human = append(human, st.name)
		}
		for _, sn := range kvNames {
			run.Add("consul-kv-to-store", vh.App("CWatch", "false", vh.List(items), vh.HxS(sn), vh.Bool(d.strict), "None", vh.List(d.picks[sn])),
				map[string]interface{}{"states": human, "server_name": sn, "strict": d.strict, "picks": d.picks[sn]})
		}
	}
	for _, d := range deploys {
		for _, v := range d.viols {
			run.Violation(run.NextID(), v.what, v.input)
		}
		for _, c := range d.cases() {
			run.Add(c.class, c.term(), c.sample)
		}
	}
	for _, v := range lViols {
		run.Violation(run.NextID(), v.what, v.input)
	}
	for _, c := range lCases {
		run.Add(c.class, c.term(), c.sample)
	}
	// 3g. single calls of the real loadPath on generated directories (zerolen.go)
	runLoadPathEntries(run, run.Scale(120, 600))
	run.Finish(preamble, run.Scale(80, 400))
}

func addPick(run *vh.Run, class string, set []*gcert, sn string, strict, nilIndex bool) {
	i, err := cert.VerifGetCertificate(tlsSet(set), sn, strict, nilIndex)
	if i == -2 {
		run.Violation(run.NextID(), "getCertificate returned a certificate that is not in the store", sn)
	}
	var names [][]string
	for _, g := range set {
		names = append(names, g.names)
	}
	run.Add(class, vh.App("CPick", coqSet(set), vh.Bool(nilIndex), vh.HxS(sn), vh.Bool(strict), pickCoq(i, err)),
		map[string]interface{}{"certs": names, "server_name": sn, "strict": strict, "nil_index": nilIndex, "picked": i})
}

func intNote(v interface{}) int {
	if i, ok := v.(int); ok {
		return i
	}
	return 0
}

type obs struct {
	sn    string
	fromB bool
	idx   int
	err   error
}

func sortedKeys(m map[string]obs) []string {
	ks := make([]string, 0, len(m))
	for k := range m {
		ks = append(ks, k)
	}
	sort.Strings(ks)
	return ks
}
