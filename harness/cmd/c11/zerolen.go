// Classes of the C11 harness about certificate files that are there with nothing in them:
//   - directory-zero-length-file: real certificate directories behind the real PathSource in
//     which the file of a certificate that is IN USE loses its content - a combined x.pem
//     truncated to zero bytes where it lies, replaced by an empty file, both files of a pair
//     empty at once, one of them, all of them - and gets it back by a renewal.  Same
//     machinery, same case and same demand as the directories of deploy.go;
//   - load-path-entries: single calls of the real loadPath (hook VerifLoadPath) on generated
//     directories - complete pairs and combined files beside files of zero length, a line
//     feed, blanks, links to an empty file, dangling links, hidden files, names that are not
//     *.pem, files at and above MaxSize, sub-directories - compared entry by entry with the
//     model's walk, and judged by what the reload loop would make of the load.
package main

import (
	"fmt"
	mrand "math/rand"
	"os"
	"path/filepath"
	"sort"
	"strings"

	"github.com/fabiolb/fabio/cert"

	"verifharness/internal/vh"
)

// ================= directories behind PathSource =================

// the state of the three files of a zero-length history: api.pem (combined), shop-cert.pem,
// shop-key.pem; true = holds what it should
type zfiles struct{ api, shopCert, shopKey bool }

func planZeroLength(seed int64) []*deploy {
	rz := mrand.New(mrand.NewSource(seed*7919 + 5))
	empty := textFile("")
	write := func(d *deploy, file string, pf *pfile) {
		d.reg(pf)
		d.must(os.WriteFile(filepath.Join(d.certDir, file), pf.data, 0o600))
	}
	truncate := func(d *deploy, file string) {
		d.reg(empty)
		d.must(os.Truncate(filepath.Join(d.certDir, file), 0))
	}
	history := func(kinds []string) *deploy {
		d := newDeploy("directory-zero-length-file")
		api, shop := mkCertU("api.example"), mkCertU("shop.example")
		d.steps = append(d.steps, depStep{"deployed", func(d *deploy) {
			// the key last: until then the directory is unusable
			d.put("api.pem", combinedFile(api, 1), false)
			d.put("shop-cert.pem", certFile(shop), false)
			d.put("shop-key.pem", keyFile(1), false)
		}})
		// every step leaves the directory, at every moment between its file operations, either
		// unusable or as it is at the end of the step
		for _, k := range kinds {
			switch k {
			case "truncate-api":
				d.steps = append(d.steps, depStep{"api.pem-truncated-to-0-bytes", func(d *deploy) { truncate(d, "api.pem") }})
			case "empty-api-by-rename":
				d.steps = append(d.steps, depStep{"api.pem-replaced-by-an-empty-file", func(d *deploy) { d.put("api.pem", empty, false) }})
			case "renew-api":
				g := mkCertU("api.example")
				d.steps = append(d.steps, depStep{"api.pem-renewed-in-place", func(d *deploy) { write(d, "api.pem", combinedFile(g, 1)) }})
			case "truncate-shop-both":
				d.steps = append(d.steps, depStep{"shop-cert.pem-and-shop-key.pem-truncated-to-0-bytes", func(d *deploy) {
					truncate(d, "shop-cert.pem")
					truncate(d, "shop-key.pem")
				}})
			case "truncate-shop-cert":
				d.steps = append(d.steps, depStep{"shop-cert.pem-truncated-to-0-bytes", func(d *deploy) { truncate(d, "shop-cert.pem") }})
			case "truncate-shop-key":
				d.steps = append(d.steps, depStep{"shop-key.pem-truncated-to-0-bytes", func(d *deploy) { truncate(d, "shop-key.pem") }})
			case "truncate-all":
				d.steps = append(d.steps, depStep{"every-file-truncated-to-0-bytes", func(d *deploy) {
					truncate(d, "shop-key.pem")
					truncate(d, "shop-cert.pem")
					truncate(d, "api.pem")
				}})
			default: // renew-shop
				g := mkCertU("shop.example")
				d.steps = append(d.steps, depStep{"shop-renewed-in-place", func(d *deploy) {
					write(d, "shop-cert.pem", certFile(g))
					write(d, "shop-key.pem", keyFile(1))
				}})
			}
		}
		return d
	}
	out := []*deploy{
		history([]string{"truncate-api", "renew-api", "truncate-shop-both", "renew-shop"}),
	}
	// a random history: an emptying step is followed by another one or by the renewal that
	// repairs it, so that most states differ from the one before
	pool := []string{"truncate-api", "empty-api-by-rename", "truncate-shop-both", "truncate-shop-both", "truncate-shop-cert", "truncate-shop-key", "truncate-all", "renew-api", "renew-shop"}
	var kinds []string
	st := zfiles{true, true, true}
	for len(kinds) < 4 {
		k := pool[rz.Intn(len(pool))]
		switch k {
		case "truncate-api", "empty-api-by-rename":
			if !st.api {
				continue
			}
			st.api = false
		case "truncate-shop-both":
			if !st.shopCert && !st.shopKey {
				continue
			}
			st.shopCert, st.shopKey = false, false
		case "truncate-shop-cert":
			if !st.shopCert {
				continue
			}
			st.shopCert = false
		case "truncate-shop-key":
			if !st.shopKey {
				continue
			}
			st.shopKey = false
		case "truncate-all":
			if !st.api && !st.shopCert && !st.shopKey {
				continue
			}
			st = zfiles{}
		case "renew-api":
			st.api = true
		default:
			st.shopCert, st.shopKey = true, true
		}
		kinds = append(kinds, k)
	}
	out = append(out, history(kinds))
	return out
}

// ================= single calls of loadPath =================

type lpEntry struct {
	path   string // relative to the certificate path
	pf     *pfile // content of a regular file (or of the link's target)
	link   string // "" regular file; "file": link to a file holding pf; "dangling"; "dir"
	hidden bool
}

func runLoadPathEntries(run *vh.Run, n int) {
	rp := mrand.New(mrand.NewSource(run.Seed*7919 + 6))
	nothings := []string{"", "", "", "\n", " \t\r\n "}
	nothing := func() *pfile { return textFile(nothings[rp.Intn(len(nothings))]) }
	zero := func() *pfile { return textFile("") }
	type site struct {
		dir      string // "" or "sub/"
		stem     string
		combined bool
		g        *gcert
	}
	files := func(s site) []lpEntry {
		if s.combined {
			return []lpEntry{{path: s.dir + s.stem + ".pem", pf: combinedFile(s.g, 1)}}
		}
		return []lpEntry{{path: s.dir + s.stem + "-cert.pem", pf: certFile(s.g)}, {path: s.dir + s.stem + "-key.pem", pf: keyFile(1)}}
	}
	newSite := func(i int, combined bool, dir string) site {
		stem := []string{"shop", "api", "00-main", "Zed", "m"}[i%5]
		return site{dir: dir, stem: stem, combined: combined, g: mkCertU(strings.ToLower(stem) + ".example")}
	}
	type plan struct {
		name    string
		entries []lpEntry
	}
	var plans []plan
	// directed: the shapes a certificate file with nothing in it comes in
	{
		a, b, c := newSite(0, true, ""), newSite(1, false, ""), newSite(2, true, "")
		sub := newSite(3, false, "sub/")
		cat := func(xs ...[]lpEntry) (out []lpEntry) {
			for _, x := range xs {
				out = append(out, x...)
			}
			return out
		}
		emptied := func(es []lpEntry, which ...int) []lpEntry {
			out := append([]lpEntry{}, es...)
			for _, i := range which {
				out[i].pf = zero()
			}
			return out
		}
		plans = append(plans,
			plan{"complete", cat(files(a), files(b), files(c))},
			plan{"combined-file-of-0-bytes-beside-complete-ones", cat(emptied(files(a), 0), files(b), files(c))},
			plan{"both-files-of-a-pair-of-0-bytes-beside-complete-ones", cat(files(a), emptied(files(b), 0, 1), files(c))},
			plan{"key-of-0-bytes", cat(files(a), emptied(files(b), 1))},
			plan{"certificate-of-0-bytes", cat(files(a), emptied(files(b), 0))},
			plan{"every-file-of-0-bytes", cat(emptied(files(a), 0), emptied(files(b), 0, 1))},
			plan{"one-combined-of-0-bytes-one-complete", cat(emptied(files(a), 0), files(c))},
			plan{"pair-of-0-bytes-in-a-sub-directory", cat(files(a), emptied(files(sub), 0, 1))},
			plan{"extra-combined-file-of-0-bytes", cat(files(a), files(b), []lpEntry{{path: "placeholder.pem", pf: zero()}})},
			plan{"hidden-and-non-pem-files-of-0-bytes", cat(files(a), files(b), []lpEntry{{path: ".placeholder.pem", pf: zero()}, {path: "README", pf: zero()}, {path: "old.pem.bak", pf: zero()}})},
			plan{"link-to-a-file-of-0-bytes", cat(files(a), []lpEntry{{path: "api.pem", pf: zero(), link: "file"}}, files(c))},
			plan{"combined-file-of-one-line-feed", cat(files(c), []lpEntry{{path: "shop.pem", pf: textFile("\n")}})},
			plan{"dangling-link-beside-complete-ones", cat(files(a), files(b), []lpEntry{{path: "gone.pem", link: "dangling"}})},
			plan{"only-a-file-of-0-bytes", []lpEntry{{path: "shop.pem", pf: zero()}}},
			plan{"file-of-MaxSize-and-file-above", cat(files(a), []lpEntry{{path: "edge.pem", pf: blankFile(1 << 20)}, {path: "big.pem", pf: blankFile(1<<20 + 1)}})},
		)
	}
	for len(plans) < n {
		var es []lpEntry
		var what []string
		nsites := 1 + rp.Intn(3)
		for i := 0; i < nsites; i++ {
			dir := ""
			if rp.Intn(4) == 0 {
				dir = "sub/"
			}
			fs := files(newSite(i+rp.Intn(2)*3, rp.Intn(2) == 0, dir))
			// damage: most sites stay complete
			switch rp.Intn(8) {
			case 0: // every file of the site holds nothing
				for j := range fs {
					fs[j].pf = nothing()
				}
				what = append(what, "site-emptied")
			case 1: // every file of the site has length 0
				for j := range fs {
					fs[j].pf = zero()
				}
				what = append(what, "site-0-bytes")
			case 2: // one file
				j := rp.Intn(len(fs))
				fs[j].pf = nothing()
				what = append(what, "file-emptied")
			case 3:
				j := rp.Intn(len(fs))
				switch rp.Intn(3) {
				case 0:
					fs[j] = lpEntry{path: fs[j].path, pf: zero(), link: "file"}
					what = append(what, "link-to-0-bytes")
				case 1:
					fs[j] = lpEntry{path: fs[j].path, pf: fs[j].pf, link: "file"}
					what = append(what, "link-to-file")
				default:
					fs[j] = lpEntry{path: fs[j].path, link: "dangling"}
					what = append(what, "dangling-link")
				}
			default:
				what = append(what, "complete")
			}
			es = append(es, fs...)
		}
		for i, k := 0, rp.Intn(3); i < k; i++ {
			switch rp.Intn(7) {
			case 0:
				es = append(es, lpEntry{path: fmt.Sprintf("extra%d.pem", i), pf: nothing()})
				what = append(what, "extra-nothing")
			case 1:
				es = append(es, lpEntry{path: fmt.Sprintf(".hidden%d.pem", i), pf: nothing()})
			case 2:
				es = append(es, lpEntry{path: "README", pf: zero()})
			case 3:
				es = append(es, lpEntry{path: fmt.Sprintf("sub/.keep%d.pem", i), pf: zero()})
			case 4:
				es = append(es, lpEntry{path: fmt.Sprintf("notes%d.pem.bak", i), pf: combinedFile(mkCertU("bak.example"), 1)})
			case 5:
				es = append(es, lpEntry{path: fmt.Sprintf("linkdir%d.pem", i), link: "dir"})
				what = append(what, "link-to-directory")
			default:
				if rp.Intn(4) == 0 {
					es = append(es, lpEntry{path: "big.pem", pf: blankFile(1<<20 + 1)})
					what = append(what, "above-MaxSize")
				} else {
					es = append(es, lpEntry{path: fmt.Sprintf("extra%d.pem", i), pf: combinedFile(mkCertU("extra.example"), 1)})
				}
			}
		}
		plans = append(plans, plan{strings.Join(what, "+"), es})
	}

	for _, pl := range plans {
		d := newDeploy("load-path-entries")
		store := filepath.Join(d.root, "store")
		d.must(os.MkdirAll(store, 0o755))
		seenPath := map[string]bool{}
		for i, e := range pl.entries {
			if seenPath[e.path] {
				continue // two sites drew the same stem: the first stays
			}
			seenPath[e.path] = true
			full := filepath.Join(d.certDir, e.path)
			d.must(os.MkdirAll(filepath.Dir(full), 0o755))
			switch e.link {
			case "":
				d.reg(e.pf)
				d.must(os.WriteFile(full, e.pf.data, 0o600))
			case "file":
				d.reg(e.pf)
				target := filepath.Join(store, fmt.Sprintf("f%d", i))
				d.must(os.WriteFile(target, e.pf.data, 0o600))
				d.must(os.Symlink(target, full))
			case "dir":
				d.must(os.Symlink(store, full))
			default:
				d.must(os.Symlink(filepath.Join(store, "nothing-here"), full))
			}
		}
		state := d.describe()
		got, err := cert.VerifLoadPath(d.certDir)
		impl, human := "LoadErr", "error"
		unknown := ""
		if err == nil {
			var keys []string
			for k := range got {
				keys = append(keys, k)
			}
			sort.Strings(keys)
			var items, hs []string
			for _, k := range keys {
				rel, rerr := filepath.Rel(d.certDir, k)
				pf := d.known[string(got[k])]
				if rerr != nil || pf == nil {
					unknown = k
					break
				}
				items = append(items, vh.Pair(vh.HxS(filepath.ToSlash(rel)), pf.coq()))
				hs = append(hs, fmt.Sprintf("%s(%d bytes)", filepath.ToSlash(rel), len(got[k])))
			}
			impl, human = vh.App("Loaded", vh.Some(vh.List(items))), strings.Join(hs, " ")
			if got == nil {
				impl, human = "(Loaded None)", "nil map"
			}
		}
		var lst []string
		for _, e := range state {
			lst = append(lst, fmt.Sprintf("%s:%s/%d", e.path, strings.TrimPrefix(e.kind, "K"), e.size))
		}
		os.RemoveAll(d.root)
		if unknown != "" {
			run.Violation(run.NextID(), "loadPath returned a key outside the certificate path or bytes that no file of the directory holds", map[string]interface{}{"directory": lst, "key": unknown})
			continue
		}
		run.Add("load-path-entries", vh.App("CDirLoad", coqDirState(state), impl),
			map[string]interface{}{"shape": pl.name, "lstat": lst, "loaded": human})
	}
}
