// Classes of the C11 harness in which the CONFIGURED certificate path of a real PathSource
// leads through symbolic links, and a new set is published by re-pointing one of them:
//   - path-symlink-switch: <base>/current/certs with current -> releases/vN (the atomic-deploy
//     idiom, what a Kubernetes secret volume does with ..data); a chain live -> current ->
//     releases/vN under PathSource{Path: <base>/live} (default child "cert"); the source
//     created before anything is there; a path whose LAST element is the link (filepath.Walk
//     does not follow it);
//   - path-symlink-styles: random histories of the first two layouts.
//
// Steps: switch to a new release, to a release without the key / without the directory, to
// nowhere, back to an earlier release, a renewal inside the release in use, a rewrite of a
// release the path does not lead to (must have no effect).  Every state is described to the
// model as a file tree: where the links lead now, and what each release directory holds now
// (what Lstat and a read of every entry yield, as for the directories of deploy.go).
package main

import (
	"fmt"
	mrand "math/rand"
	"os"
	"path/filepath"
	"strings"
	"time"

	"github.com/fabiolb/fabio/cert"

	"verifharness/internal/vh"
)

type place struct {
	id      int
	kind    string // absent, file, dir
	entry   dentryDesc
	entries []dentryDesc
}

type world struct {
	at     int // -1: the links lead nowhere
	places []place
}

func (w world) coq() string {
	at := "None"
	if w.at >= 0 {
		at = vh.Some(vh.N(w.at))
	}
	ps := make([]string, len(w.places))
	for i, p := range w.places {
		v := "RAbsent"
		switch p.kind {
		case "file":
			e := p.entry
			rd := "None"
			if e.pf != nil {
				rd = vh.Some(e.pf.coq())
			}
			v = vh.App("RFile", vh.HxS(e.path), fmt.Sprintf("{| d_kind := %s; d_size := %s; d_mtime := %s; d_read := %s |}", e.kind, vh.N(e.size), vh.N(e.mtime), rd))
		case "dir":
			v = vh.App("RDir", coqDirState(p.entries))
		}
		ps[i] = vh.Pair(vh.N(p.id), v)
	}
	return fmt.Sprintf("{| w_at := %s; w_tree := %s |}", at, vh.List(ps))
}

func (w world) human() string {
	var ps []string
	for _, p := range w.places {
		s := fmt.Sprintf("v%d:%s", p.id, p.kind)
		if p.kind == "dir" {
			var fs []string
			for _, e := range p.entries {
				fs = append(fs, e.path)
			}
			s += "[" + strings.Join(fs, " ") + "]"
		}
		ps = append(ps, s)
	}
	at := "nowhere"
	if w.at >= 0 {
		at = fmt.Sprintf("v%d", w.at)
	}
	return "path->" + at + " | " + strings.Join(ps, " ")
}

func (d *deploy) pathCases() (out []pcase) {
	var human []string
	for _, w := range d.worlds {
		human = append(human, w.human())
	}
	cfg := ""
	if d.source != nil {
		p := filepath.Join(d.source.Path, d.source.CertPath)
		if d.source.CertPath == "" {
			p = filepath.Join(d.source.Path, cert.DefaultCertPath)
		}
		cfg, _ = filepath.Rel(d.root, p)
	}
	for i := range d.seen {
		for _, sn := range d.probes {
			i, sn := i, sn
			out = append(out, pcase{d.class, func() string {
				items := make([]string, len(d.worlds))
				for k, w := range d.worlds {
					items[k] = w.coq()
				}
				return vh.App("CPath", vh.List(items), vh.HxS(sn), vh.Bool(i == 0), vh.List(d.seen[i][sn]))
			}, map[string]interface{}{"configured_path": cfg, "created_before_the_source": d.early, "steps": d.names, "file_trees": human, "server_name": sn, "strict": i == 0, "presented": d.sawHuman[i][sn]}})
		}
	}
	return out
}

// planPathLinks creates the histories and every certificate they need (in the calling
// goroutine, see planDeploys); choices from a source of its own
func planPathLinks(seed int64, nRandom int) []*deploy {
	rp := mrand.New(mrand.NewSource(seed*7919 + 7))

	// layout: "parent" <base>/current/certs, current -> releases/vN
	//         "chain"  <base>/live/cert (Path = <base>/live), live -> current -> releases/vN
	//         "last"   <base>/live-certs -> releases/vN/certs: the last element is the link
	history := func(class, layout string, early bool, kinds []string) *deploy {
		d := newDeploy(class)
		d.early = early
		sub := "certs"
		switch layout {
		case "parent":
			d.source = &cert.PathSource{CertPath: filepath.Join(d.root, "current", sub)}
		case "chain":
			sub = cert.DefaultCertPath
			d.source = &cert.PathSource{Path: filepath.Join(d.root, "live")}
		default:
			d.source = &cert.PathSource{CertPath: filepath.Join(d.root, "live-certs")}
		}
		d.source.ClientCAPath = filepath.Join(d.root, "no-clientca")
		d.source.Refresh = time.Second
		relDir := func(n int) string { return filepath.Join(d.root, "releases", fmt.Sprintf("v%d", n), sub) }

		// plan-time state
		nrel, cur := 0, -1
		var good []int
		// run-time state (set by the steps in the deploy's goroutine)
		at, made := -1, 0

		newRelease := func(broken string, noDir bool) (int, func(d *deploy)) {
			nrel++
			n := nrel
			files := release(mkCertU("shop.example"), mkCertU("api.example"))
			if broken != "" {
				delete(files, broken)
			} else if !noDir {
				good = append(good, n)
			}
			return n, func(d *deploy) {
				d.must(os.MkdirAll(filepath.Dir(relDir(n)), 0o755))
				d.must(os.WriteFile(filepath.Join(filepath.Dir(relDir(n)), "README"), []byte("release\n"), 0o644))
				if !noDir {
					d.must(os.Mkdir(relDir(n), 0o755))
					for f, pf := range files {
						d.reg(pf)
						d.must(os.WriteFile(filepath.Join(relDir(n), f), pf.data, 0o600))
					}
				}
				made = n
			}
		}
		// the link the operator re-points, exchanged in one rename
		point := func(d *deploy, n int) {
			target := filepath.Join("releases", fmt.Sprintf("v%d", n))
			name := "current"
			if n < 0 {
				target = filepath.Join("releases", "gone")
			}
			if layout == "last" {
				target, name = filepath.Join(target, sub), "live-certs"
			}
			tmp := filepath.Join(d.root, name+".tmp")
			os.Remove(tmp)
			d.must(os.Symlink(target, tmp))
			d.must(os.Rename(tmp, filepath.Join(d.root, name)))
			if layout == "chain" {
				if _, err := os.Lstat(filepath.Join(d.root, "live")); err != nil {
					d.must(os.Symlink("current", filepath.Join(d.root, "live")))
				}
			}
			at = n
		}
		// shop-cert.pem of a release replaced in one rename
		renewIn := func(d *deploy, n int, pf *pfile) {
			d.reg(pf)
			tmp := filepath.Join(d.root, "incoming")
			d.must(os.WriteFile(tmp, pf.data, 0o600))
			d.must(os.Rename(tmp, filepath.Join(relDir(n), "shop-cert.pem")))
		}
		isGood := func(n int) bool {
			for _, g := range good {
				if g == n {
					return true
				}
			}
			return false
		}
		otherGood := func() int {
			for _, g := range good {
				if g != cur {
					return g
				}
			}
			return -1
		}
		for _, k := range append([]string{"switch"}, kinds...) {
			// kinds that need something that is not there become a switch
			switch k {
			case "back", "rewrite-old":
				if otherGood() < 0 {
					k = "switch"
				}
			case "renew-current":
				if !isGood(cur) {
					k = "switch"
				}
			}
			switch k {
			case "switch", "broken-key", "broken-combined", "no-dir":
				broken := map[string]string{"broken-key": "shop-key.pem", "broken-combined": "api.pem"}[k]
				n, mk := newRelease(broken, k == "no-dir")
				what := fmt.Sprintf("link-switched-to-v%d", n)
				if broken != "" {
					what += "-without-" + broken
				}
				if k == "no-dir" {
					what += "-without-the-directory"
				}
				cur = n
				d.steps = append(d.steps, depStep{what, func(d *deploy) { mk(d); point(d, n) }})
			case "dangling":
				cur = -1
				d.steps = append(d.steps, depStep{"link-switched-to-nowhere", func(d *deploy) { point(d, -1) }})
			case "back":
				n := otherGood()
				cur = n
				d.steps = append(d.steps, depStep{fmt.Sprintf("link-switched-back-to-v%d", n), func(d *deploy) { point(d, n) }})
			case "rewrite-old":
				n := otherGood()
				g := mkCertU("shop.example")
				d.steps = append(d.steps, depStep{fmt.Sprintf("shop-cert-renewed-in-v%d-which-the-path-does-not-lead-to", n), func(d *deploy) { renewIn(d, n, certFile(g)) }})
			case "renew-current":
				n := cur
				g := mkCertU("shop.example")
				d.steps = append(d.steps, depStep{fmt.Sprintf("shop-cert-renewed-in-v%d-which-the-path-leads-to", n), func(d *deploy) { renewIn(d, n, certFile(g)) }})
			default:
				panic("unknown step kind " + k)
			}
		}
		d.worldFn = func(d *deploy) world {
			w := world{at: at}
			if layout == "last" {
				// the place the path denotes is the link itself
				w.at = 0
				e := d.describeEntry(filepath.Join(d.root, "live-certs"), "live-certs")
				w.places = append(w.places, place{id: 0, kind: "file", entry: e})
			}
			for n := 1; n <= made; n++ {
				p := place{id: n, kind: "absent"}
				if fi, err := os.Stat(relDir(n)); err == nil && fi.IsDir() {
					p.kind, p.entries = "dir", d.describeDir(relDir(n))
				}
				w.places = append(w.places, p)
			}
			return w
		}
		return d
	}

	out := []*deploy{
		history("path-symlink-switch", "parent", true, []string{"switch", "rewrite-old", "broken-key", "switch", "back"}),
		history("path-symlink-switch", "chain", true, []string{"switch", "dangling", "switch", "renew-current", "no-dir"}),
		history("path-symlink-switch", "parent", false, []string{"switch", "switch"}),
		history("path-symlink-switch", "last", true, []string{"switch"}),
	}
	pool := []string{"switch", "switch", "switch", "broken-key", "broken-combined", "no-dir", "dangling", "back", "back", "rewrite-old", "renew-current"}
	for i := 0; i < nRandom; i++ {
		var kinds []string
		for k := 0; k < 4; k++ {
			kinds = append(kinds, pool[rp.Intn(len(pool))])
		}
		out = append(out, history("path-symlink-styles", []string{"parent", "chain"}[rp.Intn(2)], rp.Intn(4) != 0, kinds))
	}
	return out
}
