// Correspondence harness for C20 (access logging and the fast formatters):
// runs the real logger.New/Log, atoi, hostport, lex, uint16base16, i32toa,
// uuid.ToString and HTTPProxy.ServeHTTP of /repo on generated events, formats
// and numbers, renders the same events with fmt/strconv/time/net as the
// reference, and writes the cases for the Coq model to judge.
package main

import (
	"bufio"
	"bytes"
	"crypto/tls"
	"encoding/hex"
	"fmt"
	"io"
	"math"
	"math/rand"
	"net"
	"net/http"
	"net/http/httptest"
	"net/url"
	"sort"
	"strconv"
	"strings"
	"sync"
	"time"
	"unicode/utf8"

	"github.com/fabiolb/fabio/logger"
	"github.com/fabiolb/fabio/proxy"
	"github.com/fabiolb/fabio/route"
	"github.com/fabiolb/fabio/uuid"

	"verifharness/internal/vh"
)

const preamble = `From Coq Require Import String List NArith ZArith.
From Fabio Require Import Lib.Outcome Lib.Bytes Lib.Pack Model.Logger Model.LoggerServe Check.C20.
Import ListNotations.
Local Open Scope N_scope.
`

// ---------- the writer handed to logger.New ----------
type countWriter struct {
	buf bytes.Buffer
	n   int
}

func (w *countWriter) Write(p []byte) (int, error) { w.n++; w.buf.Write(p); return len(p), nil }

type cachedLogger struct {
	l   logger.Logger
	w   *countWriter
	err error
}

var loggers = map[string]*cachedLogger{}

// getLogger builds one real logger per format and reuses it for every event
// (the logger and its buffer pool are long-lived in fabio, too).
func getLogger(format string) *cachedLogger {
	if c, ok := loggers[format]; ok {
		return c
	}
	w := &countWriter{}
	l, err := logger.New(w, format)
	c := &cachedLogger{l: l, w: w, err: err}
	loggers[format] = c
	return c
}

func errKind(err error) int {
	switch {
	case strings.HasPrefix(err.Error(), "invalid field"):
		return 1
	case strings.HasPrefix(err.Error(), "empty log format"):
		return 2
	}
	return 97
}

// implLog = what the real code did: Err k (New failed), Panic, or the bytes written.
func implLog(format string, ev *logger.Event) (coq string, nwrites int, human string) {
	c := getLogger(format)
	if c.err != nil {
		return vh.Err(errKind(c.err)), 0, "error: " + c.err.Error()
	}
	c.w.buf.Reset()
	c.w.n = 0
	if p, v := vh.Recover(func() { c.l.Log(ev) }); p {
		return vh.Panic, c.w.n, fmt.Sprintf("panic: %v", v)
	}
	out := append([]byte(nil), c.w.buf.Bytes()...)
	return vh.Ok(vh.Hx(out)), c.w.n, string(out)
}

// ---------- events ----------
type hdrKV struct{ k, v string }

func coqURL(u *url.URL) string {
	if u == nil {
		return vh.None
	}
	return vh.Some(fmt.Sprintf("{| u_scheme := %s; u_host := %s; u_rawquery := %s; u_requri := %s; u_string := %s |}",
		vh.HxS(u.Scheme), vh.HxS(u.Host), vh.HxS(u.RawQuery), vh.HxS(u.RequestURI()), vh.HxS(u.String())))
}

func coqEvent(e *logger.Event) string {
	req := vh.None
	if e.Request != nil {
		r := e.Request
		hdr := vh.None
		if r.Header != nil {
			var kvs []hdrKV
			for k, v := range r.Header {
				if len(v) > 0 {
					kvs = append(kvs, hdrKV{k, v[0]})
				}
			}
			sort.Slice(kvs, func(i, j int) bool { return kvs[i].k < kvs[j].k })
			items := make([]string, len(kvs))
			for i, kv := range kvs {
				items[i] = vh.Pair(vh.HxS(kv.k), vh.HxS(kv.v))
			}
			hdr = vh.Some(vh.List(items))
		}
		req = vh.Some(fmt.Sprintf("{| rq_remote := %s; rq_method := %s; rq_uri := %s; rq_proto := %s; rq_host := %s; rq_header := %s |}",
			vh.HxS(r.RemoteAddr), vh.HxS(r.Method), vh.HxS(r.RequestURI), vh.HxS(r.Proto), vh.HxS(r.Host), hdr))
	}
	resp := vh.None
	if e.Response != nil {
		resp = vh.Some(vh.Pair(vh.Z(int64(e.Response.StatusCode)), vh.Z(e.Response.ContentLength)))
	}
	_, off := e.End.Zone()
	return fmt.Sprintf("{| e_dur := %s; e_unix := %s; e_nsec := %s; e_off := %s; e_req := %s; e_resp := %s; e_requrl := %s; e_upaddr := %s; e_upsvc := %s; e_upurl := %s |}",
		vh.Z(e.End.Sub(e.Start).Nanoseconds()), vh.Z(e.End.Unix()), vh.Z(int64(e.End.Nanosecond())), vh.Z(int64(off)),
		req, resp, coqURL(e.RequestURL), vh.HxS(e.UpstreamAddr), vh.HxS(e.UpstreamService), coqURL(e.UpstreamURL))
}

var zones = []*time.Location{
	time.FixedZone("EEST", 3*3600), time.FixedZone("PST", -8*3600), time.FixedZone("NPT", 5*3600+45*60),
	time.FixedZone("LINT", 14*3600), time.FixedZone("AoE", -12*3600), time.FixedZone("CET", 3600),
	time.FixedZone("odd", -(3*3600 + 30*60 + 7)),
}

var nsecs = []int{0, 1, 999, 1000, 999999, 1000000, 1000001, 999999999, 500000000, 123456789, 100000000, 99999999, 9999999, 10000000}

const year2100 = 4102444800

func genTime(r *rand.Rand, utcOnly bool) time.Time {
	var sec int64
	switch r.Intn(10) {
	case 0: // around a day / month / year / leap-day boundary
		base := []int64{0, 951782400 /*2000-02-29*/, 1709164800 /*2024-02-29*/, 1735689600 /*2025-01-01*/, 4107542400 - 86400*366, 946684800, 1582934400, 2147483648, 4102444800 - 1, 68169600 /*1972-02-29*/, 3297456000}[r.Intn(11)]
		sec = base + int64(r.Intn(5)-2)*int64([]int{1, 60, 3600, 86400}[r.Intn(4)])
		if sec < 0 {
			sec = 0
		}
	default:
		sec = r.Int63n(year2100)
	}
	ns := nsecs[r.Intn(len(nsecs))]
	if r.Intn(2) == 0 {
		ns = r.Intn(1000000000)
	}
	t := time.Unix(sec, int64(ns)).UTC()
	if !utcOnly && r.Intn(5) == 0 {
		t = t.In(zones[r.Intn(len(zones))])
	}
	return t
}

func genDur(r *rand.Rand) time.Duration {
	switch r.Intn(12) {
	case 0:
		return 0
	case 1:
		return time.Duration(r.Intn(1000))
	case 2:
		return time.Duration(r.Intn(1000000))
	case 3:
		return time.Duration([]int64{999999, 1000000, 999999999, 1000000000, 1000000001, 1999999999, 59999999999, 1001000, 1000999}[r.Intn(9)])
	case 4:
		return time.Duration(r.Int63n(int64(48 * time.Hour)))
	case 5:
		return -time.Duration(r.Int63n(int64(3 * time.Second))) // outside the claimed domain
	default:
		return time.Duration(r.Int63n(int64(20 * time.Second)))
	}
}

func pick(r *rand.Rand, l []string) string { return l[r.Intn(len(l))] }

var v4s = []string{"10.0.0.1", "192.168.1.77", "127.0.0.1", "8.8.8.8", "255.255.255.255", "1.2.3.4"}
var v6s = []string{"::1", "2001:db8::1", "fe80::1%eth0", "::ffff:10.0.0.1", "2001:db8:0:0:0:0:0:1"}
var hostnames = []string{"backend", "svc-a.internal", "example.com", "a", "web-01.dc1.consul"}

// kinds: 0 host:port (v4 or name), 1 [v6]:port, 2 empty, 3 no port, 4 odd but with a colon
func genAddr(r *rand.Rand, kind int) string {
	port := strconv.Itoa([]int{80, 443, 8080, 1, 65535, 5000 + r.Intn(60000)}[r.Intn(6)])
	switch kind {
	case 0:
		if r.Intn(3) == 0 {
			return pick(r, hostnames) + ":" + port
		}
		return pick(r, v4s) + ":" + port
	case 1:
		return "[" + pick(r, v6s) + "]:" + port
	case 2:
		return ""
	case 3:
		return pick(r, append(append([]string{"@", "pipe"}, hostnames...), v4s...))
	default:
		return pick(r, []string{":", ":80", "host:", "a:b:c", "::1", "[::1]", "x:y:", ":::", "[]:80", "[:80", "[x]:", "[]]:80",
			"[[::1]]:80", "]:80", "[:", "[a]b:1", "a[::1]:80", "[::1]:80:90", "[]", "[", "]"})
	}
}

func addrKind(r *rand.Rand) int {
	switch n := r.Intn(40); {
	case n < 30:
		return 0
	case n < 33:
		return 1
	case n < 35:
		return 2
	case n < 37:
		return 3
	default:
		return 4
	}
}

func randText(r *rand.Rand, n int) string {
	const al = "abcdefghijklmnopqrstuvwxyzABCDEFGHIJKLMNOPQRSTUVWXYZ0123456789 -_./:;,=+()[]{}\"'%&?#@!~*|\\<>^`$\t"
	b := make([]byte, n)
	for i := range b {
		switch r.Intn(30) {
		case 0:
			b[i] = byte(128 + r.Intn(128))
		case 1:
			b[i] = byte(1 + r.Intn(8))
		default:
			b[i] = al[r.Intn(len(al))]
		}
	}
	return string(b)
}

var headerNames = []string{"User-Agent", "Referer", "X-Forwarded-For", "X-Custom_Key", "Accept", "X-Request-Id", "X-9", "A"}

func genEvent(r *rand.Rand, utcOnly bool, clean bool) *logger.Event {
	end := genTime(r, utcOnly)
	d := genDur(r)
	if clean && d < 0 {
		d = -d
	}
	e := &logger.Event{Start: end.Add(-d), End: end}
	// at most one of the three formerly defective features (zone, brackets, missing port)
	// per event: all three were repaired in /repo; the separation is kept so that reverting
	// one of the repairs is judged on its own
	feature := r.Intn(3)
	if end.Location() != time.UTC {
		feature = 0
	}
	ak := func() int {
		if clean {
			return 0
		}
		k := addrKind(r)
		switch {
		case k == 1 && feature != 1, k == 3 && feature != 2:
			return 0
		}
		return k
	}
	if clean || r.Intn(12) != 0 {
		path := pick(r, []string{"/", "/foo", "/a/b/c.html", "/x%20y", "/" + strings.Repeat("p", r.Intn(40))})
		q := pick(r, []string{"", "", "a=1", "q=x+y&z=%2F", "utm=" + strings.Repeat("v", r.Intn(20))})
		uri := path
		if q != "" {
			uri += "?" + q
		}
		req := &http.Request{
			Method:     pick(r, []string{"GET", "POST", "PUT", "DELETE", "HEAD", "OPTIONS", "PATCH"}),
			RequestURI: uri,
			Proto:      pick(r, []string{"HTTP/1.1", "HTTP/1.0", "HTTP/2.0"}),
			Host:       pick(r, []string{"example.com", "example.com:8443", "foo.bar", "[::1]:9999", ""}),
			RemoteAddr: genAddr(r, ak()),
		}
		if r.Intn(15) != 0 {
			req.Header = http.Header{}
			for _, h := range headerNames {
				if r.Intn(2) == 0 {
					req.Header.Set(h, randText(r, r.Intn(24)))
				}
			}
			if r.Intn(4) == 0 { // a key stored in non-canonical form: Get must not find it
				req.Header["x-lower"] = []string{"lower-" + randText(r, 3)}
				req.Header["X-Multi"] = []string{"first", "second"}
				req.Header["X-Empty"] = []string{}
			}
		}
		e.Request = req
		if r.Intn(10) != 0 {
			e.RequestURL = &url.URL{Scheme: pick(r, []string{"http", "https", ""}), Host: req.Host, Path: strings.ReplaceAll(path, "%20", " "), RawQuery: q}
		}
	}
	status := []int{200, 201, 204, 301, 302, 304, 400, 404, 499, 500, 502, 503, 100, 599, 999, 0, -1, 100 + r.Intn(500)}[r.Intn(18)]
	size := []int64{0, 1, 9, 10, 99, 100, 1024, 65536, -1, math.MaxInt32, math.MaxInt64, 999999999999, r.Int63(), int64(r.Intn(100000)), -int64(r.Intn(1000))}[r.Intn(15)]
	e.Response = &http.Response{StatusCode: status, ContentLength: size}
	e.UpstreamAddr = genAddr(r, ak())
	e.UpstreamService = pick(r, []string{"svc-a", "web", "", "my service", "svc$x"})
	if r.Intn(10) != 0 {
		e.UpstreamURL = &url.URL{Scheme: pick(r, []string{"http", "https", "ws"}), Host: e.UpstreamAddr, Path: pick(r, []string{"/", "", "/api/v1", "/a b"}), RawQuery: pick(r, []string{"", "x=1", "a=b&c=d"})}
	}
	return e
}

// ---------- reference rendering with the standard library ----------
var fieldNames = []string{"$remote_addr", "$remote_host", "$remote_port", "$request", "$request_args", "$request_host",
	"$request_method", "$request_scheme", "$request_uri", "$request_url", "$request_proto", "$response_body_size",
	"$response_status", "$response_time_ms", "$response_time_us", "$response_time_ns", "$time_unix_ms", "$time_unix_us",
	"$time_unix_ns", "$time_common", "$time_rfc3339", "$time_rfc3339_ms", "$time_rfc3339_us", "$time_rfc3339_ns",
	"$upstream_addr", "$upstream_host", "$upstream_port", "$upstream_request_scheme", "$upstream_request_uri",
	"$upstream_request_url", "$upstream_service"}

func splitRef(addr string, host bool) (string, bool) {
	if addr == "" {
		return "", true
	}
	h, p, err := net.SplitHostPort(addr)
	if err != nil {
		return "", false
	}
	if host {
		return h, true
	}
	return p, true
}

// refField: (rendering, true) or ("", false) when the event lies outside the
// domain for which the standard library defines a rendering.
func refField(name string, e *logger.Event) (string, bool) {
	r := e.Request
	d := e.End.Sub(e.Start)
	utc := e.End.UTC()
	if strings.HasPrefix(name, "$header.") {
		if r == nil || r.Header == nil {
			return "", true
		}
		return r.Header.Get(name[len("$header."):]), true
	}
	needReq := func(f func() string) (string, bool) {
		if r == nil {
			return "", true
		}
		return f(), true
	}
	switch name {
	case "$remote_addr":
		return needReq(func() string { return r.RemoteAddr })
	case "$remote_host", "$remote_port":
		if r == nil {
			return "", true
		}
		return splitRef(r.RemoteAddr, name == "$remote_host")
	case "$request":
		return needReq(func() string { return fmt.Sprintf("%s %s %s", r.Method, r.RequestURI, r.Proto) })
	case "$request_args":
		if e.RequestURL == nil {
			return "", true
		}
		return e.RequestURL.RawQuery, true
	case "$request_host":
		// the host the client asked for: the request URL saved before any rewrite when there is one
		if e.RequestURL != nil {
			return e.RequestURL.Host, true
		}
		return needReq(func() string { return r.Host })
	case "$request_method":
		return needReq(func() string { return r.Method })
	case "$request_scheme":
		if e.RequestURL == nil {
			return "", true
		}
		return e.RequestURL.Scheme, true
	case "$request_uri":
		return needReq(func() string { return r.RequestURI })
	case "$request_url":
		if e.RequestURL == nil {
			return "", true
		}
		return e.RequestURL.String(), true
	case "$request_proto":
		return needReq(func() string { return r.Proto })
	case "$response_body_size":
		if e.Response == nil || e.Response.ContentLength == math.MinInt64 {
			return "", false
		}
		return strconv.FormatInt(e.Response.ContentLength, 10), true
	case "$response_status":
		if e.Response == nil {
			return "", false
		}
		return strconv.Itoa(e.Response.StatusCode), true
	case "$response_time_ms", "$response_time_us", "$response_time_ns":
		if d < 0 {
			return "", false
		}
		switch name {
		case "$response_time_ms":
			return fmt.Sprintf("%d.%03d", int64(d/time.Second), int64(d%time.Second/time.Millisecond)), true
		case "$response_time_us":
			return fmt.Sprintf("%d.%06d", int64(d/time.Second), int64(d%time.Second/time.Microsecond)), true
		}
		return fmt.Sprintf("%d.%09d", int64(d/time.Second), int64(d%time.Second)), true
	case "$time_unix_ms":
		return strconv.FormatInt(e.End.UnixMilli(), 10), e.End.Unix() >= 0
	case "$time_unix_us":
		return strconv.FormatInt(e.End.UnixMicro(), 10), e.End.Unix() >= 0
	case "$time_unix_ns":
		return strconv.FormatInt(e.End.UnixNano(), 10), e.End.Unix() >= 0
	case "$time_common":
		return utc.Format("02/Jan/2006:15:04:05 -0700"), utc.Year() >= 0 && utc.Year() <= 9999
	case "$time_rfc3339":
		return utc.Format("2006-01-02T15:04:05Z07:00"), utc.Year() >= 0 && utc.Year() <= 9999
	case "$time_rfc3339_ms":
		return utc.Format("2006-01-02T15:04:05.000Z07:00"), utc.Year() >= 0 && utc.Year() <= 9999
	case "$time_rfc3339_us":
		return utc.Format("2006-01-02T15:04:05.000000Z07:00"), utc.Year() >= 0 && utc.Year() <= 9999
	case "$time_rfc3339_ns":
		return utc.Format("2006-01-02T15:04:05.000000000Z07:00"), utc.Year() >= 0 && utc.Year() <= 9999
	case "$upstream_addr":
		return e.UpstreamAddr, true
	case "$upstream_host", "$upstream_port":
		return splitRef(e.UpstreamAddr, name == "$upstream_host")
	case "$upstream_request_scheme":
		if e.UpstreamURL == nil {
			return "", true
		}
		return e.UpstreamURL.Scheme, true
	case "$upstream_request_uri":
		if e.UpstreamURL == nil {
			return "", true
		}
		return e.UpstreamURL.RequestURI(), true
	case "$upstream_request_url":
		if e.UpstreamURL == nil {
			return "", true
		}
		return e.UpstreamURL.String(), true
	case "$upstream_service":
		return e.UpstreamService, true
	}
	return "", false
}

// a format as the list of tokens it was generated from
type token struct {
	text  string // literal text (no '$', does not start with an id character or '.')
	field string // "$name" or "$header.Name"
}

func isID(c byte) bool {
	return 'a' <= c && c <= 'z' || 'A' <= c && c <= 'Z' || '0' <= c && c <= '9' || c == '_' || c == '-'
}

func formatOf(toks []token) string {
	var sb strings.Builder
	for _, t := range toks {
		sb.WriteString(t.text)
		sb.WriteString(t.field)
	}
	return sb.String()
}

func refLine(toks []token, e *logger.Event) (string, bool) {
	if !utf8.ValidString(formatOf(toks)) {
		return "", false // the literal text goes through []rune and back: only the model says what comes out
	}
	var sb strings.Builder
	for _, t := range toks {
		if t.field != "" {
			s, ok := refField(t.field, e)
			if !ok {
				return "", false
			}
			sb.WriteString(s)
		} else {
			sb.WriteString(t.text)
		}
	}
	if sb.Len() == 0 {
		return "", true
	}
	sb.WriteByte('\n')
	return sb.String(), true
}

// text that may stand DIRECTLY after a field name: it starts with something the lexer's
// ASCII identifier test rejects, which includes every non-ASCII letter and digit
var utf8Texts = []string{"秒", "耗时:", "状态:", "øctets", "é", "ñ=", "٣", "٠١٢", "५", "😀", "\u0301x", "—", "™ ", "Ωmega", "日本語 ", "ß", "ǅ", "ⅷ", "²", "\u00a0",
	"\xff", "\xc3(", "\xe2\x82", "\xed\xa0\x80", "\xf4\x90\x80\x80", "\xc0\xaf", "é\xfe"}

var seps = []string{" ", " - ", " [", "] ", "\"", "\" \"", "|", "/", " took ", ":", "=", ", ", " (", ") ", " . ", ".", "\t", " #", "; x=", "%"}

func genTokens(r *rand.Rand, pool []string) []token {
	n := 1 + r.Intn(7)
	var toks []token
	prevField := false
	for i := 0; i < n; i++ {
		if r.Intn(3) == 0 || (prevField && r.Intn(4) != 0) {
			s := pick(r, seps)
			if r.Intn(4) == 0 {
				s = pick(r, utf8Texts)
				if r.Intn(2) == 0 {
					s += pick(r, utf8Texts)
				}
			}
			if !prevField && r.Intn(3) == 0 {
				s = pick(r, []string{"text", "GET", "a.b", "x-y_z", "0"}) + s
			}
			toks = append(toks, token{text: s})
			prevField = false
			continue
		}
		f := pick(r, pool)
		if r.Intn(5) == 0 {
			f = "$header." + pick(r, append(headerNames, "user-agent", "USER-AGENT", "x-custom_key", "X-Lower", "x-lower", "X-Multi", "X-Empty", "nope", "x--y-", "-"))
		}
		toks = append(toks, token{field: f})
		prevField = true
	}
	return toks
}

// tokensOf splits one of fabio's own well-formed formats into tokens
func tokensOf(format string) []token {
	var toks []token
	i := 0
	for i < len(format) {
		if format[i] == '$' {
			j := i + 1
			for j < len(format) && (isID(format[j]) || (format[j] == '.' && format[i:j] == "$header")) {
				j++
			}
			toks = append(toks, token{field: format[i:j]})
			i = j
			continue
		}
		j := i
		for j < len(format) && format[j] != '$' {
			j++
		}
		toks = append(toks, token{text: format[i:j]})
		i = j
	}
	return toks
}

func summary(e *logger.Event) map[string]interface{} {
	m := map[string]interface{}{"end": e.End.Format(time.RFC3339Nano), "dur_ns": e.End.Sub(e.Start).Nanoseconds(), "upstream_addr": e.UpstreamAddr}
	if e.Request != nil {
		m["remote_addr"] = e.Request.RemoteAddr
		m["request"] = e.Request.Method + " " + e.Request.RequestURI
	}
	if e.Response != nil {
		m["status"], m["size"] = e.Response.StatusCode, e.Response.ContentLength
	}
	return m
}

// ---------- stub upstream for HTTPProxy.ServeHTTP ----------
type stubRT struct {
	code int
	body string
}

func (s stubRT) RoundTrip(req *http.Request) (*http.Response, error) {
	return &http.Response{StatusCode: s.code, Status: strconv.Itoa(s.code) + " x", Proto: "HTTP/1.1", ProtoMajor: 1, ProtoMinor: 1,
		Header: http.Header{"Content-Type": {"text/plain"}}, Body: io.NopCloser(strings.NewReader(s.body)), ContentLength: int64(len(s.body)), Request: req}, nil
}

type recLogger struct {
	inner logger.Logger
	ev    *logger.Event
}

func (l *recLogger) Log(e *logger.Event) { l.ev = e; l.inner.Log(e) }

func padRef(i int64, pad int) string {
	neg := i < 0
	var u uint64
	if neg {
		u = uint64(-(i + 1)) + 1
	} else {
		u = uint64(i)
	}
	s := strconv.FormatUint(u, 10)
	for len(s) < pad {
		s = "0" + s
	}
	if neg {
		s = "-" + s
	}
	return s
}

func main() {
	run := vh.Start("C20")
	r := run.Rng
	extra := 0

	addLog := func(class, format string, toks []token, e *logger.Event) {
		impl, nw, human := implLog(format, e)
		ref := vh.None
		refHuman := "(none)"
		if toks != nil {
			if s, ok := refLine(toks, e); ok {
				ref, refHuman = vh.Some(vh.HxS(s)), s
			}
		}
		s := summary(e)
		s["format"], s["impl"], s["ref"], s["writes"] = format, human, refHuman, nw
		run.Add(class, vh.App("CLog", vh.HxS(format), coqEvent(e), impl, vh.N(nw), ref), s)
	}

	// 1. every field on its own and the two built-in formats, on clean and on arbitrary events
	for _, f := range fieldNames {
		for k := 0; k < run.Scale(6, 60); k++ {
			e := genEvent(r, true, k%2 == 0)
			addLog("single-field", f, []token{{field: f}}, e)
		}
	}
	for _, f := range []string{logger.CommonFormat, logger.CombinedFormat} {
		toks := tokensOf(f)
		for k := 0; k < run.Scale(40, 600); k++ {
			addLog("builtin-format", f, toks, genEvent(r, k%4 != 0, k%3 != 0))
		}
	}
	// 2. random well-formed formats over all fields and headers
	for i := 0; i < run.Scale(160, 4000); i++ {
		toks := genTokens(r, fieldNames)
		f := formatOf(toks)
		for k := 0; k < 3; k++ {
			addLog("random-format", f, toks, genEvent(r, false, k == 0))
		}
	}
	// 3. time fields on many instants (UTC and other zones)
	timeToks := tokensOf("$time_common|$time_rfc3339|$time_rfc3339_ms|$time_rfc3339_us|$time_rfc3339_ns|$time_unix_ms|$time_unix_us|$time_unix_ns")
	for i := 0; i < run.Scale(250, 5000); i++ {
		e := genEvent(r, i%5 != 0, true)
		e.Request, e.RequestURL, e.UpstreamURL = nil, nil, nil
		addLog("time-fields", formatOf(timeToks), timeToks, e)
	}
	durToks := tokensOf("$response_time_ms $response_time_us $response_time_ns $response_status $response_body_size")
	for i := 0; i < run.Scale(150, 3000); i++ {
		e := genEvent(r, true, i%6 != 0)
		e.Request, e.RequestURL, e.UpstreamURL = nil, nil, nil
		addLog("duration-number-fields", formatOf(durToks), durToks, e)
	}
	// 4. addresses: every kind under the host/port fields
	addrToks := tokensOf("$remote_host,$remote_port,$upstream_host,$upstream_port,$remote_addr,$upstream_addr")
	for i := 0; i < run.Scale(120, 2000); i++ {
		e := genEvent(r, true, true)
		e.Request.RemoteAddr = genAddr(r, []int{0, 0, 0, 1, 2, 4}[r.Intn(6)])
		e.UpstreamAddr = genAddr(r, []int{0, 0, 0, 1, 2, 4}[r.Intn(6)])
		toks := addrToks
		if i%2 == 0 {
			toks = []token{addrToks[2*r.Intn(6)]}
		}
		addLog("address-fields", formatOf(toks), toks, e)
	}
	for i := 0; i < run.Scale(30, 300); i++ { // no port (panicked until bb1b4e7)
		e := genEvent(r, true, true)
		f := pick(r, []string{"$upstream_host", "$upstream_port", "$remote_host", "$remote_port", "$upstream_addr $upstream_host"})
		if strings.Contains(f, "remote") {
			e.Request.RemoteAddr = genAddr(r, 3)
		} else {
			e.UpstreamAddr = genAddr(r, 3)
		}
		addLog("address-without-port", f, tokensOf(f), e)
	}
	// 5. events with nil parts
	for i := 0; i < run.Scale(60, 600); i++ {
		e := genEvent(r, true, true)
		switch i % 4 {
		case 0:
			e.Request = nil
		case 1:
			e.Response = nil
		case 2:
			e.RequestURL, e.UpstreamURL = nil, nil
		case 3:
			e.Request.Header = nil
		}
		toks := genTokens(r, fieldNames)
		addLog("nil-parts", formatOf(toks), toks, e)
	}
	// 6. malformed / quirky formats: only the model decides what they mean
	quirks := []string{"", "$", "$$", "$ ", "$$remote_addr", "$header", "$header.", "$header..a", "$header.$x", "$header.a b", "$header.a.b",
		"$remote_addr.x", "$remote_addrx", "$remote_addr-", "$unknown", "text only", "a$", "a$b", "$request_url_", "$header.a$header.b",
		"$header.User-Agent.", "${remote_addr}", "$remote_addr秒", "$response_status耗时", "$header.aé", "$header.User-Agent秒x", "$é", "é$x", "\xff$", "$\xff", "$header.٣",
		"$header.a٣b", "$remote_addrø", "$request_uri\u0301", "状态:$response_status耗时:$response_time_ms秒", "$header.X-Idé $request", "$ǅ", "$remote_addr\xe2\x82$request", "$remote_addr$", "x $time_common$", "$Header.a", "$headers.a", "$header.-", ".$header.a", "$.", "$header.a$", "$header.a.", "\n", "$remote_addr\n"}
	alphabet := []string{"$", "$", ".", "-", "_", " ", "a", "header", "$header", "$header.", "$remote_addr", "$request", "x", "{", "}", "$time_common", "$upstream_host", "Z9", "é", "秒", "٣", "\xff", "😀"}
	for i := 0; i < run.Scale(220, 3000); i++ {
		var f string
		if i < len(quirks) {
			f = quirks[i]
		} else {
			for k := 1 + r.Intn(6); k > 0; k-- {
				f += pick(r, alphabet)
			}
		}
		ty, n := -1, -1
		if p, _ := vh.Recover(func() { ty, n = logger.VerifLex(f) }); p {
			run.Violation(run.NextID(), "lex panicked", f)
			continue
		}
		run.Add("lex", vh.App("CLex", vh.HxS(f), vh.N(ty), vh.N(n)), map[string]interface{}{"fn": "lex", "input": f, "typ": ty, "n": n})
		addLog("quirky-format", f, nil, genEvent(r, true, true))
	}
	// 7. the path through HTTPProxy.ServeHTTP (http_proxy.go:254-270): the event the proxy builds
	savedLocal := time.Local
	for i := 0; i < run.Scale(60, 600); i++ {
		local := i%3 == 0
		if local {
			time.Local = time.FixedZone("EEST", 3*3600) // a server whose TZ is not UTC (lines were off by the offset until 1da7601)
		} else {
			time.Local = time.UTC
		}
		upKind, remKind := 0, 0
		if !local {
			switch r.Intn(3) {
			case 0:
				upKind, remKind = r.Intn(2), r.Intn(2)
			case 1:
				upKind = 3
			}
		}
		upstream := genAddr(r, upKind)
		toks := genTokens(r, fieldNames)
		if i%4 == 0 {
			toks = tokensOf(logger.CombinedFormat + " $upstream_host $upstream_port $response_time_us")
		}
		format := formatOf(toks)
		c := getLogger(format)
		if c.err != nil {
			continue
		}
		c.w.buf.Reset()
		c.w.n = 0
		rec := &recLogger{inner: c.l}
		body := randText(r, r.Intn(200))
		code := []int{200, 404, 500, 201, 302}[r.Intn(5)]
		t0 := genTime(r, true)
		d := genDur(r)
		if d < 0 {
			d = -d
		}
		times := []time.Time{time.Unix(t0.Unix(), int64(t0.Nanosecond())), time.Unix(t0.Unix(), int64(t0.Nanosecond())).Add(d)}
		tu, err := url.Parse("http://" + upstream + "/")
		if err != nil {
			run.Exclude("url.Parse rejects the upstream address")
			continue
		}
		p := &proxy.HTTPProxy{
			Transport: stubRT{code, body},
			Lookup:    func(*http.Request) *route.Target { return &route.Target{Service: "svc-x", URL: tu} },
			Logger:    rec,
			Time:      func() time.Time { t := times[0]; times = times[1:]; return t },
		}
		req := httptest.NewRequest(pick(r, []string{"GET", "POST"}), "http://example.com/foo?x=1", nil)
		req.RemoteAddr = genAddr(r, remKind)
		req.Header.Set("User-Agent", "ua/"+randText(r, 5))
		rw := httptest.NewRecorder()
		panicked, pv := vh.Recover(func() { p.ServeHTTP(rw, req) })
		if rec.ev == nil {
			run.Exclude("ServeHTTP did not log (request rejected before proxying)")
			continue
		}
		impl, human := vh.Ok(vh.Hx(c.w.buf.Bytes())), c.w.buf.String()
		if panicked {
			impl, human = vh.Panic, fmt.Sprintf("panic: %v", pv)
		}
		ref, refHuman := vh.None, "(none)"
		if s, ok := refLine(toks, rec.ev); ok {
			ref, refHuman = vh.Some(vh.HxS(s)), s
		}
		id := run.Add("servehttp", vh.App("CLog", vh.HxS(format), coqEvent(rec.ev), impl, vh.N(c.w.n), ref),
			map[string]interface{}{"fn": "HTTPProxy.ServeHTTP", "target": tu.String(), "format": format, "impl": human, "ref": refHuman, "local_zone": time.Local.String(), "remote": req.RemoteAddr})
		// logging must not alter the response that was already produced
		if rw.Code != code || rw.Body.String() != body {
			run.Violation(id, "logging altered the response: status or body differ from the upstream's", map[string]interface{}{"format": format, "code": rw.Code})
		}
		if rec.ev.UpstreamAddr != tu.Host || rec.ev.Response == nil || rec.ev.Response.StatusCode != code || rec.ev.Response.ContentLength != int64(len(body)) {
			run.Violation(id, "ServeHTTP logged an event that does not describe the response (status, size or upstream address)", map[string]interface{}{"format": format})
		}
	}
	time.Local = savedLocal

	// 7b. formats written in languages without spaces: UTF-8 text directly around every field
	for i := 0; i < run.Scale(150, 3000); i++ {
		var toks []token
		for k := 1 + r.Intn(4); k > 0; k-- {
			if r.Intn(3) != 0 {
				toks = append(toks, token{text: pick(r, utf8Texts)})
			}
			f := pick(r, fieldNames)
			if r.Intn(3) == 0 {
				f = "$header." + pick(r, headerNames)
			}
			toks = append(toks, token{field: f})
			if r.Intn(3) != 0 {
				toks = append(toks, token{text: pick(r, utf8Texts) + pick(r, []string{"", "", " ", "x", "9"})})
			}
		}
		addLog("utf8-format", formatOf(toks), toks, genEvent(r, true, true))
	}
	// 7a'. what ServeHTTP puts into the Event, field by field, against the request as received:
	// route options host=dst / host=<name> / none, strip / prepend, target query; client headers
	// X-Forwarded-Proto / Forwarded (either, both, neither; http/https/ws/wss and odd values),
	// TLS and plain, websocket upgrade
	serveEvents(run, r)

	// 7c. end to end over real sockets: the upstream sends 0-2 informational responses before
	// the final one; the logged status / size must be what the client received
	oneXX(run, r)

	// 7d. forced schedule on the buffer pool (logger.go:124-143): while logger 1 is inside
	// w.Write(line), another request is logged through logger 2 (the pool is shared by all
	// loggers); the bytes handed to writer 1 must still be line 1 when its Write returns
	{
		toks := tokensOf("$request_uri $response_status $response_body_size $header.X-Id $upstream_addr")
		var got2 bytes.Buffer
		l2, err2 := logger.New(&got2, formatOf(toks))
		var e2 *logger.Event
		var during string
		w1 := writerFunc(func(p []byte) (int, error) {
			l2.Log(e2) // the other request completes while this write is in progress
			during = string(p)
			return len(p), nil
		})
		l1, err1 := logger.New(w1, formatOf(toks))
		if err1 != nil || err2 != nil {
			run.Violation(-1, "logger.New rejects a valid format", formatOf(toks))
		} else {
			bad := 0
			n := run.Scale(300, 3000)
			for i := 0; i < n; i++ {
				e1 := genEvent(r, true, true)
				e2 = genEvent(r, true, true)
				e1.Request.RequestURI = "/one/" + strings.Repeat("a", r.Intn(80))
				e2.Request.RequestURI = "/two/" + strings.Repeat("b", r.Intn(80))
				got2.Reset()
				l1.Log(e1)
				want1, _ := refLine(toks, e1)
				want2, _ := refLine(toks, e2)
				if during != want1 || got2.String() != want2 {
					bad++
				}
			}
			if bad > 0 {
				run.Violation(-1, fmt.Sprintf("log buffer reused before its write completed: %d of %d lines changed under the writer while another request was logged", bad, n), nil)
			}
			extra += 2 * n
		}
	}

	// 8. concurrent logging through one logger and the shared buffer pool: every line intact, once
	{
		toks := tokensOf("$request_uri $response_status $response_body_size $header.X-Id $response_time_us")
		var mu sync.Mutex
		got := map[string]int{}
		w := writerFunc(func(p []byte) (int, error) { mu.Lock(); got[string(p)]++; mu.Unlock(); return len(p), nil })
		l, err := logger.New(w, formatOf(toks))
		if err != nil {
			run.Violation(-1, "logger.New rejects a valid format: "+err.Error(), formatOf(toks))
		} else {
			want := map[string]int{}
			G, K := 8, run.Scale(300, 3000)
			evs := make([][]*logger.Event, G)
			for g := 0; g < G; g++ {
				for k := 0; k < K; k++ {
					e := genEvent(r, true, true)
					e.Request.RequestURI = fmt.Sprintf("/g%d/k%d/%s", g, k, strings.Repeat("x", r.Intn(50)))
					if e.Request.Header == nil {
					e.Request.Header = http.Header{}
				}
				e.Request.Header.Set("X-Id", fmt.Sprintf("%d-%d", g, k))
					evs[g] = append(evs[g], e)
					s, _ := refLine(toks, e)
					want[s]++
				}
			}
			var wg sync.WaitGroup
			for g := 0; g < G; g++ {
				wg.Add(1)
				go func(g int) {
					defer wg.Done()
					for _, e := range evs[g] {
						l.Log(e)
					}
				}(g)
			}
			wg.Wait()
			bad := 0
			for s, n := range want {
				if got[s] != n {
					bad++
				}
			}
			if bad > 0 || len(got) != len(want) {
				run.Violation(-1, fmt.Sprintf("concurrent logging: %d of %d lines missing, duplicated or mangled", bad, len(want)), nil)
			}
			extra += G * K
		}
	}

	// 8b. requests that complete at the same time, forced schedules, a writer that takes
	// every Write in pieces (sink.go); random choices from a source of its own
	sinkSchedules(run, addLog)

	// ---------- the helpers ----------
	// atoi: boundaries x paddings, then random values of every length
	addAtoi := func(class string, i int64, pad int) {
		var s string
		impl := vh.Panic
		panicked, _ := vh.Recover(func() { s = logger.VerifAtoi(i, pad) })
		if !panicked {
			impl = vh.Ok(vh.HxS(s))
		}
		id := run.Add(class, vh.App("CAtoi", vh.Z(i), vh.Z(int64(pad)), impl), map[string]interface{}{"fn": "atoi", "i": i, "pad": pad, "impl": s, "panicked": panicked})
		if i != math.MinInt64 && pad <= 127 && (panicked || s != padRef(i, pad)) {
			run.Violation(id, "atoi differs from strconv/zero padding", map[string]interface{}{"i": i, "pad": pad, "impl": s, "want": padRef(i, pad)})
		}
	}
	var bounds []int64
	p10 := int64(1)
	for k := 0; k <= 18; k++ {
		bounds = append(bounds, p10-1, p10, p10+1, -(p10 - 1), -p10, -(p10 + 1))
		if k < 18 {
			p10 *= 10
		}
	}
	bounds = append(bounds, math.MaxInt64, math.MaxInt64-1, math.MinInt64+1, math.MinInt64, math.MaxInt32, math.MinInt32, 1<<32, 255, 256, 65535, 65536)
	for _, b := range bounds {
		addAtoi("atoi-boundary", b, 0)
		addAtoi("atoi-boundary", b, []int{1, 2, 3, 4, 6, 9, 19, 20, 21}[r.Intn(9)])
	}
	for _, pad := range []int{-1, 0, 1, 5, 18, 19, 20, 100, 126, 127, 128, 129, 130, 200} {
		for _, v := range []int64{0, 7, -7, 123456789012345678, -123456789012345678, math.MaxInt64, math.MinInt64 + 1} {
			addAtoi("atoi-padding", v, pad)
		}
	}
	for i := 0; i < run.Scale(300, 6000); i++ {
		v := r.Int63() >> uint(r.Intn(63))
		if r.Intn(2) == 0 {
			v = -v
		}
		addAtoi("atoi-random", v, []int{0, 0, 2, 3, 4, 6, 9, r.Intn(25)}[r.Intn(8)])
	}
	// i32toa: batches through the model, a large sample against strconv directly
	i32bounds := []int32{0, 1, -1, 9, 10, -9, -10, 99, 100, math.MaxInt32, math.MinInt32, math.MaxInt32 - 1, math.MinInt32 + 1, 1000000000, -1000000000, 999999999, -999999999, 65535, 65536, 443, 80, 8080}
	batch := []int32{}
	flush := func(class string) {
		if len(batch) == 0 {
			return
		}
		items := make([]string, len(batch))
		for k, v := range batch {
			items[k] = vh.Pair(vh.Z(int64(v)), vh.HxS(proxy.VerifI32toa(v)))
		}
		run.Add(class, vh.App("CI32", vh.List(items)), map[string]interface{}{"fn": "i32toa", "values": len(batch), "first": batch[0], "first_impl": proxy.VerifI32toa(batch[0])})
		batch = batch[:0]
	}
	batch = append(batch, i32bounds...)
	for k, p := 0, int32(1); k < 10; k++ {
		batch = append(batch, p-1, p, p+1, -p, -p-1, -p+1)
		if k < 9 {
			p *= 10
		}
	}
	flush("i32toa-boundary")
	for i := 0; i < run.Scale(20, 400); i++ {
		for k := 0; k < 100; k++ {
			v := int32(r.Uint32()) >> uint(r.Intn(32))
			batch = append(batch, v)
		}
		flush("i32toa-random")
	}
	nBig := run.Scale(1000000, 20000000)
	for i := 0; i < nBig; i++ {
		v := int32(r.Uint32())
		if proxy.VerifI32toa(v) != strconv.Itoa(int(v)) {
			run.Violation(-1, "i32toa differs from strconv.Itoa", v)
			break
		}
	}
	for i := 0; i < nBig/4; i++ {
		v := int64(r.Uint64()) >> uint(r.Intn(64))
		pad := []int{0, 2, 3, 4, 6, 9}[r.Intn(6)]
		if v != math.MinInt64 && logger.VerifAtoi(v, pad) != padRef(v, pad) {
			run.Violation(-1, "atoi differs from strconv/zero padding", map[string]interface{}{"i": v, "pad": pad})
			break
		}
	}
	extra += nBig + nBig/4
	// uint16base16: all 65536 values through the model and against fmt
	const chunk = 2048
	for lo := 0; lo < 65536; lo += chunk {
		var cat []byte
		for n := lo; n < lo+chunk; n++ {
			s := proxy.VerifUint16Base16(uint16(n))
			if s != fmt.Sprintf("0x%04x", n) {
				run.Violation(run.NextID(), "uint16base16 differs from fmt.Sprintf(\"0x%04x\")", n)
			}
			cat = append(cat, s...)
		}
		run.Add("uint16base16-all", vh.App("CHex", vh.N(lo), vh.Nat(chunk), vh.Hx(cat)), map[string]interface{}{"fn": "uint16base16", "from": lo, "count": chunk, "first": string(cat[:6])})
	}
	// uuid.ToString
	for i := 0; i < run.Scale(150, 3000); i++ {
		var u [24]byte
		r.Read(u[:])
		switch i {
		case 0:
			u = [24]byte{}
		case 1:
			for k := range u {
				u[k] = 0xff
			}
		case 2:
			for k := range u {
				u[k] = byte(k*16 + (15 - k))
			}
		case 3:
			for k := range u {
				u[k] = byte(0xf0 >> uint(k%2*4))
			}
		}
		s := uuid.ToString(u)
		want := hex.EncodeToString(u[:16])
		want = want[:8] + "-" + want[8:12] + "-" + want[12:16] + "-" + want[16:20] + "-" + want[20:]
		id := run.Add("uuid", vh.App("CUuid", vh.Hx(u[:]), vh.HxS(s)), map[string]interface{}{"fn": "uuid.ToString", "bytes": hex.EncodeToString(u[:]), "impl": s})
		if s != want {
			run.Violation(id, "uuid.ToString differs from encoding/hex", map[string]interface{}{"impl": s, "want": want})
		}
	}
	// hostport directly
	for i := 0; i < run.Scale(200, 3000); i++ {
		s := genAddr(r, []int{0, 0, 1, 2, 3, 4, 4}[r.Intn(7)])
		if i%10 == 9 {
			s = randText(r, r.Intn(12))
		}
		var h, p string
		impl := vh.Panic
		panicked, _ := vh.Recover(func() { h, p = logger.VerifHostport(s) })
		if !panicked {
			impl = vh.Ok(vh.Pair(vh.HxS(h), vh.HxS(p)))
		}
		ref := vh.None
		if rh, rp, err := net.SplitHostPort(s); err == nil {
			ref = vh.Some(vh.Pair(vh.HxS(rh), vh.HxS(rp)))
		}
		run.Add("hostport", vh.App("CHostport", vh.HxS(s), impl, ref), map[string]interface{}{"fn": "hostport", "s": s, "host": h, "port": p, "panicked": panicked})
	}
	run.Notes["extra_evaluations"] = extra
	run.Notes["extra_evaluations_what"] = "i32toa and atoi against strconv on a large random sample, and lines logged concurrently, judged in the harness"
	run.Finish(preamble, run.Scale(110, 400))
}

type writerFunc func(p []byte) (int, error)

func (f writerFunc) Write(p []byte) (int, error) { return f(p) }

// ---------- loopback upstream that answers with a scripted byte sequence ----------
type scriptedUpstream struct {
	ln     net.Listener
	mu     sync.Mutex
	script []byte
}

func (u *scriptedUpstream) serve() {
	for {
		c, err := u.ln.Accept()
		if err != nil {
			return
		}
		go func(c net.Conn) {
			defer c.Close()
			br := bufio.NewReader(c)
			for {
				line, err := br.ReadString('\n')
				if err != nil {
					return
				}
				if line == "\r\n" {
					break
				}
			}
			u.mu.Lock()
			s := u.script
			u.mu.Unlock()
			c.Write(s)
		}(c)
	}
}

// recRW sits between net/http's ResponseWriter and fabio's wrapper and records the calls
type recRW struct {
	w     http.ResponseWriter
	calls *[]string
}

func (w *recRW) Header() http.Header { return w.w.Header() }
func (w *recRW) WriteHeader(c int) {
	*w.calls = append(*w.calls, vh.App("RwHeader", vh.Z(int64(c))))
	w.w.WriteHeader(c)
}
func (w *recRW) Write(b []byte) (int, error) {
	n, err := w.w.Write(b)
	*w.calls = append(*w.calls, vh.App("RwWrite", vh.Z(int64(n))))
	return n, err
}
func (w *recRW) Flush() {
	if f, ok := w.w.(http.Flusher); ok {
		f.Flush()
	}
}

func oneXX(run *vh.Run, r *rand.Rand) {
	ln, err := net.Listen("tcp", "127.0.0.1:0")
	if err != nil {
		run.Exclude("cannot listen on loopback")
		return
	}
	up := &scriptedUpstream{ln: ln}
	go up.serve()
	defer ln.Close()
	toks := tokensOf("$response_status $response_body_size \"$request\" $upstream_addr")
	format := formatOf(toks)
	c := getLogger(format)
	rec := &recLogger{inner: c.l}
	tu, _ := url.Parse("http://" + ln.Addr().String() + "/")
	var times []time.Time
	p := &proxy.HTTPProxy{
		Transport: &http.Transport{DisableKeepAlives: true},
		Lookup:    func(*http.Request) *route.Target { return &route.Target{Service: "svc-1xx", URL: tu} },
		Logger:    rec,
		Time:      func() time.Time { t := times[0]; times = times[1:]; return t },
	}
	var calls []string
	done := make(chan bool, 1)
	front := httptest.NewServer(http.HandlerFunc(func(w http.ResponseWriter, q *http.Request) {
		panicked, _ := vh.Recover(func() { p.ServeHTTP(&recRW{w, &calls}, q) })
		done <- panicked
	}))
	defer front.Close()
	client := &http.Client{Transport: &http.Transport{DisableKeepAlives: true}, CheckRedirect: func(*http.Request, []*http.Request) error { return http.ErrUseLastResponse }}
	finals := []int{200, 201, 202, 204, 301, 304, 404, 500, 503}
	for i := 0; i < run.Scale(72, 900); i++ {
		final := finals[(i/3)%len(finals)]
		body := randText(r, r.Intn(300))
		method := pick(r, []string{"GET", "GET", "DELETE", "HEAD"})
		var sb strings.Builder
		nInfo := i % 3
		for k := 0; k < nInfo; k++ {
			code := []int{103, 103, 102}[r.Intn(3)]
			fmt.Fprintf(&sb, "HTTP/1.1 %d Info\r\nLink: </style%d.css>; rel=preload; as=style\r\n\r\n", code, r.Intn(100))
		}
		if final == 204 || final == 304 {
			body = ""
			fmt.Fprintf(&sb, "HTTP/1.1 %d Final\r\nConnection: close\r\n\r\n", final)
		} else {
			fmt.Fprintf(&sb, "HTTP/1.1 %d Final\r\nContent-Type: text/plain\r\nContent-Length: %d\r\nConnection: close\r\n\r\n", final, len(body))
			if method != "HEAD" {
				sb.WriteString(body)
			}
		}
		up.mu.Lock()
		up.script = []byte(sb.String())
		up.mu.Unlock()
		t0 := genTime(r, true)
		times = []time.Time{t0, t0.Add(time.Duration(r.Intn(5000000)))}
		calls, rec.ev = nil, nil
		c.w.buf.Reset()
		c.w.n = 0
		req, _ := http.NewRequest(method, front.URL+pick(r, []string{"/", "/hints", "/a/b?x=1"}), nil)
		resp, err := client.Do(req)
		if err != nil {
			run.Violation(run.NextID(), "loopback 1xx: no response reached the client: "+err.Error(), sb.String())
			<-done
			continue
		}
		got, _ := io.ReadAll(resp.Body)
		resp.Body.Close()
		panicked := <-done
		if rec.ev == nil || rec.ev.Response == nil {
			run.Violation(run.NextID(), "loopback 1xx: the request was proxied but not logged", map[string]interface{}{"final": final, "infos": nInfo})
			continue
		}
		sample := map[string]interface{}{"fn": "HTTPProxy.ServeHTTP over loopback sockets", "method": method, "upstream_1xx": nInfo, "upstream_final": final,
			"client_status": resp.StatusCode, "client_body_bytes": len(got), "logged_status": rec.ev.Response.StatusCode, "logged_size": rec.ev.Response.ContentLength, "rw_calls": len(calls)}
		run.Add("servehttp-loopback-1xx", vh.App("CRw", vh.List(calls), vh.Z(int64(rec.ev.Response.StatusCode)), vh.Z(rec.ev.Response.ContentLength),
			vh.Z(int64(resp.StatusCode)), vh.Z(int64(len(got)))), sample)
		// the line, against the rendering of what the client saw
		want := *rec.ev
		want.Response = &http.Response{StatusCode: resp.StatusCode, ContentLength: int64(len(got))}
		impl, human := vh.Ok(vh.Hx(c.w.buf.Bytes())), c.w.buf.String()
		if panicked {
			impl, human = vh.Panic, "panic"
		}
		ref, refHuman := vh.None, "(none)"
		if s, ok := refLine(toks, &want); ok {
			ref, refHuman = vh.Some(vh.HxS(s)), s
		}
		sample2 := map[string]interface{}{"fn": "HTTPProxy.ServeHTTP over loopback sockets", "format": format, "impl": human, "ref": refHuman, "upstream_1xx": nInfo}
		run.Add("servehttp-loopback-1xx-line", vh.App("CLog", vh.HxS(format), coqEvent(rec.ev), impl, vh.N(c.w.n), ref), sample2)
	}
}

func coqParts(u *url.URL) string {
	return fmt.Sprintf("{| up_scheme := %s; up_host := %s; up_path := %s; up_query := %s |}", vh.HxS(u.Scheme), vh.HxS(u.Host), vh.HxS(u.Path), vh.HxS(u.RawQuery))
}

const requestFormat = "$request|$request_args|$request_host|$request_method|$request_scheme|$request_uri|$request_url|$request_proto"

type nopLogger struct{ ev *logger.Event }

func (l *nopLogger) Log(e *logger.Event) { l.ev = e }

func serveEvents(run *vh.Run, r *rand.Rand) {
	hostOpts := []string{"", "", "dst", "dst", "api.internal", "other.example:8080", "example.com"}
	xfps := []string{"", "", "", "http", "https", "ws", "wss", "HTTPS", "gopher"}
	fwds := []string{"", "", "", "for=1.2.3.4; proto=https", "proto=http;by=x", "for=1.2.3.4", "proto=", "for=x;proto=wss; by=y", "PROTO=https", "for=9.9.9.9;proto=https;proto=http", "by=z; proto=ws"}
	for i := 0; i < run.Scale(400, 6000); i++ {
		hostOpt := pick(r, hostOpts)
		xfp, fwd := pick(r, xfps), pick(r, fwds)
		switch i % 8 { // every combination class is hit deterministically as well
		case 0:
			hostOpt, xfp, fwd = "dst", "", ""
		case 1:
			hostOpt, xfp, fwd = "", "https", ""
		case 2:
			hostOpt, xfp, fwd = "", "", "for=1.2.3.4; proto=https"
		case 3:
			hostOpt, xfp, fwd = "api.internal", "https", "for=1.2.3.4; proto=http"
		}
		useTLS := r.Intn(3) == 0
		ws := r.Intn(6) == 0
		path := pick(r, []string{"/", "/foo", "/foo/bar", "/a%20b/c", "/svc/x"})
		q := pick(r, []string{"", "", "a=1", "q=x+y&z=%2F"})
		target := pick(r, []string{"http://127.0.0.1:5000/", "https://10.1.2.3:8443/", "http://backend.internal:80/?t=1", "http://[::1]:9000/?a=b&c=d"})
		tu, err := url.Parse(target)
		if err != nil {
			run.Exclude("url.Parse rejects the target")
			continue
		}
		if ws && tu.Scheme == "https" {
			ws = false // the websocket handler would need a real *http.Transport to dial TLS
		}
		strip := pick(r, []string{"", "", "/foo", "/svc", "/a b"})
		prepend := pick(r, []string{"", "", "/v2", "api"})
		svc := pick(r, []string{"svc-a", "web", ""})
		uri := "http://" + pick(r, []string{"example.com", "example.com:8080", "shop.example.org", "[2001:db8::1]:80"}) + path
		if q != "" {
			uri += "?" + q
		}
		req := httptest.NewRequest(pick(r, []string{"GET", "POST", "DELETE"}), uri, nil)
		req.RemoteAddr = pick(r, []string{"10.0.0.7:51234", "[::1]:4000", "192.168.1.2:80"})
		if xfp != "" {
			req.Header.Set("X-Forwarded-Proto", xfp)
		}
		if fwd != "" {
			req.Header.Set("Forwarded", fwd)
		}
		if ws {
			req.Header.Set("Upgrade", pick(r, []string{"websocket", "Websocket"}))
		} else if r.Intn(10) == 0 {
			req.Header.Set("Upgrade", pick(r, []string{"WebSocket", "h2c"})) // not one of the two spellings
		}
		if useTLS {
			req.TLS = &tls.ConnectionState{}
		}
		recvHost, recvPath, recvQuery, recvProto := req.Host, req.URL.Path, req.URL.RawQuery, req.Proto
		recvMethod, recvURI := req.Method, req.RequestURI
		remoteIP, _, _ := net.SplitHostPort(req.RemoteAddr)
		rec := &nopLogger{}
		p := &proxy.HTTPProxy{
			Transport: stubRT{200, "ok"},
			Lookup: func(*http.Request) *route.Target {
				return &route.Target{Service: svc, URL: tu, Host: hostOpt, StripPath: strip, PrependPath: prepend}
			},
			Logger: rec,
		}
		rw := httptest.NewRecorder()
		if panicked, pv := vh.Recover(func() { p.ServeHTTP(rw, req) }); panicked {
			run.Violation(run.NextID(), fmt.Sprintf("ServeHTTP panicked: %v", pv), uri)
			continue
		}
		ev := rec.ev
		if ev == nil || ev.RequestURL == nil || ev.UpstreamURL == nil || ev.Request == nil {
			run.Exclude("ServeHTTP did not log (request rejected before proxying)")
			continue
		}
		inreq := fmt.Sprintf("{| ir_host := %s; ir_path := %s; ir_query := %s; ir_xfp := %s; ir_fwd := %s; ir_ws := %s; ir_tls := %s; ir_remote_ip := %s; ir_proto := %s; ir_method := %s; ir_uri := %s |}",
			vh.HxS(recvHost), vh.HxS(recvPath), vh.HxS(recvQuery), vh.HxS(xfp), vh.HxS(fwd), vh.Bool(ws), vh.Bool(useTLS), vh.HxS(remoteIP), vh.HxS(recvProto), vh.HxS(recvMethod), vh.HxS(recvURI))
		ropt := fmt.Sprintf("{| ro_scheme := %s; ro_host := %s; ro_query := %s; ro_hostopt := %s; ro_strip := %s; ro_prepend := %s; ro_service := %s |}",
			vh.HxS(tu.Scheme), vh.HxS(tu.Host), vh.HxS(tu.RawQuery), vh.HxS(hostOpt), vh.HxS(strip), vh.HxS(prepend), vh.HxS(svc))
		obs := fmt.Sprintf("{| sv_request_url := %s; sv_request_host := %s; sv_upstream_addr := %s; sv_upstream_service := %s; sv_upstream_url := %s |}",
			coqParts(ev.RequestURL), vh.HxS(ev.Request.Host), vh.HxS(ev.UpstreamAddr), vh.HxS(ev.UpstreamService), coqParts(ev.UpstreamURL))
		// the request-side fields as the real logger renders them from this Event
		line, _, lineHuman := implLog(requestFormat, ev)
		run.Add("servehttp-event-fields", vh.App("CServe", inreq, ropt, obs, vh.HxS(ev.RequestURL.String()), line), map[string]interface{}{"rendered": lineHuman,"fn": "HTTPProxy.ServeHTTP -> Event", "uri": uri, "tls": useTLS, "websocket": ws,
			"x_forwarded_proto": xfp, "forwarded": fwd, "route_host_option": hostOpt, "strip": strip, "prepend": prepend, "target": target,
			"event_request_url": ev.RequestURL.String(), "event_request_host": ev.Request.Host, "event_upstream_url": ev.UpstreamURL.String()})
	}
}
