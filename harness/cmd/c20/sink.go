// Several requests complete at the same time (class sink-schedule): 2-4 goroutines call
// Log on ONE real logger whose writer, like a pipe or a buffered / rotating file writer,
// takes every Write in pieces.  The harness decides who moves next (forced schedule): it
// starts a call, grants a writer one piece, lets a Write return.  Whether a call that was
// started got into Write or is parked in the logger's lock is read off the goroutine's
// state, so nothing depends on sleeping "long enough".  The steps as they happened and
// every byte the writer received go to the Coq model (Model/LoggerSink.v).
package main

import (
	"bytes"
	"fmt"
	"math/rand"
	"net/http"
	"runtime"
	"strconv"
	"strings"
	"sync"
	"sync/atomic"
	"time"

	"github.com/fabiolb/fabio/logger"

	"verifharness/internal/vh"
)

// ---------- goroutine states ----------
func curGoid() int64 {
	var buf [64]byte
	n := runtime.Stack(buf[:], false)
	f := strings.Fields(string(buf[:n])) // "goroutine 123 [running]:"
	if len(f) < 2 {
		return -1
	}
	id, _ := strconv.ParseInt(f[1], 10, 64)
	return id
}

var stackBuf = make([]byte, 1<<20)
var maxDump int

// goStates returns the scheduler state of every goroutine ("running", "runnable",
// "sync.Mutex.Lock", "sync.RWMutex.RLock", "chan receive", ...).
func goStates() map[int64]string {
	n := runtime.Stack(stackBuf, true)
	for n == len(stackBuf) { // truncated: take a larger buffer
		stackBuf = make([]byte, 2*len(stackBuf))
		n = runtime.Stack(stackBuf, true)
	}
	if n > maxDump {
		maxDump = n
	}
	m := map[int64]string{}
	for _, block := range bytes.Split(stackBuf[:n], []byte("\n\n")) {
		if !bytes.HasPrefix(block, []byte("goroutine ")) {
			continue
		}
		head := block
		if i := bytes.IndexByte(block, '\n'); i >= 0 {
			head = block[:i]
		}
		sp := bytes.IndexByte(head[10:], ' ')
		lb, rb := bytes.IndexByte(head, '['), bytes.LastIndexByte(head, ']')
		if sp < 0 || lb < 0 || rb < lb {
			continue
		}
		id, err := strconv.ParseInt(string(head[10:10+sp]), 10, 64)
		if err != nil {
			continue
		}
		st := string(head[lb+1 : rb])
		if i := strings.IndexByte(st, ','); i >= 0 {
			st = st[:i]
		}
		m[id] = st
	}
	return m
}

// parkedState: the goroutine waits for another goroutine (a lock, a semaphore, a channel);
// it cannot move before somebody else does.
func parkedState(st string) bool {
	return strings.HasPrefix(st, "sync.") || strings.HasPrefix(st, "semacquire") ||
		strings.HasPrefix(st, "chan ") || strings.HasPrefix(st, "select")
}

// ---------- the writer ----------
type sinkCall struct {
	t      int
	pieces [][]byte // sub-slices of what Write was given, read when their turn comes
	grant  chan struct{}
	ack    chan struct{}
}

type pieceSink struct {
	byLine  map[string]int // line -> call (lines are distinct); read-only during a case
	cuts    [][]int
	seen    []int32
	entered chan *sinkCall

	mu     sync.Mutex
	buf    []byte
	strays []string
}

// carve = Model/LoggerSink.v carve: pieces of the given sizes, the rest last
func carve(sizes []int, p []byte) [][]byte {
	var out [][]byte
	for _, k := range sizes {
		if k > len(p) {
			k = len(p)
		}
		out = append(out, p[:k])
		p = p[k:]
	}
	return append(out, p)
}

func (s *pieceSink) Write(p []byte) (int, error) {
	t, ok := s.byLine[string(p)]
	if ok && atomic.AddInt32(&s.seen[t], 1) > 1 {
		ok = false
	}
	if !ok { // not the line of one of the events, or a second Write for the same event
		s.mu.Lock()
		s.strays = append(s.strays, string(p))
		s.buf = append(s.buf, p...)
		s.mu.Unlock()
		return len(p), nil
	}
	c := &sinkCall{t: t, pieces: carve(s.cuts[t], p), grant: make(chan struct{}), ack: make(chan struct{})}
	s.entered <- c
	for _, pc := range c.pieces {
		<-c.grant
		s.mu.Lock()
		s.buf = append(s.buf, pc...)
		s.mu.Unlock()
		c.ack <- struct{}{}
	}
	<-c.grant // Write returns when the harness says so
	return len(p), nil
}

// ---------- one case ----------
type sinkThread struct {
	ev      *logger.Event
	line    string
	goid    int64
	started bool
	call    *sinkCall // non-nil once inside Write
	next    int       // pieces appended so far
	done    bool
	doneCh  chan struct{}
}

type sinkStep struct {
	t  int
	ok bool
}

const sinkPatience = 20 * time.Second

// runSinkCase replays [script] on the real logger; stuck != "" when the real code did
// something after which the replay cannot go on (reported by the caller).
func runSinkCase(format string, evs []*logger.Event, lines []string, cuts [][]int, script []int) (trace []sinkStep, sinkBytes []byte, strays []string, stuck string) {
	n := len(evs)
	s := &pieceSink{byLine: map[string]int{}, cuts: cuts, seen: make([]int32, n), entered: make(chan *sinkCall, 4*n)}
	for i, l := range lines {
		s.byLine[l] = i
	}
	l, err := logger.New(s, format)
	if err != nil {
		return nil, nil, nil, "logger.New rejects a valid format: " + err.Error()
	}
	th := make([]*sinkThread, n)
	for i := range th {
		th[i] = &sinkThread{ev: evs[i], line: lines[i], doneCh: make(chan struct{})}
	}
	drain := func() (newly []int) {
		for {
			select {
			case c := <-s.entered:
				th[c.t].call = c
				newly = append(newly, c.t)
			default:
				return
			}
		}
	}
	// quiesce: until every call that was started has entered Write, has returned, or is
	// parked behind another goroutine; returns the calls that entered meanwhile, in order
	quiesce := func() (newly []int) {
		deadline := time.Now().Add(sinkPatience)
		for spins := 0; ; spins++ {
			newly = append(newly, drain()...)
			var pending []*sinkThread
			for _, x := range th {
				if x.started && x.call == nil && !x.done {
					select {
					case <-x.doneCh: // Log returned without handing this line to the writer
						x.done = true
						if stuck == "" {
							stuck = "a Log call returned without handing its line to the writer in one Write"
						}
					default:
						pending = append(pending, x)
					}
				}
			}
			if len(pending) == 0 || stuck != "" {
				return
			}
			states := goStates()
			all := true
			for _, x := range pending {
				if st, ok := states[x.goid]; !ok || !parkedState(st) {
					all = false
				}
			}
			if all {
				// a call seen waiting on its grant channel had announced itself before
				if more := drain(); len(more) > 0 {
					newly = append(newly, more...)
					continue
				}
				return
			}
			if time.Now().After(deadline) {
				stuck = "a Log call neither reached the writer nor came to rest in the logger's lock"
				return
			}
			if spins < 50 {
				runtime.Gosched()
			} else {
				time.Sleep(50 * time.Microsecond)
			}
		}
	}
	has := func(l []int, t int) bool {
		for _, x := range l {
			if x == t {
				return true
			}
		}
		return false
	}
	step := func(t int) {
		x := th[t]
		switch {
		case x.done:
			return
		case !x.started:
			x.started = true
			idc := make(chan int64, 1)
			go func() {
				idc <- curGoid()
				l.Log(x.ev)
				close(x.doneCh)
			}()
			x.goid = <-idc
			newly := quiesce()
			if !has(newly, t) {
				trace = append(trace, sinkStep{t, false}) // parked in the logger's lock
			}
			for _, u := range newly {
				trace = append(trace, sinkStep{u, true})
			}
		case x.call == nil:
			trace = append(trace, sinkStep{t, false}) // still parked
		case x.next < len(x.call.pieces):
			x.call.grant <- struct{}{}
			select {
			case <-x.call.ack:
			case <-time.After(sinkPatience):
				stuck = "the writer did not take a piece it was granted"
				return
			}
			x.next++
			trace = append(trace, sinkStep{t, true})
		default:
			x.call.grant <- struct{}{}
			select {
			case <-x.doneCh:
			case <-time.After(sinkPatience):
				stuck = "Log did not return after its Write returned"
				return
			}
			x.done = true
			trace = append(trace, sinkStep{t, true})
			for _, u := range quiesce() {
				trace = append(trace, sinkStep{u, true})
			}
		}
	}
	for _, t := range script {
		if step(t); stuck != "" {
			return
		}
	}
	// run everything to its end: a call that is inside Write first, else start the next one
	for {
		pickT := -1
		for i, x := range th {
			if !x.done && x.call != nil {
				pickT = i
				break
			}
		}
		if pickT < 0 {
			for i, x := range th {
				if !x.started {
					pickT = i
					break
				}
			}
		}
		if pickT < 0 {
			for _, x := range th {
				if !x.done {
					stuck = "deadlock: calls are parked in the logger's lock and nobody is inside Write"
					return
				}
			}
			break
		}
		if step(pickT); stuck != "" {
			return
		}
	}
	s.mu.Lock()
	sinkBytes = append([]byte(nil), s.buf...)
	strays = append([]string(nil), s.strays...)
	s.mu.Unlock()
	return
}

var sinkFormats = []string{
	"$request_uri $response_status $response_body_size $header.X-Id $upstream_addr",
	`$remote_host - - [$time_common] "$request" $response_status $response_body_size`,
	"$time_rfc3339_us|$request_method|$request_uri|$response_time_us|$upstream_service",
	"$request_uri",
}

func sinkSchedules(run *vh.Run, addLog func(class, format string, toks []token, e *logger.Event)) {
	rs := rand.New(rand.NewSource(run.Seed*7919 + 20))
	cases := run.Scale(150, 1500)
	for c := 0; c < cases; c++ {
		format := sinkFormats[rs.Intn(len(sinkFormats))]
		toks := tokensOf(format)
		n := 2 + rs.Intn(3)
		var evs []*logger.Event
		var lines []string
		var cuts [][]int
		ok := true
		for t := 0; t < n; t++ {
			e := genEvent(rs, true, true)
			e.Request.RequestURI = fmt.Sprintf("/c%d/t%d/%s", c, t, strings.Repeat(string(rune('a'+t)), rs.Intn(40)))
			if e.Request.Header == nil {
				e.Request.Header = http.Header{}
			}
			e.Request.Header.Set("X-Id", fmt.Sprintf("%d-%d", c, t))
			line, lok := refLine(toks, e)
			if !lok || line == "" {
				ok = false
				break
			}
			// how the writer takes this line: two halves, or 1-3 pieces of any size
			var cut []int
			switch rs.Intn(4) {
			case 0, 1:
				cut = []int{len(line) / 2}
			case 2:
				for k := rs.Intn(3); k > 0; k-- {
					cut = append(cut, rs.Intn(len(line)+2))
				}
			default:
				cut = []int{1 + rs.Intn(len(line))}
			}
			evs, lines, cuts = append(evs, e), append(lines, line), append(cuts, cut)
		}
		if !ok {
			run.Exclude("sink-schedule: an event outside the reference renderer's domain")
			continue
		}
		script := make([]int, 3+rs.Intn(14))
		for i := range script {
			script[i] = rs.Intn(n)
		}
		for _, e := range evs {
			addLog("sink-event", format, toks, e)
		}
		trace, sink, strays, stuck := runSinkCase(format, evs, lines, cuts, script)
		sample := map[string]interface{}{"fn": "Logger.Log x " + strconv.Itoa(n) + " at the same time", "format": format, "lines": lines, "cuts": cuts, "script": script,
			"steps": fmt.Sprint(trace), "writer_received": string(sink)}
		if stuck != "" {
			run.Violation(run.NextID(), "concurrent Log calls, forced schedule: "+stuck, sample)
			return // goroutines of this case may be left behind: do not go on
		}
		if len(strays) > 0 {
			sample["stray_writes"] = strays
			run.Violation(run.NextID(), fmt.Sprintf("concurrent Log calls, forced schedule: the writer was handed %d buffers that are not exactly one event's line each", len(strays)), sample)
		}
		var ls, cs, tr []string
		for i := range lines {
			ls = append(ls, vh.HxS(lines[i]))
			var k []string
			for _, x := range cuts[i] {
				k = append(k, vh.Nat(x))
			}
			cs = append(cs, vh.List(k))
		}
		for _, st := range trace {
			tr = append(tr, vh.Pair(vh.Nat(st.t), vh.Bool(st.ok)))
		}
		run.Add("sink-schedule", vh.App("CSink", vh.List(ls), vh.List(cs), vh.List(tr), vh.Hx(sink)), sample)
	}
	run.Notes["sink_schedule_largest_goroutine_dump_bytes"] = maxDump
}
