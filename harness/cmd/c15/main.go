// Correspondence harness for C15 (configuration sources and precedence).
//
// The option list is read from the CURRENT config/load.go with go/parser on
// every run.  For every option the real config.Load runs with the same value
// given by each source alone and by every ordered pair of sources; results are
// compared with reflect.DeepEqual.  FlagSet.ParseFlags runs on FlagSets with
// recording values (every raw string a flag's Value.Set receives is the
// observable), on arbitrary argument lists, environment blocks, prefix lists and
// properties.  parseKVSlice / lex run on generated and random inputs; the
// glob cache is created with the accepted glob.cache.size and used.
package main

import (
	"encoding/json"
	"flag"
	"fmt"
	"go/ast"
	"go/parser"
	"go/token"
	"io"
	"log"
	"math/rand"
	"net"
	"os"
	"os/exec"
	"path/filepath"
	"reflect"
	"regexp"
	"runtime"
	"runtime/debug"
	"sort"
	"strconv"
	"strings"
	"time"
	"unicode/utf8"

	"github.com/fabiolb/fabio/config"
	"github.com/fabiolb/fabio/metrics"
	"github.com/fabiolb/fabio/route"
	"github.com/gobwas/glob"
	"github.com/magiconair/properties"

	"verifharness/internal/vh"
)

const preamble = `From Coq Require Import String List NArith ZArith.
From Fabio Require Import Lib.Outcome Lib.Bytes Lib.Pack Model.FlagSet Model.KVSlice Model.GlobCacheSize Model.StartUp Model.LoadArgs Model.EnumOptions Check.C15.
Import ListNotations.
Local Open Scope N_scope.
`

// ---------- the option list of the current load.go ----------
type option struct {
	Name string
	Kind string // bool int int64 uint uint64 string float64 duration stringslice floatslice
}

var kindOf = map[string]string{
	"BoolVar": "bool", "IntVar": "int", "Int64Var": "int64", "UintVar": "uint", "Uint64Var": "uint64",
	"StringVar": "string", "Float64Var": "float64", "DurationVar": "duration",
	"StringSliceVar": "stringslice", "FloatSliceVar": "floatslice",
	"Bool": "bool", "Int": "int", "Int64": "int64", "Uint": "uint", "Uint64": "uint64",
	"String": "string", "Float64": "float64", "Duration": "duration",
}

func extractOptions(repo string) ([]option, []string, error) {
	fset := token.NewFileSet()
	file, err := parser.ParseFile(fset, filepath.Join(repo, "config", "load.go"), nil, 0)
	if err != nil {
		return nil, nil, err
	}
	var opts []option
	var unknown []string
	for _, d := range file.Decls {
		fd, ok := d.(*ast.FuncDecl)
		if !ok || fd.Name.Name != "load" || fd.Recv != nil {
			continue
		}
		ast.Inspect(fd.Body, func(n ast.Node) bool {
			call, ok := n.(*ast.CallExpr)
			if !ok {
				return true
			}
			sel, ok := call.Fun.(*ast.SelectorExpr)
			if !ok {
				return true
			}
			recv, ok := sel.X.(*ast.Ident)
			if !ok || recv.Name != "f" {
				return true
			}
			m := sel.Sel.Name
			idx := -1
			switch {
			case strings.HasSuffix(m, "Var") && len(call.Args) == 4:
				idx = 1
			case m == "Var" && len(call.Args) == 3:
				idx = 1
			case len(call.Args) == 3 && kindOf[m] != "":
				idx = 0
			}
			if idx < 0 {
				return true
			}
			lit, ok := call.Args[idx].(*ast.BasicLit)
			if !ok || lit.Kind != token.STRING {
				return true
			}
			name, err := strconv.Unquote(lit.Value)
			if err != nil {
				return true
			}
			k := kindOf[m]
			if k == "" {
				unknown = append(unknown, name)
				return true
			}
			opts = append(opts, option{Name: name, Kind: k})
			return true
		})
	}
	return opts, unknown, nil
}

// ---------- typed values: an independent judge of "well-formed" ----------
func typedValue(kind string) flag.Value {
	fs := flag.NewFlagSet("t", flag.ContinueOnError)
	fs.SetOutput(io.Discard)
	switch kind {
	case "bool":
		fs.Bool("x", false, "")
	case "int":
		fs.Int("x", 0, "")
	case "int64":
		fs.Int64("x", 0, "")
	case "uint":
		fs.Uint("x", 0, "")
	case "uint64":
		fs.Uint64("x", 0, "")
	case "float64":
		fs.Float64("x", 0, "")
	case "duration":
		fs.Duration("x", 0, "")
	case "floatslice":
		// fabio's own floatSliceValue / stringSliceValue (config/flagset.go), obtained through
		// the exported registration methods
		var p []float64
		cfs := config.NewFlagSet("t", flag.ContinueOnError)
		cfs.FloatSliceVar(&p, "x", nil, "")
		return cfs.Lookup("x").Value
	case "stringslice":
		var p []string
		cfs := config.NewFlagSet("t", flag.ContinueOnError)
		cfs.StringSliceVar(&p, "x", nil, "")
		return cfs.Lookup("x").Value
	default:
		fs.String("x", "", "")
	}
	return fs.Lookup("x").Value
}

func wellFormed(kind, raw string) bool { return typedValue(kind).Set(raw) == nil }

// recorder wraps a typed value and records every raw string it is given.
type recorder struct {
	inner  flag.Value
	isBool bool
	calls  []string
}

func (r *recorder) String() string {
	if r.inner == nil {
		return ""
	}
	return r.inner.String()
}
func (r *recorder) Set(s string) error { r.calls = append(r.calls, s); return r.inner.Set(s) }
func (r *recorder) IsBoolFlag() bool   { return r.isBool }

// ---------- Coq renderers ----------
func strs(l []string) string {
	items := make([]string, len(l))
	for i, s := range l {
		items[i] = vh.HxS(s)
	}
	return vh.List(items)
}

func smap(m map[string]string) string {
	keys := make([]string, 0, len(m))
	for k := range m {
		keys = append(keys, k)
	}
	sort.Strings(keys)
	items := make([]string, len(keys))
	for i, k := range keys {
		items[i] = vh.Pair(vh.HxS(k), vh.HxS(m[k]))
	}
	return vh.List(items)
}

func optSmap(m map[string]string) string {
	if m == nil {
		return vh.None
	}
	return vh.Some(smap(m))
}

func runes(rs []rune) string {
	items := make([]string, len(rs))
	for i, r := range rs {
		items[i] = strconv.Itoa(int(r))
	}
	return "[" + strings.Join(items, ";") + "]"
}

func flagDecl(name string, isBool bool) string {
	return fmt.Sprintf("{| fname := %s; fbool := %s |}", vh.HxS(name), vh.Bool(isBool))
}

type arrangement struct {
	Args  []string          // without the executable name and without -cfg
	Env   []string
	Props map[string]string // nil: no properties file
}

func (a arrangement) coq() string {
	return fmt.Sprintf("{| a_args := %s; a_env := %s; a_props := %s |}", strs(a.Args), strs(a.Env), optSmap(a.Props))
}

// ---------- properties files ----------
func propsEscape(s string, key bool) string {
	var sb strings.Builder
	for i, r := range s {
		switch {
		case r == '\\':
			sb.WriteString(`\\`)
		case r == '\n':
			sb.WriteString(`\n`)
		case r == '\r':
			sb.WriteString(`\r`)
		case r == '\t':
			sb.WriteString(`\t`)
		case r == '\f':
			sb.WriteString(`\f`)
		case r == ' ' && (i == 0 || key):
			sb.WriteString(`\ `)
		case key && (r == '=' || r == ':' || r == '#' || r == '!'):
			sb.WriteByte('\\')
			sb.WriteRune(r)
		default:
			sb.WriteRune(r)
		}
	}
	return sb.String()
}

var tmpDir string
var tmpSeq int

// writeProps writes a properties file for m and checks that the properties library reads
// exactly m back (file syntax: escapes, ${..} expansion); ok=false if it does not.
func writeProps(m map[string]string) (path string, ok bool) {
	keys := make([]string, 0, len(m))
	for k := range m {
		keys = append(keys, k)
	}
	sort.Strings(keys)
	var sb strings.Builder
	sb.WriteString("# generated\n")
	for _, k := range keys {
		sb.WriteString(propsEscape(k, true) + " = " + propsEscape(m[k], false) + "\n")
	}
	tmpSeq++
	path = filepath.Join(tmpDir, fmt.Sprintf("p%06d.properties", tmpSeq))
	if err := os.WriteFile(path, []byte(sb.String()), 0o644); err != nil {
		panic(err)
	}
	p, err := properties.LoadFile(path, properties.UTF8)
	if err != nil || p.Len() != len(m) {
		return path, false
	}
	for k, v := range m {
		if got, found := p.Get(k); !found || got != v {
			return path, false
		}
	}
	return path, true
}

// ---------- running config.Load ----------
type loadResult struct {
	cfg      *config.Config
	err      error
	panicked bool
	pval     interface{}
}

func runLoad(a arrangement) (res loadResult, expressible bool) {
	args := []string{"fabio"}
	if a.Props != nil {
		path, ok := writeProps(a.Props)
		if !ok {
			return res, false
		}
		// the three spellings of -cfg (load.go:79-103)
		switch tmpSeq % 3 {
		case 0:
			args = append(args, "-cfg", path)
		case 1:
			args = append(args, "-cfg="+path)
		default:
			args = append(args, "--cfg='"+path+"'")
		}
	}
	args = append(args, a.Args...)
	res.panicked, res.pval = vh.Recover(func() { res.cfg, res.err = config.Load(args, a.Env) })
	return res, true
}

func sameResult(a, b loadResult) bool {
	if a.panicked || b.panicked {
		return a.panicked == b.panicked
	}
	if (a.err == nil) != (b.err == nil) {
		return false
	}
	// reflect.DeepEqual says NaN != NaN even for one and the same Load repeated; the structural
	// rendering (which prints NaN as NaN and is otherwise as fine as DeepEqual) decides then
	return reflect.DeepEqual(a.cfg, b.cfg) || fingerprintResult(a.cfg, a.err) == fingerprintResult(b.cfg, b.err)
}

// ---------- value generators ----------
var special = map[string][][2]string{
	"proxy.strategy":        {{"rr", "rnd"}},
	"proxy.matcher":         {{"glob", "iprefix"}, {"iprefix", "prefix"}},
	"ui.access":             {{"ro", "rw"}},
	"proxy.noroutestatus":   {{"503", "599"}, {"100", "999"}},
	"proxy.addr":            {{":1234", ":5555;proto=tcp,:5556;rt=3s;wt=4s"}, {"1.2.3.4:80;proto=http;pxyproto=true", ":81;proto=grpc;it=5s"}},
	"ui.addr":               {{":7777", "10.0.0.1:7778;proto=http"}},
	"proxy.cs":              {{"cs=a;type=file;cert=a.pem", "cs=b;type=path;cert=dir;refresh=5s"}, {"cs=v;type=vault;cert=secret/x;hdr=\"X-A: b\"", "cs=c;type=consul;cert=http://x/y"}},
	"proxy.auth":            {{"name=a;type=basic;file=f", "name=b;type=basic;file=g;realm=r;refresh=3s"}},
	"bgp.peers":             {{"address=1.2.3.4;asn=65001", "address=5.6.7.8;asn=65002;port=1179;multihop=true;multihoplength=3;password=x"}},
	"proxy.gzip.contenttype": {{"^text/.*$", "^(text/.*|application/json)$"}},
	"proxy.localip":         {{"1.2.3.4", "10.11.12.13"}},
	"registry.consul.register.addr": {{"1.2.3.4:99", ":9797"}},
	"registry.consul.addr":  {{"https://consul.example:8501/v1", "HTTP://Other:8500"}},
	"glob.cache.size":       {{"17", "4096"}},
	"runtime.gomaxprocs":    {{"3", "-1"}},
	"log.access.format":     {{"$remote_addr - $request", "combined"}},
	"metrics.names":         {{"{{clean .Service}}", "{{.Host}}.{{.Path}}"}},
	"registry.static.routes": {{"route add svc / http://1.2.3.4:5000/", "route add a /a http://a/\nroute add b /b http://b/ opts \"strip=/b\""}},
}

var words = []string{"a", "b1", "foo", "bar-baz", "X", "svc.internal", "10.0.0.1:80", "/some/path", "v_1", "Zeta"}

func randString(r *rand.Rand) string {
	switch r.Intn(10) {
	case 0:
		return words[r.Intn(len(words))] + " " + words[r.Intn(len(words))] // inner space
	case 1:
		return " " + words[r.Intn(len(words))] + " " // leading/trailing space
	case 2:
		return words[r.Intn(len(words))] + "=" + words[r.Intn(len(words))] // contains '='
	case 3:
		return "h\u00e9llo-\u4e16\u754c-" + words[r.Intn(len(words))]
	case 4:
		return `c:\dir\` + words[r.Intn(len(words))] + `\n` // backslashes
	case 5:
		return "$" + words[r.Intn(len(words))] + " #not-a-comment !x : y"
	case 6:
		return "-" + words[r.Intn(len(words))] // looks like a flag
	case 7:
		return `"` + words[r.Intn(len(words))] + `" 'q'`
	default:
		return words[r.Intn(len(words))] + strconv.Itoa(r.Intn(1000))
	}
}

// genPair returns two well-formed raw values with (normally) different effect.
func genPair(r *rand.Rand, o option, round int) (string, string) {
	if sp, ok := special[o.Name]; ok {
		p := sp[round%len(sp)]
		if r.Intn(2) == 0 {
			return p[0], p[1]
		}
		return p[1], p[0]
	}
	switch o.Kind {
	case "bool":
		t := []string{"true", "1", "T", "TRUE", "True", "t"}[r.Intn(6)]
		f := []string{"false", "0", "F", "FALSE", "False", "f"}[r.Intn(6)]
		if r.Intn(2) == 0 {
			return t, f
		}
		return f, t
	case "int", "int64":
		a := 1 + r.Intn(50000)
		forms := []string{strconv.Itoa(a), "+" + strconv.Itoa(a), "0x" + strconv.FormatInt(int64(a), 16), strconv.Itoa(-a)}
		return forms[r.Intn(len(forms))], strconv.Itoa(a + 1 + r.Intn(1000))
	case "uint", "uint64":
		a := 1 + r.Intn(50000)
		return strconv.Itoa(a), "0x" + strconv.FormatInt(int64(a+1+r.Intn(1000)), 16)
	case "float64":
		return []string{"0.25", "1e-3", "7", ".5"}[r.Intn(4)], []string{"0.75", "2.5e1", "3"}[r.Intn(3)]
	case "duration":
		return []string{"1s", "250ms", "1h2m3s", "1.5s", "90m"}[r.Intn(5)], []string{"7s", "11ms", "2h", "45us"}[r.Intn(4)]
	case "floatslice":
		return []string{"0.1,0.5,1", " 1 , 2 ,, 3", "1e-3"}[r.Intn(3)], []string{"2,4,8", "0.25"}[r.Intn(2)]
	case "stringslice":
		return []string{"a,b", " a , b,,c ", "x"}[r.Intn(3)], []string{"p,q,r", "only"}[r.Intn(2)]
	default:
		a := randString(r)
		b := randString(r)
		for b == a {
			b = randString(r)
		}
		return a, b
	}
}

func randCase(r *rand.Rand, s string) string {
	switch r.Intn(4) {
	case 0:
		return strings.ToUpper(s)
	case 1:
		return strings.ToLower(s)
	}
	b := []byte(s)
	for i, c := range b {
		if r.Intn(2) == 0 {
			if c >= 'a' && c <= 'z' {
				b[i] = c - 32
			} else if c >= 'A' && c <= 'Z' {
				b[i] = c + 32
			}
		}
	}
	return string(b)
}

func envName(r *rand.Rand, prefix, name string) string {
	return randCase(r, prefix+strings.ReplaceAll(name, ".", "_"))
}

// place puts value v of option o at source k (1 cmdline, 2 FABIO_ env, 3 plain env, 4 properties).
func place(r *rand.Rand, a *arrangement, o option, k int, v string) {
	switch k {
	case 1:
		switch {
		case o.Kind == "bool" || r.Intn(3) == 0:
			a.Args = append(a.Args, "-"+o.Name+"="+v)
		case r.Intn(2) == 0:
			a.Args = append(a.Args, "--"+o.Name+"="+v)
		default:
			a.Args = append(a.Args, "-"+o.Name, v)
		}
	case 2:
		a.Env = append(a.Env, envName(r, "FABIO_", o.Name)+"="+v)
	case 3:
		a.Env = append(a.Env, envName(r, "", o.Name)+"="+v)
	case 4:
		if a.Props == nil {
			a.Props = map[string]string{}
		}
		a.Props[o.Name] = v
	}
}

// unrelated noise in the environment and the file (must not matter)
func noise(r *rand.Rand, a *arrangement) {
	if r.Intn(2) == 0 {
		a.Env = append([]string{"HOME=/root", "PATH=/bin:/usr/bin", "fabio_nosuchoption=1", "LC_ALL=C"}[:1+r.Intn(4)], a.Env...)
	}
	if a.Props != nil && r.Intn(2) == 0 {
		a.Props["no.such.option"] = "x y"
	}
}

func isASCII(s string) bool {
	for i := 0; i < len(s); i++ {
		if s[i] >= 0x80 {
			return false
		}
	}
	return true
}

// ---------- main ----------
// childMain runs config.Load in a child process: a malformed command line ends in
// os.Exit(2) through flag.ExitOnError, which cannot be observed in-process.
func childMain(spec string) {
	var in struct {
		Args, Env   []string
		Fingerprint bool
		Start       bool
	}
	if err := json.Unmarshal([]byte(spec), &in); err != nil {
		os.Exit(90)
	}
	log.SetOutput(io.Discard)
	cfg, err := config.Load(in.Args, in.Env)
	if in.Fingerprint {
		fmt.Println("C15-FP " + fingerprintResult(cfg, err))
		os.Exit(0)
	}
	if in.Start {
		childStart(cfg, err)
	}
	switch {
	case err != nil:
		fmt.Println("C15-CHILD error")
	case cfg == nil:
		fmt.Println("C15-CHILD version")
	default:
		fmt.Println("C15-CHILD config")
	}
	os.Exit(0)
}

// childStart does, with a configuration config.Load returned, what main() does with it before
// serving (main.go:135 metrics.Initialize, :138 initRuntime, :170/:194 route.NewGlobCache,
// :322-368 and route/table.go:46-48 the counters, gauges and histograms, one observation
// each).  A panic is caught and reported; the process is thrown away afterwards.
func childStart(cfg *config.Config, err error) {
	if err != nil || cfg == nil {
		fmt.Println("C15-START rejected")
		os.Exit(0)
	}
	defer func() {
		if v := recover(); v != nil {
			fmt.Printf("C15-START panic %v\n", v)
			os.Exit(0)
		}
	}()
	p, err := metrics.Initialize(&cfg.Metrics)
	if err != nil {
		fmt.Println("C15-START fatal " + strings.ReplaceAll(err.Error(), "\n", " "))
		os.Exit(0)
	}
	debug.SetGCPercent(cfg.Runtime.GOGC)
	runtime.GOMAXPROCS(cfg.Runtime.GOMAXPROCS)
	gc := route.NewGlobCache(cfg.GlobCacheSize)
	gc.Get("/foo/*")
	p.NewCounter("notfound").Add(1)
	p.NewGauge("ws.conn").Set(1)
	p.NewHistogram("requests").Observe(0.01)
	p.NewHistogram("http.status", "code").With("code", "200").Observe(0.02)
	p.NewHistogram("route", "service", "host", "path", "target").With("service", "s", "host", "h", "path", "/p", "target", "t").Observe(0.03)
	p.NewCounter("route.rx", "service", "host", "path", "target").With("service", "s", "host", "h", "path", "/p", "target", "t").Add(7)
	time.Sleep(25 * time.Millisecond)
	fmt.Println("C15-START started")
	os.Exit(0)
}

// runStart: 0 started, 1 Initialize returned an error (main exits with a FATAL line), 3 panic,
// 4 rejected by config.Load
func runStart(args, env []string) (int, string) {
	spec, _ := json.Marshal(map[string]interface{}{"Args": args, "Env": env, "Start": true})
	cmd := exec.Command(os.Args[0])
	cmd.Env = append(os.Environ(), "VERIF_C15_CHILD="+string(spec))
	b, err := cmd.CombinedOutput()
	out := string(b)
	k := strings.Index(out, "C15-START ")
	if k < 0 || err != nil {
		return 3, "child died: " + out[:min(len(out), 300)]
	}
	line := strings.SplitN(out[k+len("C15-START "):], "\n", 2)[0]
	switch {
	case strings.HasPrefix(line, "started"):
		return 0, line
	case strings.HasPrefix(line, "fatal"):
		return 1, line
	case strings.HasPrefix(line, "rejected"):
		return 4, line
	}
	return 3, line
}

// runChild returns the exit code and whether the child died with a Go panic trace.
func runChild(args, env []string) (code int, panicked bool, out string) {
	spec, _ := json.Marshal(map[string][]string{"Args": args, "Env": env})
	cmd := exec.Command(os.Args[0])
	cmd.Env = []string{"VERIF_C15_CHILD=" + string(spec)}
	b, err := cmd.CombinedOutput()
	out = string(b)
	if ee, ok := err.(*exec.ExitError); ok {
		code = ee.ExitCode()
	} else if err != nil {
		code = -1
	}
	panicked = strings.Contains(out, "panic:") || strings.Contains(out, "goroutine ")
	return
}

func main() {
	if spec := os.Getenv("VERIF_C15_CHILD"); spec != "" {
		childMain(spec)
	}
	run := vh.Start("C15")
	r := run.Rng
	repo := os.Getenv("VERIF_REPO")
	if repo == "" {
		repo = "/repo"
	}
	var err error
	tmpDir, err = os.MkdirTemp("", "verif-c15-")
	if err != nil {
		panic(err)
	}
	defer os.RemoveAll(tmpDir)

	opts, unknown, err := extractOptions(repo)
	if err != nil || len(opts) < 10 {
		run.Violation(-1, fmt.Sprintf("cannot extract the option list from config/load.go (%v, %d options)", err, len(opts)), nil)
		run.Finish(preamble, 200)
		return
	}
	for range unknown {
		run.Exclude("option registered with a flag type the harness has no generator for")
	}
	run.Notes["options_extracted"] = len(opts)
	run.Notes["options_unknown_type"] = unknown

	defaults, _ := runLoad(arrangement{})
	if defaults.err != nil || defaults.panicked {
		run.Violation(-1, fmt.Sprintf("config.Load with no sources fails: %v %v", defaults.err, defaults.pval), nil)
	}

	// ===== 1. every option: source equivalence and precedence through config.Load =====
	rounds := run.Scale(1, 4)
	for round := 0; round < rounds; round++ {
		for _, o := range opts {
			if o.Name == "cfg" || o.Name == "v" || o.Name == "version" {
				if round == 0 {
					run.Exclude("dummy flag consumed by config.parse before the flag set (cfg, v, version)")
				}
				continue
			}
			if !isASCII(o.Name) || strings.ContainsAny(o.Name, "= \t") {
				run.Exclude("option name outside the modelled alphabet")
				continue
			}
			v1, v2 := genPair(r, o, round)
			if !wellFormed(o.Kind, v1) || !wellFormed(o.Kind, v2) {
				run.Exclude("generated value not well-formed for the option type")
				continue
			}
			isBool := o.Kind == "bool"
			// (a) the same value from each source alone
			vs := []string{v1}
			if run.Thorough() {
				vs = append(vs, v2)
			}
			for _, v := range vs {
				var arrs []arrangement
				var results []loadResult
				okAll := true
				for k := 1; k <= 4; k++ {
					a := arrangement{}
					place(r, &a, o, k, v)
					noise(r, &a)
					res, ok := runLoad(a)
					if !ok {
						okAll = false
						break
					}
					arrs = append(arrs, a)
					results = append(results, res)
				}
				if !okAll {
					run.Exclude("value not expressible in the properties file syntax")
					continue
				}
				eqs := make([]string, len(results))
				coqArrs := make([]string, len(results))
				anyPanic := false
				for i := range results {
					eqs[i] = vh.Bool(sameResult(results[0], results[i]))
					coqArrs[i] = arrs[i].coq()
					anyPanic = anyPanic || results[i].panicked
				}
				id := run.Add("load-equivalence", vh.App("CEquiv", vh.HxS(o.Name), vh.Bool(isBool), vh.HxS(v), vh.List(coqArrs), vh.List(eqs),
					vh.Bool(results[0].err == nil && !results[0].panicked), vh.Bool(!sameResult(results[0], defaults))),
					map[string]interface{}{"option": o.Name, "kind": o.Kind, "value": v, "equal_to_cmdline": eqs, "err": fmt.Sprint(results[0].err), "arrangements": arrs})
				if anyPanic {
					run.Violation(id, "config.Load panicked on a well-formed single-source configuration", map[string]interface{}{"option": o.Name, "value": v})
				}
			}
			// (b) every ordered pair of sources: hi gives v1, lo gives v2
			for hi := 1; hi <= 4; hi++ {
				for lo := hi + 1; lo <= 4; lo++ {
					ah, al, ab := arrangement{}, arrangement{}, arrangement{}
					place(r, &ah, o, hi, v1)
					place(r, &al, o, lo, v2)
					// in the combined run the lower source may come first in its container
					if r.Intn(2) == 0 {
						place(r, &ab, o, lo, v2)
						place(r, &ab, o, hi, v1)
					} else {
						place(r, &ab, o, hi, v1)
						place(r, &ab, o, lo, v2)
					}
					noise(r, &ab)
					rh, ok1 := runLoad(ah)
					rl, ok2 := runLoad(al)
					rb, ok3 := runLoad(ab)
					if !ok1 || !ok2 || !ok3 {
						run.Exclude("value not expressible in the properties file syntax")
						continue
					}
					distinct := !sameResult(rh, rl)
					winner := 3
					switch {
					case sameResult(rb, rh):
						winner = 1
					case sameResult(rb, rl):
						winner = 2
					}
					run.Add(fmt.Sprintf("load-precedence-%d-over-%d", hi, lo),
						vh.App("CLoad", vh.HxS(o.Name), vh.Bool(isBool), ab.coq(), vh.HxS(v1), vh.HxS(v2), vh.N(hi), vh.N(lo), vh.Bool(distinct), vh.N(winner)),
						map[string]interface{}{"option": o.Name, "kind": o.Kind, "hi": hi, "lo": lo, "v_hi": v1, "v_lo": v2, "distinct": distinct, "winner": winner, "arrangement": ab})
				}
			}
		}
	}

	// ===== 2. FlagSet.ParseFlags with recording values =====
	genParseCases(run, r, opts)

	// ===== 3. config.Load on arbitrary environment blocks =====
	for i := 0; i < run.Scale(150, 2000); i++ {
		env := randEnviron(r, opts, i%3 == 0)
		var perr error
		p, pv := vh.Recover(func() { _, perr = config.Load([]string{"fabio"}, env) })
		_ = perr
		ascii := true
		for _, e := range env {
			name, _, _ := strings.Cut(e, "=")
			ascii = ascii && isASCII(name)
		}
		if !ascii {
			// strings.ToUpper on non-ASCII names is outside the model: only "never panics" is checked
			allEq := true
			for _, e := range env {
				allEq = allEq && strings.Contains(e, "=")
			}
			if p && allEq {
				run.Violation(-1, fmt.Sprintf("config.Load panicked on an environment block whose entries all contain '=': %v", pv), env)
			}
			run.Exclude("environment name with non-ASCII bytes (strings.ToUpper outside the model); checked for panics only")
			continue
		}
		run.Add("load-environ", vh.App("CLoadEnv", strs(env), vh.Bool(p)), map[string]interface{}{"environ": env, "panicked": p, "panic": fmt.Sprint(pv)})
	}

	// ===== 4. random properties files: an error or a configuration, never a panic =====
	for i := 0; i < run.Scale(150, 2000); i++ {
		content := randPropsFile(r, opts)
		tmpSeq++
		path := filepath.Join(tmpDir, fmt.Sprintf("r%06d.properties", tmpSeq))
		os.WriteFile(path, []byte(content), 0o644)
		if p, pv := vh.Recover(func() { config.Load([]string{"fabio", "-cfg", path}, nil) }); p {
			run.Violation(-1, fmt.Sprintf("config.Load panicked on a properties file: %v", pv), content)
		}
	}
	run.Notes["random_properties_files"] = run.Scale(150, 2000)

	// ===== 4b. malformed command lines through config.Load in a child process =====
	childStats := map[string]int{}
	for i := 0; i < run.Scale(14, 120); i++ {
		o := opts[r.Intn(len(opts))]
		var args []string
		want := 2 // flag.ExitOnError: usage error
		switch i % 7 {
		case 0:
			if o.Kind == "string" || o.Kind == "stringslice" {
				o = option{Name: "proxy.maxconn", Kind: "int"}
			}
			args = []string{"fabio", "-" + o.Name + "=" + []string{"abc", "1.5.2", "12x", "tru"}[r.Intn(4)]}
		case 1:
			args = []string{"fabio", "-no.such.option=1"}
		case 2:
			args = []string{"fabio", "-h"}
			want = 0 // flag.ErrHelp exits 0
		case 3:
			args = []string{"fabio", "-proxy.strategy"} // needs an argument
		case 4:
			args = []string{"fabio", "---x"}
		case 5:
			args = []string{"fabio", "-proxy.strategy=nope"} // well-formed for flag, rejected by load: returned error
			want = 0
		case 6:
			args = []string{"fabio", "-ui.title", randString(r), "positional", "-no.such.option"} // parsing stops at the positional
			want = 0
		}
		code, panicked, out := runChild(args, nil)
		childStats[fmt.Sprintf("exit-%d", code)]++
		if panicked {
			run.Violation(-1, "config.Load panicked on a malformed command line (child process)", map[string]interface{}{"args": args, "output": out[:min(len(out), 400)]})
		} else if code != want {
			run.Violation(-1, fmt.Sprintf("config.Load on a malformed command line: child exit code %d, expected %d", code, want), map[string]interface{}{"args": args, "output": out[:min(len(out), 400)]})
		}
	}
	run.Notes["child_process_runs"] = childStats

	// ===== 5. glob.cache.size (sizes <= 0 included): rejected by Load, or accepted and runnable =====
	genGlobCases(run, r)

	// ===== 5b. histories: several Loads in this one process =====
	genHistoryCases(run, r, opts)

	// ===== 5e. config.parse: version words, -cfg spellings, -test. words =====
	genArgsCases(run, r)

	// ===== 5d. accepted => can be started =====
	genStartCases(run, r)

	// ===== 5c. degenerate values of every option from every source =====
	genDegenerateCases(run, r, opts)

	// ===== 6. parseKVSlice, lex and the library models =====
	genKVCases(run, r)

	// ===== 7. enumerated options: accepted => the proxies main() builds can serve =====
	// (last, with a rand source of its own: the inputs of the classes above do not depend on it)
	genEnumCases(run, repo)

	run.Finish(preamble, run.Scale(200, 500))
}

// ---------- ParseFlags ----------
var synthNames = []string{"a", "a.b", "a_b", "A.b", "x.y.z", "x.Y.z", "long.option.name", "n1", "UPPER", "mixed.Case.Name", "b", "flag-with-dash", "h", "help", "p.q"}
var kinds = []string{"bool", "int", "uint", "string", "float64", "duration", "stringslice", "floatslice", "string", "string"}

func candidateValues(r *rand.Rand, kind string) string {
	if r.Intn(6) == 0 { // ill-formed for most kinds
		return []string{"", "abc", "1.5.2", "-", "12x", "tru", "1,,x", "99999999999999999999"}[r.Intn(8)]
	}
	switch kind {
	case "bool":
		return []string{"true", "false", "1", "0", "T", "F"}[r.Intn(6)]
	case "int":
		return strconv.Itoa(r.Intn(2000) - 1000)
	case "uint":
		return strconv.Itoa(r.Intn(2000))
	case "float64":
		return []string{"0.5", "1e3", "-2.25"}[r.Intn(3)]
	case "duration":
		return []string{"1s", "5ms", "2h"}[r.Intn(3)]
	case "floatslice":
		return []string{"1,2", "0.5", " 3 , 4 "}[r.Intn(3)]
	case "stringslice":
		return []string{"a,b", "c"}[r.Intn(2)]
	}
	return randString(r)
}

func genParseCases(run *vh.Run, r *rand.Rand, opts []option) {
	n := run.Scale(420, 6000)
	for i := 0; i < n; i++ {
		// registered flags: a few synthetic names or (rarely) the whole real option list
		type reg struct {
			name, kind string
			rec        *recorder
		}
		var regs []reg
		seen := map[string]bool{}
		class := "parseflags-synthetic"
		if i%60 == 59 {
			class = "parseflags-all-options"
			for _, o := range opts {
				if !seen[o.Name] && isASCII(o.Name) {
					seen[o.Name] = true
					regs = append(regs, reg{name: o.Name, kind: o.Kind})
				}
			}
		} else {
			k := 1 + r.Intn(6)
			for len(regs) < k {
				var nm, kd string
				if r.Intn(3) == 0 {
					o := opts[r.Intn(len(opts))]
					nm, kd = o.Name, o.Kind
				} else {
					nm, kd = synthNames[r.Intn(len(synthNames))], kinds[r.Intn(len(kinds))]
				}
				if seen[nm] || !isASCII(nm) {
					continue
				}
				seen[nm] = true
				regs = append(regs, reg{name: nm, kind: kd})
			}
		}
		fs := config.NewFlagSet("c15", flag.ContinueOnError)
		fs.SetOutput(io.Discard)
		fs.Usage = func() {}
		for j := range regs {
			regs[j].rec = &recorder{inner: typedValue(regs[j].kind), isBool: regs[j].kind == "bool"}
			fs.Var(regs[j].rec, regs[j].name, "")
		}
		// prefixes
		var prefixes []string
		switch r.Intn(8) {
		case 0:
			prefixes = nil
		case 1:
			prefixes = []string{"fabio_", ""} // lower case prefix: the code upper-cases prefix+name
		case 2:
			prefixes = []string{"", "FABIO_"}
		case 3:
			prefixes = []string{"X_", "Y_", "Z_"}
		case 4:
			prefixes = []string{"ONLY_"}
		default:
			prefixes = []string{"FABIO_", ""}
		}
		usePfx := prefixes
		if len(usePfx) == 0 {
			usePfx = []string{""}
		}
		// sources
		var args, environ []string
		var props map[string]string
		if r.Intn(4) != 0 {
			props = map[string]string{}
		}
		malformed := i%7 == 6
		argVals := map[string]map[string]bool{}
		pick := func(kind string) string { return candidateValues(r, kind) }
		noteArg := func(name, v string) {
			if argVals[name] == nil {
				argVals[name] = map[string]bool{}
			}
			argVals[name][v] = true
		}
		for _, g := range regs {
			if class == "parseflags-all-options" && r.Intn(3) != 0 {
				continue
			}
			if r.Intn(3) == 0 { // command line, possibly repeated
				for rep := 0; rep < 1+r.Intn(2); rep++ {
					v := pick(g.kind)
					noteArg(g.name, v)
					noteArg(g.name, "true")
					switch {
					case g.kind == "bool" && r.Intn(3) == 0:
						args = append(args, "-"+g.name)
					case g.kind == "bool" || r.Intn(2) == 0:
						args = append(args, []string{"-", "--"}[r.Intn(2)]+g.name+"="+v)
					default:
						args = append(args, "-"+g.name, v)
					}
				}
			}
			for _, pfx := range usePfx { // environment, possibly duplicated in another case
				if r.Intn(3) == 0 {
					for rep := 0; rep < 1+r.Intn(3)/2; rep++ {
						environ = append(environ, envName(r, pfx, g.name)+"="+pick(g.kind))
					}
				}
			}
			if props != nil && r.Intn(3) == 0 {
				props[g.name] = pick(g.kind)
			}
			if props != nil && r.Intn(12) == 0 { // the file is case-sensitive
				props[strings.ToUpper(g.name)] = pick(g.kind)
			}
		}
		r.Shuffle(len(environ), func(a, b int) { environ[a], environ[b] = environ[b], environ[a] })
		if r.Intn(3) == 0 {
			environ = append(environ, "HOME=/root", "EMPTY=", "=novalue", "A=B=C")
		}
		if malformed {
			switch r.Intn(6) {
			case 0:
				environ = append(environ, "NOEQUALS")
			case 1:
				environ = append([]string{""}, environ...)
			case 2:
				args = append(args, "-no.such.flag=1")
			case 3:
				args = append([]string{"positional"}, args...)
			case 4:
				args = append(args, []string{"--", "-", "---x", "-=x", "-h", "--help"}[r.Intn(6)])
				args = append(args, "-"+regs[0].name+"=true")
				noteArg(regs[0].name, "true")
			case 5:
				if len(regs) > 0 && regs[len(regs)-1].kind != "bool" {
					args = append(args, "-"+regs[len(regs)-1].name) // needs an argument
				}
			}
		}
		// "-name value": whatever follows a bare non-bool flag token is handed to its Value.Set
		for ai := 0; ai+1 < len(args); ai++ {
			bare := strings.TrimPrefix(strings.TrimPrefix(args[ai], "-"), "-")
			for _, g := range regs {
				if g.kind != "bool" && bare == g.name {
					noteArg(g.name, args[ai+1])
				}
			}
		}
		var p *properties.Properties
		if props != nil {
			p = properties.LoadMap(props)
		}
		var perr error
		panicked, pv := vh.Recover(func() { perr = fs.ParseFlags(args, environ, prefixes, p) })
		impl := ""
		switch {
		case panicked:
			impl = vh.Panic
		case perr == flag.ErrHelp:
			impl = vh.Err(2)
		case perr != nil:
			impl = vh.Err(1)
		default:
			items := make([]string, len(regs))
			for j, g := range regs {
				items[j] = "(" + vh.HxS(g.name) + ", " + vh.Bool(fs.IsSet(g.name)) + ", " + strs(g.rec.calls) + ")"
			}
			impl = vh.Ok(vh.List(items))
		}
		// (flag, raw) pairs the flag's type rejects, judged by fresh typed values
		var bad []string
		decls := make([]string, len(regs))
		for j, g := range regs {
			decls[j] = flagDecl(g.name, g.kind == "bool")
			// every raw value that can reach this flag: its command-line values, the values of the
			// environment entries whose upper-cased name is one of the flag's variable names (an
			// over-approximation is harmless), and its property
			cand := map[string]bool{}
			for v := range argVals[g.name] {
				cand[v] = true
			}
			for _, pfx := range usePfx {
				want := strings.ToUpper(pfx + strings.ReplaceAll(g.name, ".", "_"))
				for _, e := range environ {
					if k := strings.Index(e, "="); k >= 0 && strings.ToUpper(e[:k]) == want {
						cand[e[k+1:]] = true
					}
				}
			}
			if v, ok := props[g.name]; ok {
				cand[v] = true
			}
			vals := make([]string, 0, len(cand))
			for v := range cand {
				vals = append(vals, v)
			}
			sort.Strings(vals)
			for _, v := range vals {
				if !wellFormed(g.kind, v) {
					bad = append(bad, vh.Pair(vh.HxS(g.name), vh.HxS(v)))
				}
			}
		}
		sample := map[string]interface{}{"flags": len(regs), "args": args, "environ": environ, "prefixes": prefixes, "props": props, "panic": fmt.Sprint(pv), "err": fmt.Sprint(perr)}
		if class == "parseflags-all-options" {
			sample["environ"] = len(environ)
			sample["props"] = len(props)
		}
		if malformed {
			class += "-malformed"
		}
		run.Add(class, vh.App("CParse", vh.List(decls), vh.List(bad), strs(args), strs(environ), strs(prefixes), optSmap(props), impl), sample)
	}
}

// ---------- environment blocks ----------
func randEnviron(r *rand.Rand, opts []option, wellFormedOnly bool) []string {
	var env []string
	n := r.Intn(8)
	for i := 0; i < n; i++ {
		var name string
		switch r.Intn(6) {
		case 0:
			o := opts[r.Intn(len(opts))]
			name = envName(r, []string{"FABIO_", "", "fabio_"}[r.Intn(3)], o.Name)
		case 1:
			name = ""
		case 2:
			name = "N\u00e4me_\u0131_\u017f" // non-ASCII: dotless i, long s
		default:
			name = randCase(r, words[r.Intn(len(words))])
		}
		switch {
		case !wellFormedOnly && r.Intn(5) == 0:
			env = append(env, name) // no '='
		case r.Intn(6) == 0:
			env = append(env, name+"=")
		default:
			env = append(env, name+"="+randString(r))
		}
	}
	if n > 1 && r.Intn(3) == 0 { // the same variable twice in different case
		e := env[r.Intn(len(env))]
		if k := strings.Index(e, "="); k > 0 {
			env = append(env, randCase(r, e[:k])+"=other")
		}
	}
	return env
}

func randPropsFile(r *rand.Rand, opts []option) string {
	var sb strings.Builder
	lines := r.Intn(8)
	for i := 0; i < lines; i++ {
		switch r.Intn(9) {
		case 0:
			sb.WriteString("# comment\n")
		case 1:
			sb.WriteString(opts[r.Intn(len(opts))].Name + " = ${" + opts[r.Intn(len(opts))].Name + "}\n")
		case 2:
			sb.WriteString(opts[r.Intn(len(opts))].Name + " = ${unterminated\n")
		case 3:
			sb.WriteString(opts[r.Intn(len(opts))].Name + " " + randString(r) + "\\\n   continued\n")
		case 4:
			b := make([]byte, r.Intn(20))
			r.Read(b)
			sb.Write(b)
			sb.WriteString("\n")
		case 5:
			sb.WriteString(opts[r.Intn(len(opts))].Name + ":\\u00zz\\q" + randString(r) + "\n")
		default:
			o := opts[r.Intn(len(opts))]
			sb.WriteString(o.Name + []string{"=", " = ", ":", " "}[r.Intn(4)] + candidateValues(r, o.Kind) + "\n")
		}
	}
	return sb.String()
}

// ---------- glob cache ----------
// main.go:170 (newGrpcProxy) and main.go:194 (newHTTPProxy) call
// route.NewGlobCache(cfg.GlobCacheSize) unconditionally: the cache is built whether or not
// glob.matching.disabled is set.  So "accepted => runnable" is judged without looking at
// that flag: every accepted configuration gets NewGlobCache(size) and lookups.
func genGlobCases(run *vh.Run, r *rand.Rand) {
	sizeOpt := option{Name: "glob.cache.size", Kind: "int"}
	disOpt := option{Name: "glob.matching.disabled", Kind: "bool"}
	type combo struct {
		size     int
		disabled int // 0 not given, 1 true, 2 false
		ks, kd   int // sources of the size and of the flag
	}
	var combos []combo
	// every source pair for the sizes around the boundary, with the flag true / false
	for _, size := range []int{-1000, -1, 0, 1} {
		for ks := 1; ks <= 4; ks++ {
			for kd := 1; kd <= 4; kd++ {
				for dis := 1; dis <= 2; dis++ {
					if run.Thorough() || dis == 1 || (ks+kd+size)%2 == 0 {
						combos = append(combos, combo{size, dis, ks, kd})
					}
				}
			}
		}
	}
	// the size alone, and other sizes with the flag from a rotating source
	for i, size := range []int{-1000, -2, -1, 0, 0, 1, 1, 2, 3, 5, 1000} {
		combos = append(combos, combo{size, 0, 1 + i%4, 0})
		combos = append(combos, combo{size, 1 + i%2, 1 + (i/2)%4, 1 + i%4})
	}
	for i := 0; i < run.Scale(20, 400); i++ {
		combos = append(combos, combo{r.Intn(12) - 4, r.Intn(3), 1 + r.Intn(4), 1 + r.Intn(4)})
	}
	for i, c := range combos {
		size := c.size
		a := arrangement{}
		place(r, &a, sizeOpt, c.ks, strconv.Itoa(size))
		if c.disabled != 0 {
			place(r, &a, disOpt, c.kd, []string{"", "true", "false"}[c.disabled])
		}
		res, ok := runLoad(a)
		if !ok {
			run.Exclude("value not expressible in the properties file syntax")
			continue
		}
		accepted := !res.panicked && res.err == nil && res.cfg != nil
		configured := size
		disabled := c.disabled == 1
		if accepted {
			configured = res.cfg.GlobCacheSize
			if c.disabled != 0 && res.cfg.GlobMatchingDisabled != disabled {
				run.Violation(-1, fmt.Sprintf("glob.matching.disabled=%v loaded as %v", disabled, res.cfg.GlobMatchingDisabled), a)
			}
		}
		if accepted && configured != size {
			run.Violation(-1, fmt.Sprintf("glob.cache.size=%d loaded as %d", size, configured), a)
		}
		// what main does with an accepted configuration: build the cache, then the first requests
		pats := []string{"/foo/*", "*.example.com", "/a/{b,c}", "x?z", "/**", "plain"}
		var calls, outs []string
		var sampleCalls []string
		var gc *route.GlobCache
		impl := ""
		if !accepted {
			// config.Load returned an error: there is no configuration to run
			impl = vh.Err(1)
			if res.panicked {
				impl = vh.Panic
			}
		} else if p, _ := vh.Recover(func() { gc = route.NewGlobCache(configured) }); p {
			impl = vh.Panic
		}
		ncalls := 1 + i%3
		if i%5 == 4 {
			ncalls = r.Intn(9)
		}
		stopped := false
		for j := 0; j < ncalls; j++ {
			pat := pats[r.Intn(len(pats))]
			if r.Intn(7) == 0 {
				pat = "[bad" + strconv.Itoa(r.Intn(3))
			}
			_, cerr := glob.Compile(pat)
			calls = append(calls, vh.Pair(vh.HxS(pat), vh.Bool(cerr == nil)))
			sampleCalls = append(sampleCalls, pat)
			if impl != "" || stopped {
				continue
			}
			var gerr error
			_, _, _, before := gc.VerifState()
			hit := false
			for _, k := range before {
				hit = hit || k == pat
			}
			if p, _ := vh.Recover(func() { _, gerr = gc.Get(pat) }); p {
				outs = append(outs, vh.Panic)
				stopped = true
			} else if gerr != nil {
				outs = append(outs, vh.Err(1))
			} else {
				outs = append(outs, vh.Ok(vh.Bool(hit)))
			}
		}
		if impl == "" {
			impl = vh.Ok(vh.List(outs))
		}
		class := "glob-cache-size"
		if c.disabled != 0 {
			class = "glob-cache-size-x-matching-disabled"
		}
		final := vh.None
		if gc != nil {
			_, h, n, keys := gc.VerifState()
			final = vh.Some("(" + vh.N(h) + ", " + vh.N(n) + ", " + strs(keys) + ")")
		}
		run.Add(class, vh.App("CGlob", vh.Z(int64(size)), vh.Bool(disabled), vh.Bool(accepted), vh.List(calls), impl, final),
			map[string]interface{}{"size": size, "glob.matching.disabled": []string{"not given", "true", "false"}[c.disabled], "accepted": accepted,
				"source_size": c.ks, "source_disabled": c.kd, "patterns": sampleCalls, "impl": impl, "arrangement": a})
	}
}

// ---------- histories of Loads in one process ----------
// fingerprint renders a value structurally (pointers followed, maps sorted, nil and empty
// distinguished, regexps by their source), so that results can be compared across processes
// and a live object can be compared with what it was right after its Load.
func fingerprint(v reflect.Value, sb *strings.Builder, depth int) {
	if depth > 40 {
		sb.WriteString("<deep>")
		return
	}
	if !v.IsValid() {
		sb.WriteString("<invalid>")
		return
	}
	switch v.Kind() {
	case reflect.Ptr:
		if v.IsNil() {
			sb.WriteString("nil")
			return
		}
		if v.Type() == reflect.TypeOf((*regexp.Regexp)(nil)) && v.CanInterface() {
			sb.WriteString("re:" + strconv.Quote(v.Interface().(*regexp.Regexp).String()))
			return
		}
		sb.WriteString("&")
		fingerprint(v.Elem(), sb, depth+1)
	case reflect.Interface:
		if v.IsNil() {
			sb.WriteString("nil")
			return
		}
		fingerprint(v.Elem(), sb, depth+1)
	case reflect.Struct:
		sb.WriteString(v.Type().Name() + "{")
		for i := 0; i < v.NumField(); i++ {
			sb.WriteString(v.Type().Field(i).Name + ":")
			fingerprint(v.Field(i), sb, depth+1)
			sb.WriteString(";")
		}
		sb.WriteString("}")
	case reflect.Slice, reflect.Array:
		if v.Kind() == reflect.Slice && v.IsNil() {
			sb.WriteString("nil[]")
			return
		}
		sb.WriteString("[")
		for i := 0; i < v.Len(); i++ {
			fingerprint(v.Index(i), sb, depth+1)
			sb.WriteString(",")
		}
		sb.WriteString("]")
	case reflect.Map:
		if v.IsNil() {
			sb.WriteString("nilmap")
			return
		}
		var items []string
		for _, k := range v.MapKeys() {
			var kb strings.Builder
			fingerprint(k, &kb, depth+1)
			kb.WriteString("=>")
			fingerprint(v.MapIndex(k), &kb, depth+1)
			items = append(items, kb.String())
		}
		sort.Strings(items)
		sb.WriteString("map{" + strings.Join(items, ",") + "}")
	case reflect.String:
		sb.WriteString(strconv.Quote(v.String()))
	case reflect.Bool:
		sb.WriteString(strconv.FormatBool(v.Bool()))
	case reflect.Int, reflect.Int8, reflect.Int16, reflect.Int32, reflect.Int64:
		sb.WriteString(strconv.FormatInt(v.Int(), 10))
	case reflect.Uint, reflect.Uint8, reflect.Uint16, reflect.Uint32, reflect.Uint64, reflect.Uintptr:
		sb.WriteString(strconv.FormatUint(v.Uint(), 10))
	case reflect.Float32, reflect.Float64:
		sb.WriteString(strconv.FormatFloat(v.Float(), 'g', -1, 64))
	case reflect.Func, reflect.Chan, reflect.UnsafePointer:
		sb.WriteString(fmt.Sprintf("<%s nil=%v>", v.Kind(), v.IsNil()))
	default:
		sb.WriteString("<" + v.Kind().String() + ">")
	}
}

func fingerprintResult(cfg *config.Config, err error) string {
	if err != nil {
		return "error"
	}
	var sb strings.Builder
	fingerprint(reflect.ValueOf(cfg), &sb, 0)
	return sb.String()
}

// buildArgs is the argument list runLoad would pass (properties file written if needed).
func buildArgs(a arrangement) ([]string, bool) {
	args := []string{"fabio"}
	if a.Props != nil {
		path, ok := writeProps(a.Props)
		if !ok {
			return nil, false
		}
		args = append(args, "-cfg", path)
	}
	return append(args, a.Args...), true
}

// freshProcessFingerprint loads the same inputs in a new process (nothing loaded before).
func freshProcessFingerprint(args, env []string) (string, bool) {
	spec, _ := json.Marshal(map[string]interface{}{"Args": args, "Env": env, "Fingerprint": true})
	cmd := exec.Command(os.Args[0])
	cmd.Env = append(os.Environ(), "VERIF_C15_CHILD="+string(spec))
	b, err := cmd.Output()
	if err != nil {
		return string(b), false
	}
	out := string(b)
	k := strings.Index(out, "C15-FP ")
	if k < 0 {
		return out, false
	}
	return strings.TrimSuffix(out[k+len("C15-FP "):], "\n"), true
}

func genHistoryCases(run *vh.Run, r *rand.Rand, opts []option) {
	var lists, scalars []option
	for _, o := range opts {
		switch {
		case !isASCII(o.Name):
		case o.Kind == "stringslice" || o.Kind == "floatslice":
			lists = append(lists, o)
		case o.Kind == "duration" || o.Kind == "int" && special[o.Name] == nil:
			scalars = append(scalars, o)
		}
	}
	if len(lists) == 0 {
		run.Exclude("no list-valued option registered: history class has nothing to set")
		return
	}
	listValue := func(o option) string {
		if o.Kind == "floatslice" {
			return []string{"1,2", "0.5", "3,4,5,6,7,8,9,10,11,12,13,14", " 7 , 8 "}[r.Intn(4)]
		}
		return []string{"critical", "maintenance,warning", "a,b,c,d", " x , y "}[r.Intn(4)]
	}
	refCache := map[string]string{}
	for h := 0; h < run.Scale(45, 500); h++ {
		n := 2 + r.Intn(4)
		type step struct {
			o      option
			set    bool
			v      string
			a      arrangement
			args   []string
			cfg    *config.Config
			err    error
			after  string // fingerprint right after its Load
			ref    string // fingerprint of a fresh-process Load of the same inputs
			refOK  bool
			source int
		}
		steps := make([]*step, 0, n)
		usable := true
		for i := 0; i < n; i++ {
			st := &step{o: lists[r.Intn(len(lists))]}
			switch {
			case i == 0 && h%3 != 2 || r.Intn(5) < 2: // a list option from some source
				st.set, st.v, st.source = true, listValue(st.o), 1+r.Intn(4)
			case r.Intn(4) == 0 && len(scalars) > 0: // some other option
				st.o = scalars[r.Intn(len(scalars))]
				st.set, st.source = true, 1+r.Intn(4)
				st.v, _ = genPair(r, st.o, h)
			}
			if st.set {
				place(r, &st.a, st.o, st.source, st.v)
			}
			var ok bool
			if st.args, ok = buildArgs(st.a); !ok {
				usable = false
				break
			}
			steps = append(steps, st)
		}
		if !usable {
			run.Exclude("value not expressible in the properties file syntax")
			continue
		}
		panicked := false
		for _, st := range steps {
			st := st
			if p, _ := vh.Recover(func() { st.cfg, st.err = config.Load(st.args, st.a.Env) }); p {
				panicked = true
			}
			st.after = fingerprintResult(st.cfg, st.err)
			key := strings.Join(st.args, "\x00") + "\x01" + strings.Join(st.a.Env, "\x00")
			if st.a.Props == nil {
				if ref, hit := refCache[key]; hit {
					st.ref, st.refOK = ref, true
					continue
				}
			}
			st.ref, st.refOK = freshProcessFingerprint(st.args, st.a.Env)
			if st.refOK && st.a.Props == nil {
				refCache[key] = st.ref
			}
		}
		var coqSteps, eqRef, stable []string
		var sample []map[string]interface{}
		refFailed := false
		for _, st := range steps {
			refFailed = refFailed || !st.refOK
			now := fingerprintResult(st.cfg, st.err)
			want := vh.None
			if st.set {
				want = vh.Some(vh.HxS(st.v))
			}
			coqSteps = append(coqSteps, "("+vh.HxS(st.o.Name)+", "+vh.Bool(st.o.Kind == "bool")+", "+st.a.coq()+", "+want+")")
			eqRef = append(eqRef, vh.Bool(st.refOK && st.after == st.ref))
			stable = append(stable, vh.Bool(now == st.after))
			sample = append(sample, map[string]interface{}{"option": st.o.Name, "set": st.set, "value": st.v, "source": st.source,
				"equals_fresh_process_load": st.refOK && st.after == st.ref, "unchanged_after_later_loads": now == st.after, "err": fmt.Sprint(st.err)})
		}
		if refFailed {
			run.Exclude("fresh-process reference Load failed to run")
			continue
		}
		id := run.Add("load-history", vh.App("CHistory", vh.List(coqSteps), vh.List(eqRef), vh.List(stable)), map[string]interface{}{"steps": sample})
		if panicked {
			run.Violation(id, "config.Load panicked in a sequence of well-formed Loads", sample)
		}
	}
}

// ---------- config.parse ----------
func genArgsCases(run *vh.Run, r *rand.Rand) {
	words := []string{"-v", "-version", "--version", "-cfg", "--cfg", "-cfg=", "--cfg=", "-cfg=/a/b.properties", "--cfg=/a/b", "-cfg='/q/x'", `--cfg="/q/y"`, "-cfg=''", `-cfg="`, "-cfg='a", "--cfg='" + "''", "-cfg=http://h/p", "-test.v", "-test.run=X", "-test", "--test.v",
		"-ui.title", "x", "-insecure", "-proxy.addr=:1", "--", "-", "", "-V", "-cfgx", "-cfg =x", "--cfg", "/some/file", "positional", "-vv"}
	fixed := [][]string{{}, {"fabio"}, {"fabio", "-cfg"}, {"fabio", "-cfg", "p"}, {"fabio", "-cfg", "-v"}, {"fabio", "-v", "-cfg"}, {"fabio", "-ui.title", "-v"}, {"fabio", "-cfg=a", "-cfg", "b"}, {"-v"}, {"fabio", "-test.v", "-cfg=x", "-a"}}
	for i := 0; i < run.Scale(160, 2500); i++ {
		var args []string
		if i < len(fixed) {
			args = fixed[i]
		} else {
			args = []string{"fabio"}
			for j := r.Intn(6); j > 0; j-- {
				args = append(args, words[r.Intn(len(words))])
			}
		}
		in := append([]string(nil), args...)
		var cmdline []string
		var path string
		var version bool
		var err error
		impl := ""
		if p, _ := vh.Recover(func() { cmdline, path, version, err = config.VerifParse(in) }); p {
			impl = vh.Panic
		} else if err != nil {
			impl = vh.Err(1)
		} else {
			impl = vh.Ok("(" + strs(cmdline) + ", " + vh.HxS(path) + ", " + vh.Bool(version) + ")")
		}
		run.Add("config-parse-args", vh.App("CArgs", strs(args), impl), map[string]interface{}{"args": args, "cmdline": cmdline, "path": path, "version": version, "err": fmt.Sprint(err)})
	}
}

// ---------- accepted => can be started ----------
func genStartCases(run *vh.Run, r *rand.Rand) {
	// local sinks so that the providers have something to resolve and send to
	udp, _ := net.ListenPacket("udp", "127.0.0.1:0")
	tcp, _ := net.Listen("tcp", "127.0.0.1:0")
	if udp == nil || tcp == nil {
		run.Exclude("no loopback sockets for the metrics sinks")
		return
	}
	defer udp.Close()
	defer tcp.Close()
	go func() {
		for {
			c, err := tcp.Accept()
			if err != nil {
				return
			}
			go func() { io.Copy(io.Discard, c); c.Close() }()
		}
	}()
	udpAddr, tcpAddr := udp.LocalAddr().String(), tcp.Addr().String()
	str := func(n string) option { return option{Name: n, Kind: "string"} }
	interval := option{Name: "metrics.interval", Kind: "duration"}
	targets := []string{"statsd_raw", "dogstatsd", "graphite", "prometheus", "flat", "label", "", "statsd_raw,prometheus"}
	ticker := map[string]bool{"statsd_raw": true, "dogstatsd": true, "graphite": true, "statsd_raw,prometheus": true}
	values := []string{"0", "0s", "-1s", "-1ns", "1ns", "1ms", "30s", "2562047h", "-2562047h"}
	n := 0
	for ti, target := range targets {
		for vi, v := range values {
			if !run.Thorough() && !ticker[target] && vi%3 != ti%3 {
				continue
			}
			for _, k := range []int{1 + (n % 4), 1 + ((n + 1 + vi) % 4)}[:run.Scale(1, 2)] {
				n++
				a := arrangement{}
				place(r, &a, interval, k, v)
				place(r, &a, str("metrics.target"), 1+(n+ti)%4, target)
				place(r, &a, str("metrics.statsd.addr"), 1+n%4, udpAddr)
				place(r, &a, str("metrics.dogstatsd.addr"), 1+(n+1)%4, udpAddr)
				place(r, &a, str("metrics.graphite.addr"), 1+(n+2)%4, tcpAddr)
				args, ok := buildArgs(a)
				if !ok {
					run.Exclude("value not expressible in the properties file syntax")
					continue
				}
				out, line := runStart(args, a.Env)
				d, _ := time.ParseDuration(v)
				accepted := out != 4
				run.Add("accepted-then-start-metrics-interval", vh.App("CMetricsStart", vh.Z(int64(d)), vh.Bool(ticker[target]), vh.Bool(accepted), vh.N(out)),
					map[string]interface{}{"metrics.interval": v, "metrics.target": target, "source": k, "accepted": accepted, "outcome(0 started,1 fatal,3 panic,4 rejected)": out, "line": line})
			}
		}
	}
	// other options that reach start-up code: no model, a panic after acceptance is a violation
	type probe struct {
		name, kind, value string
		extra             [][2]string
	}
	probes := []probe{
		{"metrics.prometheus.buckets", "floatslice", "2,1", [][2]string{{"metrics.target", "prometheus"}}},
		{"metrics.prometheus.buckets", "floatslice", "1,1", [][2]string{{"metrics.target", "prometheus"}}},
		{"metrics.prometheus.buckets", "floatslice", "NaN", [][2]string{{"metrics.target", "prometheus"}}},
		{"metrics.prometheus.buckets", "floatslice", "1,2,+Inf", [][2]string{{"metrics.target", "prometheus"}}},
		{"metrics.prometheus.buckets", "floatslice", "Inf", [][2]string{{"metrics.target", "prometheus"}}},
		{"metrics.prometheus.buckets", "floatslice", ",", [][2]string{{"metrics.target", "prometheus"}}},
		{"metrics.prometheus.buckets", "floatslice", "-1,0,1", [][2]string{{"metrics.target", "prometheus"}}},
		{"metrics.prometheus.subsystem", "string", "a-b c/\u00e9", [][2]string{{"metrics.target", "prometheus"}}},
		{"metrics.prometheus.subsystem", "string", "9", [][2]string{{"metrics.target", "prometheus"}}},
		{"metrics.prefix", "string", "", [][2]string{{"metrics.target", "prometheus"}}},
		{"metrics.prefix", "string", "9.{{clean .Exec}}-x", [][2]string{{"metrics.target", "prometheus"}}},
		{"metrics.prefix", "string", "{{.Nope}}", [][2]string{{"metrics.target", "statsd_raw"}}},
		{"metrics.prefix", "string", "{{", [][2]string{{"metrics.target", "flat"}}},
		{"metrics.names", "string", "{{", nil},
		{"metrics.target", "string", "nosuch", nil},
		{"metrics.target", "string", " , ,flat", nil},
		{"metrics.statsd.addr", "string", "not an address", [][2]string{{"metrics.target", "statsd_raw"}}},
		{"metrics.statsd.addr", "string", "", [][2]string{{"metrics.target", "statsd_raw"}}},
		{"metrics.graphite.addr", "string", ":-1", [][2]string{{"metrics.target", "graphite"}}},
		{"metrics.circonus.apikey", "string", "", [][2]string{{"metrics.target", "circonus"}}},
		{"runtime.gogc", "int", "-1", nil}, {"runtime.gogc", "int", "0", nil}, {"runtime.gogc", "int", "2147483647", nil},
		{"runtime.gomaxprocs", "int", "0", nil}, {"runtime.gomaxprocs", "int", "-7", nil}, {"runtime.gomaxprocs", "int", "256", nil},
		{"glob.cache.size", "int", "1", nil}, {"glob.cache.size", "int", "1048576", nil},
	}
	stats := map[string]int{}
	for i, pb := range probes {
		for _, k := range []int{1 + i%4, 1 + (i+2)%4}[:run.Scale(1, 2)] {
			a := arrangement{}
			place(r, &a, option{Name: pb.name, Kind: pb.kind}, k, pb.value)
			for j, e := range pb.extra {
				place(r, &a, str(e[0]), 1+(i+j+k)%4, e[1])
			}
			args, ok := buildArgs(a)
			if !ok {
				run.Exclude("value not expressible in the properties file syntax")
				continue
			}
			out, line := runStart(args, a.Env)
			stats[[]string{"started", "fatal-error", "", "PANIC", "rejected-by-load"}[out]]++
			if out == 3 {
				what := pb.name + "=" + pb.value
				if pb.name == "metrics.prometheus.buckets" {
					increasing := true
					var prev float64
					for j, x := range strings.Split(pb.value, ",") {
						f, err := strconv.ParseFloat(strings.TrimSpace(x), 64)
						if err != nil {
							continue
						}
						if j > 0 && !(prev < f) {
							increasing = false
						}
						prev = f
					}
					if !increasing {
						what = "metrics.prometheus.buckets not strictly increasing (" + pb.value + ")"
					}
				}
				run.Violation(-1, fmt.Sprintf("accepted configuration cannot be started: %s panics at start-up", what),
					map[string]interface{}{"option": pb.name, "value": pb.value, "with": pb.extra, "source": k, "panic": line})
			}
		}
	}
	run.Notes["accepted_then_start_probes"] = stats
}

// ---------- degenerate values ----------
var degenerateGeneric = []string{"", " ", "  \t ", ";", ",", ";;,", " ; ", "=", ";=", `""`, `''`, `"`, "'", `" "`, ",;=,", "\\"}
var degenerateBytes = []string{strings.Repeat("a", 4096), "a\x00b", "\xff\xfe\x80", "é世 ", strings.Repeat(";", 300), "\x00"}

func degenerateTyped(kind string) []string {
	switch kind {
	case "bool":
		return []string{"yes", "2", "tru", "TRUE ", "-1"}
	case "int", "int64":
		return []string{"99999999999999999999", "-9223372036854775808", "-1", "0", "1e3", "0x", "1_000", "12x", "+", "١٢"}
	case "uint", "uint64":
		return []string{"-1", "18446744073709551616", "0", "1.0", "0b2", "+5"}
	case "float64":
		return []string{"NaN", "Inf", "-Inf", "1e999", "-0", "1e-999", "0x1p-2", "1,5", "."}
	case "duration":
		return []string{"1", "-5s", "1y", "9999999h", "1h-1m", "0", ".s", "1e3s", "5 s"}
	case "floatslice":
		return []string{"1,,x", ",", "NaN,Inf", "1e999", "1;2", " , , "}
	case "stringslice":
		return []string{",", " , ,", ",,a,,"}
	}
	return nil
}

func outcomeOf(res loadResult) int {
	switch {
	case res.panicked:
		return 3
	case res.err != nil:
		return 1
	}
	return 0
}

func genDegenerateCases(run *vh.Run, r *rand.Rand, opts []option) {
	childRuns := 0
	for oi, o := range opts {
		if o.Name == "cfg" || o.Name == "v" || o.Name == "version" || !isASCII(o.Name) || strings.ContainsAny(o.Name, "= \t") {
			continue
		}
		var values []string
		typed := degenerateTyped(o.Kind)
		switch {
		case run.Thorough():
			values = append(append(append(values, degenerateGeneric...), degenerateBytes...), typed...)
		case o.Kind == "string":
			values = append(values, degenerateGeneric...)
			values = append(values, degenerateBytes[oi%len(degenerateBytes)])
		default:
			values = append(values, "", " ", ";", `""`, degenerateBytes[oi%len(degenerateBytes)])
			for j := 0; j < 4 && j < len(typed); j++ {
				values = append(values, typed[(oi+j)%len(typed)])
			}
		}
		seen := map[string]bool{}
		for _, v := range values {
			if seen[v] {
				continue
			}
			seen[v] = true
			wf := wellFormed(o.Kind, v)
			var srcs, outs, eqs, coqArrs []string
			var sampleOuts []int
			var arrs []arrangement
			var first *loadResult
			anyPanic := ""
			for k := 1; k <= 4; k++ {
				a := arrangement{}
				place(r, &a, o, k, v)
				out := 0
				var res loadResult
				if k == 1 && !wf {
					// flag.ExitOnError: the process exits; observe it in a child
					code, panicked, text := runChild(append([]string{"fabio"}, a.Args...), nil)
					childRuns++
					switch {
					case panicked:
						out = 3
						anyPanic = text
					case code == 2:
						out = 2
					case code == 0 && strings.Contains(text, "C15-CHILD config"):
						out = 0
					case code == 0:
						out = 1
					default:
						out = 3
						anyPanic = fmt.Sprintf("child exit %d: %s", code, text)
					}
				} else {
					var ok bool
					res, ok = runLoad(a)
					if !ok {
						run.Exclude("degenerate value not expressible in the properties file syntax (source dropped from the case)")
						continue
					}
					out = outcomeOf(res)
					if res.panicked {
						anyPanic = fmt.Sprint(res.pval)
					}
				}
				eq := true
				if out == 0 && !(k == 1 && !wf) {
					if first == nil {
						cp := res
						first = &cp
					} else {
						eq = sameResult(*first, res)
					}
				}
				srcs = append(srcs, vh.N(k))
				outs = append(outs, vh.N(out))
				sampleOuts = append(sampleOuts, out)
				eqs = append(eqs, vh.Bool(eq))
				arrs = append(arrs, a)
				coqArrs = append(coqArrs, a.coq())
			}
			shown := v
			if len(shown) > 60 {
				shown = shown[:60] + fmt.Sprintf("...(%d bytes)", len(v))
			}
			class := "degenerate-" + o.Kind
			id := run.Add(class, vh.App("CDegenerate", vh.HxS(o.Name), vh.Bool(o.Kind == "bool"), vh.Bool(wf), vh.HxS(v), vh.List(srcs), vh.List(coqArrs), vh.List(outs), vh.List(eqs)),
				map[string]interface{}{"option": o.Name, "kind": o.Kind, "value": shown, "well_formed_for_type": wf, "sources": srcs, "outcomes(0 cfg,1 err,2 usage exit,3 panic)": sampleOuts, "equal_configs": eqs})
			_ = id
			_ = anyPanic
			if o.Name == "ui.addr" && utf8.ValidString(v) && len(v) <= 400 && len(sampleOuts) > 0 {
				run.Add("degenerate-ui-addr-block", vh.App("CUiAddr", runes([]rune(v)), vh.N(sampleOuts[0])), map[string]interface{}{"ui.addr": shown, "outcome": sampleOuts[0]})
			}
		}
	}
	run.Notes["degenerate_child_runs"] = childRuns
}

// ---------- kvslice ----------
var kvAlphabet = []rune("abAB01 \t=;,\"'\\\\nxu0_-.:/\u00e9\u00a0\u2003\u4e16")

func randKVString(r *rand.Rand) string {
	n := r.Intn(24)
	rs := make([]rune, n)
	for i := range rs {
		rs[i] = kvAlphabet[r.Intn(len(kvAlphabet))]
	}
	return string(rs)
}

func needsQuote(v string) bool { return strings.ContainsAny(v, ",;\"'") || !utf8.ValidString(v) }

func kvResult(in string) string {
	var maps []map[string]string
	var err error
	if p, _ := vh.Recover(func() { maps, err = config.VerifParseKVSlice(in) }); p {
		return "KPanic"
	}
	if err != nil {
		return vh.App("KErr", vh.HxS(err.Error()))
	}
	items := make([]string, len(maps))
	for i, m := range maps {
		items[i] = smap(m)
	}
	return vh.App("KOk", vh.List(items))
}

func genKVCases(run *vh.Run, r *rand.Rand) {
	keys := []string{"addr", "proto", "cs", "type", "cert", "rt", "wt", "hdr", "name", "file", "k1", "K.2", "x-y"}
	vals := []string{":9999", "https", "1.2.3.4:80", "3s", "a=b", "X-Hdr: v,w;z", `say "hi"`, "it's", `back\slash`, "", " padded ", "h\u00e9\u4e16", "tab\there", "line\nbreak", "\xff\xfe", "a,b;c=d"}
	// (a) generated from maps (round trip)
	for i := 0; i < run.Scale(250, 4000); i++ {
		nm := 1 + r.Intn(3)
		var maps []map[string]string
		var parts []string
		for j := 0; j < nm; j++ {
			m := map[string]string{}
			var kvs []string
			if r.Intn(3) == 0 { // legacy form: first value without key
				v := strings.TrimSpace(vals[r.Intn(len(vals))])
				if v != "" && utf8.ValidString(v) {
					m[""] = v
					if needsQuote(v) || strings.Contains(v, "=") {
						kvs = append(kvs, strconv.Quote(v))
					} else {
						kvs = append(kvs, []string{"", " "}[r.Intn(2)]+v+[]string{"", " "}[r.Intn(2)])
					}
				}
			}
			nk := r.Intn(4)
			if len(m) == 0 && nk == 0 {
				nk = 1
			}
			for added := 0; added < nk; {
				k := keys[r.Intn(len(keys))]
				if _, dup := m[k]; dup {
					continue
				}
				added++
				v := vals[r.Intn(len(vals))]
				if r.Intn(3) == 0 {
					v = randString(r)
				}
				m[k] = v
				enc := v
				if needsQuote(v) || r.Intn(5) == 0 {
					enc = strconv.Quote(v)
				}
				kvs = append(kvs, []string{"", " "}[r.Intn(2)]+k+[]string{"", " "}[r.Intn(2)]+"="+enc)
			}
			if len(m) == 0 {
				continue
			}
			maps = append(maps, m)
			sep := ";"
			if r.Intn(6) == 0 {
				sep = ";;"
			}
			parts = append(parts, strings.Join(kvs, sep))
		}
		in := strings.Join(parts, ",")
		if r.Intn(8) == 0 {
			in += []string{",", ";", ",;,"}[r.Intn(3)]
		}
		want := make([]string, len(maps))
		for j, m := range maps {
			want[j] = smap(m)
		}
		run.Add("kvslice-generated", vh.App("CKV", runes([]rune(in)), vh.Some(vh.List(want)), kvResult(in)),
			map[string]interface{}{"in": in, "maps": maps})
	}
	// (b) random and real-world-shaped strings
	shaped := []string{":9999", ":9999;proto=https;cs=a", "cs=a;type=file;cert=x;key=y,cs=b;type=path;cert=d", `cs=v;type=vault;cert=x;hdr="Auth: a,b"`, "a=b;c='d'", "a=;b", "=x", "a==b", "a=b=c", `a="b`, `a="b\`, `a="\q"`, `"k"=v`, `a="x"y`, `a='xy'`, `a=''`, "a;b;c", " ; , ", "a=b,,c=d", `a="\u00e9\xff\101"`, "'k'=v;x", `a=b"c"`, `a= "b"`}
	for i := 0; i < run.Scale(300, 6000); i++ {
		var in string
		if i < len(shaped) {
			in = shaped[i]
		} else if i%4 == 0 {
			in = shaped[r.Intn(len(shaped))]
			b := []rune(in)
			if len(b) > 0 {
				b[r.Intn(len(b))] = kvAlphabet[r.Intn(len(kvAlphabet))]
			}
			in = string(b)
		} else {
			in = randKVString(r)
		}
		run.Add("kvslice-random", vh.App("CKV", runes([]rune(in)), vh.None, kvResult(in)), map[string]interface{}{"in": in})
		if rs := []rune(in); len(rs) > 0 && i%2 == 0 {
			k := r.Intn(len(rs))
			typ, val, n := config.VerifLex(rs[k:])
			code := map[string]int{"TEXT": 0, "EQUAL": 1, "SEMICOLON": 2, "COMMA": 3, "ERROR": 4}[typ]
			if n < 0 {
				n = 0
			}
			run.Add("lex", vh.App("CLex", runes(rs[k:]), vh.N(code), vh.HxS(val), vh.N(n)), map[string]interface{}{"in": string(rs[k:]), "typ": typ, "val": val, "n": n})
		}
	}
	// (c) the library models
	esc := []string{`\n`, `\t`, `\\`, `\"`, `\'`, `\x41`, `\xff`, `\x4`, `\u00e9`, `\ud800`, `\U0001F600`, `\U00110000`, `\101`, `\400`, `\8`, `\q`, `\`, "a", "\u00e9", "\n", " ", `"`, `'`, "\u4e16"}
	for i := 0; i < run.Scale(220, 4000); i++ {
		q := []string{`"`, `'`}[r.Intn(2)]
		var sb strings.Builder
		sb.WriteString(q)
		for j := r.Intn(4); j > 0; j-- {
			sb.WriteString(esc[r.Intn(len(esc))])
		}
		switch r.Intn(8) {
		case 0:
		case 1:
			sb.WriteString(`"`)
		default:
			sb.WriteString(q)
		}
		if r.Intn(10) == 0 {
			sb.WriteString("x")
		}
		in := string([]rune(sb.String()))
		v, err := strconv.Unquote(in)
		impl := vh.None
		if err == nil {
			impl = vh.Some(vh.HxS(v))
		}
		run.Add("lib-unquote", vh.App("CUnquote", runes([]rune(in)), impl), map[string]interface{}{"in": in, "out": v, "err": fmt.Sprint(err)})
	}
	spaces := []string{" ", "\t", "\n", "\v", "\f", "\r", "\u0085", "\u00a0", "\u1680", "\u2000", "\u2003", "\u200a", "\u2028", "\u2029", "\u202f", "\u205f", "\u3000", "\u200b", "\xc2", "\x85", "\xa0", "\xe2\x80", "a", "\u00e9"}
	for i := 0; i < run.Scale(100, 1500); i++ {
		var sb strings.Builder
		for j := r.Intn(4); j > 0; j-- {
			sb.WriteString(spaces[r.Intn(len(spaces))])
		}
		sb.WriteString([]string{"", "x", "a b", "\u00e9"}[r.Intn(4)])
		for j := r.Intn(4); j > 0; j-- {
			sb.WriteString(spaces[r.Intn(len(spaces))])
		}
		in := sb.String()
		run.Add("lib-trimspace", vh.App("CTrim", vh.HxS(in), vh.HxS(strings.TrimSpace(in))), map[string]interface{}{"in": in})
	}
	for i := 0; i < run.Scale(40, 400); i++ {
		b := make([]byte, r.Intn(16))
		for j := range b {
			b[j] = byte(r.Intn(128))
		}
		in := string(b)
		run.Add("lib-toupper", vh.App("CUpper", vh.HxS(in), vh.HxS(strings.ToUpper(in))), map[string]interface{}{"in": in})
	}
	_ = time.Second
}

// ---------- enumerated options: proxy.strategy, proxy.matcher, ui.access ----------
// Every job is one config.Load in the driver /repo/verif_c15_test.go (package main, built with
// `go test -tags verif -c`), which then builds what main() builds from the returned
// configuration (newHTTPProxy, lookupHostFn, lookupHostMatcher, the gRPC interceptor, the admin
// server) and probes every consumer against a table with routes of 1, 2 and 3 targets.
// Values: the valid ones, their upper-case / capitalised / randomly cased spellings (from every
// source), near misses (blanks around, prefixes, longer words, empty, lists), and random
// combinations of the three options from several sources at once.
func caseVariants(r *rand.Rand, v string) []string {
	out := []string{strings.ToUpper(v), strings.ToUpper(v[:1]) + v[1:]}
	for tries := 0; tries < 20; tries++ {
		b := []byte(v)
		for i := range b {
			if r.Intn(2) == 0 && b[i] >= 'a' && b[i] <= 'z' {
				b[i] -= 32
			}
		}
		x := string(b)
		if x != v && x != out[0] && x != out[1] {
			return append(out, x)
		}
	}
	return out
}

func genEnumCases(run *vh.Run, repo string) {
	r := rand.New(rand.NewSource(run.Seed*7919 + 15))
	type enumOpt struct {
		o     option
		class string
		valid []string
		near  []string
	}
	eopts := []enumOpt{
		{option{Name: "proxy.strategy", Kind: "string"}, "strategy", []string{"rr", "rnd"},
			[]string{"", " rr", "rr ", "r", "rrr", "roundrobin", "random", "rr,rnd", "\uff52\uff52"}},
		{option{Name: "proxy.matcher", Kind: "string"}, "matcher", []string{"prefix", "glob", "iprefix"},
			[]string{"", "prefix ", " glob", "pre", "regex", "glob*", "prefix,glob", "\u0130prefix"}},
		{option{Name: "ui.access", Kind: "string"}, "access", []string{"ro", "rw"},
			[]string{"", "ro ", " rw", "r", "w", "rwx", "read-only", "ro,rw"}},
	}
	type job struct {
		class  string
		a      arrangement
		args   []string
		sample map[string]interface{}
	}
	var jobs []job
	add := func(class string, a arrangement, sample map[string]interface{}) {
		args, ok := buildArgs(a)
		if !ok {
			run.Exclude("value not expressible in the properties file syntax")
			return
		}
		sample["arrangement"] = a
		jobs = append(jobs, job{class, a, args, sample})
	}
	n := 0
	for _, eo := range eopts {
		var all []string
		for _, v := range eo.valid {
			all = append(all, v)
			all = append(all, caseVariants(r, v)...)
		}
		for _, v := range all {
			for k := 1; k <= 4; k++ {
				a := arrangement{}
				place(r, &a, eo.o, k, v)
				noise(r, &a)
				add("enum-load-then-serve-"+eo.class, a, map[string]interface{}{"option": eo.o.Name, "value": v, "source": k})
			}
		}
		for _, v := range eo.near {
			ks := []int{1 + n%4}
			if run.Thorough() {
				ks = []int{1, 2, 3, 4}
			}
			n++
			for _, k := range ks {
				a := arrangement{}
				place(r, &a, eo.o, k, v)
				add("enum-load-then-serve-"+eo.class, a, map[string]interface{}{"option": eo.o.Name, "value": v, "source": k})
			}
		}
	}
	// several options and several sources at once
	for i := 0; i < run.Scale(40, 300); i++ {
		a := arrangement{}
		given := map[string]interface{}{}
		for _, eo := range eopts {
			if r.Intn(5) < 2 {
				continue
			}
			pick := func() string {
				v := eo.valid[r.Intn(len(eo.valid))]
				if r.Intn(10) < 3 {
					cv := caseVariants(r, v)
					v = cv[r.Intn(len(cv))]
				}
				return v
			}
			k := 1 + r.Intn(4)
			v := pick()
			place(r, &a, eo.o, k, v)
			given[fmt.Sprintf("%s@%d", eo.o.Name, k)] = v
			if k2 := 1 + r.Intn(4); k2 != k && r.Intn(3) == 0 {
				v2 := pick()
				place(r, &a, eo.o, k2, v2)
				given[fmt.Sprintf("%s@%d", eo.o.Name, k2)] = v2
			}
		}
		noise(r, &a)
		add("enum-load-then-serve-combined", a, map[string]interface{}{"given": given})
	}

	// build and run the driver
	dir, err := os.MkdirTemp("", "c15enum")
	if err != nil {
		panic(err)
	}
	defer os.RemoveAll(dir)
	bin := filepath.Join(dir, "fabio.test")
	cmd := exec.Command("go", "test", "-tags", "verif", "-c", "-o", bin, ".")
	cmd.Dir = repo
	if out, err := cmd.CombinedOutput(); err != nil {
		run.Violation(run.NextID(), "cannot build the enumerated-options driver (go test -tags verif -c in "+repo+"): "+err.Error(), string(out))
		return
	}
	type jobIn struct{ Args, Env []string }
	in := make([]jobIn, len(jobs))
	for i, j := range jobs {
		in[i] = jobIn{j.args, j.a.Env}
		if in[i].Env == nil {
			in[i].Env = []string{}
		}
	}
	inF, outF := filepath.Join(dir, "in.json"), filepath.Join(dir, "out.json")
	b, _ := json.Marshal(in)
	os.WriteFile(inF, b, 0o644)
	c := exec.Command(bin, "-test.run", "TestVerifC15$", "-test.count=1", "-test.timeout=3m")
	c.Dir = repo
	c.Env = append(os.Environ(), "VERIF_C15_IN="+inF, "VERIF_C15_OUT="+outF)
	outb, rerr := c.CombinedOutput()
	var results []struct {
		Outcome                   int
		Err                       string
		Strategy, Matcher, Access string
		Probes                    []struct {
			Site       int
			Host, Path string
			Keys       [][]struct {
				Pfx, Glob, IPfx bool
				N               int
			}
			Out, Hi, Ri int
			Panic       string
		}
		AccessMode int
		Alternates *bool
	}
	ob, ferr := os.ReadFile(outF)
	if rerr != nil || ferr != nil || json.Unmarshal(ob, &results) != nil || len(results) != len(jobs) {
		tail := string(outb)
		if len(tail) > 1500 {
			tail = tail[len(tail)-1500:]
		}
		run.Violation(run.NextID(), "the enumerated-options driver (TestVerifC15 in package main) failed or died", tail)
		return
	}
	siteName := []string{"newHTTPProxy.Lookup", "lookupHostFn", "lookupHostMatcher", "grpc interceptor"}
	for i, j := range jobs {
		res := results[i]
		probes := make([]string, 0, len(res.Probes))
		var panics []string
		for _, p := range res.Probes {
			keys := make([]string, len(p.Keys))
			for ki, rts := range p.Keys {
				items := make([]string, len(rts))
				for ri, x := range rts {
					items[ri] = vh.App("rt", vh.Bool(x.Pfx), vh.Bool(x.Glob), vh.Bool(x.IPfx), vh.N(x.N))
				}
				keys[ki] = vh.List(items)
			}
			loc := vh.None
			if p.Out == 0 && (p.Site == 0 || p.Site == 1) {
				hi, ri := p.Hi, p.Ri
				if hi < 0 || ri < 0 {
					hi, ri = 999, 999 // a target of no route the lookup could have looked at
				}
				loc = vh.Some(vh.Pair(vh.N(hi), vh.N(ri)))
			}
			probes = append(probes, "("+strings.Join([]string{vh.N(p.Site), vh.List(keys), vh.N(p.Out), loc}, ", ")+")")
			if p.Out == 3 && p.Site >= 0 && p.Site < len(siteName) {
				panics = append(panics, fmt.Sprintf("%s host=%q path=%q: %s", siteName[p.Site], p.Host, p.Path, p.Panic))
			}
		}
		alt := vh.None
		if res.Alternates != nil {
			alt = vh.Some(vh.Bool(*res.Alternates))
		}
		j.sample["outcome(0 config,1 error,3 PANIC)"] = res.Outcome
		j.sample["err"] = res.Err
		j.sample["stored"] = []string{res.Strategy, res.Matcher, res.Access}
		j.sample["admin_mode(0 forbidden,1 served,2 not registered)"] = res.AccessMode
		if len(panics) > 0 {
			if len(panics) > 3 {
				panics = panics[:3]
			}
			j.sample["panics"] = panics
		}
		stored := "(" + vh.HxS(res.Strategy) + ", " + vh.HxS(res.Matcher) + ", " + vh.HxS(res.Access) + ")"
		run.Add(j.class, vh.App("CEnum", j.a.coq(), vh.N(res.Outcome), stored, vh.List(probes), vh.N(res.AccessMode), alt), j.sample)
	}
}
