package main

// Class real-main-consul-deregister: fabio's real main() as a process of its own (driver
// /repo/verif_c18_consul_test.go) with the CONSUL registry backend and self-registration on,
// against a consul agent that lives in THIS process.  The exit handler of main() begins with
// registry.Default.DeregisterAll(), which hands the request to the registration goroutine of
// registry/consul/register.go and waits for its acknowledgement; only then come the grace
// period and proxy.Shutdown(wait).  The scripts make the agent refuse the registration from the
// start, fail every call from some time on (before / after the registration goroutine has
// noticed), or hold the deregister call, and then send the signals; the rest is as in the
// real-main-signals class (requests in flight through the real listener to an upstream of the
// harness, later requests and connects, how and when the process ended).  Model:
// Model/ExitDeregister.v.  All random choices come from a source of their own.

import (
	"encoding/base64"
	"encoding/json"
	"fmt"
	"math/rand"
	"net/http"
	"net/http/httptest"
	"strconv"
	"strings"
	"sync"
	"time"

	"verifharness/internal/vh"
)

type consulPlan struct {
	RegRefused bool `json:"registration_refused"`   // the agent answers 500 to every registration, from the start
	DownAt     int  `json:"agent_down_at_ms"`       // every call fails from then on (script clock); -1 = never
	Noticed    bool `json:"down_noticed_by_fabio"`  // the agent goes down BEFORE the origin and the script starts once fabio's registration loop has been refused a registration
	HoldDereg  int  `json:"deregister_held_ms"`     // the agent holds the deregister call that long
	GraceMs    int  `json:"deregister_grace_ms"`    // -proxy.deregistergraceperiod
}

type fakeAgent struct {
	mu         sync.Mutex
	plan       consulPlan
	routes     string
	down       chan struct{}
	isDown     bool
	downTime   time.Time
	firstReg   time.Time
	failedRegs int // registrations refused after the agent went down
	services   map[string]string
	srv        *httptest.Server
}

func newFakeAgent(routes string, plan consulPlan) *fakeAgent {
	f := &fakeAgent{plan: plan, routes: routes, down: make(chan struct{}), services: map[string]string{}}
	f.srv = httptest.NewServer(http.HandlerFunc(f.handle))
	return f
}

func (f *fakeAgent) addr() string { return strings.TrimPrefix(f.srv.URL, "http://") }

func (f *fakeAgent) goDown() {
	f.mu.Lock()
	defer f.mu.Unlock()
	if !f.isDown {
		f.isDown = true
		f.downTime = time.Now()
		close(f.down)
	}
}

func (f *fakeAgent) close() {
	f.goDown() // releases the blocking queries
	f.srv.CloseClientConnections()
	f.srv.Close()
}

func (f *fakeAgent) state() (firstReg, downTime time.Time, failedRegs int) {
	f.mu.Lock()
	defer f.mu.Unlock()
	return f.firstReg, f.downTime, f.failedRegs
}

func (f *fakeAgent) handle(w http.ResponseWriter, r *http.Request) {
	p := r.URL.Path
	isReg := p == "/v1/agent/service/register"
	f.mu.Lock()
	if isReg && f.firstReg.IsZero() {
		f.firstReg = time.Now()
	}
	isDown := f.isDown
	if isDown && isReg {
		f.failedRegs++
	}
	f.mu.Unlock()
	if isDown {
		http.Error(w, "No cluster leader", http.StatusInternalServerError)
		return
	}
	hdr := func() {
		w.Header().Set("Content-Type", "application/json")
		w.Header().Set("X-Consul-Index", "1")
		w.Header().Set("X-Consul-KnownLeader", "true")
		w.Header().Set("X-Consul-LastContact", "0")
	}
	// blocking queries: nothing ever changes; held until the agent goes down or the client gives up
	block := func() bool {
		if idx := r.URL.Query().Get("index"); idx == "" || idx == "0" {
			return false
		}
		select {
		case <-f.down:
			http.Error(w, "No cluster leader", http.StatusInternalServerError)
		case <-r.Context().Done():
		}
		return true
	}
	switch {
	case p == "/v1/agent/self":
		hdr()
		fmt.Fprint(w, `{"Config":{"Datacenter":"dc1"}}`)
	case p == "/v1/agent/services":
		hdr()
		f.mu.Lock()
		var parts []string
		for id, name := range f.services {
			parts = append(parts, fmt.Sprintf(`%q:{"ID":%q,"Service":%q}`, id, id, name))
		}
		f.mu.Unlock()
		fmt.Fprint(w, "{"+strings.Join(parts, ",")+"}")
	case isReg:
		if f.plan.RegRefused {
			http.Error(w, "Permission denied", http.StatusForbidden)
			return
		}
		var reg struct{ ID, Name string }
		json.NewDecoder(r.Body).Decode(&reg)
		f.mu.Lock()
		f.services[reg.ID] = reg.Name
		f.mu.Unlock()
		hdr()
	case strings.HasPrefix(p, "/v1/agent/service/deregister/"):
		if f.plan.HoldDereg > 0 {
			time.Sleep(time.Duration(f.plan.HoldDereg) * time.Millisecond)
		}
		f.mu.Lock()
		delete(f.services, strings.TrimPrefix(p, "/v1/agent/service/deregister/"))
		f.mu.Unlock()
		hdr()
	case strings.HasPrefix(p, "/v1/agent/check/update/"):
		id := strings.TrimSuffix(strings.TrimPrefix(p, "/v1/agent/check/update/"), "-ttl")
		f.mu.Lock()
		_, known := f.services[id]
		f.mu.Unlock()
		if !known {
			http.Error(w, "Unknown check", http.StatusInternalServerError)
			return
		}
		hdr()
	case p == "/v1/health/state/any":
		if !block() {
			hdr()
			fmt.Fprint(w, `[]`)
		}
	case strings.HasPrefix(p, "/v1/kv/"):
		if block() {
			return
		}
		hdr()
		if strings.HasSuffix(strings.Trim(p, "/"), "fabio/config") {
			fmt.Fprintf(w, `[{"Key":"fabio/config","CreateIndex":1,"ModifyIndex":1,"LockIndex":0,"Flags":0,"Value":%q}]`,
				base64.StdEncoding.EncodeToString([]byte(f.routes)))
			return
		}
		w.WriteHeader(http.StatusNotFound)
	default:
		http.Error(w, "not implemented by the harness agent: "+p, http.StatusNotFound)
	}
}

// deregScripts builds the scripts of the class.
func deregScripts(seed int64, thorough bool) []sigScript {
	r := rand.New(rand.NewSource(seed*7927 + 181))
	w := sigWait
	short := func(begin, notBefore int) int { // an answer due >= 350 ms before the end of the wait
		lo := begin + 250
		if notBefore > lo {
			lo = notBefore
		}
		hi := begin + w - 350
		if lo > hi {
			lo = hi
		}
		return lo + r.Intn(hi-lo+1)
	}
	long := func(begin int) int { return begin + w + 400 + r.Intn(500) }
	t := func() int { return 200 + 10*r.Intn(11) }
	var scs []sigScript
	add := func(s sigScript, p consulPlan) {
		s.Wait = w
		pp := p
		s.Consul = &pp
		scs = append(scs, s)
	}
	never := consulPlan{DownAt: -1}
	refused := consulPlan{RegRefused: true, DownAt: -1}
	{ // the agent has refused the registration from the start (no permission): nothing to deregister
		t0 := t()
		add(sigScript{Name: "registration-refused-term", Sigs: []sigEvent{{t0, "TERM"}},
			Reqs:   []sigReq{{0, short(t0, 0)}, {0, long(t0)}, {t0 + 200, 100}},
			Probes: []int{t0 - 150, t0 + 150, t0 + w + 400}}, refused)
	}
	{ // a healthy agent
		t0 := t()
		add(sigScript{Name: "registered-term", Sigs: []sigEvent{{t0, "TERM"}},
			Reqs: []sigReq{{0, short(t0, 0)}, {0, -1}, {t0 + 200, 100}}, Probes: []int{t0 - 150, t0 + 150}}, never)
	}
	{ // the agent goes away shortly before the signal: the deregister call fails
		t0 := 400 + 10*r.Intn(11)
		p := never
		p.DownAt = t0 - 150 - 10*r.Intn(10)
		add(sigScript{Name: "agent-down-then-int", Sigs: []sigEvent{{t0, "INT"}},
			Reqs: []sigReq{{0, short(t0, 0)}, {0, long(t0)}}, Probes: []int{t0 - 150, t0 + 150}}, p)
	}
	{ // refused registration and a grace period, during which fabio deliberately serves on
		t0 := t()
		p := refused
		p.GraceMs = 300 + 10*r.Intn(11)
		b := t0 + p.GraceMs
		add(sigScript{Name: "registration-refused-grace", Sigs: []sigEvent{{t0, "TERM"}},
			Reqs:   []sigReq{{0, short(b, 0)}, {0, long(b)}, {t0 + 50, 100}, {b + 200, 100}},
			Probes: []int{t0 + 100, b + 150}}, p)
	}
	{ // a second terminating signal and a SIGHUP while / after the deregistration
		t0 := t()
		add(sigScript{Name: "registration-refused-term-hup-int", Sigs: []sigEvent{{100, "HUP"}, {t0, "TERM"}, {t0 + 150, "HUP"}, {t0 + 300, "INT"}},
			Reqs: []sigReq{{0, short(t0, t0+450)}, {0, -1}}, Probes: []int{t0 + 150, t0 + 450}}, refused)
	}
	{ // F-C18-4: the agent holds the deregister call
		t0 := t()
		p := never
		p.HoldDereg = 600 + 10*r.Intn(21)
		b := t0 + p.HoldDereg
		add(sigScript{Name: "deregister-held", Sigs: []sigEvent{{t0, "TERM"}},
			Reqs: []sigReq{{0, -1}, {0, short(b, 0)}}, Probes: []int{t0 + 200, b + 200}}, p)
	}
	n := 2
	if thorough {
		n = 8
	}
	kinds := []string{"HUP", "INT", "TERM"}
	for i := 0; i < n; i++ {
		var s sigScript
		s.Name = fmt.Sprintf("consul-random-%d", i)
		p := never
		switch r.Intn(3) {
		case 0:
			p.RegRefused = true
		case 1:
			p.HoldDereg = 20 + 10*r.Intn(5)
		}
		if r.Intn(3) == 0 {
			p.GraceMs = 200 + 10*r.Intn(20)
		}
		at := 100
		for k := r.Intn(2); k > 0; k-- {
			s.Sigs = append(s.Sigs, sigEvent{at, "HUP"})
			at += 120 + 10*r.Intn(10)
		}
		t0 := at + 150 + 10*r.Intn(20)
		s.Sigs = append(s.Sigs, sigEvent{t0, kinds[1+r.Intn(2)]})
		if r.Intn(2) == 0 {
			p.DownAt = t0 - 160 - 10*r.Intn(10)
			if p.DownAt < 0 {
				p.DownAt = 0
			}
		}
		at = t0
		for k := r.Intn(3); k > 0; k-- {
			at += 120 + 10*r.Intn(12)
			s.Sigs = append(s.Sigs, sigEvent{at, kinds[r.Intn(3)]})
		}
		b := t0 + p.HoldDereg + p.GraceMs
		s.Reqs = append(s.Reqs, sigReq{0, short(b, 0)})
		switch r.Intn(3) {
		case 0:
			s.Reqs = append(s.Reqs, sigReq{0, long(b)})
		case 1:
			s.Reqs = append(s.Reqs, sigReq{0, -1})
		}
		s.Reqs = append(s.Reqs, sigReq{b + 150 + 10*r.Intn(30), 100})
		s.Probes = []int{b + 150 + 10*r.Intn(50)}
		add(s, p)
	}
	if thorough {
		// the agent goes away and fabio's registration loop notices it (at its next TTL refresh,
		// <= 10 s) before the signal comes; once registered, once never registered
		for _, p := range []consulPlan{{DownAt: -1, Noticed: true}, {RegRefused: true, DownAt: -1, Noticed: true}} {
			t0 := t()
			add(sigScript{Name: "agent-down-noticed-term", Sigs: []sigEvent{{t0, "TERM"}},
				Reqs: []sigReq{{0, short(t0, 0)}, {0, long(t0)}}, Probes: []int{t0 - 150, t0 + 150}}, p)
		}
	}
	return scs
}

// startDeregClass runs the scripts in the background, one process each (same driver binary as
// the real-main-signals class: package main's test binary).
func startDeregClass(seed int64, thorough bool, sig *sigRun) *sigRun {
	sr := &sigRun{scs: deregScripts(seed, thorough), done: make(chan struct{}), class: "real-main-consul-deregister"}
	sr.res = make([]sigResult, len(sr.scs))
	sr.errs = make([]error, len(sr.scs))
	sig.keep.Add(1)
	go func() {
		defer sig.keep.Done()
		defer close(sr.done)
		<-sig.built
		sr.repo, sr.buildErr = sig.repo, sig.buildErr
		if sr.buildErr != nil {
			return
		}
		sem := make(chan struct{}, 5)
		var wg sync.WaitGroup
		for i := range sr.scs {
			wg.Add(1)
			go func(i int) {
				defer wg.Done()
				sem <- struct{}{}
				defer func() { <-sem }()
				for try := 0; try < 3; try++ {
					sr.res[i], sr.errs[i] = runSigScript(sig.bin, sig.repo, sig.dir, 5000+i*10+try, sr.scs[i])
					if sr.errs[i] == nil {
						return
					}
				}
			}(i)
		}
		wg.Wait()
	}()
	return sr
}

// deregTerm is the CDereg case of one script.
func deregTerm(sc sigScript, res sigResult, ss, qs, ps, x, os_, acc string) string {
	p := sc.Consul
	down := "None"
	if res.DownModel >= 0 {
		down = "(Some " + strconv.Itoa(res.DownModel) + ")"
	}
	return vh.App("CDereg", strconv.Itoa(sc.Wait), strconv.Itoa(p.GraceMs), strconv.Itoa(res.Boot),
		vh.Bool(p.RegRefused), down, strconv.Itoa(p.HoldDereg), ss, qs, ps, x, os_, acc,
		strconv.Itoa(lowerTol), strconv.Itoa(sigUpperTol))
}
