package main

// Class real-main-signals: fabio's real main() as a process of its own (driver
// /repo/verif_c18_test.go, built once with `go test -tags verif -c`), with the static
// registry backend, one route to an upstream that lives in THIS process and
// -proxy.shutdownwait = 1 s.  One process per script; a script is a list of real
// signals (SIGHUP / SIGINT / SIGTERM) sent to the process at given offsets, requests
// that are in flight across them (each on a connection of its own; the upstream
// answers at a given time), requests and plain connects attempted later.  Observed:
// how the process ended (main() returned / ended by a signal / still running) and
// when, what the client of every request saw (complete answer / connection ended
// without it / connect refused / still open) and when, which connects succeeded.
// exit.Listen and the exit handler registered in main() (main.go:123-133) are
// therefore inside the correspondence, with the model of Model/ExitSignals.v.

import (
	"bytes"
	"context"
	"encoding/json"
	"errors"
	"fmt"
	"io"
	"math/rand"
	"net"
	"net/http"
	"net/http/httptest"
	"os"
	"os/exec"
	"path/filepath"
	"sort"
	"strconv"
	"strings"
	"sync"
	"sync/atomic"
	"syscall"
	"time"

	"verifharness/internal/vh"
)

const (
	sigWait     = 1000 // -proxy.shutdownwait of the real-main scripts, ms
	sigUpperTol = 400  // a process, signals and its exit are in the measured path
)

type sigEvent struct {
	At  int    `json:"at_ms"`
	Sig string `json:"sig"` // HUP INT TERM
}

type sigReq struct {
	Start int `json:"start_ms"` // 0 = in flight when the script starts
	Dur   int `json:"dur_ms"`   // the upstream answers Dur ms after Start; -1 = never
}

type sigScript struct {
	Name   string     `json:"name"`
	Wait   int        `json:"wait_ms"`
	Sigs   []sigEvent `json:"signals"`
	Reqs   []sigReq   `json:"requests"`
	Probes []int      `json:"connects_at_ms"`
	// class real-main-consul-deregister only (deregister.go): the consul backend against an agent of the harness
	Consul *consulPlan `json:"consul_agent,omitempty"`
}

type sigObs struct {
	K string `json:"k"` // served cut refused open
	T int    `json:"t"`
}

type sigResult struct {
	Exit     string   `json:"exit"` // clean killed running
	ExitAt   int      `json:"exit_ms"`
	ExitNote string   `json:"exit_note,omitempty"`
	Reqs     []sigObs `json:"requests"`
	Probes   []bool   `json:"connects_accepted"` // per probe time: proxy listener, then ui listener
	Log      string   `json:"log_tail,omitempty"`
	// consul scripts: the origin on the clock of the registration goroutine (ms since its first
	// registration call), and when the agent went down on that clock (-1: it did not)
	Boot      int `json:"boot_ms,omitempty"`
	DownModel int `json:"agent_down_boot_clock_ms,omitempty"`
}

func (s sigScript) firstTerm() int {
	for _, e := range s.Sigs {
		if e.Sig != "HUP" {
			return e.At
		}
	}
	return -1
}

// sigScripts builds the scripts: directed ones for every branch of exit.Listen's loop and of the
// drain, then random ones.  All random choices come from a source of their own.
func sigScripts(seed int64, thorough bool) []sigScript {
	r := rand.New(rand.NewSource(seed*7919 + 18))
	w := sigWait
	// an answer that is due at least 350 ms before the end of the wait / at least 400 ms beyond it
	short := func(t0, notBefore int) int {
		lo := t0 + 250
		if notBefore > lo {
			lo = notBefore
		}
		hi := t0 + w - 350
		if lo > hi {
			lo = hi
		}
		return lo + r.Intn(hi-lo+1)
	}
	long := func(t0 int) int { return t0 + w + 400 + r.Intn(500) }
	t := func() int { return 200 + 10*r.Intn(11) } // 200..300
	var scs []sigScript
	add := func(s sigScript) {
		s.Wait = w
		scs = append(scs, s)
	}
	{
		t0 := t()
		add(sigScript{Name: "term-alone", Sigs: []sigEvent{{t0, "TERM"}},
			Reqs:   []sigReq{{0, short(t0, 0)}, {0, long(t0)}, {t0 + 200, 100}},
			Probes: []int{t0 - 150, t0 + 150, t0 + w + 400}})
	}
	{
		t0 := 600 + 10*r.Intn(11)
		add(sigScript{Name: "hup-hup-term", Sigs: []sigEvent{{100, "HUP"}, {250, "HUP"}, {t0, "TERM"}},
			Reqs:   []sigReq{{0, short(t0, 0)}, {320, 100}, {380, short(t0, 0) - 380}, {t0 + 150, 100}},
			Probes: []int{400, t0 + 150}})
	}
	for _, second := range []string{"HUP", "TERM", "INT"} {
		t0 := t()
		at := t0 + 200 + 10*r.Intn(11)
		add(sigScript{Name: "term-then-" + strings.ToLower(second), Sigs: []sigEvent{{t0, "TERM"}, {at, second}},
			Reqs:   []sigReq{{0, short(t0, at+150)}, {0, short(t0, at+150)}, {at + 150, 100}},
			Probes: []int{t0 + 150, at + 150}})
	}
	{
		t0 := t()
		at := t0 + 250
		add(sigScript{Name: "int-then-hup", Sigs: []sigEvent{{t0, "INT"}, {at, "HUP"}},
			Reqs: []sigReq{{0, short(t0, at+150)}, {0, -1}}, Probes: []int{t0 + 150}})
	}
	{
		t0 := t()
		add(sigScript{Name: "int-alone", Sigs: []sigEvent{{t0, "INT"}},
			Reqs: []sigReq{{0, short(t0, 0)}, {0, -1}}, Probes: []int{t0 - 150, t0 + 150}})
	}
	{
		t0 := t()
		add(sigScript{Name: "int-then-many", Sigs: []sigEvent{{t0, "INT"}, {t0 + 100, "HUP"}, {t0 + 200, "TERM"}, {t0 + 300, "HUP"}, {t0 + 400, "INT"}},
			Reqs: []sigReq{{0, short(t0, t0+550)}, {0, long(t0)}}, Probes: []int{t0 + 250, t0 + 450}})
	}
	add(sigScript{Name: "hup-only", Sigs: []sigEvent{{100, "HUP"}, {300, "HUP"}, {500, "HUP"}},
		Reqs: []sigReq{{0, 650 + r.Intn(100)}, {0, -1}, {350, 100}, {550, 150}}, Probes: []int{200, 600}})
	{
		t0 := t()
		add(sigScript{Name: "work-beyond-wait", Sigs: []sigEvent{{t0, "TERM"}},
			Reqs: []sigReq{{0, long(t0)}, {0, -1}}, Probes: []int{t0 + 150, t0 + w - 150}})
	}
	{
		t0 := t()
		add(sigScript{Name: "idle-term", Sigs: []sigEvent{{t0, "TERM"}}, Probes: []int{t0 - 150, t0 + 150}})
	}
	kinds := []string{"HUP", "INT", "TERM"}
	n := 4
	if thorough {
		n = 16
	}
	for i := 0; i < n; i++ {
		var s sigScript
		s.Name = fmt.Sprintf("random-%d", i)
		at := 100
		for k := r.Intn(3); k > 0; k-- {
			s.Sigs = append(s.Sigs, sigEvent{at, "HUP"})
			at += 120 + 10*r.Intn(10)
		}
		t0 := at + 100 + 10*r.Intn(20)
		s.Sigs = append(s.Sigs, sigEvent{t0, kinds[1+r.Intn(2)]})
		at = t0
		for k := 1 + r.Intn(3); k > 0; k-- {
			at += 120 + 10*r.Intn(12)
			s.Sigs = append(s.Sigs, sigEvent{at, kinds[r.Intn(3)]})
		}
		// at <= t0 + 3*230 = t0 + 690 > t0 + wait - 350: the last signals may come after the short answers
		s.Reqs = append(s.Reqs, sigReq{0, short(t0, t0+400)})
		for k := r.Intn(3); k > 0; k-- {
			switch r.Intn(3) {
			case 0:
				s.Reqs = append(s.Reqs, sigReq{0, short(t0, 0)})
			case 1:
				s.Reqs = append(s.Reqs, sigReq{0, long(t0)})
			default:
				s.Reqs = append(s.Reqs, sigReq{0, -1})
			}
		}
		s.Reqs = append(s.Reqs, sigReq{t0 + 150 + 10*r.Intn(30), 100})
		s.Probes = []int{t0 + 150 + 10*r.Intn(50)}
		add(s)
	}
	return scs
}

var sigNum = map[string]syscall.Signal{"HUP": syscall.SIGHUP, "INT": syscall.SIGINT, "TERM": syscall.SIGTERM}

// buildSigDriver compiles package main of the repository under test with the verif drivers.
func buildSigDriver(dir string) (bin, repo string, err error) {
	repo = os.Getenv("VERIF_REPO")
	if repo == "" {
		repo = "/repo"
	}
	bin = filepath.Join(dir, "fabio-c18.test")
	cmd := exec.Command("go", "test", "-tags", "verif", "-c", "-o", bin, ".")
	cmd.Dir = repo
	if out, e := cmd.CombinedOutput(); e != nil {
		return "", repo, fmt.Errorf("%v: %s", e, tail(string(out)))
	}
	return bin, repo, nil
}

// runSigScript runs one script against one fabio process.  An error means the script could not
// be set up (no verdict); everything the process does after it reported ready is an observation.
func runSigScript(bin, repo, dir string, idx int, sc sigScript) (res sigResult, err error) {
	start := make(chan struct{})   // closed at the origin
	release := make(chan struct{}) // closed at teardown
	var origin time.Time
	var arrived int32
	inFlight := 0
	for _, q := range sc.Reqs {
		if q.Start == 0 {
			inFlight++
		}
	}
	up := httptest.NewServer(http.HandlerFunc(func(w http.ResponseWriter, r *http.Request) {
		// /o/<i>/<ms>: in flight at the origin, answered ms after it; /l/<i>/<ms>: answered ms after arrival
		p := strings.Split(strings.Trim(r.URL.Path, "/"), "/")
		if len(p) != 3 {
			w.WriteHeader(404)
			return
		}
		ms, _ := strconv.Atoi(p[2])
		var until <-chan time.Time
		if p[0] == "o" {
			atomic.AddInt32(&arrived, 1)
			select {
			case <-start:
			case <-release:
				return
			}
			if ms >= 0 {
				until = time.After(time.Until(origin.Add(time.Duration(ms) * time.Millisecond)))
			}
		} else if ms >= 0 {
			until = time.After(time.Duration(ms) * time.Millisecond)
		}
		select {
		case <-until:
			io.WriteString(w, "answer-"+p[1])
		case <-release:
		case <-r.Context().Done():
		}
	}))
	defer func() {
		up.CloseClientConnections()
		up.Close()
	}()

	inF := filepath.Join(dir, fmt.Sprintf("sig%d.in", idx))
	readyF := filepath.Join(dir, fmt.Sprintf("sig%d.ready", idx))
	doneF := filepath.Join(dir, fmt.Sprintf("sig%d.done", idx))
	os.Remove(readyF)
	os.Remove(doneF)
	routes := "route add svc / " + up.URL + "/\n"
	b, _ := json.Marshal(map[string]interface{}{"Routes": routes, "WaitMs": sc.Wait, "Ready": readyF, "Done": doneF})
	testName, envName := "TestVerifC18$", "VERIF_C18_IN"
	var agent *fakeAgent
	res.DownModel = -1
	if sc.Consul != nil {
		agent = newFakeAgent(routes, *sc.Consul)
		defer agent.close()
		b, _ = json.Marshal(map[string]interface{}{"Consul": agent.addr(), "WaitMs": sc.Wait, "GraceMs": sc.Consul.GraceMs, "Ready": readyF, "Done": doneF})
		testName, envName = "TestVerifC18Consul$", "VERIF_C18_CONSUL_IN"
	}
	if err := os.WriteFile(inF, b, 0o644); err != nil {
		return res, err
	}
	cmd := exec.Command(bin, "-test.run", testName, "-test.count=1", "-test.timeout=2m")
	cmd.Dir = repo
	cmd.Env = append(os.Environ(), envName+"="+inF)
	var logb bytes.Buffer
	cmd.Stdout, cmd.Stderr = &logb, &logb
	if err := cmd.Start(); err != nil {
		return res, err
	}
	ended := make(chan struct{})
	var endAt time.Time
	var waitErr error
	go func() {
		waitErr = cmd.Wait()
		endAt = time.Now()
		close(ended)
	}()
	kill := func() {
		cmd.Process.Kill()
		<-ended
	}
	var ready struct {
		Pid       int
		Proxy, UI string
	}
	for deadline := time.Now().Add(30 * time.Second); ; {
		if rb, e := os.ReadFile(readyF); e == nil && json.Unmarshal(rb, &ready) == nil && ready.Pid != 0 {
			break
		}
		select {
		case <-ended:
			return res, fmt.Errorf("the fabio process ended before its listeners were up: %v: %s", waitErr, tail(logb.String()))
		default:
		}
		if time.Now().After(deadline) {
			kill()
			return res, fmt.Errorf("the fabio process did not report its listeners within 30 s: %s", tail(logb.String()))
		}
		time.Sleep(10 * time.Millisecond)
	}

	if agent != nil {
		// the manual route to the upstream comes through the agent's KV store and may arrive a
		// moment after the listeners: wait until the proxy routes
		routed := false
		for deadline := time.Now().Add(10 * time.Second); !routed && time.Now().Before(deadline); {
			resp, e := (&http.Client{Timeout: 2 * time.Second, Transport: &http.Transport{DisableKeepAlives: true}}).Get("http://" + ready.Proxy + "/l/warmup/0")
			if e == nil {
				routed = resp.StatusCode == 200
				resp.Body.Close()
			}
			if !routed {
				time.Sleep(20 * time.Millisecond)
			}
		}
		if first, _, _ := agent.state(); !routed || first.IsZero() {
			kill()
			return res, fmt.Errorf("fabio with the consul backend did not route to the upstream / did not try to register (routed %v): %s", routed, tail(logb.String()))
		}
		if sc.Consul.Noticed {
			agent.goDown()
			for deadline := time.Now().Add(25 * time.Second); ; {
				if _, _, failed := agent.state(); failed > 0 {
					break
				}
				if time.Now().After(deadline) {
					kill()
					return res, fmt.Errorf("fabio's registration loop did not try to register again within 25 s after the agent went down: %s", tail(logb.String()))
				}
				time.Sleep(50 * time.Millisecond)
			}
			time.Sleep(300 * time.Millisecond)
		}
	}

	// the clients
	obs := make([]sigObs, len(sc.Reqs))
	for i := range obs {
		obs[i].K = "open"
	}
	var mu sync.Mutex
	ctx, cancel := context.WithCancel(context.Background())
	defer cancel()
	since := func() int { return int(time.Since(origin) / time.Millisecond) }
	doReq := func(i int, path string) {
		var connected atomic.Bool
		tr := &http.Transport{DisableKeepAlives: true, DialContext: func(ctx context.Context, network, addr string) (net.Conn, error) {
			c, err := (&net.Dialer{Timeout: 2 * time.Second}).DialContext(ctx, network, addr)
			if err == nil {
				connected.Store(true)
			}
			return c, err
		}}
		defer tr.CloseIdleConnections()
		req, _ := http.NewRequestWithContext(ctx, "GET", "http://"+ready.Proxy+path, nil)
		resp, err := tr.RoundTrip(req)
		var body []byte
		if err == nil {
			body, err = io.ReadAll(resp.Body)
			resp.Body.Close()
		}
		if ctx.Err() != nil {
			return // torn down: stays open
		}
		o := sigObs{T: since()}
		switch {
		case err == nil && resp.StatusCode == 200 && string(body) == "answer-"+strconv.Itoa(i):
			o.K = "served"
		case !connected.Load() && errors.Is(err, syscall.ECONNREFUSED):
			o.K = "refused"
		case !connected.Load():
			o.K = "dial-error: " + err.Error()
		default:
			o.K = "cut"
		}
		mu.Lock()
		obs[i] = o
		mu.Unlock()
	}
	var clients sync.WaitGroup
	for i, q := range sc.Reqs {
		if q.Start == 0 {
			clients.Add(1)
			go func(i int, q sigReq) {
				defer clients.Done()
				doReq(i, fmt.Sprintf("/o/%d/%d", i, q.Dur))
			}(i, q)
		}
	}
	for deadline := time.Now().Add(10 * time.Second); int(atomic.LoadInt32(&arrived)) < inFlight; {
		if time.Now().After(deadline) {
			cancel()
			close(release)
			kill()
			return res, fmt.Errorf("only %d of %d requests reached the upstream through the proxy: %s", atomic.LoadInt32(&arrived), inFlight, tail(logb.String()))
		}
		time.Sleep(2 * time.Millisecond)
	}
	origin = time.Now()
	close(start)

	at := func(ms int) { time.Sleep(time.Until(origin.Add(time.Duration(ms) * time.Millisecond))) }
	last := 0
	extra := 0 // consul scripts: what the agent and the grace period add before the drain begins
	if agent != nil {
		first, downTime, _ := agent.state()
		res.Boot = int(origin.Sub(first) / time.Millisecond)
		if sc.Consul.Noticed {
			res.DownModel = max0(int(downTime.Sub(first) / time.Millisecond))
		} else if sc.Consul.DownAt >= 0 {
			res.DownModel = res.Boot + sc.Consul.DownAt
			go func() {
				at(sc.Consul.DownAt)
				agent.goDown()
			}()
		}
		extra = sc.Consul.HoldDereg + sc.Consul.GraceMs
	}
	for _, e := range sc.Sigs {
		if e.At > last {
			last = e.At
		}
		go func(e sigEvent) {
			at(e.At)
			syscall.Kill(ready.Pid, sigNum[e.Sig])
		}(e)
	}
	for i, q := range sc.Reqs {
		if end := q.Start + q.Dur; q.Dur >= 0 && end > last {
			last = end
		}
		if q.Start > 0 {
			if q.Start > last {
				last = q.Start
			}
			clients.Add(1)
			go func(i int, q sigReq) {
				defer clients.Done()
				at(q.Start)
				doReq(i, fmt.Sprintf("/l/%d/%d", i, q.Dur))
			}(i, q)
		}
	}
	probes := make([]bool, 2*len(sc.Probes))
	var pwg sync.WaitGroup
	for i, p := range sc.Probes {
		if p > last {
			last = p
		}
		for j, a := range []string{ready.Proxy, ready.UI} {
			pwg.Add(1)
			go func(k, p int, a string) {
				defer pwg.Done()
				at(p)
				c, err := net.DialTimeout("tcp", a, 2*time.Second)
				if err == nil {
					c.Close()
					probes[k] = true
				}
			}(2*i+j, p, a)
		}
	}

	// the end of the script
	t0 := sc.firstTerm()
	if t0 >= 0 {
		capAt := t0 + extra + sc.Wait + 4000
		if last+400 > capAt {
			capAt = last + 400
		}
		select {
		case <-ended:
			if rest := time.Until(origin.Add(time.Duration(last+200) * time.Millisecond)); rest > 0 {
				time.Sleep(rest) // the late requests and connects of the script
			}
		case <-time.After(time.Until(origin.Add(time.Duration(capAt) * time.Millisecond))):
		}
	} else {
		at(last + 400)
	}
	select {
	case <-ended:
		res.ExitAt = int(endAt.Sub(origin) / time.Millisecond)
		ws, _ := cmd.ProcessState.Sys().(syscall.WaitStatus)
		_, derr := os.Stat(doneF)
		switch {
		case ws.Signaled():
			res.Exit, res.ExitNote = "killed", ws.Signal().String()
		case ws.Exited() && ws.ExitStatus() == 0 && derr == nil:
			res.Exit = "clean"
		default:
			res.Exit, res.ExitNote = "failed", fmt.Sprintf("%v, main() returned: %v", waitErr, derr == nil)
		}
		time.Sleep(250 * time.Millisecond) // the clients notice
	default:
		res.Exit = "running"
	}
	pwg.Wait()
	mu.Lock()
	res.Reqs = append([]sigObs{}, obs...)
	mu.Unlock()
	res.Probes = probes
	cancel()
	close(release)
	if res.Exit == "running" {
		kill()
	}
	clients.Wait()
	res.Log = tail(logb.String())
	if res.Exit == "failed" && strings.Contains(logb.String(), "address already in use") {
		// the driver picks its two free ports before fabio binds them: another process of this run took one
		// in between, fabio's own exit.Fatal ended the process.  No verdict: the script is run again.
		return res, fmt.Errorf("a listen address picked for fabio was taken by another process before fabio bound it: %s", res.Log)
	}
	for _, o := range res.Reqs {
		if strings.HasPrefix(o.K, "dial-error") {
			return res, fmt.Errorf("a client could not connect for another reason than a refused connection: %s", o.K)
		}
	}
	return res, nil
}

type sigRun struct {
	class    string
	bin, dir string
	built    chan struct{}  // closed when the driver binary is there (or could not be built)
	keep     sync.WaitGroup // other classes that still use the binary
	scs      []sigScript
	res      []sigResult
	errs     []error
	buildErr error
	repo     string
	done     chan struct{}
}

// startSigClass builds the driver and runs all scripts in the background, one process each.
func startSigClass(seed int64, thorough bool) *sigRun {
	sr := &sigRun{scs: sigScripts(seed, thorough), done: make(chan struct{}), built: make(chan struct{}), class: "real-main-signals"}
	sr.res = make([]sigResult, len(sr.scs))
	sr.errs = make([]error, len(sr.scs))
	go func() {
		dir, err := os.MkdirTemp("", "c18sig")
		if err != nil {
			sr.buildErr = err
			close(sr.built)
			close(sr.done)
			return
		}
		defer func() {
			sr.keep.Wait()
			os.RemoveAll(dir)
		}()
		defer close(sr.done)
		bin, repo, err := buildSigDriver(dir)
		sr.repo, sr.bin, sr.dir = repo, bin, dir
		if err != nil {
			sr.buildErr = err
			close(sr.built)
			return
		}
		close(sr.built)
		sem := make(chan struct{}, 8)
		var wg sync.WaitGroup
		for i := range sr.scs {
			wg.Add(1)
			go func(i int) {
				defer wg.Done()
				sem <- struct{}{}
				defer func() { <-sem }()
				for try := 0; try < 3; try++ {
					sr.res[i], sr.errs[i] = runSigScript(bin, repo, dir, i*10+try, sr.scs[i])
					if sr.errs[i] == nil {
						return
					}
				}
			}(i)
		}
		wg.Wait()
	}()
	return sr
}

func coqSig(s string) string { return map[string]string{"HUP": "SHup", "INT": "SInt", "TERM": "STerm"}[s] }

// finish turns every script into one CSig case.
func (sr *sigRun) finish(run *vh.Run) {
	<-sr.done
	if sr.buildErr != nil && sr.class != "real-main-signals" {
		return // reported by the class that builds the driver
	}
	if sr.buildErr != nil {
		run.Violation(run.NextID(), "cannot build the real-main driver (go test -tags verif -c in "+sr.repo+"): "+sr.buildErr.Error(), nil)
		return
	}
	for i, sc := range sr.scs {
		res := sr.res[i]
		if sr.errs[i] != nil {
			run.Violation(run.NextID(), "script "+sc.Name+" of fabio's real main() could not be set up three times (harness problem, no verdict): "+sr.errs[i].Error(), sc)
			continue
		}
		sigs := append([]sigEvent{}, sc.Sigs...)
		sort.SliceStable(sigs, func(a, b int) bool { return sigs[a].At < sigs[b].At })
		var ss, qs, ps, os_, acc []string
		for _, e := range sigs {
			ss = append(ss, vh.Pair(strconv.Itoa(e.At), coqSig(e.Sig)))
		}
		for k, q := range sc.Reqs {
			end := "Inf"
			if q.Dur >= 0 {
				end = "(Fin " + strconv.Itoa(q.Start+q.Dur) + ")"
			}
			qs = append(qs, "{| q_start := "+strconv.Itoa(q.Start)+"; q_end := "+end+" |}")
			o := res.Reqs[k]
			switch o.K {
			case "served":
				os_ = append(os_, "(PServed "+strconv.Itoa(max0(o.T))+")")
			case "cut":
				os_ = append(os_, "(PCutAt "+strconv.Itoa(max0(o.T))+")")
			case "refused":
				os_ = append(os_, "PRefused")
			default:
				os_ = append(os_, "POpen")
			}
		}
		// every connect time twice: the proxy listener, then the ui listener
		for k, p := range sc.Probes {
			ps = append(ps, strconv.Itoa(p), strconv.Itoa(p))
			acc = append(acc, vh.Bool(res.Probes[2*k]), vh.Bool(res.Probes[2*k+1]))
		}
		x := "XRunning"
		switch res.Exit {
		case "clean":
			x = "(XClean " + strconv.Itoa(max0(res.ExitAt)) + ")"
		case "killed":
			x = "(XKilled " + strconv.Itoa(max0(res.ExitAt)) + ")"
		}
		term := vh.App("CSig", strconv.Itoa(sc.Wait), vh.List(ss), vh.List(qs), vh.List(ps), x, vh.List(os_), vh.List(acc),
			strconv.Itoa(lowerTol), strconv.Itoa(sigUpperTol))
		if sc.Consul != nil {
			term = deregTerm(sc, res, vh.List(ss), vh.List(qs), vh.List(ps), x, vh.List(os_), vh.List(acc))
		}
		id := run.Add(sr.class, term, map[string]interface{}{"script": sc, "observed": res})
		if res.Exit == "failed" {
			run.Violation(id, "fabio's real main() did not end by returning nor by a signal in script "+sc.Name+": "+res.ExitNote, sc)
		}
	}
}
