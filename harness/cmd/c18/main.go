// Command c18 is the correspondence harness for property C18 (shutdown drains
// in-flight work and completes within the configured wait).
//
// Every scenario runs in a child process of its own (the registry of running
// servers in package proxy is package-level state, and a scenario whose
// Shutdown hangs leaks goroutines): the child starts the REAL listeners with
// proxy.ListenAndServeHTTP / ListenAndServeTCP (tcp.Proxy, tcp.SNIProxy,
// tcp.DynamicProxy handlers) / ListenAndServeGRPC (the option set main.go
// builds: transparent handler, director, interceptor, stats handler) /
// ListenAndServeHTTPSTCPSNI on loopback ports, puts requests, tunnels and
// streams in flight whose remaining duration is controlled by loopback
// backends, calls the real proxy.Shutdown(wait) and reports
//   - the wall-clock duration of proxy.Shutdown (or that it did not return
//     within the hang cap),
//   - for every listener whether a connect 70 ms after shutdown began, and
//     one right after it returned, was still accepted,
//   - for every in-flight item: completed normally / cut by the proxy / still
//     open, with the time.
// The parent turns each child result into one Coq case.
package main

import (
	"bytes"
	"context"
	"crypto/ecdsa"
	"crypto/elliptic"
	"crypto/rand"
	"crypto/tls"
	"crypto/x509"
	"crypto/x509/pkix"
	"encoding/json"
	"fmt"
	"io"
	"log"
	"math/big"
	"net"
	"net/http"
	"net/http/httptest"
	"os"
	"os/exec"
	"reflect"
	"regexp"
	"strconv"
	"strings"
	"sync"
	"sync/atomic"
	"syscall"
	"time"

	"github.com/fabiolb/fabio/config"
	"github.com/fabiolb/fabio/proxy"
	"github.com/fabiolb/fabio/proxy/tcp"
	"github.com/fabiolb/fabio/route"
	"github.com/go-kit/kit/metrics/discard"
	grpc_proxy "github.com/mwitkow/grpc-proxy/proxy"
	"google.golang.org/grpc"
	"google.golang.org/grpc/credentials/insecure"
	healthpb "google.golang.org/grpc/health/grpc_health_v1"
	"google.golang.org/grpc/metadata"

	"verifharness/internal/vh"
)

const preamble = `From Coq Require Import List NArith Bool.
From Fabio Require Import Lib.Verdict Model.Shutdown Check.C18.
Import ListNotations.
Local Open Scope N_scope.
`

const (
	never    = -1 // duration of an item that never ends
	probeAt  = 150 // ms after shutdown began at which every listener is probed
	lowerTol = 25 // ms a measured time may lie below the model's
	upperTol = 800
)

type srvSpec struct {
	Kind  string `json:"kind"`            // http tcp sni dyn grpc comp blk dial
	Items []int  `json:"items"`           // remaining durations in ms, -1 = never ends (comp: SNI tunnels)
	Https []int  `json:"https,omitempty"` // comp only: requests on the TLS-terminating child
	// blk, dial only: connections whose handler goroutine stays blocked for that many ms in a
	// phase that closing the client connection does not interrupt.  blk = a tcp.Handler that
	// simply blocks, passed to proxy.ListenAndServeTCP; dial = the real tcp.Proxy with a 5 s
	// DialTimeout inside net.DialTimeout to an upstream that does not answer its SYNs.
	Stuck []int `json:"stuck,omitempty"`
	// multi-homed configurations: the local IP to listen on (default 127.0.0.1) and, when > 0,
	// a group number: all servers of a group listen on the SAME port number (on different IPs)
	IP        string `json:"ip,omitempty"`
	PortGroup int    `json:"port_group,omitempty"`
	// histories: proxy.CloseProxy(addr) is called for this listener (what main.go's tcp-dynamic
	// watcher does when a port loses its routes) CloseAt ms relative to the start of
	// Shutdown: negative = before (with the in-flight connections still open), positive = while
	// Shutdown runs, 0 = never
	CloseAt int `json:"close_at_ms,omitempty"`
}

type scenario struct {
	Name    string    `json:"name"`
	Class   string    `json:"class"`
	Wait    int       `json:"wait_ms"`
	Cap     int       `json:"cap_ms"`
	Servers []srvSpec `json:"servers"`
}

type obs struct {
	K string `json:"k"` // done cut open
	T int    `json:"t"`
}

type result struct {
	T         int       `json:"shutdown_ms"` // -1: did not return within the cap
	Probe     []bool    `json:"accepted_after_begin"`
	ProbeLate []bool    `json:"accepted_after_return"`
	Items     [][][]obs `json:"items"` // server, leaf, item
	Addrs     []string  `json:"addrs"` // the configured listen addresses
	Left      int       `json:"registry_left"`
	Err       string    `json:"err,omitempty"`
	Skip      string    `json:"skip,omitempty"` // the scenario cannot be built on this machine
}

// ---------------------------------------------------------------- child

type world struct {
	start   chan struct{} // closed when shutdown begins: backends start counting
	release chan struct{} // closed at the end: never-ending work is let go
	arrived int32
}

// work is what every backend does for one item: report arrival, wait for the
// start of the shutdown, then take d ms ("w" = warm-up: answer at once).
func (w *world) work(d string) bool {
	if d == "w" {
		return true
	}
	ms, err := strconv.Atoi(d)
	if err != nil {
		return false
	}
	atomic.AddInt32(&w.arrived, 1)
	<-w.start
	if ms < 0 {
		<-w.release
		return false
	}
	select {
	case <-time.After(time.Duration(ms) * time.Millisecond):
		return true
	case <-w.release:
		return false
	}
}

type healthSrv struct {
	healthpb.UnimplementedHealthServer
	w *world
}

func (h *healthSrv) Watch(req *healthpb.HealthCheckRequest, st healthpb.Health_WatchServer) error {
	if !h.w.work(req.Service) {
		return fmt.Errorf("released")
	}
	return st.Send(&healthpb.HealthCheckResponse{Status: healthpb.HealthCheckResponse_SERVING})
}

var durRe = regexp.MustCompile(`@@DUR=(-?[0-9]+|w)@@`)

func tcpBackend(w *world) net.Listener {
	ln, err := net.Listen("tcp", "127.0.0.1:0")
	if err != nil {
		panic(err)
	}
	go func() {
		for {
			c, err := ln.Accept()
			if err != nil {
				return
			}
			go func(c net.Conn) {
				defer c.Close()
				// tcp.SNIProxy drops bytes that arrive in the same read as the ClientHello
				// (they stay in its bufio.Reader); the client therefore waits for this
				// greeting, which proves that the tunnel is established, before it sends
				// its duration marker.
				c.Write([]byte("RDY\n"))
				var buf []byte
				tmp := make([]byte, 4096)
				for {
					n, err := c.Read(tmp)
					buf = append(buf, tmp[:n]...)
					if m := durRe.FindSubmatch(buf); m != nil {
						if w.work(string(m[1])) {
							c.Write([]byte("DONE\n"))
						}
						return
					}
					if err != nil {
						return
					}
				}
			}(c)
		}
	}()
	return ln
}

// blackhole returns the address of a loopback TCP endpoint on which connect() hangs: a
// listening socket with backlog 0 that never accepts and whose accept queue is full, so the
// kernel drops further SYNs (Linux).  ok=false when that cannot be built here.
func blackhole() (addr string, ok bool) {
	fd, err := syscall.Socket(syscall.AF_INET, syscall.SOCK_STREAM, 0)
	if err != nil {
		return "", false
	}
	if err := syscall.Bind(fd, &syscall.SockaddrInet4{Port: 0, Addr: [4]byte{127, 0, 0, 1}}); err != nil {
		return "", false
	}
	if err := syscall.Listen(fd, 0); err != nil {
		return "", false
	}
	lsa, err := syscall.Getsockname(fd)
	if err != nil {
		return "", false
	}
	addr = "127.0.0.1:" + strconv.Itoa(lsa.(*syscall.SockaddrInet4).Port)
	for i := 0; i < 16; i++ {
		if _, err := net.DialTimeout("tcp", addr, 300*time.Millisecond); err != nil {
			return addr, true // the filling connections and fd stay open until the process exits
		}
	}
	return "", false
}

// closeProxy calls proxy.CloseProxy through reflection: the harness must keep compiling when the
// function grows a second (wait) parameter, which main.go would fill with proxy.shutdownwait.
func closeProxy(addr string, wait time.Duration) {
	fn := reflect.ValueOf(proxy.CloseProxy)
	args := []reflect.Value{reflect.ValueOf(addr)}
	if fn.Type().NumIn() == 2 {
		args = append(args, reflect.ValueOf(wait))
	}
	fn.Call(args)
}

func freeAddr() string {
	ln, err := net.Listen("tcp", "127.0.0.1:0")
	if err != nil {
		panic(err)
	}
	a := ln.Addr().String()
	ln.Close()
	return a
}

// freePortOn returns a port number that is free on every one of the given local IPs;
// ok=false when one of them cannot be bound at all on this machine.
func freePortOn(ips []string) (port string, ok bool) {
	for try := 0; try < 20; try++ {
		ln, err := net.Listen("tcp", ips[0]+":0")
		if err != nil {
			return "", false
		}
		_, port, _ = net.SplitHostPort(ln.Addr().String())
		ln.Close()
		free := true
		for _, ip := range ips[1:] {
			l2, err := net.Listen("tcp", ip+":"+port)
			if err != nil {
				if !strings.Contains(err.Error(), "in use") {
					return "", false
				}
				free = false
				break
			}
			l2.Close()
		}
		if free {
			return port, true
		}
	}
	return "", false
}

func selfSigned() tls.Certificate {
	key, _ := ecdsa.GenerateKey(elliptic.P256(), rand.Reader)
	tpl := &x509.Certificate{SerialNumber: big.NewInt(1), Subject: pkix.Name{CommonName: "web.test"},
		DNSNames: []string{"web.test", "tunnel.test"}, NotBefore: time.Now().Add(-time.Hour), NotAfter: time.Now().Add(time.Hour),
		KeyUsage: x509.KeyUsageDigitalSignature, ExtKeyUsage: []x509.ExtKeyUsage{x509.ExtKeyUsageServerAuth}}
	der, err := x509.CreateCertificate(rand.Reader, tpl, tpl, &key.PublicKey, key)
	if err != nil {
		panic(err)
	}
	return tls.Certificate{Certificate: [][]byte{der}, PrivateKey: key}
}

// clientHello lets a crypto/tls client write its ClientHello for serverName into a pipe.
func clientHello(serverName string) []byte {
	c1, c2 := net.Pipe()
	go func() {
		_ = tls.Client(c1, &tls.Config{ServerName: serverName, InsecureSkipVerify: true}).Handshake()
		c1.Close()
	}()
	defer c2.Close()
	hdr := make([]byte, 5)
	c2.SetReadDeadline(time.Now().Add(5 * time.Second))
	if _, err := io.ReadFull(c2, hdr); err != nil {
		panic(err)
	}
	body := make([]byte, int(hdr[3])<<8|int(hdr[4]))
	if _, err := io.ReadFull(c2, body); err != nil {
		panic(err)
	}
	return append(hdr, body...)
}

type item struct {
	si, li, ii int
	d          int
	run        func(d string) bool // performs the request; true = completed normally
	stuck      bool
}

func runChild(sc scenario) (res result) {
	defer func() {
		if v := recover(); v != nil {
			res.Err = fmt.Sprint("panic: ", v)
		}
	}()
	log.SetOutput(io.Discard)
	w := &world{start: make(chan struct{}), release: make(chan struct{})}

	// ---- backends
	httpB := httptest.NewServer(http.HandlerFunc(func(rw http.ResponseWriter, r *http.Request) {
		if w.work(r.URL.Query().Get("d")) {
			rw.Write([]byte("DONE"))
			return
		}
		rw.WriteHeader(503)
	}))
	tcpB := tcpBackend(w)
	grpcLn, err := net.Listen("tcp", "127.0.0.1:0")
	if err != nil {
		panic(err)
	}
	grpcB := grpc.NewServer()
	healthpb.RegisterHealthServer(grpcB, &healthSrv{w: w})
	go grpcB.Serve(grpcLn)

	// ---- routing table, looked up the way main.go does (route.GetTable())
	addrs := make([]string, len(sc.Servers))
	var tbl strings.Builder
	fmt.Fprintf(&tbl, "route add web web.test/ %s\n", httpB.URL)
	fmt.Fprintf(&tbl, "route add rpc rpc.test/ grpc://%s opts \"proto=grpc\"\n", grpcLn.Addr())
	fmt.Fprintf(&tbl, "route add sni tunnel.test/ tcp://%s opts \"proto=tcp\"\n", tcpB.Addr())
	hole := ""
	groupPort := map[int]string{}
	for _, s := range sc.Servers {
		if s.PortGroup > 0 && groupPort[s.PortGroup] == "" {
			var ips []string
			for _, s2 := range sc.Servers {
				if s2.PortGroup == s.PortGroup {
					ip := s2.IP
					if ip == "" {
						ip = "127.0.0.1"
					}
					ips = append(ips, ip)
				}
			}
			port, ok := freePortOn(ips)
			if !ok {
				res.Skip = "a second loopback address (127.0.0.2) cannot be bound on this machine"
				return
			}
			groupPort[s.PortGroup] = port
		}
	}
	routed := map[string]bool{}
	for i, s := range sc.Servers {
		addrs[i] = freeAddr()
		if s.PortGroup > 0 {
			ip := s.IP
			if ip == "" {
				ip = "127.0.0.1"
			}
			addrs[i] = ip + ":" + groupPort[s.PortGroup]
		}
		if s.Kind == "dial" {
			if hole == "" {
				var ok bool
				if hole, ok = blackhole(); !ok {
					res.Skip = "cannot build a non-answering upstream (full accept backlog) on this kernel"
					return
				}
			}
			_, port, _ := net.SplitHostPort(addrs[i])
			fmt.Fprintf(&tbl, "route add hole%d :%s tcp://%s\n", i, port, hole)
		}
		if _, port, _ := net.SplitHostPort(addrs[i]); (s.Kind == "tcp" || s.Kind == "dyn") && !routed[port] {
			routed[port] = true
			fmt.Fprintf(&tbl, "route add tun%d :%s tcp://%s\n", i, port, tcpB.Addr())
		}
	}
	t, err := route.NewTable(bytes.NewBufferString(tbl.String()))
	if err != nil {
		panic(err)
	}
	route.SetTable(t)
	lookupHost := func(h string) *route.Target { return route.GetTable().LookupHost(h, route.Picker["rr"]) }
	newHTTPProxy := func() *proxy.HTTPProxy {
		return &proxy.HTTPProxy{Transport: &http.Transport{}, Lookup: func(r *http.Request) *route.Target {
			return route.GetTable().Lookup(r, "", route.Picker["rr"], route.Matcher["prefix"], nil, true)
		}}
	}
	cert := selfSigned()
	hello := clientHello("tunnel.test")

	// ---- the real listeners
	serveErr := make(chan string, len(sc.Servers))
	for i, s := range sc.Servers {
		l := config.Listen{Addr: addrs[i]}
		switch s.Kind {
		case "http":
			go func() {
				if err := proxy.ListenAndServeHTTP(l, newHTTPProxy(), nil); err != nil {
					serveErr <- err.Error()
				}
			}()
		case "tcp":
			go func() {
				if err := proxy.ListenAndServeTCP(l, &tcp.Proxy{Lookup: lookupHost}, nil); err != nil {
					serveErr <- err.Error()
				}
			}()
		case "dial":
			go func() {
				if err := proxy.ListenAndServeTCP(l, &tcp.Proxy{DialTimeout: 5 * time.Second, Lookup: lookupHost}, nil); err != nil {
					serveErr <- err.Error()
				}
			}()
		case "blk":
			h := tcp.HandlerFunc(func(in net.Conn) error {
				// learns its duration from the first line, then no longer touches the connection
				var buf []byte
				tmp := make([]byte, 256)
				for {
					n, err := in.Read(tmp)
					buf = append(buf, tmp[:n]...)
					if m := durRe.FindSubmatch(buf); m != nil {
						w.work(string(m[1]))
						return nil
					}
					if err != nil {
						return nil
					}
				}
			})
			go func() {
				if err := proxy.ListenAndServeTCP(l, h, nil); err != nil {
					serveErr <- err.Error()
				}
			}()
		case "sni":
			go func() {
				if err := proxy.ListenAndServeTCP(l, &tcp.SNIProxy{Lookup: lookupHost}, nil); err != nil {
					serveErr <- err.Error()
				}
			}()
		case "dyn":
			go func() {
				if err := proxy.ListenAndServeTCP(l, &tcp.DynamicProxy{Lookup: lookupHost}, nil); err != nil {
					serveErr <- err.Error()
				}
			}()
		case "grpc":
			cfg := &config.Config{Proxy: config.Proxy{Strategy: "rr", Matcher: "prefix", GRPCMaxRxMsgSize: 4 << 20,
				GRPCMaxTxMsgSize: 4 << 20, GRPCGShutdownTimeout: 2 * time.Second}, GlobMatchingDisabled: true}
			sh := &proxy.GrpcStatsHandler{Connect: discard.NewCounter(), Request: discard.NewHistogram(),
				NoRoute: discard.NewCounter(), Status: discard.NewHistogram()}
			ic := proxy.GrpcProxyInterceptor{Config: cfg, StatsHandler: sh, GlobCache: route.NewGlobCache(1000)}
			opts := []grpc.ServerOption{ // as main.go:newGrpcProxy
				grpc.CustomCodec(grpc_proxy.Codec()),
				grpc.UnknownServiceHandler(grpc_proxy.TransparentHandler(proxy.GetGRPCDirector(nil, cfg))),
				grpc.StreamInterceptor(ic.Stream),
				grpc.StatsHandler(sh),
				grpc.MaxRecvMsgSize(cfg.Proxy.GRPCMaxRxMsgSize),
				grpc.MaxSendMsgSize(cfg.Proxy.GRPCMaxTxMsgSize),
			}
			go func() {
				if err := proxy.ListenAndServeGRPC(l, opts, nil); err != nil {
					serveErr <- err.Error()
				}
			}()
		case "comp":
			m := func(_ context.Context, h string) bool { // as main.go:lookupHostMatcher
				t := lookupHost(h)
				if t == nil {
					return false
				}
				p, ok := t.Opts["proto"]
				if !ok && t.URL != nil {
					p = t.URL.Scheme
				}
				return p == "tcp"
			}
			tcfg := &tls.Config{Certificates: []tls.Certificate{cert}}
			go func() {
				if err := proxy.ListenAndServeHTTPSTCPSNI(l, newHTTPProxy(), &tcp.SNIProxy{Lookup: lookupHost}, tcfg, m); err != nil {
					serveErr <- err.Error()
				}
			}()
		default:
			panic("unknown kind " + s.Kind)
		}
	}
	res.Addrs = addrs
	// wait until the registry of running servers has stopped growing (the harness does not assume
	// how serve() keys it); that every accept loop runs is established by the warm-up below
	deadline := time.Now().Add(5 * time.Second)
	last, since := -1, time.Now()
	for {
		n := len(proxy.VerifC18ServerAddrs())
		if n != last {
			last, since = n, time.Now()
		}
		if n > 0 && time.Since(since) >= 120*time.Millisecond {
			break
		}
		select {
		case e := <-serveErr:
			res.Err = "listen: " + e
			return
		default:
		}
		if time.Now().After(deadline) {
			res.Err = "no listener registered within 5s"
			return
		}
		time.Sleep(5 * time.Millisecond)
	}

	// ---- clients
	httpReq := func(scheme, addr string) func(string) bool {
		return func(d string) bool {
			tr := &http.Transport{TLSClientConfig: &tls.Config{ServerName: "web.test", InsecureSkipVerify: true}}
			defer tr.CloseIdleConnections()
			req, _ := http.NewRequest("GET", scheme+"://"+addr+"/work?d="+d, nil)
			req.Host = "web.test"
			resp, err := (&http.Client{Transport: tr}).Do(req)
			if err != nil {
				return false
			}
			defer resp.Body.Close()
			b, err := io.ReadAll(resp.Body)
			return err == nil && resp.StatusCode == 200 && string(b) == "DONE"
		}
	}
	tunnel := func(addr string, sni bool) func(string) bool {
		return func(d string) bool {
			c, err := net.DialTimeout("tcp", addr, 2*time.Second)
			if err != nil {
				return false
			}
			defer c.Close()
			if sni {
				if _, err := c.Write(hello); err != nil {
					return false
				}
			}
			rdy := make([]byte, 4)
			c.SetReadDeadline(time.Now().Add(3 * time.Second))
			if _, err := io.ReadFull(c, rdy); err != nil || string(rdy) != "RDY\n" {
				return false
			}
			c.SetReadDeadline(time.Time{})
			if _, err := c.Write([]byte("@@DUR=" + d + "@@\n")); err != nil {
				return false
			}
			b, _ := io.ReadAll(c)
			return string(b) == "DONE\n"
		}
	}
	stream := func(addr string) func(string) bool {
		return func(d string) bool {
			cc, err := grpc.NewClient(addr, grpc.WithTransportCredentials(insecure.NewCredentials()))
			if err != nil {
				return false
			}
			defer cc.Close()
			ctx := metadata.AppendToOutgoingContext(context.Background(), "dsthost", "rpc.test")
			st, err := healthpb.NewHealthClient(cc).Watch(ctx, &healthpb.HealthCheckRequest{Service: d})
			if err != nil {
				return false
			}
			m, err := st.Recv()
			if err != nil || m.Status != healthpb.HealthCheckResponse_SERVING {
				return false
			}
			_, err = st.Recv()
			return err == io.EOF
		}
	}

	// a connection whose handler gets stuck: the client only ever sees it closed (false);
	// for the warm-up ("w") the handler returns at once and the close is the success
	stuckClient := func(addr string, marker bool) func(string) bool {
		return func(d string) bool {
			c, err := net.DialTimeout("tcp", addr, 2*time.Second)
			if err != nil {
				return false
			}
			defer c.Close()
			if marker {
				c.Write([]byte("@@DUR=" + d + "@@\n"))
			} else {
				c.Write([]byte("hello\n"))
				go func() { // no backend ever sees this one: it counts as arrived once the handler is dialing
					time.Sleep(150 * time.Millisecond)
					atomic.AddInt32(&w.arrived, 1)
				}()
			}
			if d == "w" {
				c.SetReadDeadline(time.Now().Add(2 * time.Second))
			}
			b, err := io.ReadAll(c)
			return d == "w" && err == nil && len(b) == 0
		}
	}

	var items []item
	res.Items = make([][][]obs, len(sc.Servers))
	var warm []func(string) bool
	for i, s := range sc.Servers {
		var fs []func(string) bool // one client function per leaf
		var ds [][]int
		switch s.Kind {
		case "http":
			fs, ds = []func(string) bool{httpReq("http", addrs[i])}, [][]int{s.Items}
		case "tcp", "dyn":
			fs, ds = []func(string) bool{tunnel(addrs[i], false)}, [][]int{s.Items}
		case "sni":
			fs, ds = []func(string) bool{tunnel(addrs[i], true)}, [][]int{s.Items}
		case "grpc":
			fs, ds = []func(string) bool{stream(addrs[i])}, [][]int{s.Items}
		case "comp": // children in ServeLater order: tcp.Server, then http.Server
			fs, ds = []func(string) bool{tunnel(addrs[i], true), httpReq("https", addrs[i])}, [][]int{s.Items, s.Https}
		case "blk":
			fs, ds = []func(string) bool{nil}, [][]int{nil}
			warm = append(warm, stuckClient(addrs[i], true))
		case "dial": // no warm-up possible: every connection gets stuck in the dial
			fs, ds = []func(string) bool{nil}, [][]int{nil}
		}
		res.Items[i] = make([][]obs, len(fs))
		for li := range fs {
			if fs[li] != nil {
				warm = append(warm, fs[li])
			}
			res.Items[i][li] = make([]obs, len(ds[li]))
			for ii, d := range ds[li] {
				res.Items[i][li][ii] = obs{K: "open"}
				items = append(items, item{i, li, ii, d, fs[li], false})
			}
		}
		if s.Kind == "blk" || s.Kind == "dial" { // observations of the stuck connections follow the items
			for _, b := range s.Stuck {
				res.Items[i][0] = append(res.Items[i][0], obs{K: "open"})
				items = append(items, item{i, 0, len(res.Items[i][0]) - 1, b, stuckClient(addrs[i], s.Kind == "blk"), true})
			}
		}
	}
	// warm-up: one immediate item through every leaf, so that every accept loop is known to run
	for k, f := range warm {
		ok := false
		for try := 0; try < 50 && !ok; try++ {
			if ok = f("w"); !ok {
				time.Sleep(20 * time.Millisecond)
			}
		}
		if !ok {
			res.Err = fmt.Sprintf("warm-up through leaf %d failed", k)
			return
		}
	}

	// ---- put the items in flight
	live := res.Items // the item goroutines keep writing here after the snapshot below
	var mu sync.Mutex
	var t0 time.Time
	finished := make(chan int, len(items))
	for k, it := range items {
		go func(k int, it item) {
			ok := it.run(strconv.Itoa(it.d))
			mu.Lock()
			ms := int(time.Since(t0).Milliseconds())
			if t0.IsZero() {
				ms = -1
			}
			o := obs{K: "cut", T: ms}
			if ok {
				o.K = "done"
			}
			live[it.si][it.li][it.ii] = o
			mu.Unlock()
			finished <- k
		}(k, it)
	}
	deadline = time.Now().Add(8 * time.Second)
	for int(atomic.LoadInt32(&w.arrived)) < len(items) {
		if time.Now().After(deadline) {
			res.Err = fmt.Sprintf("only %d of %d items reached their backend", atomic.LoadInt32(&w.arrived), len(items))
			return
		}
		time.Sleep(2 * time.Millisecond)
	}
	time.Sleep(20 * time.Millisecond)

	// ---- the history before shutdown: CloseProxy for listeners that lost their routes
	waitD := time.Duration(sc.Wait) * time.Millisecond
	lead := 0
	for i, s := range sc.Servers {
		if s.CloseAt < 0 {
			go closeProxy(addrs[i], waitD)
			if -s.CloseAt > lead {
				lead = -s.CloseAt
			}
		}
	}
	time.Sleep(time.Duration(lead) * time.Millisecond)

	// ---- shutdown
	ret := make(chan int, 1)
	mu.Lock()
	t0 = time.Now()
	mu.Unlock()
	close(w.start)
	for i, s := range sc.Servers {
		if s.CloseAt > 0 {
			go func(a string, d int) {
				time.Sleep(time.Duration(d) * time.Millisecond)
				closeProxy(a, waitD)
			}(addrs[i], s.CloseAt)
		}
	}
	go func() {
		proxy.Shutdown(time.Duration(sc.Wait) * time.Millisecond)
		ret <- int(time.Since(t0).Milliseconds())
	}()
	probe := func() []bool {
		out := make([]bool, len(addrs))
		var wg sync.WaitGroup
		for i, a := range addrs {
			wg.Add(1)
			go func(i int, a string) {
				defer wg.Done()
				c, err := net.DialTimeout("tcp", a, 300*time.Millisecond)
				if err == nil {
					out[i] = true
					c.Close()
				}
			}(i, a)
		}
		wg.Wait()
		return out
	}
	time.Sleep(probeAt * time.Millisecond)
	res.Probe = probe()
	select {
	case res.T = <-ret:
	case <-time.After(time.Until(t0.Add(time.Duration(sc.Cap) * time.Millisecond))):
		res.T = -1
	}
	res.ProbeLate = probe()
	res.Left = len(proxy.VerifC18ServerAddrs())

	// ---- let every finite item run out (a late HTTP request is not interrupted), then look
	maxFin := 0
	nFin := 0
	for _, it := range items {
		if it.stuck {
			continue // its client is cut at the deadline at the latest
		}
		if it.d >= 0 {
			nFin++
			if it.d > maxFin {
				maxFin = it.d
			}
		}
	}
	end := t0.Add(time.Duration(maxFin+1500) * time.Millisecond)
	if min := time.Now().Add(400 * time.Millisecond); end.Before(min) {
		end = min // a never-ending item that is going to be cut is cut by now
	}
	got := 0
wait:
	for got < len(items) {
		select {
		case <-finished:
			got++
		case <-time.After(time.Until(end)):
			break wait
		}
	}
	mu.Lock()
	snap := make([][][]obs, len(live))
	for i := range live {
		snap[i] = make([][]obs, len(live[i]))
		for j := range live[i] {
			snap[i][j] = append([]obs{}, live[i][j]...)
		}
	}
	mu.Unlock()
	res.Items = snap
	close(w.release)
	return
}

// ---------------------------------------------------------------- parent

func runScenario(sc scenario) (result, error) {
	b, _ := json.Marshal(sc)
	exe, err := os.Executable()
	if err != nil {
		return result{}, err
	}
	ctx, cancel := context.WithTimeout(context.Background(), time.Duration(sc.Cap+30000)*time.Millisecond)
	defer cancel()
	cmd := exec.CommandContext(ctx, exe, "-child", string(b))
	var out, errb bytes.Buffer
	cmd.Stdout, cmd.Stderr = &out, &errb
	if err := cmd.Run(); err != nil {
		return result{}, fmt.Errorf("child: %v: %s", err, tail(errb.String()))
	}
	var r result
	if err := json.Unmarshal(out.Bytes(), &r); err != nil {
		return result{}, fmt.Errorf("child output: %v: %q", err, tail(out.String()))
	}
	return r, nil
}

func tail(s string) string {
	if len(s) > 600 {
		return s[len(s)-600:]
	}
	return s
}

func coqDur(d int) string {
	if d < 0 {
		return "Inf"
	}
	return "(Fin " + strconv.Itoa(d) + ")"
}

func coqLeaf(kind string, ds []int) string {
	xs := make([]string, len(ds))
	for i, d := range ds {
		xs[i] = coqDur(d)
	}
	return "(L " + kind + " " + vh.List(xs) + ")"
}

func coqServer(s srvSpec) string {
	switch s.Kind {
	case "http":
		return "(Single " + coqLeaf("KHttp", s.Items) + ")"
	case "tcp", "sni", "dyn":
		return "(Single " + coqLeaf("KTcp", s.Items) + ")"
	case "grpc":
		return "(Single " + coqLeaf("KGrpc", s.Items) + ")"
	case "blk", "dial":
		xs := make([]string, len(s.Stuck))
		for i, d := range s.Stuck {
			xs[i] = coqDur(d)
		}
		return "(Single (LS [] " + vh.List(xs) + "))"
	case "comp":
		return "(Composite [" + coqLeaf("KTcp", s.Items) + "; " + coqLeaf("KHttp", s.Https) + "])"
	}
	panic("kind")
}

// coqAddr renders "a.b.c.d:port" as the pair (ip as a number, port).
func coqAddr(a string) string {
	host, port, _ := net.SplitHostPort(a)
	ip := net.ParseIP(host).To4()
	n := uint64(ip[0])<<24 | uint64(ip[1])<<16 | uint64(ip[2])<<8 | uint64(ip[3])
	return vh.Pair(strconv.FormatUint(n, 10), port)
}

func coqObs(o obs) string {
	switch o.K {
	case "done":
		return "(ODone " + strconv.Itoa(max0(o.T)) + ")"
	case "cut":
		return "(OCut " + strconv.Itoa(max0(o.T)) + ")"
	}
	return "OOpen"
}

func max0(i int) int {
	if i < 0 {
		return 0
	}
	return i
}

func coqBools(bs []bool) string {
	xs := make([]string, len(bs))
	for i, b := range bs {
		xs[i] = vh.Bool(b)
	}
	return vh.List(xs)
}

func hasNeverGRPC(sc scenario) bool {
	for _, s := range sc.Servers {
		if s.Kind == "grpc" {
			for _, d := range s.Items {
				if d < 0 {
					return true
				}
			}
		}
	}
	return false
}

func main() {
	if len(os.Args) == 3 && os.Args[1] == "-child" {
		var sc scenario
		if err := json.Unmarshal([]byte(os.Args[2]), &sc); err != nil {
			fmt.Fprintln(os.Stderr, err)
			os.Exit(2)
		}
		r := runChild(sc)
		b, _ := json.Marshal(r)
		os.Stdout.Write(b)
		os.Exit(0) // leaks whatever a hanging Shutdown left behind
	}

	run := vh.Start("C18")
	r := run.Rng
	const wait = 800
	// durations: short = ends well within the wait, long = well beyond it; never closer than 90 ms to the wait
	short := func() int { return 200 + r.Intn(250) }               // 0.25x .. 0.56x: ends >= 350 ms before the deadline
	long := func() int { return wait + 400 + r.Intn(2*wait-400) } // 1.5x .. 3x: >= 400 ms beyond the deadline
	scs := []scenario{
		{Name: "http", Class: "http", Servers: []srvSpec{{Kind: "http", Items: []int{short(), short(), long(), 3 * wait}}}},
		{Name: "http-short+idle", Class: "http", Servers: []srvSpec{{Kind: "http", Items: []int{short(), short()}}, {Kind: "http"}}},
		{Name: "http-never", Class: "http", Servers: []srvSpec{{Kind: "http", Items: []int{short(), never}}}},
		{Name: "tcp", Class: "tcp", Servers: []srvSpec{{Kind: "tcp", Items: []int{short(), short(), long(), never}}}},
		{Name: "sni+dyn", Class: "tcp", Servers: []srvSpec{{Kind: "sni", Items: []int{short(), never}}, {Kind: "dyn", Items: []int{short(), long()}}}},
		{Name: "grpc-short", Class: "grpc", Servers: []srvSpec{{Kind: "grpc", Items: []int{short(), short()}}}},
		{Name: "grpc-over", Class: "grpc", Servers: []srvSpec{{Kind: "grpc", Items: []int{short(), long()}}}},
		{Name: "grpc-10x", Class: "grpc-beyond-wait", Servers: []srvSpec{{Kind: "grpc", Items: []int{short(), 10 * wait}}}},
		{Name: "grpc-never", Class: "grpc-beyond-wait", Servers: []srvSpec{{Kind: "grpc", Items: []int{short(), never}}}},
		{Name: "composite", Class: "composite", Servers: []srvSpec{{Kind: "comp", Items: []int{short(), never}, Https: []int{short(), long()}}}},
		{Name: "mixed", Class: "mixed", Servers: []srvSpec{
			{Kind: "http", Items: []int{short(), long()}}, {Kind: "tcp", Items: []int{short(), never}}, {Kind: "sni", Items: []int{short()}},
			{Kind: "grpc", Items: []int{short(), short()}}, {Kind: "comp", Items: []int{short()}, Https: []int{short()}}}},
		{Name: "mixed-http-grpc", Class: "mixed", Servers: []srvSpec{
			{Kind: "http", Items: []int{short(), long()}}, {Kind: "http", Items: []int{short()}}, {Kind: "grpc", Items: []int{short()}}, {Kind: "dyn", Items: []int{long()}}}},
		{Name: "tcp-stuck-handler", Class: "tcp-stuck-handler", Servers: []srvSpec{
			{Kind: "blk", Stuck: []int{short(), 10 * wait}}, {Kind: "tcp", Items: []int{short(), never}}}},
		{Name: "tcp-stuck-dialing", Class: "tcp-stuck-handler", Servers: []srvSpec{{Kind: "dial", Stuck: []int{5000}}}},
		// multi-homed: the same port number on two local addresses
		{Name: "same-port-tcp+tcp", Class: "same-port", Servers: []srvSpec{
			{Kind: "tcp", Items: []int{short(), never}, PortGroup: 1}, {Kind: "tcp", Items: []int{short(), long()}, IP: "127.0.0.2", PortGroup: 1}}},
		{Name: "same-port-http+http", Class: "same-port", Servers: []srvSpec{
			{Kind: "http", Items: []int{short(), long()}, PortGroup: 1}, {Kind: "http", Items: []int{short(), short()}, IP: "127.0.0.2", PortGroup: 1}}},
		{Name: "same-port-http+tcp", Class: "same-port", Servers: []srvSpec{
			{Kind: "http", Items: []int{short(), long()}, IP: "127.0.0.2", PortGroup: 1}, {Kind: "tcp", Items: []int{short(), never}, PortGroup: 1},
			{Kind: "grpc", Items: []int{short()}, PortGroup: 2}, {Kind: "dyn", Items: []int{short()}, IP: "127.0.0.2", PortGroup: 2}}},
		// histories: a dynamically opened listener is closed by CloseProxy shortly before, or while, Shutdown runs
		{Name: "close-before-busy", Class: "history", Servers: []srvSpec{
			{Kind: "http", Items: []int{short(), long()}}, {Kind: "dyn", Items: []int{short(), never}, CloseAt: -100}, {Kind: "tcp", Items: []int{short(), never}}}},
		{Name: "close-before-idle", Class: "history", Servers: []srvSpec{
			{Kind: "http", Items: []int{short()}}, {Kind: "grpc", Items: []int{short(), never}}, {Kind: "dyn", CloseAt: -100}}},
		{Name: "close-before-two", Class: "history", Servers: []srvSpec{
			{Kind: "dyn", Items: []int{short()}, CloseAt: -250}, {Kind: "dyn", Items: []int{long()}}, {Kind: "tcp", CloseAt: -100},
			{Kind: "comp", Items: []int{short()}, Https: []int{short(), long()}}}},
		{Name: "close-during", Class: "history", Servers: []srvSpec{
			{Kind: "http", Items: []int{short(), long()}}, {Kind: "dyn", Items: []int{short(), never}, CloseAt: 100}, {Kind: "tcp", Items: []int{short()}}}},
		{Name: "close-before-and-during", Class: "history", Servers: []srvSpec{
			{Kind: "dyn", Items: []int{short(), long()}, CloseAt: -100}, {Kind: "dyn", Items: []int{short(), never}, CloseAt: 200}, {Kind: "http", Items: []int{short()}}}},
		// second instances of the main classes with other durations
		{Name: "http-2", Class: "http", Servers: []srvSpec{{Kind: "http", Items: []int{short(), long(), never}}, {Kind: "http", Items: []int{long()}}}},
		{Name: "tcp-2", Class: "tcp", Servers: []srvSpec{{Kind: "tcp", Items: []int{short(), long()}}, {Kind: "sni", Items: []int{short(), long()}}, {Kind: "dyn", Items: []int{never}}}},
		{Name: "grpc-2", Class: "grpc", Servers: []srvSpec{{Kind: "grpc", Items: []int{short(), long(), never}}, {Kind: "grpc", Items: []int{short()}}}},
		{Name: "composite-2", Class: "composite", Servers: []srvSpec{{Kind: "comp", Items: []int{short(), long()}, Https: []int{short(), never}}, {Kind: "http", Items: []int{short()}}}},
		{Name: "mixed-2", Class: "mixed", Servers: []srvSpec{
			{Kind: "grpc", Items: []int{short(), never}}, {Kind: "tcp", Items: []int{short(), long()}}, {Kind: "http", Items: []int{short(), long()}},
			{Kind: "blk", Stuck: []int{short(), 10 * wait}}, {Kind: "sni", Items: []int{short(), never}}}},
		{Name: "idle-http", Class: "idle", Servers: []srvSpec{{Kind: "http"}}},
		{Name: "idle-all", Class: "idle", Servers: []srvSpec{{Kind: "http"}, {Kind: "tcp"}, {Kind: "grpc"}, {Kind: "comp"}}},
	}
	if run.Thorough() {
		kinds := []string{"http", "tcp", "sni", "dyn", "grpc", "comp", "blk"}
		for i := 0; i < 24; i++ {
			n := 1 + r.Intn(4)
			sc := scenario{Name: fmt.Sprintf("random-%d", i), Class: "random"}
			for j := 0; j < n; j++ {
				s := srvSpec{Kind: kinds[r.Intn(len(kinds))]}
				gen := func() []int {
					var ds []int
					for k := r.Intn(4); k > 0; k-- {
						switch x := r.Intn(10); {
						case x < 5:
							ds = append(ds, short())
						case x < 8:
							ds = append(ds, long())
						case s.Kind != "grpc": // never-ending gRPC streams cost the hang cap: only in the directed scenario
							ds = append(ds, never)
						default:
							ds = append(ds, short())
						}
					}
					return ds
				}
				s.Items = gen()
				if s.Kind == "blk" { // stuck handlers instead of tunnels; a never-returning one would only cost time
					s.Stuck, s.Items = s.Items, nil
					for k, b := range s.Stuck {
						if b < 0 {
							s.Stuck[k] = 10 * wait
						}
					}
				}
				if s.Kind == "comp" {
					s.Https = gen()
				}
				if (s.Kind == "dyn" || s.Kind == "tcp") && r.Intn(4) == 0 {
					s.CloseAt = []int{-100, -250, 100}[r.Intn(3)]
				}
				sc.Servers = append(sc.Servers, s)
			}
			scs = append(scs, sc)
		}
	}
	for i := range scs {
		scs[i].Wait = wait
		scs[i].Cap = 10000
	}

	results := make([]result, len(scs))
	errs := make([]error, len(scs))
	sem := make(chan struct{}, 4)
	var wg sync.WaitGroup
	for i := range scs {
		wg.Add(1)
		go func(i int) {
			defer wg.Done()
			sem <- struct{}{}
			defer func() { <-sem }()
			for try := 0; try < 3; try++ {
				results[i], errs[i] = runScenario(scs[i])
				if errs[i] == nil && (results[i].Err == "" || results[i].Skip != "") {
					return
				}
			}
		}(i)
	}
	wg.Wait()

	for i, sc := range scs {
		res := results[i]
		if errs[i] == nil && res.Skip != "" {
			run.Exclude(res.Skip)
			continue
		}
		if errs[i] != nil || res.Err != "" {
			msg := res.Err
			if errs[i] != nil {
				msg = errs[i].Error()
			}
			run.Violation(run.NextID(), "scenario "+sc.Name+" could not be set up three times (harness problem, no verdict): "+msg, sc)
			continue
		}
		var srv []string // the history: starts in order, then the CloseProxy calls
		for k, s := range sc.Servers {
			srv = append(srv, vh.App("HStart", coqAddr(res.Addrs[k]), coqServer(s)))
		}
		for k, s := range sc.Servers {
			if s.CloseAt < 0 {
				srv = append(srv, vh.App("HClose", coqAddr(res.Addrs[k])))
			} else if s.CloseAt > 0 {
				srv = append(srv, vh.App("HCloseDuring", coqAddr(res.Addrs[k])))
			}
		}
		T := vh.None
		if res.T >= 0 {
			T = vh.Some(strconv.Itoa(res.T))
		}
		its := make([]string, len(res.Items))
		for a, leaves := range res.Items {
			ls := make([]string, len(leaves))
			for b, os := range leaves {
				xs := make([]string, len(os))
				for c, o := range os {
					xs[c] = coqObs(o)
				}
				ls[b] = vh.List(xs)
			}
			its[a] = vh.List(ls)
		}
		term := vh.App("CScen", strconv.Itoa(sc.Wait), vh.List(srv), T, strconv.Itoa(probeAt), coqBools(res.Probe), coqBools(res.ProbeLate),
			vh.List(its), strconv.Itoa(lowerTol), strconv.Itoa(upperTol))
		id := run.Add(sc.Class, term, map[string]interface{}{"scenario": sc, "observed": res})
		if res.T < 0 {
			if hasNeverGRPC(sc) {
				run.Violation(id, fmt.Sprintf("proxy.Shutdown(%dms) had not returned after %dms while a never-ending gRPC stream was open (GracefulStop ignores the deadline)", sc.Wait, sc.Cap), sc)
			} else {
				run.Violation(id, fmt.Sprintf("proxy.Shutdown(%dms) had not returned after %dms although no never-ending gRPC stream was open", sc.Wait, sc.Cap), sc)
			}
		}
		if res.Left != 0 {
			run.Violation(id, fmt.Sprintf("registry of running servers not emptied by Shutdown: %d left", res.Left), sc)
		}
	}
	run.Notes["wait_ms"] = wait
	run.Notes["hang_cap_ms"] = 10000
	run.Notes["tolerances_ms"] = map[string]int{"lower": lowerTol, "upper": upperTol, "spec_slack": 2000}
	run.Finish(preamble, run.Scale(4, 8))
}
