// Command c18 is the correspondence harness for property C18 (shutdown drains
// in-flight work and completes within the configured wait).
//
// Every scenario runs in a child process of its own (the registry of running
// servers in package proxy is package-level state, and a scenario whose
// Shutdown hangs leaks goroutines): the child starts the REAL listeners with
// proxy.ListenAndServeHTTP / ListenAndServeTCP (tcp.Proxy, tcp.SNIProxy,
// tcp.DynamicProxy handlers) / ListenAndServeGRPC (the option set main.go
// builds: transparent handler, director, interceptor, stats handler) /
// ListenAndServeHTTPSTCPSNI on loopback ports, puts requests, tunnels and
// streams in flight whose remaining duration is controlled by loopback
// backends, calls the real proxy.Shutdown(wait) and reports
//   - the wall-clock duration of proxy.Shutdown (or that it did not return
//     within the hang cap),
//   - for every listener whether a connect 70 ms after shutdown began, and
//     one right after it returned, was still accepted,
//   - for every in-flight item: completed normally / cut by the proxy / still
//     open, with the time.
//
// The parent turns each child result into one Coq case.
package main

import (
	"bytes"
	"context"
	"crypto/ecdsa"
	"crypto/elliptic"
	"crypto/rand"
	"crypto/tls"
	"crypto/x509"
	"crypto/x509/pkix"
	"encoding/json"
	"fmt"
	"io"
	"log"
	"math/big"
	"net"
	"net/http"
	"net/http/httptest"
	"os"
	"os/exec"
	"reflect"
	"regexp"
	"strconv"
	"strings"
	"sync"
	"sync/atomic"
	"syscall"
	"time"

	"github.com/fabiolb/fabio/config"
	"github.com/fabiolb/fabio/proxy"
	"github.com/fabiolb/fabio/proxy/tcp"
	"github.com/fabiolb/fabio/route"
	"github.com/go-kit/kit/metrics/discard"
	grpc_proxy "github.com/mwitkow/grpc-proxy/proxy"
	"google.golang.org/grpc"
	"google.golang.org/grpc/credentials/insecure"
	healthpb "google.golang.org/grpc/health/grpc_health_v1"
	"google.golang.org/grpc/metadata"

	"verifharness/internal/vh"
)

const preamble = `From Coq Require Import List NArith Bool.
From Fabio Require Import Lib.Verdict Model.Shutdown Model.ExitSignals Check.C18.
Import ListNotations.
Local Open Scope N_scope.
`

const (
	never    = -1  // duration of an item that never ends
	probeAt  = 150 // ms after shutdown began at which every listener is probed
	lowerTol = 25  // ms a measured time may lie below the model's
	upperTol = 300
)

type srvSpec struct {
	Kind  string `json:"kind"`            // http tcp sni dyn grpc comp blk dial
	Items []int  `json:"items"`           // remaining durations in ms, -1 = never ends (comp: SNI tunnels)
	Https []int  `json:"https,omitempty"` // comp only: requests on the TLS-terminating child
	// blk, dial only: connections whose handler goroutine stays blocked for that many ms in a
	// phase that closing the client connection does not interrupt.  blk = a tcp.Handler that
	// simply blocks, passed to proxy.ListenAndServeTCP; dial = the real tcp.Proxy with a 5 s
	// DialTimeout inside net.DialTimeout to an upstream that does not answer its SYNs.
	Stuck []int `json:"stuck,omitempty"`
	// multi-homed configurations: the local IP to listen on (default 127.0.0.1) and, when > 0,
	// a group number: all servers of a group listen on the SAME port number (on different IPs)
	IP        string `json:"ip,omitempty"`
	PortGroup int    `json:"port_group,omitempty"`
	// histories: proxy.CloseProxy(addr) is called for this listener (what main.go's tcp-dynamic
	// watcher does when a port loses its routes) CloseAt ms relative to the start of
	// Shutdown: negative = before (with the in-flight connections still open), positive = while
	// Shutdown runs, 0 = never
	CloseAt int `json:"close_at_ms,omitempty"`
	// RestartOf = k > 0: this listener is started on the address of server k-1 after that one has
	// been closed by CloseProxy (the tcp-dynamic restart); StartAt > 0: it is started StartAt ms
	// AFTER Shutdown began (what main.go's never-stopped tcp-dynamic watcher can do)
	RestartOf int `json:"restart_of,omitempty"`
	StartAt   int `json:"start_at_ms,omitempty"`
	// http only: websocket sessions (hijacked by HTTPProxy's ws handler) with these remaining
	// durations; request-body uploads still in progress for that long; connections that have
	// not sent a request yet (count); keep the warm-up connection open and idle
	Hijacked []int `json:"hijacked,omitempty"`
	Uploads  []int `json:"uploads,omitempty"`
	NewConns int   `json:"new_conns,omitempty"`
	KeepIdle bool  `json:"keep_idle,omitempty"`
	// grpc only: unary calls (health Check) with these remaining durations
	Unary []int `json:"unary,omitempty"`
}

type scenario struct {
	Name    string    `json:"name"`
	Class   string    `json:"class"`
	Wait    int       `json:"wait_ms"`
	Cap     int       `json:"cap_ms"`
	Servers []srvSpec `json:"servers"`
}

type obs struct {
	K string `json:"k"` // done cut open
	T int    `json:"t"`
}

type result struct {
	T         int       `json:"shutdown_ms"` // -1: did not return within the cap
	Probe     []bool    `json:"accepted_after_begin"`
	ProbeLate []bool    `json:"accepted_after_return"`
	Items     [][][]obs `json:"items"` // server, leaf, item
	Addrs     []string  `json:"addrs"` // the configured listen addresses
	Left      int       `json:"registry_left"`
	Err       string    `json:"err,omitempty"`
	Skip      string    `json:"skip,omitempty"` // the scenario cannot be built on this machine
}

// ---------------------------------------------------------------- child

type world struct {
	start   chan struct{} // closed when shutdown begins: backends start counting
	release chan struct{} // closed at the end: never-ending work is let go
	arrived int32
}

// work is what every backend does for one item: report arrival, wait for the
// start of the shutdown, then take d ms ("w" = warm-up: answer at once).
func (w *world) work(d string) bool {
	if d == "w" {
		return true
	}
	ms, err := strconv.Atoi(d)
	if err != nil {
		return false
	}
	atomic.AddInt32(&w.arrived, 1)
	<-w.start
	if ms < 0 {
		<-w.release
		return false
	}
	select {
	case <-time.After(time.Duration(ms) * time.Millisecond):
		return true
	case <-w.release:
		return false
	}
}

type healthSrv struct {
	healthpb.UnimplementedHealthServer
	w *world
}

func (h *healthSrv) Watch(req *healthpb.HealthCheckRequest, st healthpb.Health_WatchServer) error {
	if !h.w.work(req.Service) {
		return fmt.Errorf("released")
	}
	return st.Send(&healthpb.HealthCheckResponse{Status: healthpb.HealthCheckResponse_SERVING})
}

func (h *healthSrv) Check(ctx context.Context, req *healthpb.HealthCheckRequest) (*healthpb.HealthCheckResponse, error) {
	if !h.w.work(req.Service) {
		return nil, fmt.Errorf("released")
	}
	return &healthpb.HealthCheckResponse{Status: healthpb.HealthCheckResponse_SERVING}, nil
}

// wsBackend answers an Upgrade request with 101 at once, then takes the duration named in the
// request path (/ws/<d>) and sends DONE over the upgraded connection.
var wsRe = regexp.MustCompile(`GET /ws/(-?[0-9]+|w) `)

func wsBackend(w *world) net.Listener {
	ln, err := net.Listen("tcp", "127.0.0.1:0")
	if err != nil {
		panic(err)
	}
	go func() {
		for {
			c, err := ln.Accept()
			if err != nil {
				return
			}
			go func(c net.Conn) {
				defer c.Close()
				var buf []byte
				tmp := make([]byte, 4096)
				for !bytes.Contains(buf, []byte("\r\n\r\n")) {
					n, err := c.Read(tmp)
					buf = append(buf, tmp[:n]...)
					if err != nil {
						return
					}
				}
				m := wsRe.FindSubmatch(buf)
				if m == nil {
					return
				}
				c.Write([]byte("HTTP/1.1 101 Switching Protocols\r\nUpgrade: websocket\r\nConnection: Upgrade\r\n\r\n"))
				if w.work(string(m[1])) {
					c.Write([]byte("DONE\n"))
				}
			}(c)
		}
	}()
	return ln
}

var durRe = regexp.MustCompile(`@@DUR=(-?[0-9]+|w)@@`)

func tcpBackend(w *world) net.Listener {
	ln, err := net.Listen("tcp", "127.0.0.1:0")
	if err != nil {
		panic(err)
	}
	go func() {
		for {
			c, err := ln.Accept()
			if err != nil {
				return
			}
			go func(c net.Conn) {
				defer c.Close()
				// tcp.SNIProxy drops bytes that arrive in the same read as the ClientHello
				// (they stay in its bufio.Reader); the client therefore waits for this
				// greeting, which proves that the tunnel is established, before it sends
				// its duration marker.
				c.Write([]byte("RDY\n"))
				var buf []byte
				tmp := make([]byte, 4096)
				for {
					n, err := c.Read(tmp)
					buf = append(buf, tmp[:n]...)
					if m := durRe.FindSubmatch(buf); m != nil {
						if w.work(string(m[1])) {
							c.Write([]byte("DONE\n"))
						}
						return
					}
					if err != nil {
						return
					}
				}
			}(c)
		}
	}()
	return ln
}

// blackhole returns the address of a loopback TCP endpoint on which connect() hangs: a
// listening socket with backlog 0 that never accepts and whose accept queue is full, so the
// kernel drops further SYNs (Linux).  ok=false when that cannot be built here.
func blackhole() (addr string, ok bool) {
	fd, err := syscall.Socket(syscall.AF_INET, syscall.SOCK_STREAM, 0)
	if err != nil {
		return "", false
	}
	if err := syscall.Bind(fd, &syscall.SockaddrInet4{Port: 0, Addr: [4]byte{127, 0, 0, 1}}); err != nil {
		return "", false
	}
	if err := syscall.Listen(fd, 0); err != nil {
		return "", false
	}
	lsa, err := syscall.Getsockname(fd)
	if err != nil {
		return "", false
	}
	addr = "127.0.0.1:" + strconv.Itoa(lsa.(*syscall.SockaddrInet4).Port)
	for i := 0; i < 16; i++ {
		if _, err := net.DialTimeout("tcp", addr, 300*time.Millisecond); err != nil {
			return addr, true // the filling connections and fd stay open until the process exits
		}
	}
	return "", false
}

// closeProxy calls proxy.CloseProxy through reflection: the harness must keep compiling when the
// function grows a second (wait) parameter, which main.go would fill with proxy.shutdownwait.
func closeProxy(addr string, wait time.Duration) {
	fn := reflect.ValueOf(proxy.CloseProxy)
	args := []reflect.Value{reflect.ValueOf(addr)}
	if fn.Type().NumIn() == 2 {
		args = append(args, reflect.ValueOf(wait))
	}
	fn.Call(args)
}

func freeAddr() string {
	ln, err := net.Listen("tcp", "127.0.0.1:0")
	if err != nil {
		panic(err)
	}
	a := ln.Addr().String()
	ln.Close()
	return a
}

// freePortOn returns a port number that is free on every one of the given local IPs;
// ok=false when one of them cannot be bound at all on this machine.
func freePortOn(ips []string) (port string, ok bool) {
	for try := 0; try < 20; try++ {
		ln, err := net.Listen("tcp", ips[0]+":0")
		if err != nil {
			return "", false
		}
		_, port, _ = net.SplitHostPort(ln.Addr().String())
		ln.Close()
		free := true
		for _, ip := range ips[1:] {
			l2, err := net.Listen("tcp", ip+":"+port)
			if err != nil {
				if !strings.Contains(err.Error(), "in use") {
					return "", false
				}
				free = false
				break
			}
			l2.Close()
		}
		if free {
			return port, true
		}
	}
	return "", false
}

func selfSigned() tls.Certificate {
	key, _ := ecdsa.GenerateKey(elliptic.P256(), rand.Reader)
	tpl := &x509.Certificate{SerialNumber: big.NewInt(1), Subject: pkix.Name{CommonName: "web.test"},
		DNSNames: []string{"web.test", "tunnel.test"}, NotBefore: time.Now().Add(-time.Hour), NotAfter: time.Now().Add(time.Hour),
		KeyUsage: x509.KeyUsageDigitalSignature, ExtKeyUsage: []x509.ExtKeyUsage{x509.ExtKeyUsageServerAuth}}
	der, err := x509.CreateCertificate(rand.Reader, tpl, tpl, &key.PublicKey, key)
	if err != nil {
		panic(err)
	}
	return tls.Certificate{Certificate: [][]byte{der}, PrivateKey: key}
}

// clientHello lets a crypto/tls client write its ClientHello for serverName into a pipe.
func clientHello(serverName string) []byte {
	c1, c2 := net.Pipe()
	go func() {
		_ = tls.Client(c1, &tls.Config{ServerName: serverName, InsecureSkipVerify: true}).Handshake()
		c1.Close()
	}()
	defer c2.Close()
	hdr := make([]byte, 5)
	c2.SetReadDeadline(time.Now().Add(5 * time.Second))
	if _, err := io.ReadFull(c2, hdr); err != nil {
		panic(err)
	}
	body := make([]byte, int(hdr[3])<<8|int(hdr[4]))
	if _, err := io.ReadFull(c2, body); err != nil {
		panic(err)
	}
	return append(hdr, body...)
}

type item struct {
	si, li, ii int
	d          int
	run        func(d string) bool // performs the request; true = completed normally
	stuck      bool
}

func runChild(sc scenario) (res result) {
	defer func() {
		if v := recover(); v != nil {
			res.Err = fmt.Sprint("panic: ", v)
		}
	}()
	log.SetOutput(io.Discard)
	w := &world{start: make(chan struct{}), release: make(chan struct{})}

	// ---- backends
	httpB := httptest.NewServer(http.HandlerFunc(func(rw http.ResponseWriter, r *http.Request) {
		if r.URL.Query().Get("mode") == "upload" { // the CLIENT decides when the body ends
			atomic.AddInt32(&w.arrived, 1)
			if b, err := io.ReadAll(r.Body); err == nil && strings.HasSuffix(string(b), "END") {
				rw.Write([]byte("DONE"))
				return
			}
			rw.WriteHeader(400)
			return
		}
		if w.work(r.URL.Query().Get("d")) {
			rw.Write([]byte("DONE"))
			return
		}
		rw.WriteHeader(503)
	}))
	tcpB := tcpBackend(w)
	wsB := wsBackend(w)
	grpcLn, err := net.Listen("tcp", "127.0.0.1:0")
	if err != nil {
		panic(err)
	}
	grpcB := grpc.NewServer()
	healthpb.RegisterHealthServer(grpcB, &healthSrv{w: w})
	go grpcB.Serve(grpcLn)

	// ---- routing table, looked up the way main.go does (route.GetTable())
	addrs := make([]string, len(sc.Servers))
	var tbl strings.Builder
	fmt.Fprintf(&tbl, "route add web web.test/ %s\n", httpB.URL)
	fmt.Fprintf(&tbl, "route add ws web.test/ws http://%s\n", wsB.Addr())
	fmt.Fprintf(&tbl, "route add rpc rpc.test/ grpc://%s opts \"proto=grpc\"\n", grpcLn.Addr())
	fmt.Fprintf(&tbl, "route add sni tunnel.test/ tcp://%s opts \"proto=tcp\"\n", tcpB.Addr())
	hole := ""
	groupPort := map[int]string{}
	for _, s := range sc.Servers {
		if s.PortGroup > 0 && groupPort[s.PortGroup] == "" {
			var ips []string
			for _, s2 := range sc.Servers {
				if s2.PortGroup == s.PortGroup {
					ip := s2.IP
					if ip == "" {
						ip = "127.0.0.1"
					}
					ips = append(ips, ip)
				}
			}
			port, ok := freePortOn(ips)
			if !ok {
				res.Skip = "a second loopback address (127.0.0.2) cannot be bound on this machine"
				return
			}
			groupPort[s.PortGroup] = port
		}
	}
	routed := map[string]bool{}
	for i, s := range sc.Servers {
		addrs[i] = freeAddr()
		if s.RestartOf > 0 {
			addrs[i] = addrs[s.RestartOf-1]
		}
		if s.PortGroup > 0 {
			ip := s.IP
			if ip == "" {
				ip = "127.0.0.1"
			}
			addrs[i] = ip + ":" + groupPort[s.PortGroup]
		}
		if s.Kind == "dial" {
			if hole == "" {
				var ok bool
				if hole, ok = blackhole(); !ok {
					res.Skip = "cannot build a non-answering upstream (full accept backlog) on this kernel"
					return
				}
			}
			_, port, _ := net.SplitHostPort(addrs[i])
			fmt.Fprintf(&tbl, "route add hole%d :%s tcp://%s\n", i, port, hole)
		}
		if _, port, _ := net.SplitHostPort(addrs[i]); (s.Kind == "tcp" || s.Kind == "dyn") && !routed[port] {
			routed[port] = true
			fmt.Fprintf(&tbl, "route add tun%d :%s tcp://%s\n", i, port, tcpB.Addr())
		}
	}
	t, err := route.NewTable(bytes.NewBufferString(tbl.String()))
	if err != nil {
		panic(err)
	}
	route.SetTable(t)
	lookupHost := func(h string) *route.Target { return route.GetTable().LookupHost(h, route.Picker["rr"]) }
	newHTTPProxy := func() *proxy.HTTPProxy {
		return &proxy.HTTPProxy{Transport: &http.Transport{}, Lookup: func(r *http.Request) *route.Target {
			return route.GetTable().Lookup(r, "", route.Picker["rr"], route.Matcher["prefix"], nil, true)
		}}
	}
	cert := selfSigned()
	hello := clientHello("tunnel.test")

	// ---- the real listeners
	serveErr := make(chan string, len(sc.Servers))
	startServer := func(i int) {
		s := sc.Servers[i]
		l := config.Listen{Addr: addrs[i]}
		switch s.Kind {
		case "http":
			go func() {
				if err := proxy.ListenAndServeHTTP(l, newHTTPProxy(), nil); err != nil {
					serveErr <- err.Error()
				}
			}()
		case "tcp":
			go func() {
				if err := proxy.ListenAndServeTCP(l, &tcp.Proxy{Lookup: lookupHost}, nil); err != nil {
					serveErr <- err.Error()
				}
			}()
		case "dial":
			go func() {
				if err := proxy.ListenAndServeTCP(l, &tcp.Proxy{DialTimeout: 5 * time.Second, Lookup: lookupHost}, nil); err != nil {
					serveErr <- err.Error()
				}
			}()
		case "blk":
			h := tcp.HandlerFunc(func(in net.Conn) error {
				// learns its duration from the first line, then no longer touches the connection
				var buf []byte
				tmp := make([]byte, 256)
				for {
					n, err := in.Read(tmp)
					buf = append(buf, tmp[:n]...)
					if m := durRe.FindSubmatch(buf); m != nil {
						w.work(string(m[1]))
						return nil
					}
					if err != nil {
						return nil
					}
				}
			})
			go func() {
				if err := proxy.ListenAndServeTCP(l, h, nil); err != nil {
					serveErr <- err.Error()
				}
			}()
		case "sni":
			go func() {
				if err := proxy.ListenAndServeTCP(l, &tcp.SNIProxy{Lookup: lookupHost}, nil); err != nil {
					serveErr <- err.Error()
				}
			}()
		case "dyn":
			go func() {
				if err := proxy.ListenAndServeTCP(l, &tcp.DynamicProxy{Lookup: lookupHost}, nil); err != nil {
					serveErr <- err.Error()
				}
			}()
		case "grpc":
			cfg := &config.Config{Proxy: config.Proxy{Strategy: "rr", Matcher: "prefix", GRPCMaxRxMsgSize: 4 << 20,
				GRPCMaxTxMsgSize: 4 << 20, GRPCGShutdownTimeout: 2 * time.Second}, GlobMatchingDisabled: true}
			sh := &proxy.GrpcStatsHandler{Connect: discard.NewCounter(), Request: discard.NewHistogram(),
				NoRoute: discard.NewCounter(), Status: discard.NewHistogram()}
			ic := proxy.GrpcProxyInterceptor{Config: cfg, StatsHandler: sh, GlobCache: route.NewGlobCache(1000)}
			opts := []grpc.ServerOption{ // as main.go:newGrpcProxy
				grpc.CustomCodec(grpc_proxy.Codec()),
				grpc.UnknownServiceHandler(grpc_proxy.TransparentHandler(proxy.GetGRPCDirector(nil, cfg))),
				grpc.StreamInterceptor(ic.Stream),
				grpc.StatsHandler(sh),
				grpc.MaxRecvMsgSize(cfg.Proxy.GRPCMaxRxMsgSize),
				grpc.MaxSendMsgSize(cfg.Proxy.GRPCMaxTxMsgSize),
			}
			go func() {
				if err := proxy.ListenAndServeGRPC(l, opts, nil); err != nil {
					serveErr <- err.Error()
				}
			}()
		case "comp":
			m := func(_ context.Context, h string) bool { // as main.go:lookupHostMatcher
				t := lookupHost(h)
				if t == nil {
					return false
				}
				p, ok := t.Opts["proto"]
				if !ok && t.URL != nil {
					p = t.URL.Scheme
				}
				return p == "tcp"
			}
			tcfg := &tls.Config{Certificates: []tls.Certificate{cert}}
			go func() {
				if err := proxy.ListenAndServeHTTPSTCPSNI(l, newHTTPProxy(), &tcp.SNIProxy{Lookup: lookupHost}, tcfg, m); err != nil {
					serveErr <- err.Error()
				}
			}()
		default:
			panic("unknown kind " + s.Kind)
		}
	}
	for i, s := range sc.Servers {
		if s.RestartOf == 0 && s.StartAt == 0 {
			startServer(i)
		}
	}
	res.Addrs = addrs
	// wait until the registry of running servers has stopped growing (the harness does not assume
	// how serve() keys it); that every accept loop runs is established by the warm-up below
	deadline := time.Now().Add(5 * time.Second)
	last, since := -1, time.Now()
	for {
		n := len(proxy.VerifC18ServerAddrs())
		if n != last {
			last, since = n, time.Now()
		}
		if n > 0 && time.Since(since) >= 120*time.Millisecond {
			break
		}
		select {
		case e := <-serveErr:
			res.Err = "listen: " + e
			return
		default:
		}
		if time.Now().After(deadline) {
			res.Err = "no listener registered within 5s"
			return
		}
		time.Sleep(5 * time.Millisecond)
	}

	// ---- clients
	httpReq := func(scheme, addr string) func(string) bool {
		return func(d string) bool {
			tr := &http.Transport{TLSClientConfig: &tls.Config{ServerName: "web.test", InsecureSkipVerify: true}}
			defer tr.CloseIdleConnections()
			req, _ := http.NewRequest("GET", scheme+"://"+addr+"/work?d="+d, nil)
			req.Host = "web.test"
			resp, err := (&http.Client{Transport: tr}).Do(req)
			if err != nil {
				return false
			}
			defer resp.Body.Close()
			b, err := io.ReadAll(resp.Body)
			return err == nil && resp.StatusCode == 200 && string(b) == "DONE"
		}
	}
	tunnel := func(addr string, sni bool) func(string) bool {
		return func(d string) bool {
			c, err := net.DialTimeout("tcp", addr, 2*time.Second)
			if err != nil {
				return false
			}
			defer c.Close()
			if sni {
				if _, err := c.Write(hello); err != nil {
					return false
				}
			}
			rdy := make([]byte, 4)
			c.SetReadDeadline(time.Now().Add(3 * time.Second))
			if _, err := io.ReadFull(c, rdy); err != nil || string(rdy) != "RDY\n" {
				return false
			}
			c.SetReadDeadline(time.Time{})
			if _, err := c.Write([]byte("@@DUR=" + d + "@@\n")); err != nil {
				return false
			}
			b, _ := io.ReadAll(c)
			return string(b) == "DONE\n"
		}
	}
	stream := func(addr string) func(string) bool {
		return func(d string) bool {
			cc, err := grpc.NewClient(addr, grpc.WithTransportCredentials(insecure.NewCredentials()))
			if err != nil {
				return false
			}
			defer cc.Close()
			ctx := metadata.AppendToOutgoingContext(context.Background(), "dsthost", "rpc.test")
			st, err := healthpb.NewHealthClient(cc).Watch(ctx, &healthpb.HealthCheckRequest{Service: d})
			if err != nil {
				return false
			}
			m, err := st.Recv()
			if err != nil || m.Status != healthpb.HealthCheckResponse_SERVING {
				return false
			}
			_, err = st.Recv()
			return err == io.EOF
		}
	}

	// a connection whose handler gets stuck: the client only ever sees it closed (false);
	// for the warm-up ("w") the handler returns at once and the close is the success
	stuckClient := func(addr string, marker bool) func(string) bool {
		return func(d string) bool {
			c, err := net.DialTimeout("tcp", addr, 2*time.Second)
			if err != nil {
				return false
			}
			defer c.Close()
			if marker {
				c.Write([]byte("@@DUR=" + d + "@@\n"))
			} else {
				c.Write([]byte("hello\n"))
				go func() { // no backend ever sees this one: it counts as arrived once the handler is dialing
					time.Sleep(150 * time.Millisecond)
					atomic.AddInt32(&w.arrived, 1)
				}()
			}
			if d == "w" {
				c.SetReadDeadline(time.Now().Add(2 * time.Second))
			}
			b, err := io.ReadAll(c)
			return d == "w" && err == nil && len(b) == 0
		}
	}

	// a websocket session: Upgrade request through HTTPProxy's ws handler (hijacked connection)
	wsClient := func(addr string) func(string) bool {
		return func(d string) bool {
			c, err := net.DialTimeout("tcp", addr, 2*time.Second)
			if err != nil {
				return false
			}
			defer c.Close()
			fmt.Fprintf(c, "GET /ws/%s HTTP/1.1\r\nHost: web.test\r\nUpgrade: websocket\r\nConnection: Upgrade\r\n\r\n", d)
			b, _ := io.ReadAll(c)
			return strings.HasPrefix(string(b), "HTTP/1.1 101") && strings.HasSuffix(string(b), "DONE\n")
		}
	}
	// a request whose body is still being uploaded: the client ends it d ms after shutdown began
	upload := func(addr string) func(string) bool {
		return func(d string) bool {
			pr, pw := io.Pipe()
			go func() {
				pw.Write([]byte("PART"))
				if d != "w" {
					ms, _ := strconv.Atoi(d)
					<-w.start
					if ms < 0 {
						<-w.release
						pw.CloseWithError(io.ErrUnexpectedEOF)
						return
					}
					select {
					case <-time.After(time.Duration(ms) * time.Millisecond):
					case <-w.release:
					}
				}
				pw.Write([]byte("END"))
				pw.Close()
			}()
			tr := &http.Transport{}
			defer tr.CloseIdleConnections()
			req, _ := http.NewRequest("POST", "http://"+addr+"/work?mode=upload", pr)
			req.Host = "web.test"
			resp, err := (&http.Client{Transport: tr}).Do(req)
			if err != nil {
				return false
			}
			defer resp.Body.Close()
			b, err := io.ReadAll(resp.Body)
			return err == nil && resp.StatusCode == 200 && string(b) == "DONE"
		}
	}
	// a connection on which no request has been sent yet (http.StateNew)
	newConn := func(addr string) func(string) bool {
		return func(string) bool {
			c, err := net.DialTimeout("tcp", addr, 2*time.Second)
			if err != nil {
				return false
			}
			defer c.Close()
			go func() {
				time.Sleep(50 * time.Millisecond)
				atomic.AddInt32(&w.arrived, 1)
			}()
			io.ReadAll(c)
			return false
		}
	}
	unary := func(addr string) func(string) bool {
		return func(d string) bool {
			cc, err := grpc.NewClient(addr, grpc.WithTransportCredentials(insecure.NewCredentials()))
			if err != nil {
				return false
			}
			defer cc.Close()
			ctx := metadata.AppendToOutgoingContext(context.Background(), "dsthost", "rpc.test")
			m, err := healthpb.NewHealthClient(cc).Check(ctx, &healthpb.HealthCheckRequest{Service: d})
			return err == nil && m.Status == healthpb.HealthCheckResponse_SERVING
		}
	}
	// the warm-up request of a KeepIdle listener leaves its keep-alive connection open and idle
	var idleKept []*http.Transport
	httpKeep := func(addr string) func(string) bool {
		return func(d string) bool {
			tr := &http.Transport{}
			req, _ := http.NewRequest("GET", "http://"+addr+"/work?d="+d, nil)
			req.Host = "web.test"
			resp, err := (&http.Client{Transport: tr}).Do(req)
			if err != nil {
				return false
			}
			b, err := io.ReadAll(resp.Body)
			resp.Body.Close()
			idleKept = append(idleKept, tr)
			return err == nil && resp.StatusCode == 200 && string(b) == "DONE"
		}
	}
	_ = idleKept

	type leafWork struct {
		d     int
		run   func(string) bool
		stuck bool
	}
	var items []item
	res.Items = make([][][]obs, len(sc.Servers))
	live := res.Items // the item goroutines keep writing here after the snapshot below
	// prepare builds the clients of server i: its warm-up functions and its items (appended to items)
	prepare := func(i int) (warm []func(string) bool) {
		s := sc.Servers[i]
		var leaves [][]leafWork
		add := func(li int, ds []int, f func(string) bool, stuck bool) {
			for _, d := range ds {
				leaves[li] = append(leaves[li], leafWork{d, f, stuck})
			}
		}
		switch s.Kind {
		case "http":
			leaves = make([][]leafWork, 1)
			add(0, s.Items, httpReq("http", addrs[i]), false)
			add(0, s.Uploads, upload(addrs[i]), false)
			for k := 0; k < s.NewConns; k++ {
				add(0, []int{never}, newConn(addrs[i]), false)
			}
			add(0, s.Hijacked, wsClient(addrs[i]), false) // observations: tracked items first, hijacked last
			if s.KeepIdle {
				warm = append(warm, httpKeep(addrs[i]))
			} else {
				warm = append(warm, httpReq("http", addrs[i]))
			}
			if len(s.Hijacked) > 0 {
				warm = append(warm, wsClient(addrs[i]))
			}
		case "tcp", "dyn":
			leaves = make([][]leafWork, 1)
			add(0, s.Items, tunnel(addrs[i], false), false)
			warm = append(warm, tunnel(addrs[i], false))
		case "sni":
			leaves = make([][]leafWork, 1)
			add(0, s.Items, tunnel(addrs[i], true), false)
			warm = append(warm, tunnel(addrs[i], true))
		case "grpc":
			leaves = make([][]leafWork, 1)
			add(0, s.Items, stream(addrs[i]), false)
			add(0, s.Unary, unary(addrs[i]), false)
			warm = append(warm, stream(addrs[i]), unary(addrs[i]))
		case "comp": // children in ServeLater order: tcp.Server, then http.Server
			leaves = make([][]leafWork, 2)
			add(0, s.Items, tunnel(addrs[i], true), false)
			add(1, s.Https, httpReq("https", addrs[i]), false)
			warm = append(warm, tunnel(addrs[i], true), httpReq("https", addrs[i]))
		case "blk":
			leaves = make([][]leafWork, 1)
			add(0, s.Stuck, stuckClient(addrs[i], true), true)
			warm = append(warm, stuckClient(addrs[i], true))
		case "dial": // no warm-up possible: every connection gets stuck in the dial
			leaves = make([][]leafWork, 1)
			add(0, s.Stuck, stuckClient(addrs[i], false), true)
		}
		live[i] = make([][]obs, len(leaves))
		for li := range leaves {
			live[i][li] = make([]obs, len(leaves[li]))
			for ii, lw := range leaves[li] {
				live[i][li][ii] = obs{K: "open"}
				items = append(items, item{i, li, ii, lw.d, lw.run, lw.stuck})
			}
		}
		return warm
	}
	// warm-up: one immediate item through every leaf, so that every accept loop is known to run
	warmUp := func(warm []func(string) bool) bool {
		for k, f := range warm {
			ok := false
			for try := 0; try < 50 && !ok; try++ {
				if ok = f("w"); !ok {
					time.Sleep(20 * time.Millisecond)
				}
			}
			if !ok {
				res.Err = fmt.Sprintf("warm-up through leaf %d failed", k)
				return false
			}
		}
		return true
	}
	var mu sync.Mutex
	var t0 time.Time
	finished := make(chan int, 256)
	launched := 0
	// launch puts every not yet launched item in flight and waits until all have reached their backend
	launch := func() bool {
		for k := launched; k < len(items); k++ {
			go func(k int, it item) {
				ok := it.run(strconv.Itoa(it.d))
				mu.Lock()
				ms := int(time.Since(t0).Milliseconds())
				if t0.IsZero() {
					ms = -1
				}
				o := obs{K: "cut", T: ms}
				if ok {
					o.K = "done"
				}
				live[it.si][it.li][it.ii] = o
				mu.Unlock()
				finished <- k
			}(k, items[k])
		}
		launched = len(items)
		deadline := time.Now().Add(8 * time.Second)
		for int(atomic.LoadInt32(&w.arrived)) < len(items) {
			if time.Now().After(deadline) {
				res.Err = fmt.Sprintf("only %d of %d items reached their backend", atomic.LoadInt32(&w.arrived), len(items))
				return false
			}
			time.Sleep(2 * time.Millisecond)
		}
		return true
	}

	// ---- phase A: the listeners that run from the beginning, with their work
	var warmA []func(string) bool
	for i, s := range sc.Servers {
		if s.RestartOf == 0 && s.StartAt == 0 {
			warmA = append(warmA, prepare(i)...)
		} else if s.StartAt > 0 {
			live[i] = [][]obs{{}} // started while Shutdown runs: nothing in flight on it
		}
	}
	if !warmUp(warmA) || !launch() {
		return
	}
	time.Sleep(20 * time.Millisecond)

	// ---- the history before shutdown: CloseProxy for listeners that lost their routes
	waitD := time.Duration(sc.Wait) * time.Millisecond
	lead := 0
	for i, s := range sc.Servers {
		if s.CloseAt < 0 {
			go closeProxy(addrs[i], waitD)
			if -s.CloseAt > lead {
				lead = -s.CloseAt
			}
		}
	}
	// ---- restarts: a new listener on an address that CloseProxy has just freed, with its own work
	tLead := time.Now()
	for i, s := range sc.Servers {
		if s.RestartOf > 0 {
			time.Sleep(30 * time.Millisecond)
			startServer(i)
			wm := prepare(i)
			if !warmUp(wm) || !launch() {
				select {
				case e := <-serveErr:
					res.Err = "restart listen: " + e
				default:
				}
				return
			}
		}
	}
	if rest := time.Duration(lead)*time.Millisecond - time.Since(tLead); rest > 0 {
		time.Sleep(rest)
	}

	// ---- shutdown
	ret := make(chan int, 1)
	mu.Lock()
	t0 = time.Now()
	mu.Unlock()
	close(w.start)
	for i, s := range sc.Servers {
		if s.StartAt > 0 {
			go func(i, d int) {
				time.Sleep(time.Duration(d) * time.Millisecond)
				startServer(i)
			}(i, s.StartAt)
		}
		if s.CloseAt > 0 {
			go func(a string, d int) {
				time.Sleep(time.Duration(d) * time.Millisecond)
				closeProxy(a, waitD)
			}(addrs[i], s.CloseAt)
		}
	}
	go func() {
		proxy.Shutdown(time.Duration(sc.Wait) * time.Millisecond)
		ret <- int(time.Since(t0).Milliseconds())
	}()
	probe := func() []bool {
		out := make([]bool, len(addrs))
		var wg sync.WaitGroup
		for i, a := range addrs {
			wg.Add(1)
			go func(i int, a string) {
				defer wg.Done()
				c, err := net.DialTimeout("tcp", a, 300*time.Millisecond)
				if err == nil {
					out[i] = true
					c.Close()
				}
			}(i, a)
		}
		wg.Wait()
		return out
	}
	time.Sleep(probeAt * time.Millisecond)
	res.Probe = probe()
	select {
	case res.T = <-ret:
	case <-time.After(time.Until(t0.Add(time.Duration(sc.Cap) * time.Millisecond))):
		res.T = -1
	}
	res.ProbeLate = probe()
	res.Left = len(proxy.VerifC18ServerAddrs())

	// ---- let every finite item run out (a late HTTP request is not interrupted), then look
	maxFin := 0
	nFin := 0
	for _, it := range items {
		if it.stuck {
			continue // its client is cut at the deadline at the latest
		}
		if it.d >= 0 {
			nFin++
			if it.d > maxFin {
				maxFin = it.d
			}
		}
	}
	end := t0.Add(time.Duration(maxFin+1500) * time.Millisecond)
	if min := time.Now().Add(400 * time.Millisecond); end.Before(min) {
		end = min // a never-ending item that is going to be cut is cut by now
	}
	got := 0
wait:
	for got < len(items) {
		select {
		case <-finished:
			got++
		case <-time.After(time.Until(end)):
			break wait
		}
	}
	mu.Lock()
	snap := make([][][]obs, len(live))
	for i := range live {
		snap[i] = make([][]obs, len(live[i]))
		for j := range live[i] {
			snap[i][j] = append([]obs{}, live[i][j]...)
		}
	}
	mu.Unlock()
	res.Items = snap
	close(w.release)
	return
}

// ---------------------------------------------------------------- parent

func runScenario(sc scenario) (result, error) {
	b, _ := json.Marshal(sc)
	exe, err := os.Executable()
	if err != nil {
		return result{}, err
	}
	ctx, cancel := context.WithTimeout(context.Background(), time.Duration(sc.Cap+30000)*time.Millisecond)
	defer cancel()
	cmd := exec.CommandContext(ctx, exe, "-child", string(b))
	var out, errb bytes.Buffer
	cmd.Stdout, cmd.Stderr = &out, &errb
	if err := cmd.Run(); err != nil {
		return result{}, fmt.Errorf("child: %v: %s", err, tail(errb.String()))
	}
	var r result
	if err := json.Unmarshal(out.Bytes(), &r); err != nil {
		return result{}, fmt.Errorf("child output: %v: %q", err, tail(out.String()))
	}
	return r, nil
}

func tail(s string) string {
	if len(s) > 600 {
		return s[len(s)-600:]
	}
	return s
}

func coqDur(d int) string {
	if d < 0 {
		return "Inf"
	}
	return "(Fin " + strconv.Itoa(d) + ")"
}

func coqLeaf(kind string, ds []int) string {
	xs := make([]string, len(ds))
	for i, d := range ds {
		xs[i] = coqDur(d)
	}
	return "(L " + kind + " " + vh.List(xs) + ")"
}

func coqServer(s srvSpec) string {
	switch s.Kind {
	case "http":
		items := append(append([]int{}, s.Items...), s.Uploads...)
		for k := 0; k < s.NewConns; k++ {
			items = append(items, never)
		}
		if len(s.Hijacked) > 0 {
			hs := make([]string, len(s.Hijacked))
			for i, d := range s.Hijacked {
				hs[i] = coqDur(d)
			}
			is := make([]string, len(items))
			for i, d := range items {
				is[i] = coqDur(d)
			}
			return "(Single (LH " + vh.List(is) + " " + vh.List(hs) + "))"
		}
		return "(Single " + coqLeaf("KHttp", items) + ")"
	case "tcp", "sni", "dyn":
		return "(Single " + coqLeaf("KTcp", s.Items) + ")"
	case "grpc":
		return "(Single " + coqLeaf("KGrpc", append(append([]int{}, s.Items...), s.Unary...)) + ")"
	case "blk", "dial":
		xs := make([]string, len(s.Stuck))
		for i, d := range s.Stuck {
			xs[i] = coqDur(d)
		}
		return "(Single (LS [] " + vh.List(xs) + "))"
	case "comp":
		return "(Composite [" + coqLeaf("KTcp", s.Items) + "; " + coqLeaf("KHttp", s.Https) + "])"
	}
	panic("kind")
}

// coqAddr renders "a.b.c.d:port" as the pair (ip as a number, port).
func coqAddr(a string) string {
	host, port, _ := net.SplitHostPort(a)
	ip := net.ParseIP(host).To4()
	n := uint64(ip[0])<<24 | uint64(ip[1])<<16 | uint64(ip[2])<<8 | uint64(ip[3])
	return vh.Pair(strconv.FormatUint(n, 10), port)
}

func coqObs(o obs) string {
	switch o.K {
	case "done":
		return "(ODone " + strconv.Itoa(max0(o.T)) + ")"
	case "cut":
		return "(OCut " + strconv.Itoa(max0(o.T)) + ")"
	}
	return "OOpen"
}

func max0(i int) int {
	if i < 0 {
		return 0
	}
	return i
}

func coqBools(bs []bool) string {
	xs := make([]string, len(bs))
	for i, b := range bs {
		xs[i] = vh.Bool(b)
	}
	return vh.List(xs)
}

func hasNeverGRPC(sc scenario) bool {
	for _, s := range sc.Servers {
		if s.Kind == "grpc" {
			for _, d := range s.Items {
				if d < 0 {
					return true
				}
			}
		}
	}
	return false
}

func main() {
	if len(os.Args) == 3 && os.Args[1] == "-child" {
		var sc scenario
		if err := json.Unmarshal([]byte(os.Args[2]), &sc); err != nil {
			fmt.Fprintln(os.Stderr, err)
			os.Exit(2)
		}
		r := runChild(sc)
		b, _ := json.Marshal(r)
		os.Stdout.Write(b)
		os.Exit(0) // leaks whatever a hanging Shutdown left behind
	}

	run := vh.Start("C18")
	r := run.Rng
	// fabio's real main() under real signals: its own processes and random source, in the background
	sigClass := startSigClass(run.Seed, run.Thorough())
	// ... and with the consul backend against an agent of the harness (deregister.go)
	deregClass := startDeregClass(run.Seed, run.Thorough(), sigClass)
	// Two waits: 600 ms for every scenario, 1500 ms again for a selection (a Shutdown that takes
	// 1.5x the wait is 300 ms late at 600 ms, within the scheduling margin, but 750 ms late at 1500 ms).
	// durations: short = ends >= 350 ms before the deadline, long = >= 400 ms beyond it
	build := func(wait int) []scenario {
		short := func() int {
			lo := 180
			if wait/4 > lo {
				lo = wait / 4
			}
			return lo + r.Intn(wait-350-lo+1)
		}
		long := func() int { return wait + 400 + r.Intn(1100) }
		scs := []scenario{
			{Name: "http", Class: "http", Servers: []srvSpec{{Kind: "http", Items: []int{short(), short(), long(), long()}}}},
			{Name: "http-short+idle", Class: "http", Servers: []srvSpec{{Kind: "http", Items: []int{short(), short()}}, {Kind: "http"}}},
			{Name: "http-never", Class: "http", Servers: []srvSpec{{Kind: "http", Items: []int{short(), never}}}},
			{Name: "tcp", Class: "tcp", Servers: []srvSpec{{Kind: "tcp", Items: []int{short(), short(), long(), never}}}},
			{Name: "sni+dyn", Class: "tcp", Servers: []srvSpec{{Kind: "sni", Items: []int{short(), never}}, {Kind: "dyn", Items: []int{short(), long()}}}},
			{Name: "grpc-short", Class: "grpc", Servers: []srvSpec{{Kind: "grpc", Items: []int{short(), short()}}}},
			{Name: "grpc-over", Class: "grpc", Servers: []srvSpec{{Kind: "grpc", Items: []int{short(), long()}}}},
			{Name: "grpc-10x", Class: "grpc-beyond-wait", Servers: []srvSpec{{Kind: "grpc", Items: []int{short(), 10 * wait}}}},
			{Name: "grpc-never", Class: "grpc-beyond-wait", Servers: []srvSpec{{Kind: "grpc", Items: []int{short(), never}}}},
			{Name: "composite", Class: "composite", Servers: []srvSpec{{Kind: "comp", Items: []int{short(), never}, Https: []int{short(), long()}}}},
			{Name: "mixed", Class: "mixed", Servers: []srvSpec{
				{Kind: "http", Items: []int{short(), long()}}, {Kind: "tcp", Items: []int{short(), never}}, {Kind: "sni", Items: []int{short()}},
				{Kind: "grpc", Items: []int{short(), short()}}, {Kind: "comp", Items: []int{short()}, Https: []int{short()}}}},
			{Name: "mixed-http-grpc", Class: "mixed", Servers: []srvSpec{
				{Kind: "http", Items: []int{short(), long()}}, {Kind: "http", Items: []int{short()}}, {Kind: "grpc", Items: []int{short()}}, {Kind: "dyn", Items: []int{long()}}}},
			{Name: "tcp-stuck-handler", Class: "tcp-stuck-handler", Servers: []srvSpec{
				{Kind: "blk", Stuck: []int{short(), 10 * wait}}, {Kind: "tcp", Items: []int{short(), never}}}},
			{Name: "tcp-stuck-dialing", Class: "tcp-stuck-handler", Servers: []srvSpec{{Kind: "dial", Stuck: []int{5000}}}},
			// multi-homed: the same port number on two local addresses
			{Name: "same-port-tcp+tcp", Class: "same-port", Servers: []srvSpec{
				{Kind: "tcp", Items: []int{short(), never}, PortGroup: 1}, {Kind: "tcp", Items: []int{short(), long()}, IP: "127.0.0.2", PortGroup: 1}}},
			{Name: "same-port-http+http", Class: "same-port", Servers: []srvSpec{
				{Kind: "http", Items: []int{short(), long()}, PortGroup: 1}, {Kind: "http", Items: []int{short(), short()}, IP: "127.0.0.2", PortGroup: 1}}},
			{Name: "same-port-http+tcp", Class: "same-port", Servers: []srvSpec{
				{Kind: "http", Items: []int{short(), long()}, IP: "127.0.0.2", PortGroup: 1}, {Kind: "tcp", Items: []int{short(), never}, PortGroup: 1},
				{Kind: "grpc", Items: []int{short()}, PortGroup: 2}, {Kind: "dyn", Items: []int{short()}, IP: "127.0.0.2", PortGroup: 2}}},
			// histories: a dynamically opened listener is closed by CloseProxy shortly before, or while, Shutdown runs
			{Name: "close-before-busy", Class: "history", Servers: []srvSpec{
				{Kind: "http", Items: []int{short(), long()}}, {Kind: "dyn", Items: []int{short(), never}, CloseAt: -100}, {Kind: "tcp", Items: []int{short(), never}}}},
			{Name: "close-before-idle", Class: "history", Servers: []srvSpec{
				{Kind: "http", Items: []int{short()}}, {Kind: "grpc", Items: []int{short(), never}}, {Kind: "dyn", CloseAt: -100}}},
			{Name: "close-before-two", Class: "history", Servers: []srvSpec{
				{Kind: "dyn", Items: []int{short()}, CloseAt: -250}, {Kind: "dyn", Items: []int{long()}}, {Kind: "tcp", CloseAt: -100},
				{Kind: "comp", Items: []int{short()}, Https: []int{short(), long()}}}},
			{Name: "close-during", Class: "history", Servers: []srvSpec{
				{Kind: "http", Items: []int{short(), long()}}, {Kind: "dyn", Items: []int{short(), never}, CloseAt: 100}, {Kind: "tcp", Items: []int{short()}}}},
			{Name: "close-before-and-during", Class: "history", Servers: []srvSpec{
				{Kind: "dyn", Items: []int{short(), long()}, CloseAt: -100}, {Kind: "dyn", Items: []int{short(), never}, CloseAt: 200}, {Kind: "http", Items: []int{short()}}}},
			// second instances of the main classes with other durations
			{Name: "http-2", Class: "http", Servers: []srvSpec{{Kind: "http", Items: []int{short(), long(), never}}, {Kind: "http", Items: []int{long()}}}},
			{Name: "tcp-2", Class: "tcp", Servers: []srvSpec{{Kind: "tcp", Items: []int{short(), long()}}, {Kind: "sni", Items: []int{short(), long()}}, {Kind: "dyn", Items: []int{never}}}},
			{Name: "grpc-2", Class: "grpc", Servers: []srvSpec{{Kind: "grpc", Items: []int{short(), long(), never}}, {Kind: "grpc", Items: []int{short()}}}},
			{Name: "composite-2", Class: "composite", Servers: []srvSpec{{Kind: "comp", Items: []int{short(), long()}, Https: []int{short(), never}}, {Kind: "http", Items: []int{short()}}}},
			{Name: "mixed-2", Class: "mixed", Servers: []srvSpec{
				{Kind: "grpc", Items: []int{short(), never}}, {Kind: "tcp", Items: []int{short(), long()}}, {Kind: "http", Items: []int{short(), long()}},
				{Kind: "blk", Stuck: []int{short(), 10 * wait}}, {Kind: "sni", Items: []int{short(), never}}}},
			// websocket sessions (hijacked connections) on an HTTP listener
			{Name: "ws-http-only", Class: "hijacked", Servers: []srvSpec{{Kind: "http", Hijacked: []int{short()}}}},
			{Name: "ws-http-busy", Class: "hijacked", Servers: []srvSpec{{Kind: "http", Items: []int{never}, Hijacked: []int{short(), long()}}}},
			{Name: "ws-with-tcp", Class: "hijacked", Servers: []srvSpec{{Kind: "http", Items: []int{short()}, Hijacked: []int{short(), long(), never}}, {Kind: "tcp", Items: []int{short()}}}},
			// a tcp-dynamic listener started while Shutdown runs (main.go's watcher is not stopped)
			{Name: "late-start", Class: "late-start", Servers: []srvSpec{
				{Kind: "http", Items: []int{short(), long()}}, {Kind: "tcp", Items: []int{short(), never}}, {Kind: "dyn", StartAt: 60}}},
			{Name: "late-start-idle", Class: "late-start", Servers: []srvSpec{{Kind: "http"}, {Kind: "dyn", StartAt: 60}}},
			// the tcp-dynamic restart: start a; CloseProxy a; start a again
			{Name: "restart-busy", Class: "history-restart", Servers: []srvSpec{
				{Kind: "dyn", Items: []int{short(), never}, CloseAt: -250}, {Kind: "http", Items: []int{short()}}, {Kind: "dyn", Items: []int{short(), long()}, RestartOf: 1}}},
			{Name: "restart-idle", Class: "history-restart", Servers: []srvSpec{
				{Kind: "tcp", CloseAt: -100}, {Kind: "grpc", Items: []int{short()}}, {Kind: "tcp", Items: []int{never}, RestartOf: 1}}},
			// other kinds of open work: unary gRPC calls, request bodies still uploading, connections
			// without a request yet, idle keep-alive connections
			{Name: "grpc-unary", Class: "grpc", Servers: []srvSpec{{Kind: "grpc", Items: []int{short()}, Unary: []int{short(), long(), never}}}},
			{Name: "grpc-unary-short", Class: "grpc", Servers: []srvSpec{{Kind: "grpc", Unary: []int{short(), short()}}}},
			{Name: "http-upload", Class: "http", Servers: []srvSpec{{Kind: "http", Items: []int{short()}, Uploads: []int{short(), long()}, KeepIdle: true}}},
			{Name: "http-new-conn", Class: "http", Servers: []srvSpec{{Kind: "http", Items: []int{short()}, NewConns: 1, KeepIdle: true}}},
			{Name: "http-idle-conn", Class: "http", Servers: []srvSpec{{Kind: "http", Items: []int{short()}, KeepIdle: true}, {Kind: "http", KeepIdle: true}}},
			{Name: "idle-http", Class: "idle", Servers: []srvSpec{{Kind: "http"}}},
			{Name: "idle-all", Class: "idle", Servers: []srvSpec{{Kind: "http"}, {Kind: "tcp"}, {Kind: "grpc"}, {Kind: "comp"}}},
		}
		if run.Thorough() {
			kinds := []string{"http", "tcp", "sni", "dyn", "grpc", "comp", "blk"}
			for i := 0; i < 24; i++ {
				n := 1 + r.Intn(4)
				sc := scenario{Name: fmt.Sprintf("random-%d", i), Class: "random"}
				for j := 0; j < n; j++ {
					s := srvSpec{Kind: kinds[r.Intn(len(kinds))]}
					gen := func() []int {
						var ds []int
						for k := r.Intn(4); k > 0; k-- {
							switch x := r.Intn(10); {
							case x < 5:
								ds = append(ds, short())
							case x < 8:
								ds = append(ds, long())
							case s.Kind != "grpc": // never-ending gRPC streams cost the hang cap: only in the directed scenario
								ds = append(ds, never)
							default:
								ds = append(ds, short())
							}
						}
						return ds
					}
					s.Items = gen()
					if s.Kind == "blk" { // stuck handlers instead of tunnels; a never-returning one would only cost time
						s.Stuck, s.Items = s.Items, nil
						for k, b := range s.Stuck {
							if b < 0 {
								s.Stuck[k] = 10 * wait
							}
						}
					}
					if s.Kind == "comp" {
						s.Https = gen()
					}
					if (s.Kind == "dyn" || s.Kind == "tcp") && r.Intn(4) == 0 {
						s.CloseAt = []int{-100, -250, 100}[r.Intn(3)]
					}
					sc.Servers = append(sc.Servers, s)
				}
				scs = append(scs, sc)
			}
		}
		for i := range scs {
			scs[i].Wait = wait
			scs[i].Cap = 10000
		}
		return scs
	}
	scs := build(600)
	again := map[string]bool{"http": true, "http-never": true, "tcp": true, "grpc-never": true, "grpc-10x": true, "composite": true,
		"mixed": true, "tcp-stuck-handler": true, "close-before-busy": true, "ws-http-only": true}
	for _, sc := range build(1500) {
		if again[sc.Name] {
			sc.Name += "-w1500"
			scs = append(scs, sc)
		}
	}

	results := make([]result, len(scs))
	errs := make([]error, len(scs))
	sem := make(chan struct{}, 4)
	var wg sync.WaitGroup
	for i := range scs {
		wg.Add(1)
		go func(i int) {
			defer wg.Done()
			sem <- struct{}{}
			defer func() { <-sem }()
			for try := 0; try < 3; try++ {
				results[i], errs[i] = runScenario(scs[i])
				if errs[i] == nil && (results[i].Err == "" || results[i].Skip != "") {
					return
				}
			}
		}(i)
	}
	wg.Wait()

	for i, sc := range scs {
		res := results[i]
		if errs[i] == nil && res.Skip != "" {
			run.Exclude(res.Skip)
			continue
		}
		if errs[i] != nil || res.Err != "" {
			msg := res.Err
			if errs[i] != nil {
				msg = errs[i].Error()
			}
			run.Violation(run.NextID(), "scenario "+sc.Name+" could not be set up three times (harness problem, no verdict): "+msg, sc)
			continue
		}
		// the history: the starts before shutdown, the CloseProxy calls before it, the restarts on the
		// freed addresses, then what happens while Shutdown runs (servers are listed in that order)
		var srv []string
		phase := func(s srvSpec) int {
			switch {
			case s.StartAt > 0:
				return 2
			case s.RestartOf > 0:
				return 1
			}
			return 0
		}
		for k := 1; k < len(sc.Servers); k++ {
			if phase(sc.Servers[k]) < phase(sc.Servers[k-1]) {
				panic("scenario " + sc.Name + ": servers must be listed in start order")
			}
		}
		for k, s := range sc.Servers {
			if phase(s) == 0 {
				srv = append(srv, vh.App("HStart", coqAddr(res.Addrs[k]), coqServer(s)))
			}
		}
		for k, s := range sc.Servers {
			if s.CloseAt < 0 {
				srv = append(srv, vh.App("HClose", coqAddr(res.Addrs[k])))
			}
		}
		for k, s := range sc.Servers {
			if phase(s) == 1 {
				srv = append(srv, vh.App("HStart", coqAddr(res.Addrs[k]), coqServer(s)))
			}
		}
		for k, s := range sc.Servers {
			if s.CloseAt > 0 {
				srv = append(srv, vh.App("HCloseDuring", coqAddr(res.Addrs[k])))
			}
			if phase(s) == 2 {
				srv = append(srv, vh.App("HStartDuring", coqAddr(res.Addrs[k]), coqServer(s)))
			}
		}
		T := vh.None
		if res.T >= 0 {
			T = vh.Some(strconv.Itoa(res.T))
		}
		its := make([]string, len(res.Items))
		for a, leaves := range res.Items {
			ls := make([]string, len(leaves))
			for b, os := range leaves {
				xs := make([]string, len(os))
				for c, o := range os {
					xs[c] = coqObs(o)
				}
				ls[b] = vh.List(xs)
			}
			its[a] = vh.List(ls)
		}
		term := vh.App("CScen", strconv.Itoa(sc.Wait), vh.List(srv), T, strconv.Itoa(probeAt), coqBools(res.Probe), coqBools(res.ProbeLate),
			vh.List(its), strconv.Itoa(lowerTol), strconv.Itoa(upperTol))
		id := run.Add(sc.Class, term, map[string]interface{}{"scenario": sc, "observed": res})
		if res.T < 0 {
			if hasNeverGRPC(sc) {
				run.Violation(id, fmt.Sprintf("proxy.Shutdown(%dms) had not returned after %dms while a never-ending gRPC stream was open (GracefulStop ignores the deadline)", sc.Wait, sc.Cap), sc)
			} else {
				run.Violation(id, fmt.Sprintf("proxy.Shutdown(%dms) had not returned after %dms although no never-ending gRPC stream was open", sc.Wait, sc.Cap), sc)
			}
		}
		late := 0
		for _, sv := range sc.Servers {
			if sv.StartAt > 0 {
				late++ // registered after the snapshot: expected to be left (F-C18-3)
			}
		}
		if res.Left != late {
			run.Violation(id, fmt.Sprintf("registry of running servers not emptied by Shutdown: %d left", res.Left), sc)
		}
	}
	sigClass.finish(run)
	deregClass.finish(run)
	run.Notes["real_main_consul_deregister"] = map[string]interface{}{"wait_ms": sigWait, "scripts": len(deregClass.scs)}
	run.Notes["real_main_signals"] = map[string]interface{}{"wait_ms": sigWait, "upper_tolerance_ms": sigUpperTol, "scripts": len(sigClass.scs)}
	run.Notes["wait_ms"] = []int{600, 1500}
	run.Notes["hang_cap_ms"] = 10000
	run.Notes["tolerances_ms"] = map[string]interface{}{"lower": lowerTol, "upper": upperTol, "http_poll": 600, "spec_margin": 150, "spec_slack": "max(300, wait/4)"}
	run.Finish(preamble, run.Scale(4, 8))
}
