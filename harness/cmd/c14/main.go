// Correspondence harness for C14 (every service registration yields route commands fabio
// itself accepts): generates Consul catalog entries (names, v4/v6 addresses, ports, routing tags
// with option strings, extra tags with quotes, backslashes, commas, non-ASCII and control bytes),
// alone and beside well-formed services, runs the real routecmd.build on each, the real
// route.Parse on every generated command and the real route.NewTable on the whole text
// (reverse-sorted and joined as makeConfig does), and writes the observables as cases for the
// Coq model to judge.  Library facts the model takes as parameters (url.Parse, glob.Compile,
// strconv.ParseFloat, strconv.IsPrint) are computed here with the real libraries; the in-model
// os.Expand / strconv.Quote / parseURLPrefixTag are also compared with the real ones directly.
package main

import (
	"bytes"
	"fmt"
	"math"
	"encoding/json"
	"math/rand"
	"net"
	"net/http"
	"net/http/httptest"
	"net/url"
	"os"
	"sort"
	"strconv"
	"strings"
	"sync"
	"time"
	"unicode"

	"github.com/gobwas/glob"
	"github.com/hashicorp/consul/api"

	"github.com/fabiolb/fabio/config"
	"github.com/fabiolb/fabio/registry/consul"
	"github.com/fabiolb/fabio/route"

	"verifharness/internal/vh"
)

const preamble = `From Coq Require Import List NArith ZArith String.
From Fabio Require Import Lib.Outcome Lib.Bytes Lib.Pack Model.WtF64 Model.TableCmd Model.RouteText Model.RouteCmd Model.ServiceWatch Check.C14.
From Fabio Require Check.C05.
Import ListNotations.
Local Open Scope N_scope.
`

// ---------- pools ----------

var (
	goodNames = []string{"svc-a", "svc-b", "api", "web", "db.primary", "svc_c"}
	badNames  = []string{"my svc", "", "a\tb", "svc ", " svc", "x\ny", "a  b c"}
	oddNames  = []string{`q"uote`, `back\slash`, "caf\xc3\xa9", "tags", "weight", "#hash", "a,b", "x\x01y"}
	addrs4    = []string{"10.0.0.1", "10.0.0.2", "192.168.1.10", "host-1", "svc.internal"}
	addrs6    = []string{"::1", "fe80::1", "2001:db8::17", "::ffff:10.0.0.1"}
	badAddrs  = []string{"10.0.0.1 x", "[::1", "a b", "h\tt", "%zz", "ex ample.com"}
	nodeAddrs = []string{"172.16.0.5", "node-7", "", "fd00::5"}
	ports     = []int{80, 8080, 443, 0, 65535, 5000, 1, 9999}
	prefixes  = []string{"urlprefix-", "urlprefix-", "urlprefix-", "fabio-", "up "}

	hostsLo   = []string{"foo.com", "bar.org", "a.b", "x.example.com"}
	hostsUp   = []string{"Foo.com", "BAR.org", "A.b", "Www.Example.COM"}
	hostPorts = []string{"foo.com:8080", "Foo.com:8080", "BAR.ORG:443", "a.b:1"}
	envHosts  = []string{"$DC.foo.com", "${DC}.x.org", "a.$DC", "${NOPE}h.com", "h$", "${}h", "${x", "$1.x", "$$.y", "${DC", "h${*}"}
	paths     = []string{"/", "/foo", "/Foo/Bar", "/api/", "/z*", "", "/a-b_c.d", "/x/y/z"}
	envPaths  = []string{"/$DC/x", "/a/${DC}", "/x$", "/${DC}${DC}", "/$DC_x", "/${ }", "/$-a", "/a${}b", "/${DC", "/$", "/x$/y"}
	badPaths  = []string{"/[", "/{a", "/[a-", "/a\tb", "/\\"}
	tcpPorts  = []string{":8080", ":1234", ":443"}
	badHosts  = []string{"[x.com", "{a.com", "Foo[.com", "x.[a-.org", "[", "a{b,c.com:80", "*.{x.com"}
	okGlobHosts = []string{"*.foo.com", "{a,b}.x.org", "[ab].x.org", "*"}

	plainOpts = []string{"strip=/foo", "host=dst", "host=Foo.com", "tlsskipverify=true", "register=name", "prepend=/p", "k", "a=b=c",
		"proto=http", "pxyproto=true", "auth=basic", "strip=/foo", "allow=ip:10.0.0.0/8",
		"proto=grpcx", "proto=tcp4", "proto=httpss", "proto=grpcs2", "xproto=tcp", "weight", "weights=1", "redirects=301,http://x.com/"}
	protoOpts    = []string{"proto=tcp", "proto=https", "proto=grpc", "proto=grpcs"}
	redirOpts    = []string{"redirect=301,http://x.com/", "redirect=302,https://y.org/p?q=1", "redirect=307,http://z.net:8080/a/$path"}
	oddRedir     = []string{"redirect=301", "redirect=301,", "redirect=a,b,c", "redirect=,http://x.com/", "redirect=301,http://[::1", "redirect=301,http://x.com/ y"}
	weightOpts   = []string{"weight=0.5", "weight=0.25", "weight=2", "weight=0.1", "weight=1", "weight=0.3333", "weight=0.05", "weight=-1", "weight=0", "weight=0.50"}
	oddWeights   = []string{"weight=", "weight=abc", "weight=0.5x", "weight=1e-1", "weight=.5", "weight=+0.2", "weight=0x1p-2", "weight=1_0", "weight=5.", "weight=0,5", "weight=50%"}
	crashWeights = []string{"weight=Inf", "weight=+Inf", "weight=inf", "weight=5e-324", "weight=1e-320", "weight=Infinity"}
	otherWeights = []string{"weight=NaN", "weight=1e308", "weight=-Inf", "weight=1e400"}
	oddOpts      = []string{`host="x"`, `strip=\d`, `a="`, "k\x01v", "caf\xc3\xa9=1", "x=\xff", `"`, "=v", "proto=tcp,", "proto=TCP", "weight", "redirect"}

	plainTags = []string{"blue", "green", "v1", "a b", "dc1", " padded ", "canary", "x=y", "a.b-c_d", "UPPER", "t:1", "'single'", "a;b"}
	quoteTags = []string{`a"b`, `"`, `say "hi"`, `x" opts "y`}
	alterTags = []string{`a\b`, `\`, `c:\dir`, "a,b", ",", "a, b", "a\x01b", "a\tb", "x\x7f", "a\nb", "\x00"}
	utf8Tags  = []string{"caf\xc3\xa9", "\xe6\x97\xa5\xe6\x9c\xac", "\xf0\x9f\x98\x80", "na\xc3\xafve-\xc3\x9f"}
	badUTags  = []string{"x\xffy", "\xc3", "\xe6\x97", "\xc2\xad", "\xe2\x80\x8b", "\xef\xbf\xbd", "\xed\xa0\x80", "\xc0\xaf", "\xf4\x90\x80\x80", "\x80", "\xef\xbb\xbf", "\xf0\x9f\x98"}
)

type entry struct {
	Name, ID, Addr, Node string
	Port                 int
	Tags                 []string
}

type gen struct {
	r      *rand.Rand
	prefix string
}

func (g *gen) pick(l []string) string { return l[g.r.Intn(len(l))] }
func (g *gen) chance(pct int) bool   { return g.r.Intn(100) < pct }

// routePart: feature flags select the pools
type feat struct {
	upper, env, badPath, hostOnly, tcp, badHost, globHost bool
}

func (g *gen) routePart(f feat) string {
	switch {
	case f.tcp:
		return g.pick(tcpPorts)
	case f.badHost:
		h := g.pick(badHosts)
		if g.chance(40) {
			return h // host-only
		}
		return h + g.pick([]string{"/", "/foo", "/x/y"})
	case f.globHost:
		return g.pick(okGlobHosts) + g.pick([]string{"/", "/foo", ""})
	case f.hostOnly:
		if g.chance(50) {
			if f.upper {
				return g.pick(hostsUp)
			}
			return g.pick(hostsLo)
		}
		hp := g.pick(hostPorts)
		if !f.upper {
			hp = strings.ToLower(hp)
		}
		return hp
	}
	host := ""
	switch x := g.r.Intn(10); {
	case f.env && x < 6:
		host = g.pick(envHosts)
	case x < 4:
		host = ""
	case f.upper || x == 9:
		host = g.pick(hostsUp)
	default:
		host = g.pick(hostsLo)
	}
	path := g.pick(paths)
	if f.env && g.chance(60) {
		path = g.pick(envPaths)
	}
	if f.badPath {
		path = g.pick(badPaths)
	}
	if host == "" && path == "" {
		path = "/"
	}
	if path == "" {
		path = "/"
	}
	return host + path
}

func (g *gen) sep() string {
	switch g.r.Intn(12) {
	case 0:
		return "  "
	case 1:
		return "\t"
	case 2:
		return " \t "
	}
	return " "
}

// routeTag builds "<prefix><route>[ opts]".
func (g *gen) routeTag(f feat, opts []string) string {
	s := g.prefix + g.routePart(f)
	if len(opts) > 0 {
		s += " " + opts[0]
		for _, o := range opts[1:] {
			s += g.sep() + o
		}
	}
	switch g.r.Intn(15) {
	case 0:
		s = " " + s
	case 1:
		s += " "
	case 2:
		s = "\t" + s + " \n"
	}
	return s
}

func (g *gen) someOpts(max int, pools ...[]string) []string {
	n := g.r.Intn(max + 1)
	var os []string
	for i := 0; i < n; i++ {
		os = append(os, g.pick(pools[g.r.Intn(len(pools))]))
	}
	return os
}

func (g *gen) goodEntry(i int) entry {
	e := entry{Name: g.pick(goodNames), ID: fmt.Sprintf("id-%d", i), Addr: g.pick(addrs4), Node: g.pick(nodeAddrs), Port: ports[g.r.Intn(len(ports))]}
	if g.chance(20) {
		e.Addr = g.pick(addrs6)
	}
	if g.chance(10) && e.Node != "" {
		e.Addr = ""
	}
	n := 1 + g.r.Intn(2)
	for k := 0; k < n; k++ {
		f := feat{tcp: g.chance(8), hostOnly: g.chance(10), globHost: g.chance(6)}
		opts := g.someOpts(2, plainOpts, plainOpts, weightOpts, protoOpts)
		if f.tcp {
			opts = append([]string{"proto=tcp"}, opts...)
		}
		e.Tags = append(e.Tags, g.routeTag(f, opts))
	}
	for k := g.r.Intn(3); k > 0; k-- {
		e.Tags = append(e.Tags, g.pick(plainTags))
	}
	g.r.Shuffle(len(e.Tags), func(a, b int) { e.Tags[a], e.Tags[b] = e.Tags[b], e.Tags[a] })
	return e
}

// badEntry: one entry with (mostly) one inexpressible or odd feature
func (g *gen) badEntry(i int, kind string) entry {
	e := g.goodEntry(i)
	e.Name = "bad-" + e.Name
	switch kind {
	case "quote-tag":
		e.Tags = append(e.Tags, g.pick(quoteTags))
	case "alter-tag":
		e.Tags = append(e.Tags, g.pick(alterTags))
	case "utf8-tag":
		e.Tags = append(e.Tags, g.pick(utf8Tags))
		if g.chance(50) {
			e.Tags = append(e.Tags, g.pick(badUTags))
		}
	case "bad-utf8-tag":
		e.Tags = append(e.Tags, g.pick(badUTags))
	case "empty-tag":
		var ts []string
		for _, t := range e.Tags {
			if strings.HasPrefix(strings.TrimSpace(t), g.prefix) {
				ts = append(ts, t)
			}
		}
		e.Tags = append(ts, g.pick([]string{"", " ", "\t"}))
		if g.chance(30) {
			e.Tags = append(e.Tags, "")
		}
	case "bad-name":
		e.Name = g.pick(badNames)
	case "odd-name":
		e.Name = g.pick(oddNames)
	case "bad-addr":
		e.Addr = g.pick(badAddrs)
	case "no-addr":
		e.Addr, e.Node = "", ""
	case "neg-port":
		e.Port = -g.r.Intn(100) - 1
	case "odd-weight":
		e.Tags = append(e.Tags, g.routeTag(feat{}, append(g.someOpts(1, plainOpts), g.pick(oddWeights))))
	case "crash-weight":
		e.Tags = append(e.Tags, g.routeTag(feat{}, []string{g.pick(crashWeights)}))
	case "other-weight":
		e.Tags = append(e.Tags, g.routeTag(feat{}, []string{g.pick(otherWeights)}))
	case "odd-opt":
		e.Tags = append(e.Tags, g.routeTag(feat{}, append(g.someOpts(2, plainOpts), g.pick(oddOpts))))
	case "odd-redirect":
		e.Tags = append(e.Tags, g.routeTag(feat{}, append(g.someOpts(1, plainOpts), g.pick(oddRedir))))
	case "bad-path":
		e.Tags = append(e.Tags, g.routeTag(feat{badPath: true}, g.someOpts(1, plainOpts)))
	case "bad-host":
		e.Tags = append(e.Tags, g.routeTag(feat{badHost: true}, g.someOpts(1, plainOpts)))
		if g.chance(30) { // the same bad host twice / beside a compiling glob host
			e.Tags = append(e.Tags, g.routeTag(feat{badHost: true}, nil), g.routeTag(feat{globHost: true}, nil))
		}
	case "grammar-completing":
		// extra words in the name / route that complete the route add grammar, with a route or a
		// redirect target that reads as a keyword, a weight or a quoted clause
		switch g.r.Intn(4) {
		case 0:
			e.Name = g.pick([]string{"victim victim.com/ http://evil:80/", "a  b c", "svc host/ http://dst/", "x\ty z", "a b", "svc /p http://h/ weight 1 tags"})
			e.Tags = []string{g.prefix + g.pick([]string{"weight", "tags", "opts"}) + " " + g.pick([]string{"redirect=301,1", "redirect=301,0.5", `redirect=301,"x"`, "redirect=301,abc", "redirect=302,\"strip=/x\""})}
		case 1:
			e.Tags = append(e.Tags, g.prefix+g.pick([]string{"victim.com/\thttp://evil/\tweight redirect=301,1", "/x\thttp://evil/ strip=/x", "h.com/\thttp://evil:80/\ttags redirect=301,\"x\""}))
		case 2:
			e.Tags = append(e.Tags, g.pick([]string{`a" opts "strip=/x`, `x" weight "1`, `a" tags "b`, `a" opts "`}))
		default:
			e.Name = g.pick([]string{"svc ", " svc", "\tsvc", "svc\t", "svc\v", "\vsvc", "a\vb"})
		}
	case "unicode-space":
		e.Tags = append(e.Tags, g.pick([]string{"a\u00a0b", "\u00a0lead", "trail\u0085", "x\u2028y", g.prefix + "/nb\u00a0sp strip=/x", g.prefix + "/o a=1\u00a0b=2", g.prefix + "\u00c9.com/"}))
	case "empty-route":
		e.Tags = append(e.Tags, g.pick([]string{g.prefix, g.prefix + " ", g.prefix + " proto=tcp", g.prefix + "/x\tproto=tcp", g.prefix + "\t/x"}))
	}
	return e
}

var badKinds = []string{"quote-tag", "alter-tag", "utf8-tag", "bad-utf8-tag", "empty-tag", "bad-name", "odd-name", "bad-addr", "no-addr", "neg-port",
	"odd-weight", "crash-weight", "other-weight", "odd-opt", "odd-redirect", "bad-path", "empty-route", "bad-host", "grammar-completing", "unicode-space"}

// multiTag: >= 2 routing tags where earlier ones set the destination (proto= / redirect=) and later ones do not
func (g *gen) multiTag(i int) entry {
	e := entry{Name: g.pick(goodNames), ID: fmt.Sprintf("id-%d", i), Addr: g.pick(addrs4), Node: g.pick(nodeAddrs), Port: ports[g.r.Intn(len(ports))]}
	if g.chance(25) {
		e.Addr = g.pick(addrs6)
	}
	n := 2 + g.r.Intn(3)
	for k := 0; k < n; k++ {
		var opts []string
		switch g.r.Intn(4) {
		case 0:
			opts = []string{g.pick(protoOpts)}
		case 1:
			opts = []string{g.pick(redirOpts)}
		case 2:
			opts = g.someOpts(2, plainOpts, weightOpts)
		}
		if g.chance(30) {
			opts = append(opts, g.pick(plainOpts))
		}
		e.Tags = append(e.Tags, g.prefix+g.pick(hostsLo)+fmt.Sprintf("/p%d", k)+optsStr(opts))
	}
	if g.chance(40) {
		e.Tags = append(e.Tags, g.pick(plainTags))
	}
	return e
}

func optsStr(opts []string) string {
	if len(opts) == 0 {
		return ""
	}
	return " " + strings.Join(opts, " ")
}

func (g *gen) upperHost(i int) entry {
	e := g.goodEntry(i)
	e.Tags = nil
	n := 1 + g.r.Intn(3)
	for k := 0; k < n; k++ {
		f := feat{upper: true, hostOnly: g.chance(70)}
		e.Tags = append(e.Tags, g.routeTag(f, g.someOpts(1, plainOpts, weightOpts)))
	}
	return e
}

func (g *gen) envEntry(i int) entry {
	e := g.goodEntry(i)
	e.Tags = nil
	n := 1 + g.r.Intn(3)
	for k := 0; k < n; k++ {
		e.Tags = append(e.Tags, g.routeTag(feat{env: true}, g.someOpts(1, plainOpts)))
	}
	if g.chance(30) {
		e.Tags = append(e.Tags, "$DC")
	}
	return e
}

// ---------- Coq rendering ----------

func strList(l []string) string {
	items := make([]string, len(l))
	for i, s := range l {
		items[i] = vh.HxS(s)
	}
	return vh.List(items)
}

func envTerm(env map[string]string) string {
	if env == nil {
		return vh.None
	}
	var ks []string
	for k := range env {
		ks = append(ks, k)
	}
	sort.Strings(ks)
	var items []string
	for _, k := range ks {
		items = append(items, vh.Pair(vh.HxS(k), vh.HxS(env[k])))
	}
	return vh.Some(vh.List(items))
}

func wtTerm(f float64) (string, bool) {
	if f == 0 {
		return "WZ", true
	}
	b := math.Float64bits(f)
	exp := int64(b>>52) & 0x7ff
	if exp == 0 || exp == 0x7ff {
		return "", false // subnormal, Inf, NaN: outside Model/WtF64.v
	}
	m := b&(1<<52-1) | 1<<52
	c := "WP"
	if b>>63 == 1 {
		c = "WN"
	}
	return "(" + c + " " + vh.N64(m) + " " + vh.Z(exp-1075) + ")", true
}

func optsTerm(m map[string]string) string {
	var keys []string
	for k := range m {
		keys = append(keys, k)
	}
	sort.Strings(keys)
	var kvs []string
	for _, k := range keys {
		kvs = append(kvs, vh.Pair(vh.HxS(k), vh.HxS(m[k])))
	}
	return vh.List(kvs)
}

func tableObs(run *vh.Run, id int, t route.Table) (string, bool) {
	var hosts []string
	for h := range t {
		hosts = append(hosts, h)
	}
	sort.Strings(hosts)
	var hs []string
	for _, h := range hosts {
		var rs []string
		for _, r := range t[h] {
			if r.Host != h {
				run.Violation(id, "Route.Host differs from the table key it is stored under", map[string]string{"key": h, "host": r.Host})
			}
			var ts []string
			for _, tg := range r.Targets {
				w, ok := wtTerm(tg.FixedWeight)
				if !ok || math.IsNaN(tg.Weight) {
					return "", false
				}
				ts = append(ts, vh.App("C05.T", vh.HxS(tg.Service), vh.HxS(tg.URL.String()), w, strList(tg.Tags), optsTerm(tg.Opts), vh.Bool(tg.Weight > 0)))
			}
			rs = append(rs, vh.Pair(vh.HxS(r.Path), vh.List(ts)))
		}
		hs = append(hs, vh.Pair(vh.HxS(h), vh.List(rs)))
	}
	return vh.List(hs), true
}

func errKind(err error) int {
	s := err.Error()
	switch {
	case strings.Contains(s, "'route' expected"):
		return 1
	case strings.Contains(s, "'route add' invalid"):
		return 2
	case strings.Contains(s, "'route del' invalid"):
		return 3
	case strings.Contains(s, "'route weight' invalid"):
		return 4
	case strings.Contains(s, "weight value invalid"):
		return 5
	case s == "route: prefix must not be empty":
		return 6
	case s == "route: target must not be empty":
		return 7
	case strings.HasPrefix(s, "route: invalid target."):
		return 8
	case s == "route: no target match":
		return 9
	case strings.HasPrefix(s, "route: invalid host."):
		return 11
	}
	return 10
}

func hostpath(prefix string) (string, string) {
	if strings.HasPrefix(prefix, ":") {
		return prefix, ""
	}
	p := strings.SplitN(prefix, "/", 2)
	if len(p) == 1 {
		return p[0], "/"
	}
	return p[0], "/" + p[1]
}

// facts collects what the real libraries say about the strings of a case.
type facts struct {
	urls  map[string]string
	globs map[string]bool
	wl    map[string]string
	np    map[rune]bool
	ok    bool
	odd   string // a weight literal outside the modelled binary64 domain
}

func newFacts() *facts {
	return &facts{urls: map[string]string{}, globs: map[string]bool{}, wl: map[string]string{}, np: map[rune]bool{}, ok: true}
}

func (f *facts) url(d string) {
	if _, seen := f.urls[d]; seen {
		return
	}
	u, err := url.Parse(d)
	if err != nil {
		f.urls[d] = vh.None
		return
	}
	f.urls[d] = vh.Some(vh.HxS(u.String()))
	f.url(u.String())
}

func (f *facts) glob(p string) {
	if _, err := glob.Compile(p); err != nil {
		f.globs[p] = true
	}
}

func (f *facts) weight(lit string) {
	if lit == "" {
		return
	}
	v, err := strconv.ParseFloat(lit, 64)
	if err != nil || math.IsNaN(v) || math.IsInf(v, 0) { // route.parseWeight since /repo 0b2a40e
		f.wl[lit] = vh.Err(5)
	} else if w, ok := wtTerm(v); ok {
		f.wl[lit] = vh.Ok(w)
	} else {
		f.ok = false
		f.odd = lit
	}
}

func (f *facts) runes(s string) {
	for _, r := range s {
		if r >= 0x80 && !strconv.IsPrint(r) {
			f.np[r] = true
		}
	}
}

func (f *facts) scanLine(line string) {
	fs := strings.Fields(line)
	if len(fs) >= 5 && fs[0] == "route" && fs[1] == "add" {
		f.url(fs[4])
	}
	if len(fs) >= 4 && fs[0] == "route" && fs[1] == "add" {
		h, p := hostpath(fs[3])
		f.glob(p)
		f.glob(strings.ToLower(h))
	}
	for i := 2; i+1 < len(fs); i++ {
		if fs[i] == "weight" {
			f.weight(fs[i+1])
		}
	}
}

func sortedTerm(m map[string]string) string {
	var ks []string
	for k := range m {
		ks = append(ks, k)
	}
	sort.Strings(ks)
	var items []string
	for _, k := range ks {
		items = append(items, vh.Pair(vh.HxS(k), m[k]))
	}
	return vh.List(items)
}
func (f *facts) globTerm() string {
	var ks []string
	for k := range f.globs {
		ks = append(ks, k)
	}
	sort.Strings(ks)
	return strList(ks)
}
func (f *facts) npTerm() string {
	var rs []int
	for r := range f.np {
		rs = append(rs, int(r))
	}
	sort.Ints(rs)
	items := make([]string, len(rs))
	for i, r := range rs {
		items[i] = vh.N(r)
	}
	return vh.List(items)
}

func hasUnicodeSpace(s string) bool {
	for _, r := range s {
		if r >= 0x80 && unicode.IsSpace(r) {
			return true
		}
	}
	return false
}
func ascii(s string) bool {
	for i := 0; i < len(s); i++ {
		if s[i] >= 0x80 {
			return false
		}
	}
	return true
}

func defTerm(d *route.RouteDef) (string, bool) {
	c := "CmdAdd"
	switch d.Cmd {
	case route.RouteDelCmd:
		c = "CmdDel"
	case route.RouteWeightCmd:
		c = "CmdWeight"
	}
	w, ok := wtTerm(d.Weight)
	if !ok {
		return "", false
	}
	return vh.App("D", c, vh.HxS(d.Service), vh.HxS(d.Src), vh.HxS(d.Dst), w, strList(d.Tags), optsTerm(d.Opts)), true
}

func parseOne(cmd string) (defs []*route.RouteDef, err error, panicked bool) {
	panicked, _ = vh.Recover(func() { defs, err = route.Parse(bytes.NewBufferString(cmd)) })
	return
}

func newTable(text string) (t route.Table, err error, panicked bool, pv interface{}) {
	panicked, pv = vh.Recover(func() { t, err = route.NewTable(bytes.NewBufferString(text)) })
	return
}

// doRegs runs one case: the entries, through the real build, Parse and NewTable.
// entryFacts: exclusions of the modelled domain, and what the libraries say about the strings of
// the entries (also of commands the implementation drops: the model re-runs the validation).
// realOnly: an input outside the modelled domain gets no Coq case but is still run through the real
// build / Parse / NewTable: no panic, every emitted command accepted alone, the whole text accepted.
func realOnly(run *vh.Run, prefix string, env map[string]string, es []entry) {
	var all []string
	for _, e := range es {
		svc := &api.CatalogService{ServiceName: e.Name, ServiceID: e.ID, ServiceAddress: e.Addr, Address: e.Node, ServicePort: e.Port, ServiceTags: e.Tags}
		var cmds []string
		if p, pv := vh.Recover(func() { cmds = consul.VerifC14Build(svc, prefix, env) }); p {
			run.Violation(run.NextID(), fmt.Sprintf("routecmd.build panicked: %v", pv), e)
			return
		}
		for _, c := range cmds {
			if _, err, panicked, _ := newTable(c); err != nil || panicked {
				run.Violation(run.NextID(), fmt.Sprintf("an emitted command is not accepted on its own: %v", err), map[string]interface{}{"entry": e, "cmd": c})
			}
		}
		all = append(all, cmds...)
	}
	sort.Sort(sort.Reverse(sort.StringSlice(all)))
	if _, err, panicked, pv := newTable(strings.Join(all, "\n")); err != nil || panicked {
		run.Violation(run.NextID(), fmt.Sprintf("route.NewTable rejects the text generated from entries outside the modelled domain: %v %v", err, pv), es)
	}
}

func entryFacts(run *vh.Run, prefix string, env map[string]string, es []entry) (*facts, bool) {
	f := newFacts()
	for _, e := range es {
		for _, s := range append([]string{e.Name, e.Addr, e.Node}, e.Tags...) {
			if hasUnicodeSpace(s) {
				run.Exclude("non-ASCII Unicode space in the entry (strings.TrimSpace / Fields are modelled on ASCII): real code only")
				realOnly(run, prefix, env, es)
				return nil, false
			}
			f.runes(s)
		}
		for _, t := range e.Tags {
			tt := strings.TrimSpace(t)
			if strings.HasPrefix(tt, prefix) {
				r := strings.TrimSpace(tt[len(prefix):])
				r = strings.SplitN(r, " ", 2)[0]
				h := strings.SplitN(r, "/", 2)[0]
				if !ascii(h) {
					run.Exclude("non-ASCII host part in a routing tag (strings.ToLower is modelled on ASCII): real code only")
					realOnly(run, prefix, env, es)
					return nil, false
				}
				if rt, opts, ok := consul.VerifC14ParseURLPrefixTag(tt, prefix, env); ok {
					// the model validates commands the implementation dropped as well: what the
					// libraries say about their strings has to be in the case
					hh, pp := hostpath(rt)
					f.glob(strings.ToLower(hh))
					f.glob(pp)
					addr := e.Addr
					if addr == "" {
						addr = e.Node
					}
					addr = net.JoinHostPort(addr, strconv.Itoa(e.Port))
					f.url("http://" + addr + "/")
					for _, sch := range []string{"tcp", "https", "grpc", "grpcs"} {
						f.url(sch + "://" + addr)
					}
					for _, o := range strings.Fields(opts) {
						if strings.HasPrefix(o, "weight=") {
							f.weight(o[len("weight="):])
						}
						if strings.HasPrefix(o, "redirect=") {
							if rd := strings.Split(o[len("redirect="):], ","); len(rd) == 2 {
								f.url(rd[1])
							}
						}
					}
				}
			}
		}
	}
	for _, v := range env {
		if !ascii(v) {
			run.Exclude("non-ASCII environment value")
			return nil, false
		}
	}
	return f, true
}

func doRegs(run *vh.Run, class string, prefix string, env map[string]string, es []entry) {
	f, ok := entryFacts(run, prefix, env, es)
	if !ok {
		return
	}
	total := 0
	for _, e := range es {
		total += len(e.Name) + len(e.Addr)
		for _, t := range e.Tags {
			total += len(t)
		}
	}
	if total >= 60000 {
		// a command near bufio.Scanner's 64 KiB token limit is outside Model/RouteText.v: no Coq case;
		// the real build / NewTable must still not fail or panic, and the short entries keep their routes
		var cmds []string
		for _, e := range es {
			svc := &api.CatalogService{ServiceName: e.Name, ServiceID: e.ID, ServiceAddress: e.Addr, Address: e.Node, ServicePort: e.Port, ServiceTags: e.Tags}
			cmds = append(cmds, consul.VerifC14Build(svc, prefix, env)...)
		}
		sort.Sort(sort.Reverse(sort.StringSlice(cmds)))
		t, err, panicked, pv := newTable(strings.Join(cmds, "\n"))
		if panicked || err != nil {
			run.Violation(run.NextID(), fmt.Sprintf("route.NewTable rejects the text generated from entries with a very long tag: %v %v", err, pv), len(cmds))
		} else {
			n := 0
			for _, rs := range t {
				for _, r := range rs {
					n += len(r.Targets)
				}
			}
			short := 0
			for _, c := range cmds {
				if len(c) < 60000 {
					short++
				}
			}
			if n < 1 || short < 1 {
				run.Violation(run.NextID(), "the routes of the short entries beside a very long tag are missing", len(cmds))
			}
		}
		run.Exclude("command near the 64 KiB line limit (outside the parser model): run through the real build / NewTable")
		return
	}

	var all []string
	var cmdsT, defsT []string
	for _, e := range es {
		svc := &api.CatalogService{ServiceName: e.Name, ServiceID: e.ID, ServiceAddress: e.Addr, Address: e.Node, ServicePort: e.Port, ServiceTags: e.Tags}
		var cmds []string
		if p, pv := vh.Recover(func() { cmds = consul.VerifC14Build(svc, prefix, env) }); p {
			run.Violation(run.NextID(), fmt.Sprintf("routecmd.build panicked: %v", pv), e)
			return
		}
		all = append(all, cmds...)
		cmdsT = append(cmdsT, strList(cmds))
		var ds []string
		for _, c := range cmds {
			for _, line := range strings.Split(c, "\n") {
				f.scanLine(line)
			}
			defs, err, panicked := parseOne(c)
			switch {
			case panicked:
				ds = append(ds, vh.Panic)
			case err != nil:
				ds = append(ds, vh.Err(errKind(err)))
			default:
				var items []string
				for _, d := range defs {
					h, p := hostpath(d.Src)
					if !ascii(h) {
						run.Exclude("non-ASCII host in a parsed command")
						return
					}
					f.url(d.Dst)
					f.glob(p)
					f.glob(strings.ToLower(h))
					t, ok := defTerm(d)
					if !ok {
						f.ok = false
						f.odd = fmt.Sprint(d.Weight)
						t = "(D CmdAdd [] [] [] WZ [] [])"
					}
					items = append(items, t)
				}
				ds = append(ds, vh.Ok(vh.List(items)))
			}
		}
		defsT = append(defsT, vh.List(ds))
	}

	// makeConfig: sort.Sort(sort.Reverse(sort.StringSlice(config))); strings.Join(config, "\n")
	sorted := append([]string{}, all...)
	sort.Sort(sort.Reverse(sort.StringSlice(sorted)))
	text := strings.Join(sorted, "\n")
	t, err, panicked, pv := newTable(text)
	id := run.NextID()
	sample := map[string]interface{}{"prefix": prefix, "env": env, "entries": es, "text": text}
	if panicked {
		// since /repo 290c777 no weight literal crashes the table build: a panic on ANY generated
		// registration is a violation, inside or outside the float model
		run.Violation(id, fmt.Sprintf("route.NewTable panicked on generated route commands: %v", pv), sample)
	}
	if !f.ok {
		// weight literal outside Model/WtF64.v (Inf, NaN, subnormal): no Coq case; judged here without
		// the model: no panic (above), and every command that parses to one definition carries
		// exactly the value strconv.ParseFloat gives the registered literal
		for _, c := range all {
			fs := strings.Fields(c)
			for i := 5; i+1 < len(fs); i++ {
				if fs[i] != "weight" {
					continue
				}
				want, perr := strconv.ParseFloat(fs[i+1], 64)
				defs, derr, _ := parseOne(c)
				if perr == nil && derr == nil && len(defs) == 1 && math.Float64bits(defs[0].Weight) != math.Float64bits(want) && !(math.IsNaN(want) && math.IsNaN(defs[0].Weight)) {
					run.Violation(id, fmt.Sprintf("parsed weight %v differs from the registered literal %q", defs[0].Weight, fs[i+1]), sample)
				}
				break
			}
		}
		run.Exclude("weight literal outside the modelled binary64 domain (Inf/NaN/subnormal): run through the real NewTable, no panic required")
		return
	}
	var tbl string
	switch {
	case panicked:
		tbl = vh.Panic
	case err != nil:
		tbl = vh.Err(errKind(err))
		sample["error"] = err.Error()
	default:
		for _, rs := range t {
			for _, r := range rs {
				for _, tg := range r.Targets {
					f.url(tg.URL.String())
				}
			}
		}
		o, ok := tableObs(run, id, t)
		if !ok {
			run.Exclude("table weight outside the modelled binary64 domain")
			return
		}
		tbl = vh.Ok(o)
	}
	var regs []string
	for _, e := range es {
		regs = append(regs, vh.App("G", vh.HxS(e.Name), vh.HxS(e.ID), vh.HxS(e.Addr), vh.HxS(e.Node), vh.Z(int64(e.Port)), strList(e.Tags)))
	}
	run.Add(class, vh.App("CRegs", envTerm(env), vh.HxS(prefix), sortedTerm(f.urls), f.globTerm(), sortedTerm(f.wl),
		vh.List(regs), vh.List(cmdsT), vh.List(defsT), tbl), sample)
}


// ---------- the real makeConfig against a fake catalog ----------

type fakeCatalog struct {
	mu   sync.Mutex
	svcs map[string][]*api.CatalogService
	fail map[string]bool
	srv  *httptest.Server
}

func newFakeCatalog() *fakeCatalog {
	fc := &fakeCatalog{}
	fc.srv = httptest.NewServer(http.HandlerFunc(func(w http.ResponseWriter, r *http.Request) {
		const p = "/v1/catalog/service/"
		if !strings.HasPrefix(r.URL.Path, p) {
			http.Error(w, "not found", 404)
			return
		}
		name := strings.TrimPrefix(r.URL.Path, p)
		fc.mu.Lock()
		defer fc.mu.Unlock()
		if fc.fail[name] {
			http.Error(w, "catalog unavailable", 500)
			return
		}
		l := fc.svcs[name]
		if l == nil {
			l = []*api.CatalogService{}
		}
		w.Header().Set("Content-Type", "application/json")
		json.NewEncoder(w).Encode(l)
	}))
	return fc
}

var theCatalog *fakeCatalog
var hangs int // rounds that did not return: after three the remaining rounds are skipped

// doConfig runs one round of the real ServiceMonitor.makeConfig: every entry is a passing
// instance on node "n<i>"; lookups of the services in failing return an error.  A round that
// does not return within the deadline is a violation (route updates of every service are delayed).
var histMon *consul.ServiceMonitor

func doConfig(run *vh.Run, class string, prefix string, dc string, monitors int, es []entry, failing map[string]bool) {
	env := map[string]string{"DC": dc}
	if hangs >= 3 {
		return
	}
	for _, e := range es {
		if e.Name == "" || strings.ContainsAny(e.Name, "/%?#") || !ascii(e.Name) {
			return // not addressable through the catalog URL of this fake
		}
	}
	lookupFailed := false
	for _, e := range es {
		if failing[e.Name] {
			lookupFailed = true
		}
	}
	live := es
	f, ok := entryFacts(run, prefix, env, live)
	if !ok {
		return
	}
	total := 0
	for _, e := range es {
		for _, t := range e.Tags {
			total += len(t)
		}
	}
	if total >= 60000 {
		return
	}
	fc := theCatalog
	fc.mu.Lock()
	fc.svcs, fc.fail = map[string][]*api.CatalogService{}, failing
	var checks []*api.HealthCheck
	for i, e := range es {
		node := fmt.Sprintf("n%d", i)
		fc.svcs[e.Name] = append(fc.svcs[e.Name], &api.CatalogService{Node: node, Address: e.Node, ServiceID: e.ID, ServiceName: e.Name,
			ServiceAddress: e.Addr, ServicePort: e.Port, ServiceTags: e.Tags})
		checks = append(checks, &api.HealthCheck{Node: node, CheckID: "service:" + e.ID, Status: "passing", ServiceID: e.ID, ServiceName: e.Name, ServiceTags: e.Tags})
	}
	fc.mu.Unlock()
	client, err := api.NewClient(&api.Config{Address: strings.TrimPrefix(fc.srv.URL, "http://")})
	if err != nil {
		panic(err)
	}
	// histMon: one ServiceMonitor for all rounds of a history (what the monitor remembers from
	// earlier rounds is then part of what is judged); otherwise a fresh monitor per round
	mon := histMon
	if mon == nil {
		mon = consul.NewServiceMonitor(client, &config.Consul{TagPrefix: prefix, ServiceMonitors: monitors}, dc)
	}
	sample := map[string]interface{}{"prefix": prefix, "dc": dc, "monitors": monitors, "catalog": es, "lookup_fails": failing}
	type res struct {
		text   string
		failed bool
		pv     interface{}
	}
	done := make(chan res, 1)
	go func() {
		var r res
		_, r.pv = vh.Recover(func() { r.text, r.failed = consul.VerifC14MakeConfigErr(mon, checks) })
		done <- r
	}()
	id := run.NextID()
	var r res
	select {
	case r = <-done:
	case <-time.After(4 * time.Second):
		hangs++
		run.Violation(id, "ServiceMonitor.makeConfig did not return within 4 s: the route update of every service is delayed (a service without commands or with a failing catalog lookup beside other services)", sample)
		return
	}
	if r.pv != nil {
		run.Violation(id, fmt.Sprintf("ServiceMonitor.makeConfig panicked: %v", r.pv), sample)
		return
	}
	for _, line := range strings.Split(r.text, "\n") {
		f.scanLine(line)
	}
	if !f.ok {
		if _, _, panicked, pv := newTable(r.text); panicked {
			run.Violation(id, fmt.Sprintf("route.NewTable panicked on the text makeConfig pushed: %v", pv), sample)
		}
		run.Exclude("weight literal outside the modelled binary64 domain (Inf/NaN/subnormal): run through the real NewTable, no panic required")
		return
	}
	if t, err, panicked, pv := newTable(r.text); panicked {
		run.Violation(id, fmt.Sprintf("route.NewTable panicked on the text makeConfig pushed: %v", pv), sample)
	} else if err == nil {
		for _, rs := range t {
			for _, rt := range rs {
				for _, tg := range rt.Targets {
					f.url(tg.URL.String())
					if _, ok := wtTerm(tg.FixedWeight); !ok {
						run.Exclude("table weight outside the modelled binary64 domain")
						return
					}
				}
			}
		}
	}
	sample["text"] = r.text
	var regs []string
	for _, e := range live {
		regs = append(regs, vh.App("G", vh.HxS(e.Name), vh.HxS(e.ID), vh.HxS(e.Addr), vh.HxS(e.Node), vh.Z(int64(e.Port)), strList(e.Tags)))
	}
	sample["error"] = r.failed
	run.Add(class, vh.App("CConfig", envTerm(env), vh.HxS(prefix), sortedTerm(f.urls), f.globTerm(), sortedTerm(f.wl), vh.List(regs),
		vh.Bool(lookupFailed), vh.Bool(r.failed), vh.HxS(r.text)), sample)
}

// ---------- histories: the same process sees the catalog again and again ----------

// mutate changes what is NOT part of the identity (name, address, port, routing tags) of an
// instance: its plain tags (good -> bad -> good), or -- kind 1 -- the options of a routing tag.
func (g *gen) mutate(e entry, bad bool) entry {
	var rts, plain []string
	for _, t := range e.Tags {
		if strings.HasPrefix(strings.TrimSpace(t), g.prefix) {
			rts = append(rts, t)
		} else {
			plain = append(plain, t)
		}
	}
	n := entry{Name: e.Name, ID: e.ID, Addr: e.Addr, Node: e.Node, Port: e.Port}
	n.Tags = append(n.Tags, rts...)
	switch {
	case bad && g.chance(75):
		n.Tags = append(n.Tags, plain...)
		n.Tags = append(n.Tags, g.pick(quoteTags))
	case bad && g.chance(50):
		n.Tags = append(n.Tags, g.pick([]string{"a\nb", "x\ry", "rack \"a\""}))
	case bad:
		if len(rts) > 0 { // the options of a routing tag go bad
			n.Tags[0] = strings.TrimSpace(rts[0]) + " " + g.pick([]string{"weight=abc", `host="x"`, "redirect=301,http://[::1"})
		}
		n.Tags = append(n.Tags, plain...)
	default:
		for k := g.r.Intn(3); k > 0; k-- {
			n.Tags = append(n.Tags, g.pick(plainTags))
		}
	}
	return n
}

func (g *gen) history(hid int) [][]entry {
	k := 1 + g.r.Intn(3)
	var base []entry
	for j := 0; j < k; j++ {
		e := g.goodEntry(j)
		e.Name = fmt.Sprintf("h%d-%s", hid, e.Name) // fresh identities: nothing earlier in the process knows them
		base = append(base, e)
	}
	rounds := [][]entry{base}
	n := 2 + g.r.Intn(3)
	cur := base
	for r := 1; r <= n; r++ {
		next := append([]entry{}, cur...)
		victim := g.r.Intn(len(next))
		next[victim] = g.mutate(base[victim], r%2 == 1) // good -> bad -> good -> bad ...
		if g.chance(20) && len(next) > 1 {
			next = append(next[:0:0], next[1:]...) // an instance disappears
		}
		rounds = append(rounds, next)
		cur = next
	}
	return rounds
}

// ---------- library models on their own ----------

func doExpand(run *vh.Run, env map[string]string, s string) {
	out := os.Expand(s, func(x string) string {
		if env == nil {
			return ""
		}
		return env[x]
	})
	run.Add("lib/expand", vh.App("CExpand", envTerm(env), vh.HxS(s), vh.HxS(out)), map[string]interface{}{"s": s, "out": out})
}

func doQuote(run *vh.Run, s string) {
	f := newFacts()
	f.runes(s)
	out := strconv.Quote(s)
	run.Add("lib/quote", vh.App("CQuote", f.npTerm(), vh.HxS(s), vh.HxS(out)), map[string]interface{}{"s": s, "out": out})
}

func doURLTag(run *vh.Run, env map[string]string, prefix, s string) {
	if hasUnicodeSpace(s) {
		return
	}
	r, o, ok := consul.VerifC14ParseURLPrefixTag(s, prefix, env)
	if !ascii(strings.SplitN(r, "/", 2)[0]) {
		return
	}
	impl := vh.None
	if ok {
		impl = vh.Some(vh.Pair(vh.HxS(r), vh.HxS(o)))
	}
	run.Add("lib/urltag", vh.App("CUrlTag", envTerm(env), vh.HxS(prefix), vh.HxS(s), impl), map[string]interface{}{"s": s, "route": r, "opts": o, "ok": ok})
}

func minInt(a, b int) int {
	if a < b {
		return a
	}
	return b
}

func randBytes(r *rand.Rand, alphabet string, n int) string {
	b := make([]byte, n)
	for i := range b {
		b[i] = alphabet[r.Intn(len(alphabet))]
	}
	return string(b)
}

var envs = []map[string]string{{"DC": "dc1"}, {"DC": "dc1"}, nil, {"DC": "East-1", "x": "y", "1": "one", "*": "star"}, {}}

// ---------- directed cases ----------

type fixed struct {
	prefix string
	env    map[string]string
	es     []entry
}

func e1(name, addr string, port int, tags ...string) entry {
	return entry{Name: name, ID: name + "-1", Addr: addr, Node: "172.16.0.5", Port: port, Tags: tags}
}

func directed() []fixed {
	dc := map[string]string{"DC": "dc1"}
	good := e1("good", "10.0.0.1", 80, "urlprefix-/good", "blue")
	good2 := e1("good2", "10.0.0.3", 8080, "urlprefix-foo.com/", "urlprefix-foo.com/api strip=/api")
	with := func(es ...entry) fixed { return fixed{"urlprefix-", dc, append([]entry{good, good2}, es...)} }
	alone := func(es ...entry) fixed { return fixed{"urlprefix-", dc, es} }
	return []fixed{
		alone(good), alone(good, good2),
		// the blocking defects, alone and beside well-formed services
		with(e1("bad", "10.0.0.2", 80, "urlprefix-/bad", `a"b`)), alone(e1("bad", "10.0.0.2", 80, "urlprefix-/bad", `a"b`)),
		with(e1("bad", "10.0.0.2", 80, "urlprefix-/bad weight=abc")), alone(e1("bad", "10.0.0.2", 80, "urlprefix-/bad weight=abc")),
		with(e1("my svc", "10.0.0.2", 80, "urlprefix-/bad")), alone(e1("my svc", "10.0.0.2", 80, "urlprefix-/bad")),
		with(e1("", "10.0.0.2", 80, "urlprefix-/bad")),
		with(e1("bad", "10.0.0.2", 80, "urlprefix-/[")),
		with(e1("bad", "10.0.0.2", 80, "urlprefix-[x.com/")), alone(e1("bad", "10.0.0.2", 80, "urlprefix-[x.com/")),
		with(e1("bad", "10.0.0.2", 80, "urlprefix-{A.com")),
		with(e1("ok", "10.0.0.2", 80, "urlprefix-*.Foo.com/", "urlprefix-{a,b}.x.org/y")),
		with(e1("bad", "10.0.0.2", 80, "urlprefix-")),
		with(e1("bad", "10.0.0.2", 80, "urlprefix-/x\tproto=tcp")),
		with(e1("bad", "10.0.0.2", 80, `urlprefix-/bad host="x"`)),
		with(e1("bad", "10.0.0.2", 80, "urlprefix-/bad redirect=301,http://[::1")),
		with(e1("bad", "10.0.0.2", 80, "urlprefix-/bad redirect=301,")),
		with(e1("bad", "10.0.0.1 x", 80, "urlprefix-/bad")),
		with(e1("svc ", "10.0.0.2", 80, "urlprefix-/bad")),
		// the altering defects
		with(e1("bad", "10.0.0.2", 80, "urlprefix-/bad", `a\b`)),
		with(e1("bad", "10.0.0.2", 80, "urlprefix-/bad", "a,b")),
		with(e1("bad", "10.0.0.2", 80, "urlprefix-/bad", "a\x01b")),
		with(e1("bad", "10.0.0.2", 80, "urlprefix-/bad", "")),
		with(e1("bad", "10.0.0.2", 80, "urlprefix-/bad", "x\xffy")),
		with(e1("bad", "10.0.0.2", 80, "urlprefix-/bad", "\xc2\xad")),
		with(e1("bad", "10.0.0.2", 80, `urlprefix-/bad strip=\d`)),
		// the crash
		with(e1("bad", "10.0.0.2", 80, "urlprefix-/bad weight=Inf")),
		with(e1("bad", "10.0.0.2", 80, "urlprefix-/bad weight=5e-324")),
		with(e1("bad", "10.0.0.2", 80, "urlprefix-/bad weight=NaN")),
		with(e1("bad", "10.0.0.2", 80, "urlprefix-/bad weight=1e308")),
		// well-formed variety
		with(e1("ok", "::1", 80, "urlprefix-/v6")), with(e1("ok", "", 80, "urlprefix-/node")),
		with(e1("ok", "10.0.0.2", 80, "urlprefix-/a proto=tcp", "urlprefix-/b")),
		with(e1("ok", "10.0.0.2", 80, "urlprefix-/a redirect=301,http://x.com/", "urlprefix-/b", "urlprefix-/c proto=https", "urlprefix-/d strip=/d")),
		with(e1("ok", "10.0.0.2", 80, "urlprefix-Foo.com", "urlprefix-Bar.com:80", "urlprefix-Baz.com/x")),
		with(e1("ok", "10.0.0.2", 80, "urlprefix-$DC.foo.com/${DC}/x$", "urlprefix-a/${}x${y")),
		with(e1("ok", "10.0.0.2", 80, "urlprefix-:8080 proto=tcp", "v1")),
		with(e1("ok", "10.0.0.2", 80, "urlprefix-/w weight=0.2 weight=0.3", "urlprefix-/w2 weight=-1", "urlprefix-/w3 weight=")),
		with(e1("ok", "10.0.0.2", 80, "urlprefix-/p proto=http strip=/x proto=grpc proto=grpcs", "caf\xc3\xa9", "\xe6\x97\xa5")),
		with(e1("ok", "10.0.0.2", 80, " urlprefix-/sp   a=1 \t b=2 ", " padded ", "a b")),
		with(e1("victim victim.com/ http://evil:80/", "10.0.0.2", 80, "urlprefix-weight redirect=301,1")),
		alone(e1("a  b c", "10.0.0.2", 80, "urlprefix-weight redirect=301,0.5")),
		with(e1("svc x/ http://e/", "10.0.0.2", 80, `urlprefix-tags redirect=301,"x"`)),
		with(e1("bad", "10.0.0.2", 80, "urlprefix-victim.com/\thttp://evil/\tweight redirect=301,1")),
		with(e1("bad", "10.0.0.2", 80, "urlprefix-/bad", `a" opts "strip=/x`)),
		with(e1("bad", "10.0.0.2", 80, "urlprefix-/bad weight=NaN", "urlprefix-/inf weight=Inf", "urlprefix-/ok weight=0.5")),
		with(e1("long", "10.0.0.2", 80, "urlprefix-/long", strings.Repeat("x", 70000))),
		with(e1("half", "10.0.0.2", 80, "urlprefix-/ok", "urlprefix-/bad weight=abc", "urlprefix-/[", "urlprefix-/ok2 strip=/ok2")),
		with(e1("svc ", "10.0.0.2", 80, "urlprefix-/blank"), e1(" svc", "10.0.0.2", 80, "urlprefix-/blank2")),
		with(e1("ok", "10.0.0.2", 80, "urlprefix-/cr", "a\rb"), e1("ok2", "10.0.0.2", 80, "urlprefix-/vt", "a\vb", "c\fd")),
		with(e1("a\vb", "10.0.0.2", 80, "urlprefix-/vtname")),
		with(e1("good", "10.0.0.1", 80, "urlprefix-/good", "blue")), // duplicate of a good instance: de-duplicated
		with(e1("good", "10.0.0.1", 80, "urlprefix-/good strip=/g", "blue")),
		{"", dc, []entry{e1("ok", "10.0.0.2", 80, "/x", "foo.com/y proto=tcp")}},
		{"urlprefix-", nil, []entry{e1("ok", "10.0.0.2", 80, "urlprefix-$DC.foo.com/${DC}")}},
	}
}

func main() {
	run := vh.Start("C14")
	// the loop around makeConfig: the real ServiceMonitor.Watch against a fake consul (watch.go);
	// own random stream, the drivers run (mostly sleep) beside the rest; the cases are written last
	finishWatch := startWatch(run)
	for _, d := range directed() {
		doRegs(run, "directed-fixed", d.prefix, d.env, d.es)
	}

	n := run.Scale(2400, 30000)
	classes := []string{"wellformed", "one-bad-beside-good", "bad-alone", "multi-tag", "upper-host", "env", "two-bad"}
	for i := 0; i < n; i++ {
		g := &gen{r: run.Rng, prefix: prefixes[run.Rng.Intn(len(prefixes))]}
		env := envs[g.r.Intn(len(envs))]
		class := classes[i%len(classes)]
		var es []entry
		k := 1 + g.r.Intn(3)
		switch class {
		case "wellformed":
			for j := 0; j < k+1; j++ {
				es = append(es, g.goodEntry(j))
			}
			if g.chance(20) { // a second instance of the same service, or the same instance twice
				d := es[0]
				if g.chance(50) {
					d.Addr, d.ID = g.pick(addrs4), "id-dup"
				}
				es = append(es, d)
			}
		case "one-bad-beside-good":
			for j := 0; j < k; j++ {
				es = append(es, g.goodEntry(j))
			}
			kind := badKinds[(i/len(classes))%len(badKinds)]
			class += "/" + kind
			es = append(es, g.badEntry(k, kind))
			g.r.Shuffle(len(es), func(a, b int) { es[a], es[b] = es[b], es[a] })
		case "bad-alone":
			kind := badKinds[(i/len(classes))%len(badKinds)]
			class += "/" + kind
			es = append(es, g.badEntry(0, kind))
		case "two-bad":
			es = append(es, g.goodEntry(0), g.badEntry(1, g.pick(badKinds)), g.badEntry(2, g.pick(badKinds)))
		case "multi-tag":
			es = append(es, g.multiTag(0))
			for j := 1; j < k; j++ {
				es = append(es, g.goodEntry(j))
			}
		case "upper-host":
			es = append(es, g.upperHost(0))
			for j := 1; j < k; j++ {
				es = append(es, g.goodEntry(j))
			}
		case "env":
			es = append(es, g.envEntry(0))
			if g.chance(50) {
				es = append(es, g.goodEntry(1))
			}
		}
		doRegs(run, class, g.prefix, env, es)
	}

	// histories through routecmd.build: every round is judged on its own (the model has no state)
	nh := run.Scale(150, 2000)
	for h := 0; h < nh; h++ {
		g := &gen{r: run.Rng, prefix: prefixes[run.Rng.Intn(3)]}
		env := envs[g.r.Intn(2)]
		for r, es := range g.history(h) {
			doRegs(run, fmt.Sprintf("history/round-%d", minInt(r, 3)), g.prefix, env, es)
		}
	}

	// the real makeConfig against a fake catalog: directed rounds, then histories
	theCatalog = newFakeCatalog()
	defer theCatalog.srv.Close()
	good := e1("good", "10.0.0.1", 80, "urlprefix-/good", "blue")
	good2 := e1("good2", "10.0.0.3", 8080, "urlprefix-foo.com/", "urlprefix-foo.com/api strip=/api")
	none := map[string]bool{}
	for _, mons := range []int{1, 3} {
		doConfig(run, "makeconfig/directed", "urlprefix-", "dc1", mons, []entry{good, good2}, none)
		// services that emit no command at all, alone and beside good ones
		doConfig(run, "makeconfig/directed", "urlprefix-", "dc1", mons, []entry{good, e1("bad", "10.0.0.2", 80, "urlprefix-/bad weight=abc"), good2}, none)
		doConfig(run, "makeconfig/directed", "urlprefix-", "dc1", mons, []entry{e1("bad", "10.0.0.2", 80, "urlprefix-/bad", `a"b`), good}, none)
		doConfig(run, "makeconfig/directed", "urlprefix-", "dc1", mons, []entry{e1("bad", "10.0.0.2", 80, "urlprefix-/[")}, none)
		doConfig(run, "makeconfig/directed", "urlprefix-", "dc1", mons, []entry{good, e1("plain", "10.0.0.2", 80, "just-a-tag"), good2}, none)
		doConfig(run, "makeconfig/directed", "urlprefix-", "dc1", mons, []entry{good, good2, e1("down", "10.0.0.2", 80, "urlprefix-/down")}, map[string]bool{"down": true})
		doConfig(run, "makeconfig/directed", "urlprefix-", "dc1", mons, []entry{good, e1("half", "10.0.0.2", 80, "urlprefix-/ok", "urlprefix-/bad weight=abc")}, none)
		doConfig(run, "makeconfig/directed", "urlprefix-", "East-1", mons, []entry{good, e1("env", "::1", 80, "urlprefix-$DC.Foo.com/${DC}")}, none)
	}
	nc := run.Scale(60, 600)
	for h := 0; h < nc; h++ {
		g := &gen{r: run.Rng, prefix: "urlprefix-"}
		mons := 1 + g.r.Intn(4)
		for r, es := range g.history(100000 + h) {
			failing := map[string]bool{}
			if g.chance(15) {
				failing[es[g.r.Intn(len(es))].Name] = true
			}
			if g.chance(25) { // a service all of whose commands are dropped
				es = append(es, g.badEntry(9, g.pick([]string{"quote-tag", "bad-path", "odd-weight", "bad-host", "empty-route"})))
				es[len(es)-1].Name = fmt.Sprintf("h%d-only-bad", 100000+h)
				var rts []string
				for _, t := range es[len(es)-1].Tags {
					if !strings.HasPrefix(strings.TrimSpace(t), g.prefix) || r%2 == 0 {
						rts = append(rts, t)
					}
				}
				es[len(es)-1].Tags = rts
			}
			doConfig(run, "makeconfig/history", g.prefix, "dc1", mons, es, failing)
		}
	}

	// histories on ONE ServiceMonitor in which only what the commands are BUILT from changes while
	// identities, health and tags stay: the node address (used when the service has no address of
	// its own), the service address, the port; then back.  Every round is judged on its own: the
	// commands denote the registration of THIS round.  Own random stream.
	{
		hr := rand.New(rand.NewSource(run.Seed*7919 + 14))
		nm := run.Scale(16, 200)
		for h := 0; h < nm; h++ {
			g := &gen{r: hr, prefix: "urlprefix-"}
			mons := 1 + hr.Intn(4)
			client, err := api.NewClient(&api.Config{Address: strings.TrimPrefix(theCatalog.srv.URL, "http://")})
			if err != nil {
				panic(err)
			}
			histMon = consul.NewServiceMonitor(client, &config.Consul{TagPrefix: g.prefix, ServiceMonitors: mons}, "dc1")
			a := entry{Name: fmt.Sprintf("m%d-node", h), ID: fmt.Sprintf("m%d-node-1", h), Addr: "", Node: "172.16.0.5", Port: 8000 + hr.Intn(100),
				Tags: []string{"urlprefix-/node" + []string{"", " strip=/node", " proto=https"}[hr.Intn(3)], "v1"}}
			b := entry{Name: fmt.Sprintf("m%d-own", h), ID: fmt.Sprintf("m%d-own-1", h), Addr: "10.0.0.7", Node: "172.16.0.6", Port: 9000,
				Tags: []string{"urlprefix-own.example.com/", "urlprefix-/own proto=tcp"}}
			c := g.goodEntry(2)
			c.Name = fmt.Sprintf("m%d-%s", h, c.Name)
			cur := []entry{a, b, c}
			rounds := [][]entry{append([]entry{}, cur...)}
			for r := 0; r < 3+hr.Intn(3); r++ {
				next := append([]entry{}, cur...)
				switch hr.Intn(5) {
				case 0, 1: // the node re-joins with another address
					next[0].Node = fmt.Sprintf("172.16.%d.%d", 1+hr.Intn(3), 10+hr.Intn(200))
				case 2: // the instance restarts on another port
					next[hr.Intn(2)].Port += 1 + hr.Intn(5)
				case 3: // the service gets / changes / loses its own address
					next[1].Addr = []string{"10.0.0.8", "", "10.0.0.7", "::1"}[hr.Intn(4)]
				case 4: // the node address of an instance WITH its own address changes: nothing to see
					next[1].Node = fmt.Sprintf("172.16.9.%d", 10+hr.Intn(200))
				}
				rounds = append(rounds, next)
				cur = next
			}
			rounds = append(rounds, rounds[0]) // and back to the first state
			for _, es := range rounds {
				doConfig(run, "makeconfig/history-one-monitor", g.prefix, "dc1", mons, es, map[string]bool{})
			}
			histMon = nil
		}
	}

	// library models
	m := run.Scale(120, 2000)
	for i := 0; i < m; i++ {
		r := run.Rng
		env := envs[r.Intn(len(envs))]
		doExpand(run, env, randBytes(r, "$${}{DCx1*_-/a. ", 1+r.Intn(12)))
		doQuote(run, randBytes(r, "ab\"\\,\x00\x01\t\n\r\v\f\a\b\x7f \xc2\xad\xc3\xa9\xe6\x97\xa5\xf0\x9f\x98\x80\xff\xed\xa0\xef\xbf\xbd\xc0\xf4\x90\x85\xa0\xe2\x80\x8b", 1+r.Intn(8)))
		g := &gen{r: r, prefix: prefixes[r.Intn(len(prefixes))]}
		tag := g.routeTag(feat{env: r.Intn(2) == 0, upper: r.Intn(2) == 0, hostOnly: r.Intn(4) == 0, tcp: r.Intn(8) == 0}, g.someOpts(2, plainOpts, oddOpts))
		if r.Intn(6) == 0 {
			tag = g.pick(plainTags)
		}
		doURLTag(run, env, g.prefix, tag)
	}
	for _, l := range [][]string{envHosts, envPaths} {
		for _, s := range l {
			doExpand(run, map[string]string{"DC": "dc1"}, s)
			doExpand(run, nil, s)
		}
	}
	for _, l := range [][]string{plainTags, quoteTags, alterTags, utf8Tags, badUTags} {
		for _, s := range l {
			doQuote(run, s)
		}
	}
	finishWatch()
	run.Finish(preamble, run.Scale(160, 400))
}
