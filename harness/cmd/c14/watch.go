// The loop AROUND makeConfig: the real ServiceMonitor.Watch against a fake consul agent with real
// blocking queries (loopback, httptest).  A history is a script of phases: consul moves to another
// state (the index rises) or stays, catalog lookups of some services / the health query answer 500
// or recover.  What the loop sends on the updates channel is recorded phase by phase; a phase in
// which a text is due ends when it arrives or after the deadline (the loop's 1 s retry sleep plus
// slack), so WHEN the text of the current state is published is part of what is judged
// (Model/ServiceWatch.v, case CWatch).  Own random stream; nothing here touches run.Rng.
package main

import (
	"encoding/json"
	"fmt"
	"io"
	"log"
	"math/rand"
	"net/http"
	"net/http/httptest"
	"strconv"
	"strings"
	"sync"
	"time"

	"github.com/hashicorp/consul/api"

	"github.com/fabiolb/fabio/config"
	"github.com/fabiolb/fabio/registry/consul"

	"verifharness/internal/vh"
)

const (
	watchDeadline = 5 * time.Second        // a due text: 1 s retry sleep + slack
	watchWindow   = 300 * time.Millisecond // nothing is due: what arrives all the same is recorded
)

type watchConsul struct {
	mu         sync.Mutex
	cond       *sync.Cond
	index      uint64
	checks     api.HealthChecks
	catalog    []*api.CatalogService
	failCat    map[string]bool
	failHealth bool
	fails      int       // error answers given (catalog or health)
	lastFail   time.Time // when the last one was given
	closed     bool
	srv        *httptest.Server
}

func newWatchConsul() *watchConsul {
	f := &watchConsul{index: 1, failCat: map[string]bool{}}
	f.cond = sync.NewCond(&f.mu)
	f.srv = httptest.NewServer(http.HandlerFunc(f.handle))
	return f
}

func (f *watchConsul) handle(w http.ResponseWriter, r *http.Request) {
	writeJSON := func(idx uint64, v interface{}) {
		w.Header().Set("X-Consul-Index", strconv.FormatUint(idx, 10))
		w.Header().Set("X-Consul-KnownLeader", "true")
		w.Header().Set("X-Consul-LastContact", "0")
		w.Header().Set("Content-Type", "application/json")
		json.NewEncoder(w).Encode(v)
	}
	p := r.URL.Path
	switch {
	case p == "/v1/health/state/any":
		want, _ := strconv.ParseUint(r.URL.Query().Get("index"), 10, 64)
		f.mu.Lock()
		for f.index <= want && !f.closed { // a blocking query: open until consul has something newer
			f.cond.Wait()
		}
		if f.closed {
			f.mu.Unlock()
			http.Error(w, "history over", http.StatusInternalServerError)
			return
		}
		if f.failHealth {
			f.fails++
			f.lastFail = time.Now()
			f.mu.Unlock()
			http.Error(w, "rpc error: No cluster leader", http.StatusInternalServerError)
			return
		}
		idx, cs := f.index, f.checks
		f.mu.Unlock()
		if cs == nil {
			cs = api.HealthChecks{}
		}
		writeJSON(idx, cs)
	case strings.HasPrefix(p, "/v1/catalog/service/"):
		name := strings.TrimPrefix(p, "/v1/catalog/service/")
		f.mu.Lock()
		if f.closed || f.failCat[name] {
			f.fails++
			f.lastFail = time.Now()
			f.mu.Unlock()
			http.Error(w, "rpc error: No cluster leader", http.StatusInternalServerError)
			return
		}
		out := []*api.CatalogService{}
		for _, e := range f.catalog {
			if e.ServiceName == name {
				out = append(out, e)
			}
		}
		idx := f.index
		f.mu.Unlock()
		writeJSON(idx, out)
	default:
		http.NotFound(w, r)
	}
}

// apply changes consul in one step: the failures, and -- when st != nil -- the state (index + 1)
func (f *watchConsul) apply(st *wstate, failing []string, failHealth bool) uint64 {
	f.mu.Lock()
	f.failCat = map[string]bool{}
	for _, n := range failing {
		f.failCat[n] = true
	}
	f.failHealth = failHealth
	if st != nil {
		f.checks, f.catalog = st.checks, st.catalog
		f.index++
	}
	idx := f.index
	f.mu.Unlock()
	f.cond.Broadcast()
	return idx
}

func (f *watchConsul) failsSeen() (int, time.Time) {
	f.mu.Lock()
	defer f.mu.Unlock()
	return f.fails, f.lastFail
}

func (f *watchConsul) close() {
	f.mu.Lock()
	f.closed = true
	f.mu.Unlock()
	f.cond.Broadcast()
	go f.srv.Close()
}

// wstate: what consul holds: every member of the history's pool is registered or not, and its
// check passes or is critical
type wstate struct {
	passing []entry // the catalog entries of the instances whose check passes, in pool order
	checks  api.HealthChecks
	catalog []*api.CatalogService
}

const (
	expPush = iota // a text is due: wait for it (deadline)
	expFail        // an injected failure has to be requested: wait for it, then a window
	expNone        // nothing is due: a window
)

type wphase struct {
	kind       string
	state      int // index into the history's states
	bump       bool
	failing    []string
	failHealth bool
	turns      int
	expect     int
	retrying   bool // the loop is in its retry cycle when the phase begins: change consul while it sleeps
	// observed
	index     uint64
	sent      []string
	requested bool // expFail: the failing endpoint was asked
}

type whist struct {
	class    string
	poll     bool
	monitors int
	pool     []entry
	states   []wstate
	phases   []wphase
	err      string
}

func mkState(pool []entry, registered, passing []bool) wstate {
	var st wstate
	for i, e := range pool {
		if !registered[i] {
			continue
		}
		node := fmt.Sprintf("n%d", i)
		st.catalog = append(st.catalog, &api.CatalogService{Node: node, Address: e.Node, ServiceID: e.ID, ServiceName: e.Name,
			ServiceAddress: e.Addr, ServicePort: e.Port, ServiceTags: e.Tags})
		status := "critical"
		if passing[i] {
			status = "passing"
			st.passing = append(st.passing, e)
		}
		st.checks = append(st.checks, &api.HealthCheck{Node: node, CheckID: "service:" + e.ID, Name: e.Name, Status: status,
			ServiceID: e.ID, ServiceName: e.Name, ServiceTags: e.Tags})
	}
	return st
}

// genWatchHistory: a pool of six instances (five services), three states that differ in an instance
// with a command of its own (it joins, leaves, or its check changes), and one of the scripts
func genWatchHistory(hr *rand.Rand, h int, tmpl int, poll bool) whist {
	g := &gen{r: hr, prefix: "urlprefix-"}
	name := func(s string) string { return fmt.Sprintf("w%d-%s", h, s) }
	a := g.goodEntry(0)
	a.Name, a.ID = name("a"), name("a-1")
	a2 := entry{Name: name("a"), ID: name("a-2"), Addr: "10.9.0.2", Node: "172.16.0.9", Port: 7000 + hr.Intn(100),
		Tags: []string{fmt.Sprintf("urlprefix-a2-%d.example.com/", h), "v2"}}
	b := entry{Name: name("b"), ID: name("b-1"), Addr: "10.9.0.3", Node: "172.16.0.9", Port: 8080,
		Tags: []string{fmt.Sprintf("urlprefix-b%d.example.com/", h) + []string{"", " strip=/x", " proto=https", " weight=0.25"}[hr.Intn(4)]}}
	c := g.multiTag(3)
	c.Name, c.ID = name("c"), name("c-1")
	bad := entry{Name: name("bad"), ID: name("bad-1"), Addr: "10.9.0.5", Node: "172.16.0.9", Port: 80,
		Tags: [][]string{{"urlprefix-/bad weight=abc"}, {"urlprefix-/["}, {"urlprefix-/q", `a"b`}, {"urlprefix-/half-ok", "urlprefix-/half-bad weight=abc"}}[hr.Intn(4)]}
	flaky := entry{Name: name("flaky"), ID: name("flaky-1"), Addr: "10.9.0.6", Node: "", Port: 9090,
		Tags: []string{fmt.Sprintf("urlprefix-flaky%d.example.com/", h), "blue"}}
	pool := []entry{a, a2, b, c, bad, flaky}
	const (
		iA = iota
		iA2
		iB
		iC
		iBad
		iFlaky
	)
	reg := []bool{true, hr.Intn(2) == 0, hr.Intn(2) == 0, hr.Intn(2) == 0, hr.Intn(3) > 0, true}
	pass := append([]bool{}, reg...)
	hist := whist{poll: poll, monitors: hr.Intn(4), pool: pool}
	hist.states = append(hist.states, mkState(pool, reg, pass))
	// the toggled instances emit a command of their own: the text of the next state differs
	toggles := []int{iA2, iB, iFlaky}
	hr.Shuffle(len(toggles), func(x, y int) { toggles[x], toggles[y] = toggles[y], toggles[x] })
	for k := 0; k < 3; k++ {
		reg, pass = append([]bool{}, reg...), append([]bool{}, pass...)
		t := toggles[k]
		if t == iFlaky && k == 0 {
			t = toggles[1] // flaky stays in the first two states: it is the service whose lookup fails
			toggles[1] = iFlaky
		}
		switch {
		case !reg[t]: // the instance registers
			reg[t], pass[t] = true, true
		case pass[t] && hr.Intn(2) == 0: // its check goes critical, the catalog keeps it
			pass[t] = false
		case pass[t]: // it deregisters
			reg[t], pass[t] = false, false
		default: // its check recovers
			pass[t] = true
		}
		hist.states = append(hist.states, mkState(pool, reg, pass))
	}
	passingName := func(st int, prefer string) string { // a service with a passing instance in that state
		for _, e := range hist.states[st].passing {
			if e.Name == prefer {
				return prefer
			}
		}
		ps := hist.states[st].passing
		return ps[hr.Intn(len(ps))].Name
	}
	turns := func() int { return 1 + hr.Intn(3) }
	ph := func(kind string, st int, bump bool, failing []string, fh bool, expect int, retrying bool) wphase {
		return wphase{kind: kind, state: st, bump: bump, failing: failing, failHealth: fh, turns: turns(), expect: expect, retrying: retrying}
	}
	victim := []string{name("flaky"), name("a"), name("bad"), name("b")}[hr.Intn(4)]
	var p []wphase
	p = append(p, ph("first", 0, true, nil, false, expPush, false))
	if poll {
		// poll mode: every phase is one turn of the loop
		f1 := passingName(1, victim)
		p = append(p,
			ph("quiet", 0, false, nil, false, expPush, false),
			ph("change+lookup-fails", 1, true, []string{f1}, false, expFail, false),
			ph("lifted", 1, false, nil, false, expPush, true),
			ph("change", 2, true, nil, false, expPush, false))
		if hr.Intn(2) == 0 {
			p = append(p, ph("health-query-fails", 2, false, nil, true, expFail, false), ph("lifted", 2, false, nil, false, expPush, true))
		}
		for i := range p {
			p[i].turns = 1
		}
		hist.class = "watch/poll"
		hist.phases = p
		return hist
	}
	switch tmpl {
	case 0: // the catalog lookup of one service fails in the round after a change; it recovers; NOTHING else changes
		f1 := passingName(1, victim)
		p = append(p,
			ph("change+lookup-fails", 1, true, []string{f1}, false, expFail, false),
			ph("lifted", 1, false, nil, false, expPush, true),
			ph("quiet", 1, false, nil, false, expNone, false),
			ph("change", 2, true, nil, false, expPush, false))
		hist.class = "watch/lookup-fails-then-lifted"
	case 1: // the failure outlasts another change
		f1 := passingName(1, victim)
		f2 := passingName(2, f1)
		p = append(p,
			ph("change+lookup-fails", 1, true, []string{f1}, false, expFail, false),
			ph("change+lookup-fails", 2, true, []string{f2}, false, expFail, true),
			ph("lifted", 2, false, nil, false, expPush, true),
			ph("change", 3, true, nil, false, expPush, false))
		hist.class = "watch/failure-outlasts-change"
	case 2: // the health query fails; later the lookup of a service WITHOUT a passing instance fails: nobody asks
		gone := name("nobody")
		p = append(p,
			ph("change+health-query-fails", 1, true, nil, true, expFail, false),
			ph("lifted", 1, false, nil, false, expPush, true),
			ph("change+lookup-of-absent-service-fails", 2, true, []string{gone}, false, expPush, false),
			ph("lifted", 2, false, nil, false, expNone, false))
		hist.class = "watch/health-query-fails"
	case 3: // the lookup starts failing while the loop waits in its blocking query: nothing happens until consul changes
		f1 := passingName(0, victim)
		f1b := passingName(1, f1)
		p = append(p,
			ph("lookup-fails-while-blocked", 0, false, []string{f1}, false, expNone, false),
			ph("change+lookup-fails", 1, true, []string{f1b}, false, expFail, false),
			ph("lifted", 1, false, nil, false, expPush, true),
			ph("quiet", 1, false, nil, false, expNone, false))
		hist.class = "watch/fails-while-blocked"
	case 4: // no failure at all
		p = append(p,
			ph("change", 1, true, nil, false, expPush, false),
			ph("quiet", 1, false, nil, false, expNone, false),
			ph("change", 2, true, nil, false, expPush, false),
			ph("change", 3, true, nil, false, expPush, false))
		hist.class = "watch/no-failure"
	case 5: // the failure is lifted together with the next change
		f1 := passingName(1, victim)
		p = append(p,
			ph("change+lookup-fails", 1, true, []string{f1}, false, expFail, false),
			ph("change+lifted", 2, true, nil, false, expPush, true),
			ph("quiet", 2, false, nil, false, expNone, false))
		hist.class = "watch/lifted-with-change"
	default: // two services fail, they recover one after the other
		f1 := passingName(1, name("flaky"))
		f2 := passingName(1, name("a"))
		if f2 == f1 {
			f2 = name("a")
		}
		p = append(p,
			ph("change+two-lookups-fail", 1, true, []string{f1, f2}, false, expFail, false),
			ph("one-lifted", 1, false, []string{f2}, false, expFail, true),
			ph("lifted", 1, false, nil, false, expPush, true),
			ph("change+health-query-fails", 2, true, nil, true, expFail, false),
			ph("lifted", 2, false, nil, false, expPush, true))
		hist.class = "watch/two-failures"
	}
	hist.phases = p
	return hist
}

// runWatchHistory drives the real Watch loop through the script
func runWatchHistory(h *whist) {
	f := newWatchConsul()
	defer f.close()
	client, err := api.NewClient(&api.Config{Address: strings.TrimPrefix(f.srv.URL, "http://"), Scheme: "http"})
	if err != nil {
		h.err = "api.NewClient: " + err.Error()
		return
	}
	cfg := &config.Consul{TagPrefix: "urlprefix-", ServiceStatus: []string{"passing"}, ChecksRequired: "one", ServiceMonitors: h.monitors}
	if h.poll {
		cfg.PollInterval = 700 * time.Millisecond
	}
	updates := make(chan string) // unbuffered, as registry/consul/backend.go WatchServices makes it
	started := false
	for k := range h.phases {
		p := &h.phases[k]
		if p.retrying { // change consul while the loop sleeps after a failed round: wait for a fresh failure
			for dl := time.Now().Add(3 * time.Second); time.Now().Before(dl); {
				if _, at := f.failsSeen(); time.Since(at) < 600*time.Millisecond {
					break
				}
				select {
				case t := <-updates:
					p.sent = append(p.sent, t)
				case <-time.After(2 * time.Millisecond):
				}
			}
		}
		base, _ := f.failsSeen()
		var st *wstate
		if p.bump {
			st = &h.states[p.state]
		}
		p.index = f.apply(st, p.failing, p.failHealth)
		if !started {
			started = true
			go consul.NewServiceMonitor(client, cfg, "dc1").Watch(updates)
		}
		switch p.expect {
		case expPush:
			select {
			case t := <-updates:
				p.sent = append(p.sent, t)
			case <-time.After(watchDeadline):
			}
		case expFail:
			// a loop that does not come back for the failure (it waits for consul instead of
			// retrying) sends nothing in this phase: the phases that follow show what that costs
			seen := false
			for dl := time.Now().Add(watchDeadline); !seen && time.Now().Before(dl); {
				select {
				case t := <-updates:
					p.sent = append(p.sent, t)
				case <-time.After(2 * time.Millisecond):
				}
				n, _ := f.failsSeen()
				seen = n > base
			}
			p.requested = seen
			fallthrough
		case expNone:
			window := time.After(watchWindow)
			for done := false; !done; {
				select {
				case t := <-updates:
					p.sent = append(p.sent, t)
				case <-window:
					done = true
				}
			}
		}
	}
	if !h.poll { // after the last phase nothing more is due
		last := &h.phases[len(h.phases)-1]
		window := time.After(watchWindow)
		for done := false; !done; {
			select {
			case t := <-updates:
				last.sent = append(last.sent, t)
			case <-window:
				done = true
			}
		}
	}
}

// startWatch generates the histories and starts their drivers (they mostly sleep: the rest of the
// harness runs meanwhile); the function it returns waits for them and writes the cases
func startWatch(run *vh.Run) func() {
	log.SetOutput(io.Discard) // the loop logs every round
	hr := rand.New(rand.NewSource(run.Seed*104729 + 1407))
	const templates = 7
	nb := run.Scale(3*templates, 20*templates)
	np := run.Scale(3, 20)
	var hists []whist
	for i := 0; i < nb+np; i++ {
		hists = append(hists, genWatchHistory(hr, i, i%templates, i >= nb))
	}
	env := map[string]string{"DC": "dc1"}
	prefix := "urlprefix-"
	fs := make([]*facts, len(hists))
	for i := range hists {
		var all []entry
		for _, st := range hists[i].states {
			all = append(all, st.passing...)
		}
		if f, ok := entryFacts(run, prefix, env, all); ok {
			fs[i] = f
		}
	}
	var wg sync.WaitGroup
	sem := make(chan struct{}, 32)
	for i := range hists {
		if fs[i] == nil {
			continue
		}
		wg.Add(1)
		go func(h *whist) {
			defer wg.Done()
			sem <- struct{}{}
			defer func() { <-sem }()
			runWatchHistory(h)
		}(&hists[i])
	}
	return func() {
		wg.Wait()
		for i := range hists {
			h, f := &hists[i], fs[i]
			if f == nil {
				continue
			}
			id := run.NextID()
			var human []map[string]interface{}
			for _, p := range h.phases {
				var names []string
				for _, e := range h.states[p.state].passing {
					names = append(names, e.ID)
				}
				human = append(human, map[string]interface{}{"phase": p.kind, "consul_index": p.index, "lookup_fails": p.failing,
					"health_query_fails": p.failHealth, "passing": names, "sent": p.sent, "failure_requested": p.expect != expFail || p.requested})
			}
			sample := map[string]interface{}{"poll": h.poll, "monitors": h.monitors, "pool": h.pool, "phases": human}
			if h.err != "" {
				run.Violation(id, "ServiceMonitor.Watch against the fake consul: "+h.err, sample)
				continue
			}
			okTexts := true
			for _, p := range h.phases {
				for _, text := range p.sent {
					for _, line := range strings.Split(text, "\n") {
						f.scanLine(line)
					}
					t, err, panicked, pv := newTable(text)
					if panicked {
						run.Violation(id, fmt.Sprintf("route.NewTable panicked on the text ServiceMonitor.Watch sent: %v", pv), sample)
						okTexts = false
					} else if err == nil {
						for _, rs := range t {
							for _, rt := range rs {
								for _, tg := range rt.Targets {
									f.url(tg.URL.String())
									if _, ok := wtTerm(tg.FixedWeight); !ok {
										okTexts = false
									}
								}
							}
						}
					}
				}
			}
			if !f.ok || !okTexts {
				run.Exclude("weight literal outside the modelled binary64 domain (Inf/NaN/subnormal): run through the real NewTable, no panic required")
				continue
			}
			var phases, impl []string
			for _, p := range h.phases {
				var regs []string
				for _, e := range h.states[p.state].passing {
					regs = append(regs, vh.App("G", vh.HxS(e.Name), vh.HxS(e.ID), vh.HxS(e.Addr), vh.HxS(e.Node), vh.Z(int64(e.Port)), strList(e.Tags)))
				}
				phases = append(phases, vh.App("PH", vh.N64(p.index), vh.Bool(p.failHealth), strList(p.failing), vh.List(regs), vh.Nat(p.turns)))
				impl = append(impl, strList(p.sent))
			}
			run.Add(h.class, vh.App("CWatch", envTerm(env), vh.HxS(prefix), sortedTerm(f.urls), f.globTerm(), sortedTerm(f.wl),
				vh.Bool(h.poll), vh.List(phases), vh.List(impl)), sample)
		}
	}
}
