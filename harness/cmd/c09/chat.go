// Directed classes "a conversation that outlives the listener's timeouts" (tcp, tcp-dynamic,
// tcp+sni through the real tcp.Server): the listener has rt= and wt= (both, in every order of
// size, or one of them), the two sides talk to each other in rounds - one side's message is
// answered by the other at once, the upstream pauses `gap` before each of its messages, so that
// the proxy writes to the client shortly before it reads the client's answer - and the whole
// conversation lasts longer than rt although nobody is ever silent for more than gap << rt.
// A transparent tunnel delivers every message.  Besides the streams the scripted client
// connection (the INNER connection of the server's timeout wrapper) logs every Read / Write
// issued on it with the deadline in force: that log goes to Coq as a CDeadlines case.
package main

import (
	"fmt"
	"math/rand"
	"net"
	"time"

	"verifharness/internal/vh"
)

type chat struct {
	First int           // 0: the upstream talks first (server push, the client acknowledges), 1: the client does (request / response)
	Gap   time.Duration // the upstream's pause before each of its messages
	Msgs  []int         // lengths of the upstream's messages (the client's are script.Segs)
}

// one Read / Write on the scripted client connection; times in ns since the connection was made
type dlEntry struct {
	Read   bool
	Lo, Ts int64     // the previous operation of this direction returned / this one was called
	Dl     time.Time // the deadline of this direction in force at the call (zero: none)
	Te     int64     // when it had its data (or gave up)
	Cut    bool      // it failed with a timeout
}

// the client's side: answer every message of the upstream at once
func (c *chat) clientSteps(segs [][]byte) []cstep {
	var steps []cstep
	got := 0
	for i, seg := range segs {
		if c.First == 0 {
			got += c.Msgs[i]
			steps = append(steps, cstep{wait: got})
		} else if i > 0 {
			got += c.Msgs[i-1]
			steps = append(steps, cstep{wait: got})
		}
		steps = append(steps, cstep{data: seg})
	}
	return steps
}

// the upstream's side: message i goes out `gap` after everything the client must have sent before it
// has arrived; false: the connection ended in mid-conversation
func (u *upstream) chat(s *script, conn net.Conn) bool {
	need := len(specUp(s)) - len(s.Stream)
	out := s.Reply
	for i, m := range s.Chat.Msgs {
		if s.Chat.First == 1 {
			need += s.Segs[i]
		} else if i > 0 {
			need += s.Segs[i-1]
		}
		u.mu.Lock()
		for len(u.recv) < need && !u.eof {
			u.cond.Wait()
		}
		ok := len(u.recv) >= need
		u.mu.Unlock()
		if !ok {
			return false
		}
		time.Sleep(s.Chat.Gap)
		if _, err := conn.Write(out[:m]); err != nil {
			return false
		}
		out = out[m:]
	}
	return true
}

func chatScripts(run *vh.Run) []*script {
	r := rand.New(rand.NewSource(run.Seed*7927 + 11))
	hosts := []string{"foo.example", "a.b.example.com", "svc.internal"}
	const gap = 150 * time.Millisecond
	ms := time.Millisecond
	// rt, wt: the conversation (rounds * gap) outlives rt; gap lies above wt/8 and below it
	timeouts := []struct {
		name   string
		rt, wt time.Duration
	}{
		{"rt-and-wt-equal", 800 * ms, 800 * ms},
		{"wt-shorter-than-rt", 800 * ms, 400 * ms},
		{"rt-shorter-than-wt", 800 * ms, 1600 * ms},
		{"rt-only", 800 * ms, 0},
		{"wt-only", 0, 400 * ms},
	}
	combos := []struct{ kind, first int }{{kTCP, 0}, {kTCP, 1}, {kDyn, 0}, {kDyn, 1}, {kSNI, 1}}
	var out []*script
	reps := run.Scale(1, 2)
	for ci, cb := range combos {
		for ti, tc := range timeouts {
			if !run.Thorough() && ti != 0 && (ci+ti)%3 != 0 {
				continue
			}
			for rep := 0; rep < reps; rep++ {
				s := &script{Kind: cb.kind, PP: r.Intn(2) == 0, Local: randAddr(r), Remote: randAddr(r)}
				rounds := 8 + r.Intn(2)
				c := &chat{First: cb.first, Gap: gap}
				var stream, reply []byte
				for i := 0; i < rounds; i++ {
					n, m := 1+r.Intn(40), 1+r.Intn(60)
					s.Segs = append(s.Segs, n)
					stream = append(stream, randBytes(r, n)...)
					c.Msgs = append(c.Msgs, m)
					reply = append(reply, randBytes(r, m)...)
				}
				if cb.kind == kSNI {
					// the ClientHello (and whatever travels with it) is the client's first message
					hello := realHello(r, hosts[r.Intn(len(hosts))])
					if hello == nil {
						run.Exclude("crypto/tls client produced no hello")
						continue
					}
					if r.Intn(2) == 0 {
						s.Segs[0] = 0
						stream = stream[len(stream)-sum(s.Segs):]
					}
					stream = append(append([]byte(nil), hello...), stream...)
					s.Segs[0] += len(hello)
					s.HeadLen = len(hello)
				}
				s.Stream, s.Lit = stream, len(stream)
				s.Reply, s.RLit = reply, len(reply)
				s.Chat = c
				s.RT, s.WT = tc.rt, tc.wt
				s.CEnd, s.UEnd, s.UTrig = cStay, uStay, uAtConnect
				ending := "open"
				if r.Intn(2) == 0 {
					// when the conversation is over the client ends; the upstream closes when it has seen that
					s.CEnd, s.CWait = []int{cHalf, cClose}[r.Intn(2)], true
					ending = "client-waits"
				}
				if cb.first == 1 {
					s.UTrig, s.UN = uAfterBytes, len(specUp(s))-len(s.Stream)+s.Segs[0]
				}
				s.CliCW = r.Intn(2) == 0
				s.Class = fmt.Sprintf("%s-conversation-outlives-timeouts-%s-%s-talks-first-%s", kindName[cb.kind], tc.name,
					[]string{"upstream", "client"}[cb.first], ending)
				if !s.CliCW {
					s.Class += "/client-conn-without-CloseWrite"
				}
				out = append(out, s)
			}
		}
	}
	return out
}

func sum(a []int) int {
	t := 0
	for _, n := range a {
		t += n
	}
	return t
}

// CDeadlines rt wt log
func coqDeadlines(s *script, o observation) string {
	items := make([]string, len(o.DL))
	for i, e := range o.DL {
		dl := "None"
		if !e.Dl.IsZero() {
			dl = vh.Some(vh.N64(uint64(e.Dl.Sub(o.Base).Nanoseconds())))
		}
		items[i] = vh.App("DL", vh.Bool(e.Read), vh.N64(uint64(e.Lo)), vh.N64(uint64(e.Ts)), dl, vh.N64(uint64(e.Te)), vh.Bool(e.Cut))
	}
	return vh.App("CDeadlines", vh.N64(uint64(s.RT.Nanoseconds())), vh.N64(uint64(s.WT.Nanoseconds())), vh.List(items))
}
