// Directed websocket classes "the client does not wait for the 101": the start of the client's
// stream travels in the same segment as (the end of) its upgrade request, so that net/http's
// 4096-byte server reader holds it when the handler hijacks the connection.  Sizes run from one
// byte over the 1024 bytes of the relay's handshake buffer up to and beyond what that reader can
// hold; the request comes short, padded (so that little room is left) and cut into two segments.
package main

import (
	"fmt"
	"math/rand"
	"strings"

	"verifharness/internal/vh"
)

// the upgrade request with an X-Pad header of pad bytes (pad < 0: the plain wsReq)
func wsRequest(pad int) []byte {
	if pad < 0 {
		return []byte(wsReq)
	}
	return []byte(strings.Replace(wsReq, "\r\n\r\n", "\r\nX-Pad: "+strings.Repeat("p", pad)+"\r\n\r\n", 1))
}

func wsEarlyScripts(run *vh.Run) []*script {
	r := rand.New(rand.NewSource(run.Seed*7919 + 9))
	g := &gen{r: r}
	var out []*script

	// one script: request variant, n0 stream bytes in the request's segment, `before` more segments before the
	// 101, `after` segments afterwards
	mk := func(class string, req []byte, split int, n0 int, refused, noWait bool) *script {
		s := g.base(kWS, false)
		s.PP = false
		s.Req, s.ReqSplit, s.EarlyCase = req, split, true
		var segs []int
		if n0 > 0 {
			segs = append(segs, n0)
		}
		before := 0
		if n0 > 0 {
			before = r.Intn(3)
		}
		for i := 0; i < before; i++ {
			segs = append(segs, []int{1, 1 + r.Intn(300), 1 + r.Intn(3000), 1025, 4096}[r.Intn(5)])
		}
		after := r.Intn(4)
		if noWait {
			after = 0
		}
		for i := 0; i < after; i++ {
			k := 1 + r.Intn(3000)
			if r.Intn(8) == 0 {
				k = 33000 + r.Intn(9000)
			}
			segs = append(segs, k)
		}
		total := 0
		for _, k := range segs {
			total += k
		}
		s.Stream, s.Segs = payload(r, total), segs
		s.Lit = total
		if total > 1500 {
			s.Lit = 0
		}
		s.WSEarly, s.WSBefore = n0 > 0, before
		body := s.Reply
		head := wsHead101
		if refused {
			head = "HTTP/1.1 400 Bad Request\r\nContent-Length: 0\r\n\r\n"
		}
		s.Reply = append([]byte(head), body...)
		s.RLit, s.WSHead = len(s.Reply), len(head)
		if len(body) > 1500 {
			s.RLit = len(head)
		}
		s.RSeg1 = 0
		var name string
		if refused {
			// the upstream refuses and keeps the connection: it has what was forwarded with the request
			s.CEnd, s.UEnd, s.UTrig = cStay, uStay, uAtConnect
			name = "refused"
		} else if noWait {
			// the client has finished before the tunnel is up: it must still get the reply
			name = g.ending(s, []int{2, 8}[r.Intn(2)])
			s.CWait, s.NoWait101 = false, true
		} else {
			// endings in which the upstream does not close while client bytes are still on their way
			name = g.ending(s, []int{0, 1, 2, 3, 4, 8, 2, 1}[r.Intn(8)])
			if s.UTrig == uAfterBytes && r.Intn(3) == 0 && s.UEnd == uStay {
				s.UTrig = uAtConnect
			}
		}
		s.CliCW = r.Intn(2) == 0
		if s.CEnd != cStay && !s.CWait && after > 0 && r.Intn(4) == 0 {
			s.Fin = 1
			class += "+eof-with-last-bytes"
		}
		if r.Intn(4) == 0 {
			s.TLSUp = true
			class += "+tls-upstream"
		}
		s.Class = class + "-" + name
		if !s.CliCW {
			s.Class += "/client-conn-without-CloseWrite"
		}
		return s
	}

	plain := wsRequest(-1)
	room := 4096 - len(plain)
	// 1. plain request in one piece, n0 bytes with it: around the 1024-byte handshake buffer, around the
	// server reader's capacity, far beyond
	for _, n0 := range []int{1, 600, 1023, 1024, 1025, 1500, 2048, 3000, room - 1, room, room + 1, room + 1024, 6000, 40000} {
		reps := 1
		if n0 > 1024 && n0 <= room+1 {
			reps = 2
		}
		if run.Thorough() {
			reps *= 3
		}
		for i := 0; i < reps; i++ {
			out = append(out, mk(fmt.Sprintf("ws-early-%d-bytes-with-upgrade-request", n0), plain, 0, n0, false, false))
		}
	}
	// 2. padded requests: little room is left in the reader
	for _, pad := range []int{900, 2900, 3800} {
		req := wsRequest(pad)
		left := 4096 - len(req)
		for _, n0 := range []int{left - 1, left, left + 1, 1025, 3000} {
			if n0 < 1 || (!run.Thorough() && r.Intn(2) == 0) {
				continue
			}
			out = append(out, mk(fmt.Sprintf("ws-early-padded-request-%d-%d-bytes", len(req), n0), req, 0, n0, false, false))
		}
	}
	// 3. the request cut into two segments, the stream bytes with the second: the room left depends on
	// what the first fill left unconsumed
	for _, cut := range []int{1, 7, 18, 19, len(plain) - 3, len(plain) - 1} {
		for _, n0 := range []int{0, 2000, 4096 - len(plain), 4097, 5000} {
			if !run.Thorough() && r.Intn(5) > 1 {
				continue
			}
			out = append(out, mk(fmt.Sprintf("ws-early-request-cut-at-%d-%d-bytes", cut, n0), plain, cut, n0, false, false))
		}
	}
	// 4. a refused upgrade: what was sent with the request has been forwarded, nothing else
	for _, n0 := range []int{200, 3000, 5000} {
		out = append(out, mk(fmt.Sprintf("ws-early-%d-bytes-refused-upgrade", n0), plain, 0, n0, true, false))
	}
	// 5. the client sends its whole stream with / right after the request and half-closes at once, before
	// the 101 has come back: everything must reach the upstream and the reply the client
	for _, n0 := range []int{500, 3000, 5000} {
		out = append(out, mk(fmt.Sprintf("ws-early-%d-bytes-then-half-close-before-the-101", n0), plain, 0, n0, false, true))
	}
	return out
}

// CWsEarly req rsplit stream segs nearly fin cw_in cwait ce ut reply rseg1 whead ue conn o_up o_cl o_ended o_eof
func coqWsEarly(s *script, o observation) string {
	segItems := make([]string, len(s.Segs))
	for i, n := range s.Segs {
		segItems[i] = vh.N(n)
	}
	trig := "UAtConnect"
	switch s.UTrig {
	case uAfterBytes:
		trig = "(UAfterBytes " + vh.N(s.UN) + ")"
	case uOnEOF:
		trig = "UOnEOF"
	}
	nearly := 0
	if s.WSEarly {
		nearly = 1 + s.WSBefore
		if nearly > len(s.Segs) {
			nearly = len(s.Segs)
		}
	}
	return vh.App("CWsEarly", vh.Hx(s.Req), vh.N(s.ReqSplit), coqStream(s.Stream, s.Lit), vh.List(segItems), vh.N(nearly),
		vh.N(s.Fin), vh.Bool(s.CliCW), vh.Bool(s.CWait), cendCoq[s.CEnd], trig,
		coqStream(s.Reply, s.RLit), vh.N(s.RSeg1), vh.N(s.WSHead), uendCoq[s.UEnd],
		vh.Bool(o.Conn), describe(o.Up, s.Stream, s.Lit), describe(o.Cl, s.Reply, s.RLit), vh.Bool(o.Ended), vh.Bool(o.ClEOF))
}
